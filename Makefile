# Build of AsmJit (from /repo's current working tree) in several sanitizer flavours plus harnesses.
# Everything lands under /verif/build (ignored by git). Incremental through depfiles.

REPO    ?= /repo
B       := build
CXX     := clang++
STD     := -std=c++17
GUARD   := -DASMJIT_VERIF
COMMON  := $(STD) -g1 -fno-omit-frame-pointer -DASMJIT_STATIC $(GUARD) -I$(REPO) -Wno-unused-command-line-argument
SAN     := -fsanitize=address,undefined -fno-sanitize-recover=undefined -fno-sanitize=nonnull-attribute,function,vptr,shift-base

FLAGS_asan    := $(COMMON) -O1 $(SAN)
FLAGS_rel     := $(COMMON) -O1 $(SAN) -DNDEBUG
FLAGS_fuzz    := $(COMMON) -O1 $(SAN) -fsanitize=fuzzer-no-link
FLAGS_fuzzrel := $(COMMON) -O1 $(SAN) -fsanitize=fuzzer-no-link -DNDEBUG
FLAGS_tsan    := $(COMMON) -O1 -fsanitize=thread
FLAGS_plain   := $(COMMON) -O2

SRCS := $(wildcard $(REPO)/asmjit/*/*.cpp)

define LIB_RULES
OBJS_$(1) := $$(patsubst $(REPO)/asmjit/%.cpp,$(B)/$(1)/obj/%.o,$(SRCS))
$(B)/$(1)/obj/%.o: $(REPO)/asmjit/%.cpp Makefile
	@mkdir -p $$(dir $$@)
	$(CXX) $$(FLAGS_$(1)) -MMD -MP -c $$< -o $$@
$(B)/$(1)/libasmjit.a: $$(OBJS_$(1))
	@rm -f $$@
	ar rcs $$@ $$(OBJS_$(1))
lib-$(1): $(B)/$(1)/libasmjit.a
-include $$(OBJS_$(1):.o=.d)
endef

$(foreach f,asan rel fuzz fuzzrel tsan plain,$(eval $(call LIB_RULES,$(f))))

# ---------------------------------------------------------------------------------------------
# Harnesses. HARNESS(name, flavour, extra compile flags, extra link flags, extra objects)
# source: props/<name>.cpp ; output: build/bin/<name>
# ---------------------------------------------------------------------------------------------

LLVM_CXX := $(shell llvm-config-14 --cxxflags 2>/dev/null | sed 's/-std=[^ ]*//; s/-fno-exceptions//; s/-fno-rtti//')
LLVM_LD  := $(shell llvm-config-14 --ldflags 2>/dev/null) -lLLVM-14

FWHDR := fw/vh.h
ORACLE_LD := $(LLVM_LD) -lopcodes -lbfd

define HARNESS
ALL_BINS += $(B)/bin/$(1)
$(B)/bin/$(1): props/$(1).cpp $(FWHDR) $(B)/$(2)/libasmjit.a $(5)
	@mkdir -p $(B)/bin
	$(CXX) $$(FLAGS_$(2)) -I. -Ifw $(3) -MMD -MP -MF $(B)/bin/$(1).d props/$(1).cpp $(5) $(B)/$(2)/libasmjit.a $(4) -lpthread -lrt -o $$@
-include $(B)/bin/$(1).d
endef

# oracle objects (no sanitizers needed, but must link with sanitized code; plain objects are fine)
$(B)/oracle/llvm_mc.o: oracle/llvm_mc.cpp oracle/llvm_mc.h
	@mkdir -p $(B)/oracle
	$(CXX) $(STD) -O1 -g1 $(LLVM_CXX) -fexceptions -c $< -o $@

$(B)/oracle/opc.o: oracle/opc.cpp oracle/opc.h
	@mkdir -p $(B)/oracle
	$(CXX) $(STD) -O1 -g1 -c $< -o $@

# host execution trampoline (no sanitizers: plain C / assembly)
HOSTEXEC_OBJS := $(B)/hostexec/msc_s.o $(B)/hostexec/msc_c.o
$(B)/hostexec/msc_s.o: hostexec/msc.S
	@mkdir -p $(B)/hostexec
	clang -c -O1 $< -o $@
$(B)/hostexec/msc_c.o: hostexec/msc.c hostexec/msc.h
	@mkdir -p $(B)/hostexec
	clang -c -O1 $< -o $@

include $(sort $(wildcard cfg/*.mk))

.PHONY: all
all: $(ALL_BINS)

.PHONY: clean
clean:
	rm -rf $(B)

$(B)/bin/otool: oracle/otool.cpp $(B)/oracle/llvm_mc.o $(B)/oracle/opc.o
	@mkdir -p $(B)/bin
	$(CXX) $(STD) -O1 -Ioracle oracle/otool.cpp $(B)/oracle/llvm_mc.o $(B)/oracle/opc.o $(ORACLE_LD) -o $@

# ISA database dumps (regenerated when the database or its loader changes)
$(B)/gen/x86_forms.txt: gen/dump_x86_forms.js $(REPO)/db/isa_x86.json $(REPO)/db/x86.js $(REPO)/db/base.js
	@mkdir -p $(B)/gen
	node gen/dump_x86_forms.js $(REPO) $@ > /dev/null
$(B)/gen/a64_forms.txt: gen/dump_a64_forms.js $(REPO)/db/isa_aarch64.json $(REPO)/db/aarch64.js $(REPO)/db/base.js
	@mkdir -p $(B)/gen
	node gen/dump_a64_forms.js $(REPO) $@ > /dev/null
$(B)/gen/a64_templates.txt: gen/a64_templates.py $(REPO)/asmjit-testing/tests/asmjit_test_assembler_a64.cpp
	@mkdir -p $(B)/gen
	python3 gen/a64_templates.py $(REPO) $@ 2> /dev/null
