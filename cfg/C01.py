PROP = dict(
    harness="c01", level="exploration",
    make=["build/bin/c01", "build/gen/x86_forms.txt"],
    quick=dict(cases=96000, max_size=100, workers=16, extra_args=["--reps=24"]),
    thorough=dict(cases=20000000, max_size=100, workers=16, extra_args=["--reps=1200"], timeout=7200),
    rule=("Session 2: 40% of the cases carry an encoding option - mod_mr() / mod_rm() on VEX/EVEX/XOP forms, vex3() on VEX forms (evex(), long_() and rex() are not generated, DESIGN 14.3) - the judges compare decoded operands, not bytes; EVEX disp8*N is judged in 16-bit addressing too. deterministic sweep: every form of the x86 ISA database (db/isa_x86.json expanded by db/x86.js, dumped at check time) x {32,64}-bit mode x R "
          "instantiations (registers incl. high ids / SP,BP,R12,R13 / AH..BH / SPL..DIL, every memory shape incl. 16-bit, 32-in-64, RIP, absolute, VSIB, "
          "segment, broadcast, disp8*N boundaries, boundary immediates, {k}{z}{er}{sae}, lock/rep/xacquire/xrelease), then rapidcheck-generated (mode, form, "
          "choices) cases; each accepted instruction (strict validation on) is judged by J3 = ISA-DB template judge (prefixes, REX/VEX/EVEX payload, "
          "opcode, ModRM/SIB/disp8*N, immediates, exact length), J1 = LLVM-14 MC assembling our own Intel-syntax rendering + LLVM disassembly of both byte "
          "strings, J2 = binutils libopcodes on the same pair. Non-trivial = accepted by AsmJit and decided by at least one judge; distinct = distinct case text"),
    assumptions=["LLVM 14 MC and binutils 2.40 decode x86 correctly where they decode at all", "db/isa_x86.json is the encoding specification; a DB row contradicted by LLVM's assembler and both decoders is treated as the outlier (counted as db_row_outvoted_by_llvm_and_opcodes)",
                 "APX (REX2/EVEX-promoted legacy) forms and forms with rel operands are not instantiated here (rel operands: C03)"],
)
META = dict(
    engine="rapidcheck + deterministic sweep; LLVM MC / libopcodes in-process",
    technique="differential testing against LLVM MC + libopcodes and an ISA-database template judge over generated instruction forms",
    level_text=("Exploration: every ISA-DB form in both modes with several operand instantiations per run (tens of thousands quick, millions thorough) is "
                "encoded by AsmJit with strict validation and judged by three independent judges. Violations are keyed by (reason, mnemonic). Not a proof: "
                "operand space per form is sampled, APX and rel forms are excluded here."),
    level_note="Trusts LLVM-14 MC, libopcodes 2.40 and the DB (with the outlier rule); trusts the ~600-line template judge gen/x86tmpl.h written from the SDM.",
    design_ref="DESIGN.md section 4, C01",
)
