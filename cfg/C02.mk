$(eval $(call HARNESS,c02,asan,,-lrapidcheck $(ORACLE_LD),$(B)/oracle/llvm_mc.o))
$(B)/bin/c02: gen/a64inst.h
