PROP = dict(
    harness="c02", level="exploration",
    make=["build/bin/c02", "build/gen/a64_templates.txt", "build/gen/a64_forms.txt"],
    quick=dict(cases=120000, max_size=100, workers=16, extra_args=["--reps=80"]),
    thorough=dict(cases=20000000, max_size=100, workers=16, extra_args=["--reps=3000"], timeout=7200),
    rule=("deterministic sweep over the 3,199 (mnemonic, operand-shape) templates AsmJit implements on AArch64 (shapes extracted at check time from the "
          "repository's own assembler test: register class, vector arrangement / lane, addressing mode, shift/extend slot, immediate, cond) x (the template's "
          "example instance + R generated instances: register ids 0..30 / SP / ZR, v0..31, every lane incl. one too large, offsets at scale boundaries, boundary "
          "immediates, every shift/extend kind and amount, all condition codes, sequential and non-sequential register lists), then rapidcheck cases. Judges: "
          "J1 LLVM-14 MC assembles OUR rendering: words must be equal; J2 the word matches the fixed bits of some ISA-DB form of the mnemonic (counted); when "
          "AsmJit accepts what LLVM refuses and the template is calibrated (its example assembles identically), LLVM's decoding of AsmJit's word must show the "
          "requested registers, lanes and values. Non-trivial = both accepted and compared, or a refusal/acceptance disagreement or near miss that reached a verdict"),
    assumptions=["LLVM 14 MC is the reference assembler; instructions newer than LLVM 14 (CSSC etc.) are judged by the DB fixed bits only",
                 "absolute-target forms (adr/adrp/b/bl with an address) create relocations and are covered by C03/C04",
                 "constrained-UNPREDICTABLE combinations (writeback base == transfer register, ldp Rt == Rt2) are encodable and not judged",
                 "a Vec operand stores the lane in 4 bits, so lane 16 cannot be expressed through the API and is not generated"],
)
META = dict(
    engine="rapidcheck + deterministic sweep; LLVM MC in-process",
    technique="differential testing against LLVM MC over generated operand instances of every implemented AArch64 form, incl. near-miss values",
    level_text=("Exploration: tens of thousands (quick) to ~1M (thorough) generated instances over every implemented form; byte equality with an independent "
                "assembler, plus a decode-based check that out-of-range operands are refused rather than encoded as something else."),
    level_note="Trusts LLVM-14 MC; the form list comes from the repository's own test file (shapes only), the DB supplies fixed opcode bits.",
    design_ref="DESIGN.md section 4, C02",
)
