$(eval $(call HARNESS,c03,asan,,-lrapidcheck,))
