PROP = dict(
    harness="c03", level="exploration",
    quick=dict(cases=160000, max_size=60, workers=16),
    thorough=dict(cases=2400000, max_size=150, workers=16, timeout=7200),
    rule=("Session 2: xbegin rel32 (C7 F8 rel32, the only relative branch with a ModRM byte) is a site kind of its own. rapidcheck programs on x86-64 / x86-32 / AArch64 Assemblers: label creation, forward/backward references (jmp, jmp short, jcc, jcc short, call, "
          "jecxz, loop, RIP-relative / absolute lea and memory operands with trailing imm8/imm32; b, bl, b.cond, cbz, tbz, adr, ldr-literal), embed_label, "
          "embed_label_delta 1/2/4/8, binds before and after, align, paddings chosen around the rel8 / 32 KiB / 1 MiB limits, 1-3 sections, labels "
          "optionally left unbound; then flatten, resolve_cross_section_fixups, relocate_to_base, copy_flattened_data. A layout model owned by the harness "
          "plus independent field decoders judge every reference site: displacement == label position + addend, unrepresentable references must have "
          "produced an error or stay counted as unresolved, unresolved_fixup_count()==0 exactly when the model has none pending. Non-trivial = >=1 forward "
          "and >=1 backward reference, or a cross-section reference, or a distance within +-8 of a format limit"),
    assumptions=["decoders for the ~20 reference instruction classes are written from the SDM / ARM ARM in props/c03.cpp",
                 "references to a label already bound in another section are excluded while listed as a known finding (they assert)"],
)
META = dict(
    engine="rapidcheck",
    technique="model-based property testing: generated label programs vs. a reference layout model with independent displacement decoders",
    level_text=("Exploration: tens of thousands (quick) to millions (thorough) of generated programs per run, each with up to dozens of references judged "
                "individually against the model; distances are generated on both sides of every displacement limit."),
    level_note="Trusts the harness layout model and its mini decoders; does not execute the code.",
    design_ref="DESIGN.md section 4, C03",
)
