PROP = dict(
    harness="c03", level="exploration",
    make=["build/bin/c03"],
    extra_args=["--mode=c04"],
    quick=dict(cases=160000, max_size=60, workers=16),
    thorough=dict(cases=2400000, max_size=150, workers=16, timeout=7200),
    rule=("the C03 program generator plus absolute references (embed_label 4/8, x86-32 [label+disp] and [abs], x86-64 [abs] with default/abs/rel addressing "
          "and fs/gs, jmp/call to absolute targets incl. address-table routing, moffs mov, AArch64 b/bl to absolute addresses) x 12 base addresses (low, "
          "2^31, 2^32, 2^47, 2^63 edges, near 2^64) x {base given to init(), base given to relocate_to_base()}. The relocated image is evaluated by "
          "independent decoders: every absolute site must designate base+section offset+label offset or the requested target (address-table slots are "
          "read back); unreachable targets must make relocate_to_base fail, reachable ones must not. Non-trivial = >=1 relocation-dependent site judged"),
    assumptions=["same model and decoders as C03", "on x86-32 an address that wraps around 2^32 may be refused or wrapped"],
)
META = dict(
    engine="rapidcheck",
    technique="model-based property testing: relocated images evaluated by independent decoders across generated base addresses",
    level_text=("Exploration: generated programs x base addresses; each absolute reference of the relocated image is decoded and compared with the requested "
                "target, and relocation success/failure is compared with reachability computed by the model."),
    level_note="Trusts the harness layout model and decoders; JitRuntime installation of the image is covered by C10's JIT sub-check.",
    design_ref="DESIGN.md section 4, C04",
)
