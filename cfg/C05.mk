# name, flavour, extra cxxflags, extra ldflags, extra objects
$(eval $(call HARNESS,c05,asan,-Ihostexec -mavx2,-lrapidcheck,$(HOSTEXEC_OBJS)))
