PROP = dict(
    harness="c05", level="exploration",
    quick=dict(cases=3200, max_size=60, workers=16),
    thorough=dict(cases=150000, max_size=120, workers=16),
    rule="TBD",
    assumptions=[],
)
META = dict(engine="rapidcheck", technique="TBD", level_text="TBD", level_note="", design_ref="DESIGN.md section 4, C05")
