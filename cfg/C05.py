PROP = dict(
    harness="c05", level="exploration",
    quick=dict(cases=24000, max_size=60, workers=16),
    thorough=dict(cases=600000, max_size=100, workers=16, timeout=7200),
    rule=("Session 2: call ops carry 48 generated values so that all ten arguments vary (before, every argument from the fifth on was Imm(1)); immediates that fit uint32 but not int32, preferentially at stack positions. a case is one Compiler program (decoded from integers into a tree of straight-line ops / diamonds / counted loops / "
          "two-entry cycles / annotated jump tables / multi-entry dispatches (2..6 annotated indirect jumps over ONE target set: two entry "
          "arms plus re-dispatching cases with a budget, label lists permuted per jump or one shared JumpAnnotation object) / early returns "
          "over 1..200 GP values of 32/64 bits, 0..40 xmm values, 0..24 ymm (zmm in AVX-512 mode on an AVX-512 host) values with cross-lane "
          "ops, 0..10 mask values, 0..4 stack slots, local/global constants, 0..11 scalar arguments in registers and on the stack, 0..200 "
          "extra pressure values, calls to recording callees of three conventions: SysV incl. 128/256-bit vector arguments, Win64 and "
          "vectorcall (ms_abi C functions) - every callee really destroys all registers its convention lets it destroy, incl. the upper "
          "parts of ymm/zmm6-15 in the ms_abi callees); it is compiled by x86::Compiler for x86-64, executed on 32 generated inputs through the host-execution trampoline and "
          "compared with the harness' reference interpreter (return value, full scratch-buffer image, call log), compiled a second time "
          "without the pressure values (metamorphic), and compiled for x86-32 and (mapped to an a64 vocabulary) AArch64 with structural "
          "post-RA checks. Non-trivial: the allocator inserted >= 1 load/save/move/swap or reg->mem operand substitution (counted from the "
          "post-RA node list) or the program has a call, a jump table or a fixed-register instruction; distinct = distinct case text. "
          "Before the generated cases every worker runs its share of a deterministic enumeration: every op kind alone (60/400 field "
          "variants, no pressure: interpreter-vs-CPU self-test) and every (outer construct, inner construct) pair (incl. dispatch) at "
          "pressures 3/12/15/18/40 in SSE/AVX/AVX-512 mode. About 5% of the generated chunks are short scenarios (call, reads, dispatch "
          "whose second arm writes, cases with calls; wide values read between repeated calls of mixed conventions) with random fields."),
    assumptions=[
        "ASan+UBSan build with ASMJIT_ASSERT active; an ASMJIT_ASSERT abort inside the compiler is caught (SIGABRT + sigsetjmp) and reported as asmjit-assert:<arch>:<file>:<line>",
        "x86-64 code is executed on the host CPU (AVX-512 available) via hostexec/msc_run: private stack with guard pages, every register not used for arguments poisoned, faults are failures (compiled-code-faulted), callee-saved registers and rsp checked",
        "AArch64 and x86-32 code is NOT executed: only finalize() == kOk for programs whose x86-64 build compiled, no virtual register left after RA, ld1-ld4/st1-st4/tbl/tbx list operands consecutive modulo 32; the a64 programs are a structural mapping of the same tree (semantics not preserved)",
        "the reference interpreter models flags only where a cmp/test/bt is generated together with its setcc/cmovcc/jcc; every op kind is cross-checked against the CPU by the enumeration self-test",
        "32-bit arguments are passed with garbage upper halves (the ABI leaves them undefined); callees are C functions that log their arguments and return a hash of them; before returning they overwrite every volatile register of their convention (GP, zmm0-31/k0-7 when the host has AVX-512, then vzeroupper); the Win64/vectorcall callees are C functions with __attribute__((ms_abi)) and integer arguments only, invoked through CallConvId::kX64Windows / kVectorCall (stdcall / fastcall in the compile-only x86-32 build)",
        "a failing case is re-decoded with one known trigger shape excluded at a time; if the failure disappears the key is miscompiled:<shape>. Shapes whose key is a listed known finding are excluded by construction (known_hits counts the exclusions), so one known defect does not mask the rest of the program space",
        "vector values are xmm (incl. xmm16-31 and {k} merging in AVX-512 mode) and, in AVX/AVX-512 mode, ymm or zmm virtual registers (one width per program; zmm only when CpuInfo reports AVX-512 F/VL/BW/DQ, so a case decodes differently on a host without AVX-512); x87/MMX, AH-DH operands, rep-prefixed and x86 register-block/mask-pair instructions (Knights Mill / Tiger Lake only), vector arguments of Win64/vectorcall callees are not generated",
        "class counters of the dispatch shapes (second_jump_unallocated_target_first, dispatch_clean_then_dirty_candidate) are computed from the program text under the assumption that the allocator walks blocks in code order; they describe the generated shapes, not allocator state",
    ],
)
META = dict(
    engine="rapidcheck + deterministic enumeration + host CPU execution (hostexec)",
    technique=("property-based differential testing: generated structured Compiler programs are executed natively after register allocation "
               "and compared with a reference interpreter over unbounded virtual registers; metamorphic re-compilation without pressure; "
               "structural post-RA checks for the targets that cannot execute here"),
    level_text=("Exploration: thousands (quick) to hundreds of thousands (thorough) of generated and enumerated programs, each run on 32 inputs. "
                "Agreement of return value, memory image and call log with the interpreter is checked for x86-64 only; x86-32 and AArch64 are "
                "checked for successful allocation and structural validity of the allocated code. Not a proof: absence of failures in the "
                "explored programs, minus the listed known findings whose trigger shapes are excluded."),
    level_note=("Trusts the harness interpreter (~250 lines, cross-checked op by op against the CPU at the start of every run), the host CPU and "
                "hostexec/msc. Fourteen genuine defects found while building it are listed as known findings; their trigger shapes are removed from "
                "the generated programs, which reduces coverage of exactly those shapes (32-bit read-write views of 64-bit registers under spilling, "
                "cmpxchg, and r,0, or [mem],-1, 8/16-bit xor r,r, bt with register offset, kmovw r32,k, empty jump-table cases, a64 list loads under pressure). "
                "While ra-assert:jump-table-target-is-branch-target is listed every jump-table case starts with a nop (no case label shares its block with another branch target)."),
    design_ref="DESIGN.md section 4, C05; section 7 rows 11 and 14",
)
