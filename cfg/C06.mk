# name, flavour, extra cxxflags, extra ldflags, extra objects
$(eval $(call HARNESS,c06_abi,asan,,,))
