# name, flavour, extra cxxflags, extra ldflags, extra objects
$(eval $(call HARNESS,c06_abi,asan,,,))
$(eval $(call HARNESS,c06,asan,-Ihostexec,-lrapidcheck,$(HOSTEXEC_OBJS)))
