PROP = dict(
    level="exploration",
    parts=[
        # Part A: custom python runner (fw/c06_abi.py) + helper binary build/bin/c06_abi; replay files are *.sig (one signature)
        dict(name="abi-classification", harness="c06_abi", runner="custom", module="c06_abi", make=["build/bin/c06_abi"], replay_match=r"\.sig$",
             quick=dict(sigs_per_abi=120, va_sigs_per_abi=80, light_sigs=100), thorough=dict(sigs_per_abi=1500, va_sigs_per_abi=1000, light_sigs=600)),
        # Part B: rapidcheck harness props/c06.cpp (host execution through hostexec/msc)
        dict(name="args-assignment", harness="c06", replay_match=r"\.case$",
             quick=dict(cases=320000, max_size=60, workers=16), thorough=dict(cases=10000000, max_size=80, workers=16, timeout=7200)),
    ],
    rule=("Part A: signatures of 0-32 arguments (int8..int64/uintptr, float, double, 64/128/256/512-bit vectors; 15 % variadic) generated per ABI "
          "{SysV x86-64 (also via kCDecl and as sysv_abi on Windows), Win64 (also ms_abi on Linux), x64 vectorcall, x86-32 cdecl/stdcall/fastcall/"
          "thiscall/vectorcall/regparm1-3, AAPCS64, Apple arm64}; for each signature a C file with one leaf probe per argument and a return probe is "
          "compiled by clang for the matching triple/attribute and a data-flow pass over the assembly (live-in registers, stack slots relative to the "
          "entry sp with prologue adjustments and frame-pointer realignment tracked, pointer dereferences for by-reference arguments, `ret N`) yields the "
          "reference location; FuncDetail must agree on register/stack/indirect class, register, stack offset, size of the stack-argument area, who pops, "
          "return register(s); once per ABI the callee-saved set (clobber-everything probe) and the red zone (leaf functions with 8..300-byte arrays) are "
          "compared with CallConv. Variadic signatures (15 % of the general ones plus a dedicated generator: named arguments that exhaust one or both register "
          "classes and leave a named stack area of char/short/int/float granularity, i.e. ending at offsets that are not multiples of 8 where the ABI packs, "
          "followed by 1-7 unnamed arguments int/long/pointer/double/64- and 128-bit vectors after the C default promotions) on {SysV x86-64 (+kCDecl, +sysv_abi on "
          "Windows), Win64 (+ms_abi on Linux), x86-32 cdecl, AAPCS64, Apple arm64}: EVERY unnamed argument is located (a) by a caller-side clang probe (a call "
          "`f(vs_0, vs_1, ...)` whose arguments are distinct globals; a forward data-flow pass over the caller finds the argument register or the outgoing "
          "stack slot relative to sp at the call instruction that holds each global, by-reference copies included), (b) on Apple arm64 also by a callee-side "
          "probe that walks the va_list with va_arg for the whole unnamed type sequence, (c) by the written ABI rule (Apple: always on the stack, own 8-byte "
          "aligned 8-byte slot, 16 bytes/16-aligned for 16-byte types; AAPCS64/SysV: allocated like named ones; Win64: positional, floats duplicated in GP; "
          "i386: 4-byte slots, 16-byte vectors 16-aligned); FuncDetail must agree with each reference on class, register and offset, and arg_stack_size() with "
          "the end of clang's layout. light-call 2/3/4 (x86-64 and x86-32): internal consistency only. A signature is non-trivial when it has >= 1 stack "
          "argument or > 4 arguments. Part B: rapidcheck cases = calling convention {SysV64, Win64, vectorcall64, light-call2/3/4 executed; x86-32 and "
          "AArch64 built only} x frame options (preserved FP, AVX/AVX-512, all-dirty masks, local alignment 16/32/64 = dynamic alignment, explicit SA register) "
          "x up to 32 arguments, each with a destination: register of its group (candidates list starts with the registers that carry arguments, so "
          "2-cycles, longer cycles, self-moves with extension arise constantly), a stack slot, a register of the other group, or none; destination "
          "TypeIds narrower/wider/other signedness than the argument. The emitted prolog + emit_args_assignment runs on the host CPU through msc_run with "
          "distinct values in every source register and stack word, every register and destination slot is dumped, and each destination is compared "
          "with the argument's value extended by the rule documented at the top of props/c06.cpp. Non-trivial: the assignment contains a register cycle "
          "or a stack source. distinct = distinct signature text (A) / distinct case text (B)."),
    assumptions=[
        "ASan+UBSan build with ASMJIT_ASSERT active; the helper of part A and the non-host builds / abort-prone probes of part B run in separate (forked) processes",
        "clang 14 (-O1 -fomit-frame-pointer, -mavx512f on x86 so that 256/512-bit vectors have their AVX ABI) is the executable ABI reference; only types with an "
        "unambiguous C counterpart are compared: no aggregates/HFA/HVA, no long double, no MMX/mask types (AsmJit's own source notes that compilers disagree on MMX); "
        "64-bit integers are not generated for x86-32 fastcall/thiscall/vectorcall (clang and MSVC disagree), 256/512-bit vectors not for variadic SysV functions "
        "(LLVM passes even named ones in memory, gcc does not)",
        "probes that the assembly pass cannot interpret are skipped and counted (A:probe-unparsed), never judged",
        "variadic functions: unnamed arguments carry the promoted type in the signature given to AsmJit (int for char/short, double for float, as a C caller passes them); "
        "only 16-byte vectors (and 8-byte ones on AArch64) are generated as unnamed vector arguments; FuncDetail exposes nothing about AL or the Win64 GP/XMM duplication "
        "(x86rapass.cpp implements them): for a Win64 unnamed double in the first four positions AsmJit's register must be one of the two clang loads",
        "caller-side probes are trusted only when they place every NAMED argument where the callee-side probes read it; clang 14 fails that test on Apple arm64 when a named "
        "stack argument is a char/short (its caller widens those to 4-byte slots in variadic calls while its own callee reads them packed - an LLVM defect, counted as "
        "A:variadic-caller-probe-inconsistent): there the va_arg walk (callee side) and the ABI rule judge alone. References that disagree among themselves are never "
        "used against AsmJit (A:variadic-references-disagree, reported as a note)",
        "AArch64 x18 (platform register) is ignored when comparing preserved sets: AsmJit lists it as preserved on every OS and its register allocator never hands it out; "
        "the stack pointer is ignored in both sets",
        "red zone: the number compared is what clang-compiled leaf functions actually address below sp (128 on SysV x86-64, 0 elsewhere incl. Apple arm64, whose ABI would "
        "allow 128); not compared for foreign conventions on a platform (sysv_abi on Windows, ms_abi on Linux)",
        "the size of the stack-argument area is derived from clang's per-argument layout (end of the last stack argument rounded to the slot size; >= 32 on Win64) or from `ret N`",
        "light-call has no C counterpart: distinct locations, stack area covers its arguments, preserved set contains the documented one, return register not callee-saved; "
        "arguments in callee-saved registers are legal there and only counted",
        "part B places the argument values where FuncDetail says they are (part A judges those locations); 16-byte+ vector stack arguments at offsets that part A reports as "
        "misaligned are excluded; sign/zero extension is judged by the argument's signedness, for signed -> wider unsigned only the argument's own bits are compared",
        "part B, non-host targets (x86-32, AArch64): prolog + emit_args_assignment + epilog must return kOk or an error without assertion, sanitizer report or hang "
        "(3 s CPU limit in a forked child); nothing more is decided there (no reference machine)",
        "register -> register moves across groups, by-reference (indirect) sources, MMX/mask typed arguments and scalar kFloat32/kFloat64 TypeIds on vector-register destinations "
        "are outside what emit_args_assignment supports: a clean error is accepted, only crashes are judged",
        "known finding classes are excluded by construction in the generators (counted as exclusions) and kept alive by fixed trigger signatures / forked probe cases",
    ],
)
META = dict(
    engine="clang-differential (python driver) + rapidcheck with host execution",
    technique=("part A: differential testing of FuncDetail/CallConv against clang-compiled probe functions for five target triples (data-flow analysis of the probe assembly); "
               "part B: property-based testing of FuncArgsAssignment/emit_args_assignment with the host CPU as oracle (machine_state_call trampoline)"),
    level_text=("Exploration: ~2.2k (quick) / ~26k (thorough) generated signatures across 16 ABI variants are compared location by location with what clang does, plus the "
                "callee-saved sets and red zones of every ABI; 24k (quick) / 480k (thorough) generated argument assignments are executed (x86-64) or built (x86-32, AArch64) "
                "and every destination is compared with its argument. Absence of failures in the explored signatures/assignments is not a proof. Twenty-odd finding classes "
                "are tracked as known findings; the generators route around them, so the layouts behind those defects are explored only where they do not interfere."),
    level_note=("Trusts clang 14 as ABI reference (cross-checked by hand on the documented cases of each ABI), the ~250-line assembly analysis in fw/c06_abi.py (probes it cannot "
                "read are skipped), the stack-layout model used only to attribute deviations to known findings, hostexec/msc, and ASan/UBSan. Vector (16/32/64-byte) register "
                "moves of part B are almost entirely masked by the known finding argsassign-vec-move-ctz-zero; cycles of three or more registers by argsassign-cycle3-unresolved."),
    design_ref="DESIGN.md section 4, C06",
)
