PROP = dict(
    level="exploration",
    parts=[
        dict(name="abi-classification", harness="c06_abi", runner="custom", module="c06_abi", make=["build/bin/c06_abi"], replay_match=r"\.sig$",
             quick=dict(sigs_per_abi=40, light_sigs=40), thorough=dict(sigs_per_abi=1500, light_sigs=600)),
        dict(name="args-assignment", harness="c06", replay_match=r"\.case$",
             quick=dict(cases=24000, max_size=60, workers=8), thorough=dict(cases=640000, max_size=80, workers=16)),
    ],
    rule="TBD",
    assumptions=[],
)
META = dict(engine="custom", technique="", level_text="", level_note="", design_ref="DESIGN.md section 4, C06")
