# name, flavour, extra cxxflags, extra ldflags, extra objects
$(eval $(call HARNESS,c07,asan,-Ihostexec,-lrapidcheck,$(HOSTEXEC_OBJS)))
