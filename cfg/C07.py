PROP = dict(
    harness="c07", level="exploration",
    quick=dict(cases=480000, max_size=100, workers=16),
    thorough=dict(cases=16000000, max_size=100, workers=16),
    rule=("rapidcheck-generated FuncFrame descriptions (arch x86-64/x86-32/AArch64; every CallConvId the arch accepts on linux/windows/darwin "
          "environments; 0-12 arguments with stack-passed ones; dirty masks for GP/Vec/K/MM; local and call stack size 0..64 KiB with "
          "alignment unset/1..64; preserved FP; explicit SA register; AVX/AVX-512/cleanup/IBT/func-calls/var-args attributes; red zone "
          "reset; optional extra preserved Vec/K/MM registers = custom convention) plus a deterministic grid of 5220 frames. Every case: "
          "layout arithmetic on the finalized frame, a reference machine that interprets the emitted prolog/epilog nodes around a body "
          "confined to the declared areas, Builder::finalize must assemble; every x86-64 case is additionally executed on the host CPU "
          "(prolog; generated body; epilog) through hostexec/msc. Non-trivial: >=2 saved register groups, or dynamic alignment, or local "
          "size > 4 KiB; distinct = distinct case text"),
    assumptions=[
        "alignments are powers of two 1..64 (or unset); sizes 0..65536",
        "dirty masks are restricted to registers that exist on the target (xmm16-31 only with AVX-512 enabled)",
        "the body may write the local area, the call area, the red zone the frame reports and (Win64/vectorcall) the spill zone; it keeps FP when FP is preserved and reads stack arguments before clobbering the SA register",
        "callee-saved sets for SysV64, Win64/vectorcall64, 32-bit cdecl family and AAPCS64 are hard-coded from the ABI documents and compared with CallConv; LightCall sets are taken from CallConv",
        "host execution needs an x86-64 CPU with AVX-512 F/BW/VL/DQ (otherwise only arithmetic + reference machine run; counted as host_skipped_no_avx512)",
        "x86-32 and AArch64 are judged by the reference machine only (no CPU available); its instruction subset is the one prolog/epilog use, anything else is reported as sim-unsupported",
    ],
)
META = dict(
    engine="rapidcheck",
    technique=("property-based testing of FuncFrame::finalize + emit_prolog/emit_epilog: frame-layout arithmetic, node-level reference machine "
               "(x86-32/x86-64/AArch64) and native execution of prolog+body+epilog on the host CPU with full machine-state capture (x86-64)"),
    level_text=("Exploration: hundreds of thousands (quick) to millions (thorough) of generated frames plus a fixed grid. For each frame the "
                "documented accessors must give pairwise disjoint call/local/save/DA/push areas inside the frame with the promised alignments for "
                "every entry SP the convention allows; running prolog, a body that scribbles over every dirty register and every byte of the "
                "declared areas, and epilog must return to the caller's return address with SP where the convention requires (callee-pops "
                "included), every callee-saved and every never-dirty register unchanged, stack arguments found through SP, FP and the SA register, "
                "and no byte outside [body SP - red zone, entry SP + return address) (+ spill zone) written. Not a proof."),
    level_note=("Trusts the ~250-line reference machine (cross-checked on x86-64 against the real CPU on every case), hostexec/msc, and the hard-coded "
                "ABI callee-saved tables. Known findings (AArch64 dynamic alignment / SA register / FP-relative offsets / LightCall saves, x86 k-register "
                "save slot, SSE saves of xmm16+, 8-byte alignment on 4-aligned x86-32 conventions) are counted and skipped so the search continues."),
    design_ref="DESIGN.md section 4, C07",
)
