$(eval $(call HARNESS,c08,asan,,-lrapidcheck,))
$(B)/bin/c08: gen/x86db.h gen/x86inst.h
