PROP = dict(
    harness="c08", level="exploration",
    make=["build/bin/c08", "build/gen/x86_forms.txt"],
    quick=dict(cases=160000, max_size=60, workers=16),
    thorough=dict(cases=5000000, max_size=80, workers=16, timeout=7200),
    rule=("Session 2: a quarter of the cases start with 1-3 labels created through CodeHolder::new_label_id() before any emitter is attached (label ids of the emitter start above 0). rapidcheck sequences of emitter calls (x86-32 / x86-64: ISA-DB forms instantiated by gen/x86inst.h incl. lock/rep/xacquire, {k}{z}{er}{sae}, extra register, "
          "random option bits, inline comments, plus hand-written label shapes jmp/jcc/call/loop/lea/mov/AVX-512 [label]; AArch64: 66 register/immediate/shift/extend/"
          "load-store/vector shapes with 0..6 operands plus b/bl/b.cond/cbz/tbz/adr/adrp/ldr-literal), labels (anonymous, named, duplicates), bind, align, embed, "
          "embed_data_array, embed_const_pool, embed_label, embed_label_delta, comments, new sections and section switches, interleaved with node-list edits "
          "(remove_node, remove_nodes, add_after/add_before of removed nodes, set_cursor incl. null). Every call goes to an Assembler, a Builder and a Compiler; "
          "Builder/Compiler output after finalize() is compared with a fresh Assembler fed with the harness's own (edited) list. Non-trivial = at least one accepted "
          "instruction with >3 operands or an option/extra register, or at least one edit; distinct = distinct case text"),
    assumptions=["ASan+UBSan build with ASMJIT_ASSERT active", "section() of a Builder moves the cursor to the end of that section's node range (builder.cpp), so the "
                 "reference Assembler receives the calls in node order; the natural call order is compared only when nothing reordered the list",
                 "relocation/fixup lists are compared in creation order (both sides are Assemblers processing the same sequence)"],
)
META = dict(
    engine="rapidcheck",
    technique="differential testing: Assembler vs Builder::finalize vs Compiler::finalize over generated call sequences and node-list edit scripts, with a list model in the harness",
    level_text=("Exploration: tens of thousands (quick) to about a million (thorough) generated call sequences per run on three architectures; section bytes, label "
                "positions, relocations, unresolved fixups and the finalize() error code must equal those of an Assembler that receives the same (edited) sequence; "
                "the node list itself is compared with the harness's list after the edit script. Not a proof: operand space and edit scripts are sampled."),
    level_note="Trusts the ~60-line list model (cursor / section / remove / insert rules copied from the documented behaviour of builder.h) and the Assembler as reference.",
    design_ref="DESIGN.md section 4, C08",
)
