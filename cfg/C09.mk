# name, flavour, extra cxxflags, extra ldflags, extra objects
$(eval $(call HARNESS,c09,asan,,-lrapidcheck,))
