PROP = dict(
    harness="c09", level="exploration",
    # quick: per worker ~6 s bounded-exhaustive slice + 5000 random histories (~3.5 ms each)
    quick=dict(cases=40000, max_size=60, workers=8),
    # thorough: per worker ~75 s bounded-exhaustive slice + 2250 random histories (~125 ms each, bursts up to 10^5 operations)
    thorough=dict(cases=36000, max_size=150, workers=16, timeout=5400),
    rule=("two tiers. (1) bounded-exhaustive: every history of <= 4 (quick; granularity 64) / <= 5 (thorough; granularity 64 and 256) operations over an "
          "11-symbol alphabet {alloc of 1, 2G+1, B, 2B-2G, 2B-G, 2B+1 bytes; release oldest/newest; shrink oldest to 1 byte / newest by one granule; "
          "soft reset} for 10 option sets, each on a fresh JitAllocator (counted in evaluations, one per history). (2) rapidcheck state machine: random "
          "CreateParams (option bits, block size incl. invalid, granularity incl. invalid, fill pattern) x histories of alloc/release/shrink/query/"
          "write (offset, callback, truncating callback, scope, direct rw)/reset/audit/reuse/rejected calls, plus deterministic bursts of up to "
          "2500 (quick) / 100000 (thorough) further operations; every step is judged against an explicit model of the live spans, their bytes, the "
          "blocks (by opaque token) and the statistics. A random case is non-trivial when a release, shrink or reset was followed by a successful "
          "allocation; distinct = distinct case text"),
    assumptions=["ASan+UBSan build with ASMJIT_ASSERT active",
                 "Linux x86-64 sandbox: RWX mappings allowed, memfd dual mapping available, MAP_HUGETLB normally fails (fallback to regular pages is the documented behaviour)",
                 "of a span larger than 8 KiB only the first and last 2 KiB are tracked byte by byte",
                 "known findings are excluded only as narrowly as the model can predict them: soft reset with >= 2 blocks is replaced by a hard reset; an "
                 "allocation that could make an append-only block exactly full is skipped"],
)
META = dict(
    engine="rapidcheck",
    technique="property-based testing (state machine vs. reference model) + bounded-exhaustive enumeration of short histories",
    level_text=("Exploration: all histories up to depth 4-5 over a small alphabet on 10 option sets, plus tens of thousands of random histories "
                "(up to 10^5 operations in the thorough tier) over random CreateParams, are executed step by step against a model: non-null, "
                "granularity-aligned, large-enough spans, disjoint in the rx and the rw view, contents kept until release and identical through both "
                "views, query() exact for live starts / consistent for interior pointers / rejected for released, shrunk-away and foreign pointers, "
                "statistics (allocation_count, block_count, used_size incl. per-block padding, reserved_size) exact after every step, fill pattern on "
                "released / shrunk-away / fresh memory, immediate reuse of freed memory and of gaps without a new block, rejected sizes (0, > 2^31-1), "
                "rejected out-of-range writes and growing shrinks, empty-block retention policy, residue after release-all / reset. Not a proof."),
    level_note=("Trusts the harness model (~1000 lines) and ASan/UBSan. The block-level checks use Span::_block as an opaque identity token and "
                "statistics().block_count(); with multiple pools used_size and the retention limit are bounded, not exact. Six genuine defects were "
                "found on the unchanged tree (see known_findings.txt); two of them abort the process and are avoided by the generator when listed."),
    design_ref="DESIGN.md section 4, C09",
)
