PROP = dict(
    harness="c09", level="exploration",
    quick=dict(cases=16000, max_size=60, workers=8),
    thorough=dict(cases=160000, max_size=150, workers=16),
    rule=("rapidcheck histories of JitAllocator alloc/release/shrink/query/write/reset/statistics over random CreateParams, judged step by step "
          "by an explicit model of the live spans; a case is non-trivial when a release, shrink or reset was followed by a successful "
          "allocation; distinct = distinct case text"),
    assumptions=["ASan+UBSan build with ASMJIT_ASSERT active"],
)
META = dict(
    engine="rapidcheck",
    technique="property-based testing: generated allocator histories vs. a reference model of live spans, blocks and statistics",
    level_text="Exploration.",
    level_note="",
    design_ref="DESIGN.md section 4, C09",
)
