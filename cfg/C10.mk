# name, flavour, extra cxxflags, extra ldflags, extra objects
$(eval $(call HARNESS,c10,asan,,-lrapidcheck,))
