PROP = dict(
    harness="c10", level="exploration",
    quick=dict(cases=200000, max_size=40, workers=16),
    thorough=dict(cases=1500000, max_size=60, workers=16),
    rule=("rapidcheck programs over one CodeHolder (x86-64 / x86-32 / AArch64 Assembler): 0-12 new_section calls (names 0-40 bytes incl. "
          "empty, duplicate, '.text'/'.addrtab' look-alikes, high bytes, >35 refused; alignments 2^0..2^16, 0, and non-powers of two "
          "refused; orders INT_MIN..INT_MAX with many ties), embedded data / instructions / cross-section label references switched "
          "into arbitrary sections, set_virtual_size below/equal/above the buffer size, x86-64 call/jmp to absolute addresses (address "
          "table, used or unused after relocation, last or followed by a user section), then flatten, resolve_cross_section_fixups, "
          "optional relocate_to_base, and 12-40 copy_flattened_data calls per program (destination = code_size, code_size-1, "
          "code_size+k, 0, data end -1/0, section boundaries; all four CopySectionFlags values; exact malloc under ASan and a "
          "guard-fenced buffer), copy_section_data per section, and for 1/6 of the cases JitRuntime::add against a twin program. "
          "A case is non-trivial when the program has >= 3 sections with >= 2 distinct alignments; distinct = distinct case text"),
    assumptions=["ASan+UBSan build with ASMJIT_ASSERT active",
                 "padding oracle: bytes of a section between buffer size and virtual size, and alignment gaps (which flatten() adds to the "
                 "previous section's virtual size), are zero iff kPadSectionBuffer; bytes after the last section are zero iff kPadTargetBuffer; "
                 "otherwise they keep the 0xA5 pre-fill; virtual bytes after the last data byte under kPadTargetBuffer alone are not judged",
                 "a destination is 'too small' (must be refused) when it cannot hold every section's buffer bytes; 'large enough' (must be "
                 "accepted) when >= code_size(); sizes in between (only virtual/padding bytes missing) are accepted by the code with clamped "
                 "padding: counted (copy_minus1_accepted_virtual_tail), bounds still checked, not judged as refusal failures",
                 ".addrtab is never emitted into or resized by the generated program (reserved for AsmJit)"],
)
META = dict(
    engine="rapidcheck",
    technique=("property-based testing: generated multi-section programs; layout facts of the property checked on the offsets AsmJit "
               "assigned (plus an independent minimal layout, counted), byte-exact expected-image map per destination size and flag set, "
               "guard bytes + exact allocations under ASan, evaluation of x86-64 call/jmp sites against the address table, twin-program "
               "comparison for JitRuntime::add"),
    level_text=("Exploration: tens of thousands (quick) to ~1.5 million (thorough) generated section programs. For each: sections_by_order is "
                "a permutation sorted by (order, id); new_section refuses non-power-of-two alignments and names > 35 bytes without changing "
                "state; after flatten every offset is a multiple of the section's alignment, offsets follow the order, no two sections "
                "overlap, code_size() equals the end of the last section and an estimate taken before flatten is not smaller; "
                "code_size() never grows in relocate_to_base and RelocationSummary matches the difference; copy_flattened_data puts every "
                "section's bytes at its offset, zero-fills padding / tail exactly when the flag is given, leaves everything else untouched, "
                "never writes outside the destination, refuses destinations that cannot hold the data and accepts every destination >= "
                "code_size(); copy_section_data likewise; address-table slots referenced by patched call/jmp sites hold the target; the "
                "bytes installed by JitRuntime::add equal the flattened image of an identical program relocated to the same address. Not a "
                "proof: absence of failures in the explored programs."),
    level_note=("Trusts the harness (~800 lines) and ASan/UBSan. Section sizes are bounded (<= 40 KB data, <= 100 KB virtual per section, "
                "alignment <= 64 KiB) so the overflow branches of flatten()/code_size() (kTooLarge, SIZE_MAX) are not reached. 35 source "
                "mutations of codeholder.cpp/jitruntime.cpp were tried: 33 caught, 2 are equivalent mutants."),
    design_ref="DESIGN.md section 4, C10",
)
