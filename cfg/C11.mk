# name, flavour, extra cxxflags, extra ldflags, extra objects
$(eval $(call HARNESS,c11,tsan,,-lrapidcheck,))
