PROP = dict(
    harness="c11", level="exploration",
    quick=dict(cases=3200, max_size=40, workers=8),
    thorough=dict(cases=48000, max_size=60, workers=8),
    rule=("rapidcheck per-thread operation scripts executed by 2..16 real threads (all released together by a spin barrier) under "
          "ThreadSanitizer: mode A alloc/release/shrink/query/write/statistics on one shared JitAllocator (random CreateParams), mode B "
          "add/call/query/release of tiny functions through one shared JitRuntime (each thread its own CodeHolder + Assembler/Compiler), "
          "mode C independent code generation (x86/a64 Assembler, Builder, Compiler; optional logger and validation) compared byte for "
          "byte with the same program generated alone before the threads start; a case is non-trivial when at least two threads each "
          "executed at least one allocator/runtime/code-generation operation after the start barrier; distinct = distinct case text. "
          "Overlap is measured, not assumed: classes overlap_cases_two_or_more_threads_inside_entry_points (a relaxed counter saw >=2 "
          "threads inside AsmJit entry points at once), max_simultaneously_inside_*, overlap_cases_window_two_or_more_threads / "
          "overlap_window_ops (operations completed before the first thread finished its script). "
          "Cold start (cfg[0] = 3; a deterministic sweep of 7 thread counts x 19 operation mixes before the generated cases plus about 8% of "
          "the generated cases, classes coldstart_*): the worker re-executes its own binary (/proc/self/exe --coldstart=<scenario>, fork+exec) "
          "and in that FRESH process 2..16 threads are released together and each performs, as its very first library action, its generated "
          "operation (CpuInfo::host(), JitRuntime construction, VirtMem::info(), large_page_size(), hardened_runtime_info(), Environment::host(), "
          "a private JitAllocator with generated options incl. dual mapping / large pages + alloc/write/release, JitRuntime::add + call of a tiny "
          "function, alloc_dual_mapping; generated start staggering in PAUSE counts, up to 3 follow-up operations); every observation must equal "
          "the same operation repeated alone afterwards in the same process (coldstart-differs:<op>) and be sane (coldstart-insane:<op>: host "
          "arch known, CPU features non-empty, page size = system page size ...); the child is the same ThreadSanitizer build, a report is key "
          "coldstart-race:<global or function>; such a case is non-trivial when at least two threads had an operation and the child delivered its verdict. "
          "Statistics snapshots (cfg[0] = 4; a deterministic sweep of 7 worker counts x 10 allocator configurations before the generated cases plus about "
          "8% of the generated cases, classes stats_*): 1..12 worker threads run generated scripts (5..300 rounds) that allocate and release spans of a few "
          "fixed sizes - one pool: one size of 1/2/3/4/5 granules or two sizes; kUseMultiplePools: sizes falling into pools 0/1/2 (64/128/256-byte granularity "
          "for a 64-byte allocator) - in matched groups or freely, with and without kDisableInitialPadding / kImmediateRelease / fill / dual mapping, while 1..4 "
          "observer threads released by the same barrier call statistics() in a tight loop (generated count) and query() up to three spans pinned by the main "
          "thread. The set of (allocation_count, live bytes) pairs a worker walks through is a pure function of the case; an atomic statistics() can only return "
          "pinned + one pair per worker (the exact Minkowski sum, a bit matrix), so every returned object must satisfy: (allocation_count, used_size minus the "
          "padding of the existing blocks) is reachable (key stat-snapshot-count-vs-used; with one span size: used_size == allocation_count * k * granularity), "
          "no block <=> nothing reserved / no overhead / nothing used / nothing allocated, block_count <= allocation_count under kImmediateRelease, pools with a "
          "pinned span have a block (stat-snapshot-blocks), reserved_size >= used_size and >= block_count * first block size (stat-snapshot-reserved), and "
          "(block_count, reserved_size, overhead_size) is the sum over a set of pools of what the first block of that pool adds. What a block adds (padding granule, "
          "reserved bytes, overhead) is measured single-threaded on a twin allocator with the same CreateParams in the same process and the formulas are validated "
          "single-threaded before the threads start (snap-model-single-threaded). query() of a pinned or own live span must return exactly its rx/rw/size/block. "
          "Overlap is measured: stats_snapshots_while_workers_inside_their_scripts, stats_snapshots_during_concurrent_alloc (an alloc()/release() of another "
          "thread completed during the very statistics() call), stats_snapshots_allocation_count_differs_from_previous; such a case is non-trivial when at "
          "least two threads executed allocator operations after the start barrier"),
    assumptions=[
        "ThreadSanitizer build (-fsanitize=thread, ASMJIT_ASSERT active); any TSan report ends the worker with exit code 97 and is reported "
        "as key 'crash' with the running case as replay and the report in <replay>.log",
        "the schedule is the operating system's: absence of ThreadSanitizer reports and of model failures only covers the interleavings "
        "(more precisely: the unsynchronised access pairs) that actually occurred in the explored runs; a failing case may not reproduce "
        "from its replay file every time (the replay repeats the case 20 times internally, the driver replays 3 times)",
        "modes A-C: host information (CpuInfo::host(), VirtMem::info(), large_page_size(), hardened_runtime_info(), anonymous-memory strategy / "
        "memfd probes, one JitAllocator and one JitRuntime constructed and destroyed) is initialised on the main thread before any worker "
        "thread exists, as the property states. The first use itself is exercised by the cold-start cases only (a few hundred fresh processes "
        "per quick run): what is claimed there is that every thread obtains what it would obtain alone; a ThreadSanitizer report inside the "
        "lazy initialisation is reported under its own key coldstart-race:<name>, and when that key is a listed known finding the report about "
        "exactly that global/function is suppressed in the child (TSAN_OPTIONS suppressions; hits counted as exclusions) while the value "
        "comparison stays active",
        "a cold-start child is judged by its own verdict only (stdout verdict, exit code, ThreadSanitizer exit code 97 / stderr); a 150 s "
        "alarm in the child is the only clock (safety net, reported as coldstart-hang)",
        "JitAllocator::reset() is documented as not thread-safe and is never called while threads run; the known single-threaded C09 "
        "defects are kept out of the way (modes A/B): the empty-block retention policy is not asserted, kDisableInitialPadding is not used and every "
        "span is an even number of granules (odd pool-0/1 spans of kUseMultiplePools stay under a per-thread byte budget) so that no block "
        "can become exactly full (known finding full-block-stale-search-range would corrupt the heap)",
        "statistics-snapshot cases: statistics() is documented thread-safe and returns its five numbers as one object, and the property promises the "
        "guarantees of C09 (statistics agree with the live spans) under concurrency: the object is required to describe ONE state of the allocator, i.e. "
        "statistics() is atomic with respect to alloc()/release() like every other entry point. Large pages are not used there (block sizes must be "
        "reproducible); a worker holds at most L (1..6) spans, L chosen so that all spans of the case fit into the first block of every pool whatever the "
        "fragmentation - should a pool get a second block anyway, only bounds on the padding are applied (class stats_snapshots_block_structure_other, never "
        "seen); the numbers of rounds / observer calls are generated, so how many snapshots really overlap an alloc()/release() is up to the scheduler and "
        "is reported, not assumed",
        "a thread only queries / writes / shrinks / releases spans it allocated itself (observers also query the spans the main thread pins for the whole case); dual-mapped spans are written through rw and read "
        "through rx (ThreadSanitizer tracks the two views as unrelated addresses)",
        "no liveness claim (deadlock freedom is only observed through the driver's wall-clock budget)",
    ],
)
META = dict(
    engine="rapidcheck + std::thread + ThreadSanitizer",
    technique=("property-based concurrency testing: generated per-thread scripts run by real threads on one JitAllocator / JitRuntime or on "
               "private CodeHolders; oracles are ThreadSanitizer's happens-before race detection, a per-thread ownership model audited "
               "at a barrier (union of the models vs. statistics, disjointness, contents), a linearisability check of every statistics() object "
               "against the exact set of states reachable by the generated worker scripts, and byte equality with a single-threaded reference; "
               "first use of the library by several threads at once is tested in re-executed fresh processes against a single-threaded repetition"),
    level_text=("Exploration: thousands (quick) to tens of thousands (thorough) of scripts with 2-16 threads. ThreadSanitizer reports an "
                "unsynchronised access pair whenever both accesses occur in a run, without needing the harmful interleaving, so a removed "
                "or narrowed lock and hidden global mutable state are found reliably (see sensitivity); a lock that is still taken for every access "
                "but split into several critical sections (no race to report) is found by the statistics-snapshot cases when an alloc()/release() completes "
                "between two of the sections, which happened in about three of four such cases in the sensitivity runs; nothing is claimed about "
                "interleavings or code paths that were never executed concurrently."),
    level_note=("Trusts ThreadSanitizer and the harness (barriers are the only harness synchronisation, so the harness adds no "
                "happens-before edges between the barriers). The schedule is not controlled; evidence reports measured overlap."),
    design_ref="DESIGN.md section 4, C11 and section 6",
)
