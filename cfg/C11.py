PROP = dict(
    harness="c11", level="exploration",
    quick=dict(cases=2400, max_size=40, workers=8),
    thorough=dict(cases=60000, max_size=60, workers=8),
    rule="tbd",
    assumptions=["tbd"],
)
META = dict(engine="rapidcheck", technique="tbd", level_text="Exploration.", level_note="", design_ref="DESIGN.md section 4, C11")
