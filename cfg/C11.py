PROP = dict(
    harness="c11", level="exploration",
    quick=dict(cases=3200, max_size=40, workers=8),
    thorough=dict(cases=48000, max_size=60, workers=8),
    rule=("rapidcheck per-thread operation scripts executed by 2..16 real threads (all released together by a spin barrier) under "
          "ThreadSanitizer: mode A alloc/release/shrink/query/write/statistics on one shared JitAllocator (random CreateParams), mode B "
          "add/call/query/release of tiny functions through one shared JitRuntime (each thread its own CodeHolder + Assembler/Compiler), "
          "mode C independent code generation (x86/a64 Assembler, Builder, Compiler; optional logger and validation) compared byte for "
          "byte with the same program generated alone before the threads start; a case is non-trivial when at least two threads each "
          "executed at least one allocator/runtime/code-generation operation after the start barrier; distinct = distinct case text. "
          "Overlap is measured, not assumed: classes overlap_cases_two_or_more_threads_inside_entry_points (a relaxed counter saw >=2 "
          "threads inside AsmJit entry points at once), max_simultaneously_inside_*, overlap_cases_window_two_or_more_threads / "
          "overlap_window_ops (operations completed before the first thread finished its script). "
          "Cold start (cfg[0] = 3; a deterministic sweep of 7 thread counts x 19 operation mixes before the generated cases plus about 8% of "
          "the generated cases, classes coldstart_*): the worker re-executes its own binary (/proc/self/exe --coldstart=<scenario>, fork+exec) "
          "and in that FRESH process 2..16 threads are released together and each performs, as its very first library action, its generated "
          "operation (CpuInfo::host(), JitRuntime construction, VirtMem::info(), large_page_size(), hardened_runtime_info(), Environment::host(), "
          "a private JitAllocator with generated options incl. dual mapping / large pages + alloc/write/release, JitRuntime::add + call of a tiny "
          "function, alloc_dual_mapping; generated start staggering in PAUSE counts, up to 3 follow-up operations); every observation must equal "
          "the same operation repeated alone afterwards in the same process (coldstart-differs:<op>) and be sane (coldstart-insane:<op>: host "
          "arch known, CPU features non-empty, page size = system page size ...); the child is the same ThreadSanitizer build, a report is key "
          "coldstart-race:<global or function>; such a case is non-trivial when at least two threads had an operation and the child delivered its verdict"),
    assumptions=[
        "ThreadSanitizer build (-fsanitize=thread, ASMJIT_ASSERT active); any TSan report ends the worker with exit code 97 and is reported "
        "as key 'crash' with the running case as replay and the report in <replay>.log",
        "the schedule is the operating system's: absence of ThreadSanitizer reports and of model failures only covers the interleavings "
        "(more precisely: the unsynchronised access pairs) that actually occurred in the explored runs; a failing case may not reproduce "
        "from its replay file every time (the replay repeats the case 20 times internally, the driver replays 3 times)",
        "modes A-C: host information (CpuInfo::host(), VirtMem::info(), large_page_size(), hardened_runtime_info(), anonymous-memory strategy / "
        "memfd probes, one JitAllocator and one JitRuntime constructed and destroyed) is initialised on the main thread before any worker "
        "thread exists, as the property states. The first use itself is exercised by the cold-start cases only (a few hundred fresh processes "
        "per quick run): what is claimed there is that every thread obtains what it would obtain alone; a ThreadSanitizer report inside the "
        "lazy initialisation is reported under its own key coldstart-race:<name>, and when that key is a listed known finding the report about "
        "exactly that global/function is suppressed in the child (TSAN_OPTIONS suppressions; hits counted as exclusions) while the value "
        "comparison stays active",
        "a cold-start child is judged by its own verdict only (stdout verdict, exit code, ThreadSanitizer exit code 97 / stderr); a 150 s "
        "alarm in the child is the only clock (safety net, reported as coldstart-hang)",
        "JitAllocator::reset() is documented as not thread-safe and is never called while threads run; the known single-threaded C09 "
        "defects are kept out of the way: the empty-block retention policy is not asserted, kDisableInitialPadding is not used and every "
        "span is an even number of granules (odd pool-0/1 spans of kUseMultiplePools stay under a per-thread byte budget) so that no block "
        "can become exactly full (known finding full-block-stale-search-range would corrupt the heap)",
        "a thread only queries / writes / shrinks / releases spans it allocated itself; dual-mapped spans are written through rw and read "
        "through rx (ThreadSanitizer tracks the two views as unrelated addresses)",
        "no liveness claim (deadlock freedom is only observed through the driver's wall-clock budget)",
    ],
)
META = dict(
    engine="rapidcheck + std::thread + ThreadSanitizer",
    technique=("property-based concurrency testing: generated per-thread scripts run by real threads on one JitAllocator / JitRuntime or on "
               "private CodeHolders; oracles are ThreadSanitizer's happens-before race detection, a per-thread ownership model audited "
               "at a barrier (union of the models vs. statistics, disjointness, contents), and byte equality with a single-threaded reference; "
               "first use of the library by several threads at once is tested in re-executed fresh processes against a single-threaded repetition"),
    level_text=("Exploration: thousands (quick) to tens of thousands (thorough) of scripts with 2-16 threads. ThreadSanitizer reports an "
                "unsynchronised access pair whenever both accesses occur in a run, without needing the harmful interleaving, so a removed "
                "or narrowed lock and hidden global mutable state are found reliably (see sensitivity); nothing is claimed about "
                "interleavings or code paths that were never executed concurrently."),
    level_note=("Trusts ThreadSanitizer and the harness (barriers are the only harness synchronisation, so the harness adds no "
                "happens-before edges between the barriers). The schedule is not controlled; evidence reports measured overlap."),
    design_ref="DESIGN.md section 4, C11 and section 6",
)
