# name, flavour, extra cxxflags, extra ldflags, extra objects
$(eval $(call HARNESS,c12,asan,-Ihostexec,-lrapidcheck,$(HOSTEXEC_OBJS)))
$(B)/bin/c12: gen/x86db.h gen/x86inst.h hostexec/msc.h
$(B)/gen/c12_x86_extra.txt: gen/dump_c12_x86.js $(REPO)/db/isa_x86.json $(REPO)/db/x86.js $(REPO)/db/base.js
	@mkdir -p $(B)/gen
	node gen/dump_c12_x86.js $(REPO) $@ > /dev/null
$(B)/gen/a64_lists.txt: gen/dump_a64_lists.js $(REPO)/db/isa_aarch64.json $(REPO)/db/aarch64.js $(REPO)/db/base.js
	@mkdir -p $(B)/gen
	node gen/dump_a64_lists.js $(REPO) $@ > /dev/null
