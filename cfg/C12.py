_EXEC = dict(
    name="host-execution + consecutive-run reports", harness="c12",
    make=["build/bin/c12", "build/gen/x86_forms.txt", "build/gen/c12_x86_extra.txt", "build/gen/a64_lists.txt"],
    quick=dict(cases=40000, max_size=100, workers=16, extra_args=["--reps=16", "--states=16", "--encreps=2", "--encstates=3"]),
    thorough=dict(cases=640000, max_size=100, workers=16, extra_args=["--reps=240", "--states=48", "--encreps=24", "--encstates=12"], timeout=7200),
)
_TABLEGEN = dict(
    name="tables vs ISA database (tablegen regeneration diff)", harness="c12", runner="custom", module="c12_tablegen", replay_match=r"tablegen-diff",
    make=[], quick=dict(), thorough=dict(),
)
PROP = dict(
    harness="c12", level="exploration",
    parts=[_EXEC, _TABLEGEN],
    rule=("deterministic sweep: every form of the x86 ISA database (db/isa_x86.json expanded by db/x86.js, dumped at check time) outside the documented exclusion "
          "list x R register/memory assignments (registers incl. high ids, AH..BH, same-register forms, fixed/implicit registers passed explicitly in DB order; "
          "memory operands [base+disp], [base+index*scale+disp], [index*scale+disp32], [disp32], [rip+disp], 32-bit address size, VSIB with small index vectors, "
          "{1toN}, {k}{z}{er}{sae}) is assembled as `inst; ret` and run on the host CPU from N pseudo-random machine states (all GPRs, status flags + DF, zmm0-31, "
          "k0-7, 8 KiB guarded scratch memory); every changed GP byte / vector or mask register / flag / scratch byte must be covered by query_rw_info (GP: "
          "write|extend byte masks, zero-extension bytes zero), every operand / memory / flag set not reported as read is perturbed in a second run and must not "
          "influence any result, SIGILL is allowed only when query_features names a feature the host lacks, some ISA-database form of the mnemonic in the emitted encoding "
          "class (first bytes C4/C5 = VEX, 62 = EVEX, 8F = XOP, else legacy) that admits the operands (operand kinds, register classes, memory/broadcast sizes, registers "
          "16-31 and {k}{z}{er}{sae} only where the form has them) must have all its extensions reported by query_features, and every kRegMem operand of a register-only "
          "instance is replaced by an rm_size-byte memory operand (validate + assemble + same results). Encoding-selection sweep: every VEX and EVEX form of every mnemonic "
          "that has both encodings in the database (348 mnemonics, ~1,500 executable forms) x the applicable shapes {plain: registers 0-15 without decoration, one vector "
          "register 16-31, {k}, {k}{z}, {1toN}, {er}|{sae}; gather/scatter forms as instantiated} x the assembler's encoding options {none, {vex3}, {vex}, {evex}} (all 8 "
          "option sets for the plain shape, and for every shape of the 7 'prefer EVEX' instructions vpdpbusd/vpdpbusds/vpdpwssd/vpdpwssds/vpmadd52luq/vpmadd52huq/"
          "vcvtneps2bf16), options given to the assembler and to both queries, judged like above against the encoding really emitted and executed in 3 (quick) / 12 "
          "(thorough) states; combinations the assembler refuses or that no database form of the emitted encoding admits are counted and not executed. Then "
          "rapidcheck-generated (form, choices, state seed, 30%: encoding option x shape) cases. Plus: every "
          "x86 form with a `reg+N` operand and every AArch64 form with an Nx{...} register list (dumped from db/isa_aarch64.json) must report the run through "
          "consecutive_lead_count/kConsecutive; plus one regeneration of the instruction tables (tools/tablegen-x86.js, tablegen-a64.js) on a scratch copy, which must "
          "be byte-identical. Non-trivial = a form x assignment executed without fault in >= 8 states (encoding-selection cases: in min(8, encstates) states; or a run form "
          "that reached a verdict); distinct = distinct case text"),
    assumptions=["the host CPU (Sapphire Rapids class: AVX-512 incl. FP16/VNNI/BF16/VBMI2/GFNI/VAES, no AVX10.2/APX/AMX permission) implements the ISA; results the SDM leaves undefined "
                 "(flags marked U in the ISA database, OF of multi-bit rotates/shifts, AF of shifts, bsf/bsr destination for a zero source) are not compared",
                 "implicit operands are passed explicitly in ISA-database order (AsmJit's documented explicit forms); registers the API cannot name (vzeroupper, xlatb, MXCSR, x87/MMX state, stack pointer of push/pop) are excluded and counted",
                 "vector and mask registers are judged per register operand (the property names byte masks only for general-purpose registers); reads are judged per operand flag, as the register allocator uses them",
                 "memory writes are judged as 'some memory operand is reported as written' (the API has no address range)",
                 "for the feature cross-check AVX512_F is taken to imply AVX2/AVX/FMA/F16C and AVX2 to imply AVX; AVX512_VL is not required for 512-bit or {er}/{sae} forms; reporting more features than the database form needs is counted (features_superset_of_a_db_form), not flagged",
                 "{vex}/{vex3}/{evex} are hints (inst.h: 'if possible' / 'when both VEX|EVEX prefixes are available'): the oracle is the prefix the assembler emitted, not the option; a kRegMem replacement that changes the encoding under {vex} (register 16-31 replaced) and then needs a feature the host lacks is counted, not flagged",
                 "AArch64 read/write information cannot be executed here and the database's AArch64 access letters are name-derived (wrong for casp), so only register runs are checked for AArch64",
                 "rep-prefixed string instructions, lock/xacquire/xrelease prefixes and segment overrides are not generated here (encoding: C01)"],
)
META = dict(
    engine="rapidcheck + deterministic sweep; host CPU execution (hostexec/msc); node (ISA database, tablegen)",
    technique="differential testing against the processor: execute each instruction form from random machine states and compare every changed / influencing location with the reported read/write information; metamorphic reg<->mem replacement; database walk for register runs; regeneration diff for the tables",
    level_text=("Exploration: every executable x86-64 ISA-database form (about 3,300 forms after the documented exclusions) x 8 (quick) to 48 (thorough) operand assignments x 16-48 machine "
                "states plus one perturbation run per location not reported as read and one register/memory pair per kRegMem operand; about 200 AArch64 register-list forms and the "
                "x86 `reg+N` forms are checked through the API; the generated tables are regenerated once. Not a proof: machine states and operand assignments are sampled; APX, AVX10.2, "
                "AMX, x87/MMX, privileged, control-flow, stack and system instructions are excluded (counted per class)."),
    level_note="Trusts the host CPU, hostexec/msc (state load/capture trampoline), the ISA database for operand lists/undefined flags/per-form extension lists, and about 1100 lines of harness (operand construction, form admission, coverage/compare logic).",
    design_ref="DESIGN.md section 4, C12",
)
