$(eval $(call HARNESS,c13,asan,,-lrapidcheck $(ORACLE_LD),$(B)/oracle/llvm_mc.o $(B)/oracle/opc.o))
$(B)/bin/c13: gen/x86db.h gen/x86inst.h gen/x86tmpl.h
