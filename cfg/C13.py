PROP = dict(
    harness="c13", level="exploration",
    make=["build/bin/c13", "build/gen/x86_forms.txt"],
    quick=dict(cases=2400000, max_size=100, workers=16),
    thorough=dict(cases=60000000, max_size=100, workers=16, timeout=7200),
    rule=("deterministic sweep: every x86 ISA-DB form x {32,64}-bit mode x 3 canonical instantiations (allowed mode: InstAPI::validate(), strict assembler and "
          "non-validating assembler must agree on success and bytes, and a form on the vendored accepted list must still be accepted; excluded mode: must be "
          "refused unless another form of the mnemonic admits the operands), every x86 and AArch64 instruction id and every DB alias for the name round trip "
          "(exhaustive) with 6 mutated strings each; then rapidcheck cases incl. near-miss mutations (operand swap, register class / memory size one class off, "
          "illegal {k}{z}{er}{sae}, illegal lock): an accepted near miss must be a DB form or be known to LLVM MC. Non-trivial = a case that reached a verdict "
          "(accepted+compared, refused as required, or round-tripped)"),
    assumptions=["db/isa_x86.json defines which forms exist per mode", "data/c13_accepted_x86.txt is the acceptance list of the pinned tree",
                 "AArch64 has no operand validator (validate() is a stub), so only its name round trip belongs to this check; AArch64 form acceptance is covered by C02"],
    exhaustive_capable=False,
)
META = dict(
    engine="rapidcheck + deterministic sweep",
    technique="differential testing of validator vs encoder vs ISA database over generated forms and near-miss mutations; exhaustive name round trip",
    level_text=("Exploration: all DB forms in both modes (3 instantiations) + tens of thousands of generated instances and near-miss mutations per run; the "
                "instruction-name round trip is enumerated exhaustively over all ids and aliases. Known validator weaknesses are keyed individually."),
    level_note="Trusts the DB, the operand-admission predicate in gen/x86tmpl.h and LLVM MC as the arbiter for accepted near misses.",
    design_ref="DESIGN.md section 4, C13",
)
