$(eval $(call HARNESS,fuzz_c14_x86,fuzzrel,-fsanitize=fuzzer,$(ORACLE_LD),$(B)/oracle/llvm_mc.o))
$(eval $(call HARNESS,fuzz_c14_a64,fuzzrel,-fsanitize=fuzzer,$(ORACLE_LD),$(B)/oracle/llvm_mc.o))
