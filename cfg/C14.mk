$(eval $(call HARNESS,fuzz_c14_x86,fuzzrel,-fsanitize=fuzzer,$(ORACLE_LD),$(B)/oracle/llvm_mc.o))
