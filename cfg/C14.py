PROP = dict(
    level="exploration",
    parts=[dict(
        name="libFuzzer x86-32/x86-64 (Assembler/Builder/Compiler, arbitrary ids/options/operands, three error-handler kinds)",
        runner="custom", module="run_libfuzzer", target="fuzz_c14_x86", property="C14",
        make=["build/bin/fuzz_c14_x86"], regress="regress/C14", corpus="data/corpus/c14_x86",
        quick=dict(runs=30000, workers=16, max_len=256, timeout=1200),
        thorough=dict(runs=3000000, workers=16, max_len=512, timeout=7200),
    )],
    rule=("coverage-guided libFuzzer campaigns (16 processes, half starting from an empty corpus and half from a small seed corpus): bytes are decoded by "
          "FuzzedDataProvider into scripts of up to 24 public-API calls on an x86 Assembler / Builder / Compiler with strict validation: arbitrary "
          "instruction id (incl. out of range), any combination of defined InstOptions bits, arbitrary extra register, 0..6 operands of arbitrary "
          "kind built through public constructors/setters (any RegType and id, memory operands with any base/index/label/absolute/segment/broadcast/"
          "address type, immediates, valid and invalid label ids), interleaved with valid instructions and bind/align/embed/embed_label(_delta)/"
          "new_named_label/new_section/section/comment given valid and invalid arguments; error handler none/recording/throwing. The oracle inside the "
          "target checks every call (see props/fuzz_c14_x86.cpp). Non-trivial = a script with >=1 failed call followed by >=1 successful call; "
          "distinct = distinct input bytes"),
    assumptions=["NDEBUG + ASan + UBSan flavour (what users ship); undefined InstOptions bits (0x10000000, 0x20000000, 0x00100000, 0x8) are outside the typed API and not generated",
                 "a libFuzzer campaign is only approximately reproducible from -seed; the saved artifact is the reproducible unit",
                 "AArch64 invalid-input handling is exercised by C02's near-miss stream (values one step outside every range), not by a fuzz target yet"],
)
META = dict(
    engine="libFuzzer (clang -fsanitize=fuzzer,address,undefined), structure-aware decoding, semantic oracle in the target",
    technique="coverage-guided fuzzing with an in-target state-invariance oracle and LLVM MC decoding of accepted instructions",
    level_text=("Exploration: ~2M (quick) to ~50M (thorough) generated call scripts per run; every failed call is checked for return value, handler "
                "invocation, unchanged holder state and cleared one-shot state, every accepted instruction for decoding to whole instructions, and a probe "
                "program for independence from the history; sanitizers turn memory errors and UB into failures."),
    level_note="Trusts LLVM MC for decoding accepted bytes and the ~150-line oracle in the target; crash artifacts are replayed before being reported.",
    design_ref="DESIGN.md section 4, C14",
)
