PROP = dict(
    level="exploration",
    parts=[dict(
        name="libFuzzer x86-32/x86-64 (Assembler/Builder/Compiler, arbitrary ids/options/operands, three error-handler kinds)",
        runner="custom", module="run_libfuzzer", target="fuzz_c14_x86", property="C14",
        make=["build/bin/fuzz_c14_x86"], regress="regress/C14", corpus="data/corpus/c14_x86",
        fuzz_args=["-verbosity=0"],   # the runner drains the workers' stderr pipes one after the other: progress lines would stall the other 15 workers
        quick=dict(runs=100000, workers=16, max_len=256, timeout=1200),
        thorough=dict(runs=3000000, workers=16, max_len=512, timeout=7200),
    ), dict(
        name="libFuzzer AArch64 (Assembler/Builder/Compiler, database shapes with operand kinds kept and every id/element/shift/extend/offset/immediate/label perturbed)",
        runner="custom", module="run_libfuzzer", target="fuzz_c14_a64", property="C14",
        make=["build/bin/fuzz_c14_a64", "build/gen/a64_templates.txt"], regress="regress/C14a",
        fuzz_args=["-verbosity=0"],
        quick=dict(runs=60000, workers=16, max_len=256, timeout=1200),
        thorough=dict(runs=2000000, workers=16, max_len=512, timeout=7200),
    )],
    rule=("coverage-guided libFuzzer campaigns (16 processes, half starting from an empty corpus and half from a small seed corpus): bytes are decoded by "
          "FuzzedDataProvider into scripts of up to 24 public-API calls on an x86 Assembler (strict) / Builder / Compiler (DiagnosticOptions generated: "
          "kValidateAssembler|kValidateIntermediate, kValidateIntermediate, kValidateAssembler, none): arbitrary "
          "instruction id (incl. out of range), any combination of defined InstOptions bits, arbitrary extra register, 0..6 operands of arbitrary "
          "kind built through public constructors/setters (any RegType and id - physical, the boundaries 31/32/254/255/256/0xFFFFFFFE.., and the "
          "virtual range >= Operand::kVirtIdMin for register operands, memory bases, memory indexes and the extra register; memory operands with any "
          "base/index/label/absolute/segment/broadcast/"
          "address type, immediates, valid and invalid label ids), interleaved with valid instructions and bind/align/embed/embed_label(_delta)/"
          "new_named_label/new_section/section/comment given valid and invalid arguments; error handler none/recording/throwing. The oracle inside the "
          "target checks every call (see props/fuzz_c14_x86.cpp); for a Builder / Compiler every accepted call is repeated on a strict shadow Assembler: "
          "with kValidateIntermediate an accepted instruction must pass InstAPI::validate() the way the Assembler calls it and carry no virtual-range id "
          "(Builder), a rejected call leaves node list / cursor / flags / options untouched, and serialising the nodes (finalize(), or serialize_to a strict "
          "Assembler) must fail iff the shadow rejected an accepted call and otherwise give the shadow's bytes, label offsets and relocation counts. "
          "AArch64 (second target, props/fuzz_c14_a64.cpp): scripts over the 3,199 operand shapes of the instruction database with the operand kinds kept and every register id "
          "(0..40, boundaries 31/32/62/63/64/255/256, virtual range, arbitrary words), element type / index, shift / extend kind and amount, offset, offset mode, immediate, condition code "
          "and label id perturbed; label forms (b, bl, b.cond, cbz, cbnz, tbz, tbnz, adr, adrp, ldr/ldrsw/prfm literal) with valid and invalid label ids; same state-invariance oracle, plus: an "
          "accepted instruction appends whole words, names no register id outside the register file, gives the same word on a fresh Assembler, and a Builder/Compiler script serialises to "
          "exactly the bytes of a shadow Assembler or fails iff the shadow rejected a call. "
          "Non-trivial = a script with >=1 failed call followed by >=1 successful call; "
          "distinct = distinct input bytes"),
    assumptions=["NDEBUG + ASan + UBSan flavour (what users ship); undefined InstOptions bits (0x10000000, 0x20000000, 0x00100000, 0x8) are outside the typed API and not generated",
                 "arbitrary operand kinds are in the property's domain only with strict validation: every Assembler that encodes (the emitter itself, the shadow, the one behind "
                 "finalize()) validates; a Builder without kValidateAssembler is serialised to a strict Assembler with serialize_to() instead of finalize()",
                 "an instruction that InstAPI::validate() admits and only the encoder refuses (e.g. Inst::kIdNone, string instructions without operands, REX options in 32-bit mode) "
                 "is C13's validator/encoder disagreement: counted as validated_but_encoder_rejects:<error>, the serialisation then has to fail",
                 "Builder/Assembler bytes are compared for single-section scripts (a Builder groups nodes by section); a Compiler is compared only while no virtual-range id was "
                 "accepted (no functions are created, so its register allocator never runs); calls naming a label that is created later are not judged",
                 "a libFuzzer campaign is only approximately reproducible from -seed; the saved artifact is the reproducible unit",
                 "AArch64 target: operand KINDS follow a database shape (the typed overloads enforce them; pairing operands with an instruction id of another kind is outside the "
                 "property's domain) - the instruction id is the one that accepts the shape's own example, or an id that names no instruction; `mov Rd, #imm` may append up to four words "
                 "(documented macro); bind() returning kInvalidDisplacement has bound the label and resolved what it could (documented behaviour of CodeHolder::bind_label): fixups may only go down",
                 "AArch64 'accepted a register id outside the register file' is judged on the operands actually passed (GP: 0..31 and 63, vector: 0..31; virtual-range ids are never acceptable to an Assembler)"],
)
META = dict(
    engine="libFuzzer (clang -fsanitize=fuzzer,address,undefined), structure-aware decoding, semantic oracle in the target",
    technique="coverage-guided fuzzing with an in-target state-invariance oracle and LLVM MC decoding of accepted instructions",
    level_text=("Exploration: ~1.6M (quick) to ~50M (thorough) generated call scripts per run; every failed call is checked for return value, handler "
                "invocation, unchanged holder / builder state and cleared one-shot state, every accepted instruction for decoding to whole instructions, every "
                "call a Builder or Compiler accepts against a strict Assembler (per call and after serialisation, byte for byte), and a probe "
                "program for independence from the history; sanitizers turn memory errors and UB into failures."),
    level_note=("Trusts LLVM MC for decoding accepted bytes and the ~300-line oracle in the target; crash artifacts are replayed before being reported. "
                "Seed / regress inputs are written by tools/c14_mkseeds.py (an encoder for the target's byte format)."),
    design_ref="DESIGN.md section 4, C14",
)
