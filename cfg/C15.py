PROP = dict(
    harness="c15", level="fault_enumeration", exhaustive_capable=True,
    quick=dict(cases=3200, max_size=60, workers=16, extra_args=["--instances=2"]),
    # LeakSanitizer's per-plan check walks every chunk including the quarantined ones: a small quarantine keeps it cheap (a stale arena
    # block is used or released again within the same plan, long before 32 MiB of later frees push it out)
    env=dict(ASAN_OPTIONS="detect_leaks=1:abort_on_error=0:exitcode=99:allocator_may_return_null=1:detect_stack_use_after_return=0:quarantine_size_mb=32"),
    thorough=dict(cases=96000, max_size=90, workers=16, timeout=7200, extra_args=["--instances=16", "--lsan=8"]),
    rule=("one case = (workload, instantiation, fault plan). Workloads: W1 x86-64/AArch64 Assembler with labels, 1-3 sections, "
          "embed_label/embed_label_delta/absolute call+jmp (relocations, address table), const pool, flatten, resolve_cross_section_fixups, "
          "relocate_to_base, copy_flattened_data (also after reinit()); W2 the same programs through x86/a64 Builder + finalize; W3 x86/a64 "
          "Compiler functions with 3-32 virtual registers (spills), loops, branches, invoke, constants, stack slots, finalize; W4 "
          "JitRuntime::add/release, JitAllocator alloc/write/shrink/release/query with option sets, VirtMem alloc/protect/dual mapping; W4 variant 3 "
          "(ADD WINDOW): 2-5 generated x86-64 functions per runtime (absolute call/jmp -> address table, 1-4 sections, cross-section references, "
          "embed_label jump tables, embed_label_delta tables with expression relocations, const pools, blobs up to 70000 bytes) are added to a "
          "JitRuntime created with one of ten allocator option sets (single/dual mapping, multiple pools, fill, immediate release, no initial "
          "padding, combinations); ONLY the requests made inside JitRuntime::add() are fault points - every heap and every virtual-memory position "
          "of the fixed instantiations is enumerated, plus every pair of heap positions, heap x vm pairs, periodic and persistent plans. A failed "
          "add() must return a null pointer and leave the allocator statistics exactly as before the call (a block created for the request may "
          "stay as the pool's one empty block); it is repeated without faults (same holder / rebuilt holder) and must succeed; every installed "
          "function is decoded (absolute targets reached directly or through an address-table slot), compared with the holder's sections and "
          "CALLED (6 arguments) against the model of its program; after releasing everything allocation_count is 0; "
          "W5 ArenaVector/ArenaHash/ArenaString/String/ConstPool/ArenaBitSet/Arena::dup sharing one Arena. HISTORIES (W1-W3, W5; cfg[8]): "
          "generation A (a prefix of the program) -> soft reset (CodeHolder::reset(kSoft)+init+attach or CodeHolder::reinit(); W5: every "
          "container reset + Arena::reset(kSoft)) -> larger generation B on the SAME objects, all inside the fault window, optionally with "
          "growing requests (Builder/Compiler embed() of 135000 -> 270000 -> 530000 bytes = node-arena requests larger than the kept block, "
          "long named labels, a growing ConstPool, W5 alloc_oneshot of 3x/5x/7x the block size); W5 also has history STEPS (soft reset, "
          "alloc_oneshot/alloc_oneshot_zeroed/dup/ArenaString of 1 KiB-400 KB incl. 'twice the largest so far', ConstPool/ArenaVector/ArenaHash "
          "growth bursts). CONTINUE WINDOWS (W1-W3; cfg[7] bit 1): a stream of instructions most of which carry one-shot emitter state "
          "(x86: lock, rep/repne, short/long form, {k1}..{k7}, {z}, {sae}, {er} where valid for the instruction, inline comments; through the "
          "Compiler a virtual {k} register; AArch64: inline comments), with 'burn' steps that exhaust the current node-arena block / section "
          "buffer in front of an instruction; an instruction call that returns kOutOfMemory is SURVIVED (caller continues, as an application "
          "with a logging error handler does), every other call still stops at its first error; every arena and heap position inside the "
          "window is enumerated, plus periodic plans (requests lo+i, lo+i+p, ... fail; p = 2,3,4,5,7) that fail many calls of one run. Judged: "
          "emitter state clean right after every failed call, output (bytes + node list with options/extra register/operands/comments) == "
          "never-faulted run of the program minus exactly the failed calls, no later error without a new fault. Fault plans: the k-th arena "
          "request (hook H1), the k-th malloc/realloc/calloc, the k-th mmap/mprotect/ftruncate/memfd_create/shm_open (linker --wrap) - "
          "enumerated for EVERY k of fixed instantiations (for the fixed histories: every heap k of the whole history, every arena k of the "
          "post-reset phase, 'every request after the soft reset fails'), plus 'every request from k on', 'every request issued by one function' and "
          "random multi-failure plans on generated instantiations. A case is non-trivial when its fault was actually injected and made "
          "an API call return an error; distinct = distinct case text"),
    assumptions=["ASan+UBSan build with ASMJIT_ASSERT active; -DASMJIT_VERIF arena hook H1 (add-only) is the only change to the library",
                 "heap / virtual-memory faults are injected only into calls made from AsmJit's own objects (linker --wrap); libc/libstdc++ internals never fail",
                 "W4 variant 3 executes the code installed by JitRuntime::add() in the worker process (after the image was compared with the holder's sections and every absolute call/jmp was decoded); a semantic failure of its FAULT-FREE reference run is reported (w4-faultfree-*), not skipped",
                 "after a failed JitRuntime::add() adding the same CodeHolder again is in the domain (allocation failures happen before relocate_to_base() patches anything); half of the instantiations rebuild the holder instead",
                 "every AsmJit return value is checked and the workload stops at the first error (a 'continue after every error' mode exists for W1/W5 where every later call validates its arguments; the continue window of W1-W3 survives only kOutOfMemory of its instruction calls)",
                 "an inline comment whose copy cannot be allocated is dropped by BaseBuilder::_emit while the call returns kOk: treated as a lost annotation (counted, modelled), not as wrong code",
                 "process-wide one-time probes of virtmem.cpp (hardened runtime, memfd/shm strategy) are warmed up before faults are armed",
                 "a faulted run that reports success must produce byte-identical output; constant-pool layout in W5 is judged by content (a failed gap record legitimately changes the layout)",
                 "arena integrity is read from the public members Arena::_first_block/_dynamic_blocks: every listed block must be a live block obtained through the wrapped malloc (checked after the faulted run and after the re-run, before anything is destroyed)",
                 "ASan quarantine is 32 MiB (LeakSanitizer's per-plan check walks quarantined chunks): a stale block is re-used or released again within the same plan"],
)
META = dict(
    engine="rapidcheck + deterministic enumeration (vh_enum)",
    technique="fault injection: arena hook + linker-wrapped malloc/realloc/calloc/mmap/mprotect/ftruncate/memfd_create; enumeration of every fault position + generated multi-failure plans",
    level_text=("Fault enumeration: for fixed instantiations of each of the five workloads (both architectures, four JIT allocator option sets; ten for the JitRuntime::add() window) "
                "EVERY arena, heap and virtual-memory request position k of a clean run is failed once (exhaustive for those instantiations), "
                "plus persistent failures per requesting function and from position k on; rapidcheck adds generated instantiations x random "
                "single/multi-failure plans. Histories put a soft reset / reinit and the re-emission of a larger program into the fault window "
                "(arenas with kept blocks meet requests that exceed them while malloc fails). Each plan is judged by: no crash/ASan/UBSan/assert/"
                "exception; every arena references only live heap blocks; error reported or byte-identical "
                "output; reset + fault-free re-run on the SAME objects byte-identical to a never-faulted run; no leaked heap block, mapping or "
                "descriptor (own accounting of wrapped calls) and a clean LeakSanitizer recoverable check after every plan."),
    level_note=("Exhaustive only for the enumerated instantiations (exhaustive=true in the evidence means that share was completed). Equivalence of "
                "differently laid out but correct code is not judged (any difference in a successful run is reported). Failures of munmap/close and "
                "of libc-internal allocations are not modelled; the one-time virtmem probes are excluded by warm-up."),
    design_ref="DESIGN.md section 4, C15; section 7 rows 8, 9",
)
