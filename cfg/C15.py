PROP = dict(
    harness="c15", level="fault_enumeration", exhaustive_capable=True,
    quick=dict(cases=1600, max_size=60, workers=16),
    thorough=dict(cases=40000, max_size=90, workers=16),
    rule="tbd",
    assumptions=[],
)
META = dict(engine="rapidcheck", technique="fault injection", level_text="tbd", level_note="tbd", design_ref="DESIGN.md section 4, C15")
