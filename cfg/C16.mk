# name, flavour, extra cxxflags, extra ldflags, extra objects
# malloc/realloc/free of AsmJit are wrapped by the harness (heap perturbation).
C16_WRAP := -Wl,--wrap=malloc,--wrap=realloc,--wrap=free
$(eval $(call HARNESS,c16,asan,,-lrapidcheck $(C16_WRAP),))
$(B)/bin/c16: gen/x86db.h gen/x86inst.h
