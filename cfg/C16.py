PROP = dict(
    harness="c16", level="exploration",
    make=["build/bin/c16", "build/gen/x86_forms.txt"],
    quick=dict(cases=40000, max_size=60, workers=16),
    thorough=dict(cases=1600000, max_size=120, workers=16, timeout=3600),
    rule=("placeholder"),
    assumptions=[],
)
META = dict(engine="rapidcheck", technique="", level_text="", level_note="", design_ref="DESIGN.md section 4, C16")
