PROP = dict(
    harness="c16", level="exploration",
    make=["build/bin/c16", "build/gen/x86_forms.txt"],
    quick=dict(cases=160000, max_size=60, workers=16),
    thorough=dict(cases=2600000, max_size=80, workers=16, timeout=3600),
    # ASan's stack depot grows without bound with rapidcheck's deep, ever-changing generator stacks (2 GB per worker after ~80k cases with the
    # default 30-frame malloc contexts): keep allocation contexts short and the quarantine small.
    env=dict(ASAN_OPTIONS="detect_leaks=1:abort_on_error=0:exitcode=99:allocator_may_return_null=1:detect_stack_use_after_return=0:malloc_context_size=8:quarantine_size_mb=64"),
    rule=("a case = cfg [arch x64|x86|a64, emitter kind Assembler|Builder|Compiler, flags: logger / strict validation / perturbed heap / static "
          "arena buffer / RA debug logging, final step reset(soft)|reset(hard)|reinit, object mix (both recycled | recycled holder + fresh "
          "emitter | fresh holder + recycled emitter), encoding options, flatten+relocate] + a HISTORY of ops applied to one long-lived "
          "CodeHolder and six long-lived emitters (init(arch, base, cpu features), attach, generate(P_i) with or without finalize / "
          "flatten+relocate, 15 kinds of swallowed errors, reset soft/hard, reinit, detach, detach+re-attach, dangling instruction "
          "options/extra register/inline comment, logger on/off) + the final program P_final (instructions from a fixed table and from the "
          "x86 ISA database, anonymous/named/local/external labels, binds, forward/backward jumps, align, embedded data, embed_label / "
          "embed_label_delta relocations, absolute jumps (address table), label memory operands, extra sections, const pools, bulk "
          "labels/relocations that cross arena blocks; for the Compiler also functions over virtual registers with arguments, arithmetic, "
          "stack slots, local/global constants, loops, forward branches, invokes, annotated indirect jumps). The state of the holder after "
          "P_final on the recycled objects (section table, bytes, layout, labels + fixup chains, named-label lookups, relocations incl. "
          "decoded expressions, cross-section fixups, counters, results of every emitter call, Builder/Compiler node list, "
          "flatten/relocate image, error-handler messages, logger text) must equal that of fresh objects with the same flags, which in "
          "turn must equal plain fresh objects; after every reset()/detach() the holder / emitter must look default-constructed; the "
          "attached-emitter list must stay consistent; a function compiled after another one by the same Compiler must equal the function "
          "compiled alone. Non-trivial = a generation that left a non-empty holder or emitter is followed by reset/reinit/detach+attach "
          "and P_final is non-empty; distinct = distinct case text. A deterministic sweep of 486 (arch x kind x final step x mix x flag set) "
          "cases runs first."),
    assumptions=["ASan+UBSan build with ASMJIT_ASSERT active; malloc/realloc/free of AsmJit wrapped by the harness (--wrap) to perturb padding and fill bytes",
                 "API domain enforced by construction (header docs / assertions): no fixup-creating reference to a label bound in another section, "
                 "finalize() once per Builder/Compiler per initialisation, flatten()/relocate_to_base() once per initialisation, Builder labels bound once, "
                 "no emitter is used for generation while detached (only the documented kNotInitialized error path is exercised)",
                 "reinit() keeps environment, CPU features, base address, logger, error handler and attached emitters (header documentation); the fresh reference is initialised with the same values",
                 "diagnostic/encoding options are user settings that persist by design and are set identically on fresh and recycled emitters",
                 "error-message text may differ between logger on/off (RA annotations); it is only compared between runs with equal flags"],
)
META = dict(
    engine="rapidcheck + deterministic sweep; malloc wrapper; ASan/UBSan/LSan",
    technique="differential property-based testing: recycled objects after a generated history vs. fresh objects, under logger/validation/heap/arena variations",
    level_text=("Exploration: tens of thousands (quick) to millions (thorough) of generated histories over Assembler/Builder/Compiler for x86-64, x86-32 and "
                "AArch64 end with the same final program on recycled and on fresh objects; every observable part of the CodeHolder, the results of all "
                "emitter calls, the node list, the flattened/relocated image, error messages and logger text are compared byte for byte; fresh runs with "
                "logger / validation / perturbed heap / static arena are compared with a plain fresh run; invariants of reset and detached objects and "
                "the attached-emitter list are checked after each history op. Not a proof: absence of failures in the explored histories."),
    level_note=("Trusts the harness (~1500 lines) and the sanitizers. Memory growth (an arena that is not rewound on soft reset) and equivalent block-size "
                "changes are invisible by design (output must not depend on them). Two genuine findings are recorded as known and excluded by construction "
                "(histories avoid jump annotations; an emitter-owned error handler left by run_passes() is dropped before the final program)."),
    design_ref="DESIGN.md section 4, C16",
)
