# name, flavour, extra cxxflags, extra ldflags, extra objects
$(eval $(call HARNESS,c17,asan,-O2,-lrapidcheck,))
