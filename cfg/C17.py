PROP = dict(
    harness="c17", level="exploration", exhaustive_capable=True,
    quick=dict(cases=8000, max_size=100, workers=8),
    thorough=dict(cases=64000, max_size=100, workers=16),
    rule=("TBD"),
    assumptions=[],
)
META = dict(engine="bounded-exhaustive + rapidcheck", technique="TBD", level_text="TBD", level_note="TBD", design_ref="DESIGN.md section 4, C17")
