PROP = dict(
    harness="c17", level="exploration", exhaustive_capable=True,
    # The deterministic enumeration (vh_enum: ~4.5k sweep items quick, ~30k thorough, item i -> worker i mod workers) runs before
    # the generated cases and does not count against `cases`; `cases` is only the random tail (explicit values / random blocks).
    quick=dict(cases=96000, max_size=100, workers=16),
    thorough=dict(cases=640000, max_size=100, workers=16),
    rule=("(a) every OffsetFormat the back ends construct (x86 rel8/rel32/abs32 with leading+trailing bytes, data 1/2/4/8 signed and unsigned, "
          "AArch64 imm26/imm19/imm14 x4, ADR, ADRP) plus the Thumb/A32/T16 formats of fixup.h: for every offset the target word is pre-filled with "
          "hash-derived bits (field zero), write_offset + encode_offset32/64 are called and an independent architecture decoder must recover "
          "exactly the offset with all other bits/bytes unchanged, or the call must fail exactly when the format cannot hold the offset; fields up to "
          "26 bits (quick) / 32 bits (thorough) are swept exhaustively over range + 1024 units outside each end and all discarded-low-bit patterns, "
          "wider ones on boundary windows + random blocks. (b) all (N,immr,imms) of DecodeBitMasks for 64/32 bit and every value one bit away, through "
          "encode_logical_imm and through and/orr/eor/ands/tst/bic/orn/eon/bics; all 256 fp8 immediates per precision, all 65536 fp16 patterns, "
          "neighbours, through fmov scalar/vector; mov Xd/Wd/sp,#imm evaluated by an interpreter of MOVZ/MOVN/MOVK/ORR; add/sub/cmp/cmn immediates "
          "around 2^12 and 2^24 with explicit shifts; 15 bitfield/shift/extract aliases x (lsb,width) 0..70 judged by executing the encoding; b/bl/b.cc/"
          "cbz/tbz/adr/adrp/ldr-literal to labels (bound earlier, later, other section) decoded end to end. A case is non-trivial when at least one value "
          "was accepted and decoded (sweeps) or judged (immediates); distinct = distinct case text (sweep item or explicit value list)"),
    assumptions=["ASan+UBSan build with ASMJIT_ASSERT active",
                 "the offset field is zero before patching (write_offset ORs the field in; every emitter writes zeros first)",
                 "Thumb/A32 formats are not constructed by any back end of this tree: their parameters (bit count, multiplier) are taken from the fixup.h documentation",
                 "INT64_MIN is not passed to sign+magnitude formats (`-offset64` overflows; cannot arise from 64-bit section layouts)",
                 "mov-wide sequences are judged for the value left in the register, not for minimal length"],
)
META = dict(
    engine="bounded-exhaustive enumeration + rapidcheck",
    technique=("exhaustive sweep of displacement fields against decoders written from the Arm ARM / x86 layouts; exhaustive DecodeBitMasks / VFPExpandImm "
               "tables as membership oracles; interpreter of the emitted AArch64 words for mov/bitfield/extract; random tail for wide fields and 64-bit constants"),
    level_text=("Exploration with exhaustive parts: every offset format with a field of at most 26 bits (thorough: 32 bits for six of eight 32-bit formats) is "
                "checked for every offset in range and 1024 units beyond each end; all 5334+1302 logical immediates, all 3x256 fp8 immediates and all fp16 "
                "patterns are enumerated. 64-bit fields, the remaining 32-bit variants, A32 modified immediates, move-wide constants, add/sub and pc-relative "
                "distances are covered by boundary windows, structured enumerations and random values: absence of failures there is not a proof."),
    level_note=("Trusts the harness decoders (~600 lines written from the architecture manuals; cross-checked on out-of-range bitfield aliases with LLVM MC) and "
                "ASan/UBSan. `exhaustive: true` refers to the enumerated sweep items listed in the notes of the evidence file."),
    design_ref="DESIGN.md section 4, C17",
)
