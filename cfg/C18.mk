# name, flavour, extra cxxflags, extra ldflags, extra objects
$(eval $(call HARNESS,c18,asan,,-lrapidcheck,))
