PROP = dict(
    harness="c18", level="exploration",
    quick=dict(cases=160000, max_size=60, workers=16),
    thorough=dict(cases=1200000, max_size=120, workers=16),
    rule=("rapidcheck operation histories over SEVERAL containers sharing one Arena (plain or ArenaTmp static-buffer arena): raw "
          "alloc_oneshot/alloc_reusable/free_reusable/dup, ArenaVector<u32/12-byte/24-byte>, ArenaHash, ArenaTree, ArenaList, ArenaBitSet, "
          "bit-vector helpers, ArenaPool, ArenaString, String/StringTmp, soft/hard arena reset; every step is compared with std:: models "
          "and structural invariants; a case is non-trivial when it contains at least one growth/rehash/rotation AND at least one removal; "
          "distinct = distinct case text"),
    assumptions=["ASan+UBSan build with ASMJIT_ASSERT active", "malloc requests above 64 MiB fail (ASan max_allocation_size_mb) so that huge sizes are reported as errors",
                 "only calls inside the documented preconditions are generated (no index out of range, no pop on empty, unique tree keys)"],
)
META = dict(
    engine="rapidcheck",
    technique="property-based testing: generated multi-container operation histories vs. std:: reference models + structural invariants + live-region registry",
    level_text=("Exploration: generated histories drive all arena-backed containers and the String class on one shared arena; after every step the "
                "touched container is compared with its std:: model (vector, multimap, map, vector<bool>, string), red-black / hash-chain / list-link "
                "invariants are validated, and all live arena regions are checked for 8-byte alignment, pairwise disjointness and preserved byte "
                "patterns. Not a proof: absence of failures in the explored histories."),
    level_note="Trusts the harness models and ASan/UBSan; arena sub-allocations are invisible to ASan, overruns there are caught through the pattern/model comparison only.",
    design_ref="DESIGN.md section 4, C18",
)
