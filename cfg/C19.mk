# name, flavour, extra cxxflags, extra ldflags, extra objects
$(eval $(call HARNESS,c19,asan,,-lrapidcheck,))
