PROP = dict(
    harness="c19", level="exploration",
    quick=dict(cases=120000, max_size=80, workers=8),
    thorough=dict(cases=1600000, max_size=200, workers=16),
    rule=("rapidcheck sequences of ConstPool add(size in 1..64 valid and invalid; data from a small 4-byte-word alphabet so that "
          "equal constants and halves/quarters of wider ones recur) / fill / reset / embed_const_pool, judged by an explicit byte-image "
          "model; a case is non-trivial when an alignment gap was created AND a later constant was placed into a gap or shared with a "
          "wider constant; distinct = distinct case text"),
    assumptions=["ASan+UBSan build with ASMJIT_ASSERT active", "overlap is allowed only for nested power-of-two blocks with equal bytes (registered sub-constants)"],
)
META = dict(
    engine="rapidcheck",
    technique="property-based testing: generated add/fill/reset/embed histories vs. a byte-image reference model",
    level_text=("Exploration: tens of thousands (quick) to millions (thorough) of generated constant-pool histories are compared step by step "
                "with an explicit model (alignment, dedup, stability of earlier offsets, byte-exact fill, zero gaps, size/alignment cover, "
                "invalid sizes rejected without state change, embed_const_pool image and label). Not a proof: absence of failures in the "
                "explored histories."),
    level_note="Trusts the harness model (~150 lines) and ASan/UBSan; data alphabet is small by design to force sharing and gap reuse.",
    design_ref="DESIGN.md section 4, C19",
)
