$(eval $(call HARNESS,c20,asan,,-lrapidcheck $(ORACLE_LD),$(B)/oracle/llvm_mc.o $(B)/oracle/opc.o))
$(B)/bin/c20: gen/x86db.h gen/x86inst.h gen/a64inst.h oracle/textnorm.h
