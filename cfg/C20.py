PROP = dict(
    harness="c20", level="exploration",
    make=["build/bin/c20", "build/gen/x86_forms.txt", "build/gen/a64_templates.txt"],
    quick=dict(cases=640000, max_size=100, workers=16, extra_args=["--reps=16"]),
    thorough=dict(cases=8000000, max_size=100, workers=16, extra_args=["--reps=100"], timeout=7200),
    rule=("the C01 (x86-32/64 ISA-DB forms) and C02 (AArch64 templates) instance streams, each accepted instruction formatted with one of 6 FormatFlags sets "
          "through Formatter::format_instruction and through a StringLogger: (a) an independent inverse parser (architectural register-name tables) must "
          "recover mnemonic, prefixes, every register, memory size/segment/base/index/scale/displacement/broadcast, {k}{z}{er}{sae}, immediates (decimal and "
          "hex), shifts/extends, arrangements and lanes; (b) the logger line must carry the formatter text and a machine-code column equal to the bytes "
          "appended; (c) x86: the text is assembled by LLVM MC after a fixed normalisation and must decode like AsmJit's bytes. Non-trivial = an instruction "
          "with a memory operand, a decoration, a shift or a lane"),
    assumptions=["AsmJit's own syntax conventions are accepted as such (unnamed LSL, '{sae}' as trailing pseudo operand, 'st0', 'v1.4s[1]' lanes, raw numbers for "
                 "condition codes and FP immediates); injectivity, not style, is judged", "labels / virtual registers in operands are covered only by the "
                 "machine-code mask sub-check of C08/C14 harnesses, not here"],
)
META = dict(
    engine="rapidcheck + deterministic sweep; LLVM MC in-process",
    technique="round-trip property testing: inverse parser over formatter/logger text + independent reading of the text by LLVM MC",
    level_text=("Exploration: every x86 DB form (both modes) and every AArch64 template formatted under rotating flag sets per run plus generated cases; "
                "text is parsed back and compared operand by operand with the instruction given, and the machine-code column with the emitted bytes."),
    level_note="Trusts the harness parser (~250 lines) and LLVM MC for the independent reading.",
    design_ref="DESIGN.md section 4, C20",
)
