"""C06 part A — AsmJit's FuncDetail / CallConv versus the platform ABI, with clang as the executable ABI reference.

For every generated signature and ABI a C file with one leaf probe per argument (`void sKpI(args){ sink_T = aI; }`) and a return
probe (`T sKr(void){ return src_T; }`) is compiled with `clang --target=<triple> -O1 -S`; a small data-flow pass over the
assembly of each probe finds the *live-in* registers (read before written) and the stack slots read relative to the entry
stack pointer (prologue adjustments are tracked), i.e. where the compiler expects the argument.  `build/bin/c06_abi` prints
what FuncDetail says for the same signature.  Everything is a pure function of the seed.

Variadic signatures additionally get a caller-side probe (`void sKcx(void){ sKcallee(vsK_0, vsK_1, ...); }`, every argument its own
global): a forward data-flow pass over the caller finds, for EVERY argument, the register or the outgoing stack slot (relative to sp at
the call instruction) that holds it - this is how the unnamed arguments are located on all targets.  On Apple arm64 a callee that walks
its va_list with va_arg for the whole unnamed type sequence (`sKwx`) gives the callee-side view, and rule_unnamed_locations() is the
written ABI rule; AsmJit is judged against each reference, references that disagree among themselves are never used.

Custom-runner protocol: run(part, tier, seed, pdir, rep_dir, known_keys, log) / replay(part, path, known_keys).
"""
import os, re, sys, json, random, struct, subprocess, hashlib, fnmatch
from concurrent.futures import ThreadPoolExecutor

ROOT = os.path.dirname(os.path.dirname(os.path.abspath(__file__)))
HELPER = os.environ.get("C06_ABI_HELPER") or os.path.join(ROOT, "build/bin/c06_abi")
NCPU = os.cpu_count() or 4

# ------------------------------------------------------------------------------------------------------------------
# Types: name -> (asmjit TypeId, C type, size, class)      class: i (integer/pointer), f (float), v (vector)
# ------------------------------------------------------------------------------------------------------------------
TYPES = {}
def _t(name, tid, ctype, size, cls, **kw):
    TYPES[name] = dict(name=name, tid=tid, c=ctype, size=size, cls=cls, **kw)
_t("i8", 34, "signed char", 1, "i"); _t("u8", 35, "unsigned char", 1, "i")
_t("i16", 36, "short", 2, "i"); _t("u16", 37, "unsigned short", 2, "i")
_t("i32", 38, "int", 4, "i"); _t("u32", 39, "unsigned", 4, "i")
_t("i64", 40, "long long", 8, "i"); _t("u64", 41, "unsigned long long", 8, "i")
_t("iptr", 32, "__INTPTR_TYPE__", 0, "i"); _t("uptr", 33, "void*", 0, "i")       # size = pointer size of the target
_t("f32", 42, "float", 4, "f"); _t("f64", 43, "double", 8, "f")
_VEC_ELEMS = [("i8", "signed char", 1), ("u8", "unsigned char", 1), ("i16", "short", 2), ("u16", "unsigned short", 2), ("i32", "int", 4),
              ("u32", "unsigned", 4), ("i64", "long long", 8), ("u64", "unsigned long long", 8), ("f32", "float", 4), ("f64", "double", 8)]
for base, total in ((61, 8), (71, 16), (81, 32), (91, 64)):
    for k, (en, ec, es) in enumerate(_VEC_ELEMS):
        _t("%sx%d" % (en, total // es), base + k, "%s __attribute__((vector_size(%d)))" % (ec, total), total, "v")
# asmjit-only types (no C counterpart): used by the light-call consistency checks
_t("mask8", 45, None, 1, "k"); _t("mask16", 46, None, 2, "k"); _t("mask32", 47, None, 4, "k"); _t("mask64", 48, None, 8, "k")
_t("mmx32", 49, None, 4, "m"); _t("mmx64", 50, None, 8, "m")

INTS = ["i8", "u8", "i16", "u16", "i32", "u32", "i64", "u64", "iptr", "uptr"]
INTS32 = ["i8", "u8", "i16", "u16", "i32", "u32", "iptr", "uptr"]
FLOATS = ["f32", "f64"]
def vecs(total):
    return [n for n, t in TYPES.items() if t["cls"] == "v" and t["size"] == total]

# ------------------------------------------------------------------------------------------------------------------
# ABIs
# ------------------------------------------------------------------------------------------------------------------
X86_FLAGS = ["-mavx512f"]
ABIS = [
    dict(name="sysv64", env="x64linux", ccid=32, triple="x86_64-linux-gnu", arch="x64", attr="", ints=INTS, vec=[16, 32, 64], va=True),
    dict(name="sysv64-cdecl", env="x64linux", ccid=0, triple="x86_64-linux-gnu", arch="x64", attr="", ints=INTS, vec=[16, 32, 64], va=True, keyas="sysv64", weight=0.25),
    dict(name="win64", env="x64win", ccid=33, triple="x86_64-pc-windows-msvc", arch="x64", attr="", ints=INTS, vec=[16, 32, 64], va=True, positional=True),
    dict(name="win64-on-linux", env="x64linux", ccid=33, triple="x86_64-linux-gnu", arch="x64", attr="ms_abi", ints=INTS, vec=[16, 32, 64], va=True, keyas="win64", weight=0.25, positional=True),
    dict(name="sysv64-on-win", env="x64win", ccid=32, triple="x86_64-pc-windows-msvc", arch="x64", attr="sysv_abi", ints=INTS, vec=[16, 32, 64], va=True, keyas="sysv64", weight=0.25),
    dict(name="vectorcall64", env="x64win", ccid=3, triple="x86_64-pc-windows-msvc", arch="x64", attr="vectorcall", ints=INTS, vec=[16, 32, 64], positional=True),
    dict(name="x86-cdecl", env="x86linux", ccid=0, triple="i386-linux-gnu", arch="x86", attr="cdecl", ints=INTS, vec=[16, 32, 64], va=True),
    dict(name="x86-stdcall", env="x86linux", ccid=1, triple="i386-linux-gnu", arch="x86", attr="stdcall", ints=INTS, vec=[16, 32, 64]),
    dict(name="x86-fastcall", env="x86linux", ccid=2, triple="i386-linux-gnu", arch="x86", attr="fastcall", ints=INTS32, vec=[16, 32, 64]),
    dict(name="x86-thiscall", env="x86win", ccid=4, triple="i386-pc-windows-msvc", arch="x86", attr="thiscall", ints=INTS32, vec=[]),
    dict(name="x86-vectorcall", env="x86win", ccid=3, triple="i386-pc-windows-msvc", arch="x86", attr="vectorcall", ints=INTS32, vec=[16, 32, 64]),
    dict(name="x86-regparm1", env="x86linux", ccid=5, triple="i386-linux-gnu", arch="x86", attr="regparm(1)", ints=INTS, vec=[16]),
    dict(name="x86-regparm2", env="x86linux", ccid=6, triple="i386-linux-gnu", arch="x86", attr="regparm(2)", ints=INTS, vec=[16]),
    dict(name="x86-regparm3", env="x86linux", ccid=7, triple="i386-linux-gnu", arch="x86", attr="regparm(3)", ints=INTS, vec=[16]),
    dict(name="aapcs64", env="a64linux", ccid=0, triple="aarch64-linux-gnu", arch="a64", attr="", ints=INTS, vec=[8, 16], va=True),
    dict(name="apple-arm64", env="a64apple", ccid=0, triple="arm64-apple-darwin", arch="a64", attr="", ints=INTS, vec=[8, 16], va=True),
]
# registers that can carry arguments (caller-side probes look only at these when a value is handed over in a register)
_ARGREGS = dict(sysv64=dict(gp=[7, 6, 2, 1, 8, 9], vec=list(range(8))), win64=dict(gp=[1, 2, 8, 9], vec=[0, 1, 2, 3]),
                a64=dict(gp=list(range(8)), vec=list(range(8))), x86=dict(gp=[], vec=[]))
for _a in ABIS:
    _k = _a.get("keyas", _a["name"])
    _a["argregs"] = _ARGREGS["a64" if _a["arch"] == "a64" else _k if _k in _ARGREGS else "x86"]
ABI_BY_NAME = {a["name"]: a for a in ABIS}
# light-call conventions: no C counterpart, internal consistency only
LIGHT = [dict(name="lightcall%d-%s" % (n, e), env=env, ccid=14 + n, n=n, arch=arch) for n in (2, 3, 4) for e, env, arch in (("x64", "x64linux", "x64"), ("x86", "x86linux", "x86"))]

def abi_key(abi):
    return abi.get("keyas", abi["name"])
def ptr_size(abi):
    return 4 if abi["arch"] == "x86" else 8
def tsize(abi, tname):
    t = TYPES[tname]
    return t["size"] or ptr_size(abi)

# ------------------------------------------------------------------------------------------------------------------
# Known findings: key -> modelled deviation. The reference layout is always clang's; when AsmJit deviates, the
# deviation is attributed to a known key only if AsmJit's offsets equal the layout recomputed with exactly that defect.
# ------------------------------------------------------------------------------------------------------------------
def known_match(known_keys, key):
    if key in known_keys:
        return key
    for k in known_keys:
        if any(ch in k for ch in "*?[") and fnmatch.fnmatch(key, k):
            return k
    return None

# ------------------------------------------------------------------------------------------------------------------
# Signature generation (pure function of (seed, abi name, index))
# ------------------------------------------------------------------------------------------------------------------
def gen_signature(seed, abi, idx):
    rng = random.Random("c06:%d:%s:%d" % (seed, abi["name"], idx))
    shape = rng.random()
    if shape < 0.30: n = rng.randint(0, 6)
    elif shape < 0.65: n = rng.randint(5, 14)
    elif shape < 0.90: n = rng.randint(10, 24)
    else: n = rng.randint(20, 32)
    ints, flts = abi["ints"], FLOATS
    vs = [v for s in abi["vec"] for v in vecs(s)]
    vs128 = vecs(16) if 16 in abi["vec"] else vs
    # mixture profile
    prof = rng.random()
    if prof < 0.25: w = (1.0, 0.0, 0.0)            # integers only
    elif prof < 0.40: w = (0.0, 1.0, 0.0)          # floats only
    elif prof < 0.50 and vs: w = (0.0, 0.0, 1.0)   # vectors only
    elif prof < 0.75: w = (0.6, 0.4, 0.0)
    else: w = (0.45, 0.3, 0.25 if vs else 0.0)
    def pick():
        r = rng.random() * sum(w)
        if r < w[0]: return rng.choice(ints)
        if r < w[0] + w[1]: return rng.choice(flts)
        return rng.choice(vs128 if rng.random() < 0.6 else vs)
    args = [pick() for _ in range(n)]
    rsel = rng.random()
    if rsel < 0.2: ret = "void"
    else: ret = pick() if rng.random() < 0.7 else rng.choice(ints + flts)
    va = 255
    if abi.get("va") and n >= 1 and rng.random() < 0.15:
        va = rng.randint(1, n)        # named arguments are [0, va); the variadic ones follow
    return dict(abi=abi["name"], ret=ret, args=args, va=va)

def gen_va_signature(seed, abi, idx):
    """Variadic-focused signatures: named arguments that exhaust one or both register classes and leave a named stack area made of
    small types (so that it ends at offsets that are not multiples of 8 where the ABI packs them), followed by 1-7 unnamed
    arguments of every class/size (small integers and float are promoted by needs_exclusion, like C does)."""
    rng = random.Random("c06va:%d:%s:%d" % (seed, abi["name"], idx))
    a64 = abi["arch"] == "a64"
    small = [t for t in ("i8", "u8", "i16", "u16") if t in abi["ints"]]
    wide = [t for t in ("i64", "u64", "iptr", "uptr") if t in abi["ints"]]
    v16 = vecs(16) if 16 in abi["vec"] else []
    v8 = vecs(8) if 8 in abi["vec"] else []
    def pick_named():
        r = rng.random()
        if r < 0.34: return rng.choice(small)
        if r < 0.54: return rng.choice(["i32", "u32"])
        if r < 0.70: return "f32"
        if r < 0.80: return rng.choice(wide)
        if r < 0.90: return "f64"
        if r < 0.95 and v16: return rng.choice(v16)
        if v8: return rng.choice(v8)
        return rng.choice(["i32", "f32"])
    def pick_unnamed():
        r = rng.random()
        if r < 0.15: return rng.choice(small)          # promoted to int
        if r < 0.35: return rng.choice(["i32", "u32"])
        if r < 0.50: return rng.choice(wide)
        if r < 0.60: return "f32"                        # promoted to double
        if r < 0.75: return "f64"
        if r < 0.90 and v16: return rng.choice(v16)
        if v8: return rng.choice(v8)
        return rng.choice(["i32", "f64"])
    shape = rng.random()
    if shape < 0.20: n_named = rng.randint(1, 4)
    elif shape < 0.40: n_named = rng.randint(5, 8)
    else: n_named = rng.randint(9, 22)
    prof = rng.random()
    if prof < 0.35:      # integers first (exhausts the GP registers quickly), then a small tail
        named = [rng.choice(small + ["i32", "u32"] + wide) for _ in range(n_named)]
    elif prof < 0.50:    # float-heavy
        named = [rng.choice(["f32", "f32", "f64"]) for _ in range(n_named)]
    else:
        named = [pick_named() for _ in range(n_named)]
    if n_named >= 9 and rng.random() < 0.6:
        # make the tail of the named stack area small-grained
        for j in range(rng.randint(1, 3)):
            named[-1 - j] = rng.choice(small + ["i32", "f32"])
    unnamed = [pick_unnamed() for _ in range(rng.randint(1, 7))]
    args = (named + unnamed)[:32]
    ret = "void" if rng.random() < 0.5 else rng.choice(["i32", "i64", "f64"] if "i64" in abi["ints"] else ["i32", "f64"])
    return dict(abi=abi["name"], ret=ret, args=args, va=min(len(named), len(args) - 1))

def sig_text(sig):
    return "abi=%s va=%d ret=%s args=%s" % (sig["abi"], sig["va"], sig["ret"], ",".join(sig["args"]) or "-")

def parse_sig_text(text):
    kv = dict(x.split("=", 1) for x in text.split())
    args = [] if kv["args"] == "-" else kv["args"].split(",")
    return dict(abi=kv["abi"], va=int(kv["va"]), ret=kv["ret"], args=args)

# ------------------------------------------------------------------------------------------------------------------
# C source
# ------------------------------------------------------------------------------------------------------------------
def c_prelude(type_names):
    out = []
    for n in sorted(type_names):
        t = TYPES[n]
        out.append("typedef %s T_%s;" % (t["c"], n))
        out.append("volatile T_%s sink_%s; volatile T_%s src_%s;" % (n, n, n, n))
    return "\n".join(out) + "\n"

def c_for_sig(k, sig, abi):
    """Probes for named arguments (index < va) and for the return value."""
    attr = ("__attribute__((%s)) " % abi["attr"]) if abi["attr"] else ""
    named = sig["args"] if sig["va"] == 255 else sig["args"][:sig["va"]]
    plist = ", ".join("T_%s a%d" % (t, i) for i, t in enumerate(named))
    if sig["va"] != 255:
        plist += ", ..."
    if not plist:
        plist = "void"
    out = []
    for i, t in enumerate(named):
        out.append("void %ss%dp%dx(%s) { sink_%s = a%d; }" % (attr, k, i, plist, t, i))
    if not named:   # still learn who pops / that it compiles
        out.append("void %ss%dp0x(%s) { sink_i32 = 1; }" % (attr, k, plist))
    if sig["ret"] != "void":
        out.append("T_%s %ss%drx(void) { return src_%s; }" % (sig["ret"], attr, k, sig["ret"]))
    if sig["va"] != 255 and named and sig["va"] < len(sig["args"]) and abi["name"] == "apple-arm64" and TYPES[sig["args"][sig["va"]]]["cls"] != "v":
        vt = sig["args"][sig["va"]]
        out.append("void %ss%dp%dx(%s) { __builtin_va_list ap; __builtin_va_start(ap, a%d); sink_%s = __builtin_va_arg(ap, T_%s); __builtin_va_end(ap); }"
                   % (attr, k, 900, plist, len(named) - 1, vt, vt))
    if has_caller_probe(sig):
        # caller-side probe: every argument of the call is loaded from its own global (vs<k>_<i>); the data-flow pass over the caller
        # finds the register / outgoing stack slot in which each of them sits at the call instruction
        for i, t in enumerate(sig["args"]):
            out.append("T_%s vs%d_%d;" % (t, k, i))
        out.append("void %ss%dcallee(%s);" % (attr, k, plist))
        out.append("void s%dcx(void) { s%dcallee(%s); sink_i32 = 1; }" % (k, k, ", ".join("vs%d_%d" % (k, i) for i in range(len(sig["args"])))))
    if has_caller_probe(sig) and abi["name"] == "apple-arm64":
        # callee-side walk: a variadic callee that fetches every unnamed argument with va_arg (Darwin's va_list is a plain pointer, so the
        # addresses are sp + constant after folding `(p + 15) & ~15` with the 16-byte alignment of sp) and stores argument i to vk<k>_<i>
        v0 = sig["va"]
        for i in range(v0, len(sig["args"])):
            out.append("T_%s vk%d_%d;" % (sig["args"][i], k, i))
        body = " ".join("vk%d_%d = __builtin_va_arg(ap, T_%s);" % (k, i, sig["args"][i]) for i in range(v0, len(sig["args"])))
        out.append("void %ss%dwx(%s) { __builtin_va_list ap; __builtin_va_start(ap, a%d); %s __builtin_va_end(ap); }" % (attr, k, plist, v0 - 1, body))
    return "\n".join(out) + "\n"

def has_caller_probe(sig):
    return sig["va"] != 255 and 1 <= sig["va"] < len(sig["args"])

X64_CLOB = ["rax", "rbx", "rcx", "rdx", "rsi", "rdi", "rbp"] + ["r%d" % i for i in range(8, 16)] + ["xmm%d" % i for i in range(32)] + ["k%d" % i for i in range(8)]
X86_CLOB = ["eax", "ebx", "ecx", "edx", "esi", "edi", "ebp"] + ["xmm%d" % i for i in range(8)] + ["k%d" % i for i in range(8)]
RZ_SIZES = (8, 64, 128, 136, 300)
A64_CLOB = ["x%d" % i for i in range(31)] + ["v%d" % i for i in range(32)]

def c_fixed_probes(abi):
    """Preserved-register and red-zone probes (one set per ABI)."""
    attr = ("__attribute__((%s)) " % abi["attr"]) if abi["attr"] else ""
    clob = dict(x64=X64_CLOB, x86=X86_CLOB, a64=A64_CLOB)[abi["arch"]]
    out = ["void %spresx(void) { __asm__ volatile(\"\" ::: %s); }" % (attr, ", ".join('"%s"' % c for c in clob))]
    for n in RZ_SIZES:
        out.append("void %srz%dx(void) { char b[%d]; __asm__ volatile(\"\" : : \"r\"(b) : \"memory\"); }" % (attr, n, n))
    return "\n".join(out) + "\n"

def clang_cmd(abi):
    cmd = ["clang", "--target=" + abi["triple"], "-O1", "-fomit-frame-pointer", "-fno-pic", "-fno-stack-protector", "-fno-asynchronous-unwind-tables",
           "-w", "-S", "-o", "-", "-x", "c", "-"]
    if abi["arch"] in ("x64", "x86"):
        cmd[2:2] = X86_FLAGS
    return cmd

def run_clang(abi, src):
    r = subprocess.run(clang_cmd(abi), input=src, stdout=subprocess.PIPE, stderr=subprocess.PIPE, text=True)
    return r.returncode, r.stdout, r.stderr

# ------------------------------------------------------------------------------------------------------------------
# Assembly analysis
# ------------------------------------------------------------------------------------------------------------------
_X86_GP = {}
for i, (q, d, w, b) in enumerate([("rax", "eax", "ax", "al"), ("rcx", "ecx", "cx", "cl"), ("rdx", "edx", "dx", "dl"), ("rbx", "ebx", "bx", "bl"),
                                  ("rsp", "esp", "sp", "spl"), ("rbp", "ebp", "bp", "bpl"), ("rsi", "esi", "si", "sil"), ("rdi", "edi", "di", "dil")]):
    for n in (q, d, w, b):
        _X86_GP[n] = i
for n, i in (("ah", 0), ("ch", 1), ("dh", 2), ("bh", 3)):
    _X86_GP[n] = i
for i in range(8, 16):
    for suf in ("", "d", "w", "b"):
        _X86_GP["r%d%s" % (i, suf)] = i

def x86_reg(name):
    """-> (group, id) with group in gp/vec/mask/st/mm, or None."""
    name = name.lstrip("%")
    if name in _X86_GP: return ("gp", _X86_GP[name])
    m = re.fullmatch(r"[xyz]mm(\d+)", name)
    if m: return ("vec", int(m.group(1)))
    m = re.fullmatch(r"k(\d)", name)
    if m: return ("mask", int(m.group(1)))
    m = re.fullmatch(r"mm(\d)", name)
    if m: return ("mm", int(m.group(1)))
    if name == "st" or re.fullmatch(r"st\(\d\)", name): return ("st", 0 if name == "st" else int(name[3]))
    if name in ("rip", "eip"): return ("ip", 0)
    return None

def split_functions(asm, comment_chars):
    """-> {label: [instruction lines]} ; labels normalised (leading '_'/'@'/quotes and '@N' suffixes removed)."""
    funcs, cur = {}, None
    for raw in asm.splitlines():
        line = raw
        for cc in comment_chars:
            p = line.find(cc)
            if p >= 0: line = line[:p]
        line = line.rstrip()
        if not line.strip(): continue
        m = re.match(r'^"?([\\\w@$.?]+)"?:', line)
        if m and not line[0].isspace():
            lab = m.group(1)
            lab = lab.replace("\\01", "")
            lab = re.sub(r"^[_@]+", "", lab)
            lab = re.sub(r"@.*$", "", lab)
            if re.fullmatch(r"(s\d+(p\d+|r|c|w)x|presx|rz\d+x)", lab):
                cur = funcs.setdefault(lab, [])
            elif lab.startswith(("L", ".L", "l")) and cur is not None and re.match(r"^\.?[Ll]", lab):
                pass           # local label inside a function
            else:
                cur = None
            continue
        s = line.strip()
        if s.startswith("."): continue
        if cur is not None: cur.append(s)
    return funcs

def split_ops(s):
    out, depth, cur = [], 0, ""
    for ch in s:
        if ch in "([{": depth += 1
        if ch in ")]}": depth -= 1
        if ch == "," and depth == 0:
            out.append(cur.strip()); cur = ""
        else: cur += ch
    if cur.strip(): out.append(cur.strip())
    return out

class FInfo:
    def __init__(self):
        self.live_in = []        # [(group,id,role)] role: value|base   (in first-use order)
        self.stack_reads = []    # [(offset relative to entry sp, dst reg or None)]
        self.indirect_slots = set()   # stack offsets whose loaded value was used as an address
        self.ret_imm = 0
        self.saved = []          # registers stored to the stack / pushed before the inline-asm marker
        self.sp_adjust_first = None   # first explicit sp adjustment (sub)
        self.neg_sp_access = False    # access below sp (red zone use)
        self.redzone_reach = 0        # largest distance below the current sp that is addressed
        self.src_loads = []      # [(symbol offset, (group,id))] loads from src_* symbols
        self.mem_stores_via_livein = []   # stores through a live-in base register (sret)
        self.problems = []

def analyse_x86(lines, ws):
    fi = FInfo(); written = set(); from_slot = {}; adj = 0; in_asm_seen = False
    sp = ("gp", 4); bp = ("gp", 5); fp_adj = None; sp_realigned = False
    def rd(reg, role):
        if reg is None or reg[0] == "ip" or reg == sp: return
        if reg in from_slot and role == "base":
            fi.indirect_slots.add(from_slot[reg])
        if reg not in written and (reg[0], reg[1], role) not in fi.live_in:
            fi.live_in.append((reg[0], reg[1], role))
    def parse_mem(op):
        m = re.fullmatch(r"([^()]*)\(([^)]*)\)", op)
        if not m: return None
        disp, inner = m.group(1).strip(), [x.strip() for x in m.group(2).split(",")]
        base = x86_reg(inner[0]) if inner and inner[0] else None
        index = x86_reg(inner[1]) if len(inner) > 1 and inner[1] else None
        return disp, base, index
    def disp_val(d):
        if not d: return 0
        try: return int(d, 0)
        except ValueError: return None
    for ln in lines:
        if ln.startswith("#APP") or "InlineAsm" in ln: in_asm_seen = True
        parts = ln.split(None, 1)
        mn = parts[0]; ops = split_ops(parts[1]) if len(parts) > 1 else []
        if mn.startswith("ret"):
            if ops and ops[0].startswith("$"): fi.ret_imm = int(ops[0][1:], 0)
            break
        if mn in ("vzeroupper", "nop", "emms", "cld"): continue
        if mn.startswith("push"):
            r = x86_reg(ops[0]) if ops and ops[0].startswith("%") else None
            if r and r not in written and not in_asm_seen: fi.saved.append(r)
            adj += ws; continue
        if mn.startswith("pop"):
            r = x86_reg(ops[0]) if ops else None
            if r: written.add(r)
            adj -= ws; continue
        if mn[:3] in ("sub", "add") and len(ops) == 2 and x86_reg(ops[1]) == sp and ops[0].startswith("$"):
            v = int(ops[0][1:], 0)
            if mn.startswith("sub"):
                adj += v
                if fi.sp_adjust_first is None: fi.sp_adjust_first = v
            else: adj -= v
            continue
        if mn.startswith("and") and len(ops) == 2 and x86_reg(ops[1]) == sp and ops[0].startswith("$") and fp_adj is not None:
            sp_realigned = True; continue          # dynamic realignment: from here on sp-relative accesses are the function's own frame
        if mn.startswith("mov") and len(ops) == 2 and ops[0].startswith("%") and x86_reg(ops[0]) == bp and x86_reg(ops[1]) == sp and fp_adj is not None:
            adj = fp_adj; sp_realigned = False; continue     # mov %rbp, %rsp
        if len(ops) >= 1 and ops[-1].startswith("%") and x86_reg(ops[-1]) == sp:
            fi.problems.append("sp written by an unmodelled instruction: " + ln); continue
        if len(ops) == 2 and ops[0].startswith("%") and x86_reg(ops[0]) == sp and ops[1].startswith("%"):
            r = x86_reg(ops[1])            # mov %rsp, %reg: address of the frame
            if r == bp and mn.startswith("mov"): fp_adj = adj
            if r: written.add(r)
            continue
        if mn.startswith(("call", "jmp", "j")) and not mn.startswith("jmpq*"):
            fi.problems.append("control flow: " + ln); continue
        # generic AT&T: sources first, destination last; x87 loads/stores have one operand
        if mn.startswith("fld"): srcs, dst = ops, "%st"
        elif mn.startswith("fst"): srcs, dst = ["%st"], (ops[0] if ops else None)
        elif len(ops) == 1: srcs, dst = ops, ops[0]
        else: srcs, dst = ops[:-1], (ops[-1] if ops else None)
        is_lea = mn.startswith("lea")
        for o in srcs:
            if o.startswith("$"): continue
            if o.startswith("%"): rd(x86_reg(o), "value"); continue
            pm = parse_mem(o)
            if pm:
                d, base, index = pm
                if base == sp and sp_realigned:
                    continue              # own (realigned) frame
                if base == sp or (base == bp and fp_adj is not None):
                    dv = disp_val(d)
                    if dv is None: fi.problems.append("symbolic sp displacement: " + ln); continue
                    off = dv - (adj if base == sp else fp_adj)
                    if off < 0:
                        if dv < 0:
                            fi.neg_sp_access = True; fi.redzone_reach = max(fi.redzone_reach, -dv)
                        continue          # own frame (spill reload)
                    dreg = x86_reg(dst) if dst and dst.startswith("%") else None
                    fi.stack_reads.append((off, dreg))
                    if dreg and not is_lea: from_slot[dreg] = off
                else:
                    rd(base, "base"); rd(index, "base")
                    msym = re.search(r"\bsrc_\w+|_src_\w+", d or "")
                    if msym and dst and dst.startswith("%"):
                        mo = re.search(r"\+(\d+)", d)
                        fi.src_loads.append((int(mo.group(1)) if mo else 0, x86_reg(dst)))
            else:
                msym = re.search(r"\bsrc_\w+|_src_\w+", o)
                if msym and dst and dst.startswith("%"):
                    mo = re.search(r"\+(\d+)", o)
                    fi.src_loads.append((int(mo.group(1)) if mo else 0, x86_reg(dst)))
        if dst is not None:
            if dst.startswith("%"):
                r = x86_reg(dst)
                if r:
                    if r in from_slot and not any(s == dst for s in srcs): pass
                    written.add(r)
                    if not (srcs and parse_mem(srcs[0]) and parse_mem(srcs[0])[1] == sp): from_slot.pop(r, None)
            else:
                pm = parse_mem(dst)
                if pm:
                    d, base, index = pm
                    if base == sp or (base == bp and fp_adj is not None):
                        dv = disp_val(d)
                        if dv is not None and dv < 0 and base == sp and not sp_realigned:
                            fi.neg_sp_access = True; fi.redzone_reach = max(fi.redzone_reach, -dv)
                        # store into own frame: callee-saved spill if the source is an unwritten register
                        for o in srcs:
                            r = x86_reg(o) if o.startswith("%") else None
                            if r and not in_asm_seen and r in [(g, i) for g, i, _ in fi.live_in]:
                                fi.saved.append(r); fi.live_in = [x for x in fi.live_in if (x[0], x[1]) != r]
                    else:
                        if base and base not in written and base[0] == "gp":
                            fi.mem_stores_via_livein.append(base)
                        rd(base, "base"); rd(index, "base")
    return fi

def a64_reg(name):
    name = name.strip()
    if name in ("sp", "wsp"): return ("gp", 31)
    if name in ("xzr", "wzr"): return None
    m = re.fullmatch(r"[wx](\d+)", name)
    if m: return ("gp", int(m.group(1)))
    m = re.fullmatch(r"[bhsdqv](\d+)(\.\w+)?", name)
    if m: return ("vec", int(m.group(1)))
    return None

def analyse_a64(lines):
    fi = FInfo(); written = set(); adj = 0; in_asm_seen = False
    sp = ("gp", 31)
    def rd(reg, role):
        if reg is None or reg == sp: return
        if reg not in written and (reg[0], reg[1], role) not in fi.live_in:
            fi.live_in.append((reg[0], reg[1], role))
    def parse_mem(op, post):
        # [base], [base, #imm], [base, sym], [base, #imm]!  ; post-index immediate is passed separately
        m = re.fullmatch(r"\[([^\],]+)(?:,\s*([^\]]+))?\](!?)", op)
        if not m: return None
        base = a64_reg(m.group(1)); off = m.group(2); pre = m.group(3) == "!"
        if off is None: imm = 0
        elif off.startswith("#"):
            try: imm = int(off[1:], 0)
            except ValueError: imm = None
        else: imm = off      # symbolic
        return base, imm, pre
    for ln in lines:
        if "APP" in ln or "InlineAsm" in ln: in_asm_seen = True
        parts = ln.split(None, 1)
        mn = parts[0]; ops = split_ops(parts[1]) if len(parts) > 1 else []
        if mn == "ret": break
        if mn in ("nop", "hint", "bti", "paciasp", "autiasp"): continue
        if mn in ("sub", "add") and len(ops) == 3 and a64_reg(ops[0]) == sp and a64_reg(ops[1]) == sp and ops[2].startswith("#"):
            v = int(ops[2][1:].split(",")[0], 0)
            if mn == "sub":
                adj += v
                if fi.sp_adjust_first is None: fi.sp_adjust_first = v
            else: adj -= v
            continue
        if mn in ("sub", "add") and len(ops) == 3 and a64_reg(ops[0]) != sp:
            if a64_reg(ops[1]) == sp and mn == "sub" and ops[2].startswith("#"):
                fi.neg_sp_access = True; fi.redzone_reach = max(fi.redzone_reach, int(ops[2][1:].split(",")[0], 0))
            else:
                for o in ops[1:]:
                    if not o.startswith("#"): rd(a64_reg(o), "value")
            r = a64_reg(ops[0])
            if r: written.add(r)
            continue
        if mn in ("adrp", "adr"):
            r = a64_reg(ops[0]); written.add(r); continue
        is_load = mn.startswith(("ldr", "ldur", "ldp", "ldnp"))
        is_store = mn.startswith(("str", "stur", "stp", "stnp"))
        if is_load or is_store:
            nreg = 2 if mn.startswith(("ldp", "stp", "ldnp", "stnp")) else 1
            regs = [a64_reg(o) for o in ops[:nreg]]
            memop = ops[nreg] if len(ops) > nreg else None
            post = ops[nreg + 1] if len(ops) > nreg + 1 else None
            pm = parse_mem(memop, post) if memop else None
            if not pm: fi.problems.append("unparsed memory operand: " + ln); continue
            base, imm, pre = pm
            if base == sp:
                if isinstance(imm, str) or imm is None: fi.problems.append("symbolic sp offset: " + ln); continue
                if pre:
                    adj -= imm      # imm negative -> adj grows
                    eff = -adj
                else:
                    eff = imm - adj
                if is_load:
                    if eff >= 0:
                        sz = 0
                        for k, r in enumerate(regs):
                            fi.stack_reads.append((eff + k * 8, r))
                    for r in regs:
                        if r: written.add(r)
                else:
                    if imm is not None and not pre and imm < 0: fi.neg_sp_access = True
                    for r in regs:
                        if r and r not in written and not in_asm_seen: fi.saved.append(r)
                if post and post.startswith("#"): adj -= int(post[1:], 0)
            else:
                if is_load:
                    rd(base, "base")
                    if isinstance(imm, str) and "src_" in imm or (memop and "src_" in memop):
                        for r in regs: fi.src_loads.append((0, r))
                    for r in regs:
                        if r: written.add(r)
                else:
                    for r in regs: rd(r, "value")
                    if base and base not in written: fi.mem_stores_via_livein.append(base)
                    rd(base, "base")
            continue
        if mn in ("mov", "fmov", "movz", "movn", "movk", "orr", "and", "sxtb", "sxth", "sxtw", "uxtb", "uxth", "dup", "ins", "movi", "fcvt"):
            for o in ops[1:]:
                if o.startswith("#"): continue
                rd(a64_reg(o.split(".")[0]) if a64_reg(o.split(".")[0]) else a64_reg(o), "value")
            r = a64_reg(ops[0])
            if r: written.add(r)
            continue
        fi.problems.append("unknown instruction: " + ln)
    return fi

# ------------------------------------------------------------------------------------------------------------------
# Caller-side probes: `void sKcx(void) { sKcallee(vsK_0, vsK_1, ...); }`. A forward data-flow pass over the straight-line code
# before the call tags every register and every stack slot with the global its content was loaded from; at the call instruction
# the slot (relative to sp at the call) or the argument register that holds vsK_i is where the caller passes argument i.
#   tags: ("val", i, part)  value of vsK_i (part = byte offset inside the global, for values moved in pieces)
#         ("addr", i)       a64: address of vsK_i under construction (adrp / add :lo12:)
#         ("ptr", a)        address of the stack slot a (by-reference arguments: the value was copied to a temporary)
# Slots that are read back are spill slots of the caller, never outgoing arguments. A value that sits both in an outgoing slot and
# in a register is passed in the slot (the register is the temporary it was loaded into).
# ------------------------------------------------------------------------------------------------------------------
_VS_RE = re.compile(r"(?<![A-Za-z0-9])_?vs(\d+)_(\d+)(?![0-9])(?:@PAGEOFF|@PAGE)?(?:\+(\d+))?")

class CInfo:
    def __init__(self):
        self.problems = []
        self.args = {}        # argument index -> dict(kind=stack|reg|indirect-stack|indirect-reg, off=int, regs=[(group,id)])
        self.call_seen = False

def _caller_resolve(ci, abi, regtag, slottag, loaded, adj):
    """State at the call instruction -> ci.args."""
    argregs = set([("gp", i) for i in abi["argregs"]["gp"]] + [("vec", i) for i in abi["argregs"]["vec"]])
    idxs = set()
    for t in list(regtag.values()) + list(slottag.values()):
        if t and t[0] == "val": idxs.add(t[1])
    # temporaries that hold by-reference copies
    copy_of = {a: t[1] for a, t in slottag.items() if t and t[0] == "val" and t[2] == 0 and a not in loaded}
    for i in sorted(idxs):
        ptr_regs = sorted(r for r, t in regtag.items() if t and t[0] == "ptr" and copy_of.get(t[1]) == i and r in argregs)
        ptr_slots = sorted(a + adj for a, t in slottag.items() if t and t[0] == "ptr" and copy_of.get(t[1]) == i and a not in loaded and a + adj >= 0)
        slots = sorted(a + adj for a, t in slottag.items() if t == ("val", i, 0) and a not in loaded and a + adj >= 0)
        regs = sorted(r for r, t in regtag.items() if t == ("val", i, 0) and r in argregs)
        if ptr_regs: ci.args[i] = dict(kind="indirect-reg", regs=ptr_regs)
        elif ptr_slots: ci.args[i] = dict(kind="indirect-stack", off=ptr_slots[0])
        elif slots: ci.args[i] = dict(kind="stack", off=slots[0])
        elif regs: ci.args[i] = dict(kind="reg", regs=regs)

def _vs_tag(text, kind="val"):
    m = _VS_RE.search(text or "")
    if not m: return None
    return (kind, int(m.group(2)), int(m.group(3) or 0)) if kind == "val" else (kind, int(m.group(2)))

def analyse_caller_x86(lines, ws, abi):
    ci = CInfo(); regtag = {}; slottag = {}; loaded = set(); adj = 0
    sp = ("gp", 4)
    def parse_mem(op):
        m = re.fullmatch(r"([^()]*)(?:\(([^)]*)\))?", op)
        if not m or op.startswith(("%", "$")): return None
        disp = m.group(1).strip(); inner = [x.strip() for x in (m.group(2) or "").split(",")]
        base = x86_reg(inner[0]) if inner and inner[0] else None
        index = x86_reg(inner[1]) if len(inner) > 1 and inner[1] else None
        return disp, base, index
    def slot_addr(pm):
        # address of an sp-relative operand relative to the frame origin, or None
        disp, base, index = pm
        if base != sp or index is not None: return None
        try: return (int(disp, 0) if disp else 0) - adj
        except ValueError: return None
    def src_tag(o):
        if o.startswith("$"): return None
        if o.startswith("%"): return regtag.get(x86_reg(o))
        pm = parse_mem(o)
        if pm is None: return None
        if pm[1] == sp:
            a = slot_addr(pm)
            if a is None: return None
            loaded.add(a)
            return slottag.get(a)
        if pm[1] is None or pm[1] == ("ip", 0):
            return _vs_tag(pm[0])
        return None
    def set_dst(o, tag):
        if o.startswith("%"):
            r = x86_reg(o)
            if r == sp: ci.problems.append("sp written: " + o); return
            if r: regtag[r] = tag
            return
        pm = parse_mem(o)
        if pm is None: return
        if pm[1] == sp:
            a = slot_addr(pm)
            if a is None: ci.problems.append("unresolved sp-relative store: " + o); return
            slottag[a] = tag; loaded.discard(a)
    for ln in lines:
        parts = ln.split(None, 1)
        mn = parts[0]; ops = split_ops(parts[1]) if len(parts) > 1 else []
        if mn.startswith("call") or (mn.startswith("jmp") and ops and "callee" in ops[0]):
            if not (ops and "callee" in ops[0]): ci.problems.append("unexpected call: " + ln); break
            ci.call_seen = True
            _caller_resolve(ci, abi, regtag, slottag, loaded, adj)
            break
        if mn.startswith("ret"): break
        if mn in ("vzeroupper", "nop", "cld") or mn.startswith("#"): continue
        if mn.startswith("push") and len(ops) == 1:
            t = src_tag(ops[0]); adj += ws; slottag[-adj] = t; loaded.discard(-adj); continue
        if mn.startswith("pop"):
            ci.problems.append("pop before the call: " + ln); continue
        if len(ops) == 2 and ops[1].startswith("%") and x86_reg(ops[1]) == sp:
            if mn[:3] in ("sub", "add") and ops[0].startswith("$"):
                v = int(ops[0][1:], 0); adj += v if mn.startswith("sub") else -v; continue
            if mn.startswith("and") and ops[0].startswith("$"):
                # dynamic realignment: the frame origin is unknown from here on, restart at the realigned sp (only sp-relative offsets
                # at the call matter); everything stored so far is out of reach
                adj = 0; slottag.clear(); loaded.clear(); continue
            if mn.startswith("mov") or mn.startswith("lea"):
                ci.problems.append("sp written by an unmodelled instruction: " + ln); continue
        if mn.startswith("lea") and len(ops) == 2:
            pm = parse_mem(ops[0]); a = slot_addr(pm) if pm and pm[1] == sp else None
            set_dst(ops[1], ("ptr", a) if a is not None else None); continue
        if mn.startswith(("mov", "vmov")) and len(ops) == 2:
            set_dst(ops[1], src_tag(ops[0])); continue
        if mn.startswith(("xor", "vxor", "vpxor", "pxor", "sub", "add", "and", "or", "shl", "shr", "sar", "cvt", "vcvt", "cwt", "cltq", "cdq", "cbtw", "movz", "movs")):
            # value-producing instruction that is not a plain copy: the destination carries no argument any more
            if ops: set_dst(ops[-1], None)
            elif mn in ("cltq", "cwtl", "cbtw"): regtag[("gp", 0)] = None
            continue
        ci.problems.append("unknown instruction: " + ln)
    if not ci.call_seen and not ci.problems: ci.problems.append("no call found")
    return ci

_A64_RSIZE = dict(w=4, x=8, b=1, h=2, s=4, d=8, q=16)
def analyse_caller_a64(lines, abi):
    ci = CInfo(); regtag = {}; slottag = {}; loaded = set(); adj = 0
    sp = ("gp", 31)
    def mem(op):
        m = re.fullmatch(r"\[([^\],]+)(?:,\s*([^\]]+))?\](!?)", op)
        if not m: return None
        return a64_reg(m.group(1)), m.group(2), m.group(3) == "!"
    def imm_of(txt):
        if txt is None: return 0
        if txt.startswith("#"):
            try: return int(txt[1:], 0)
            except ValueError: return None
        return None
    for ln in lines:
        parts = ln.split(None, 1)
        mn = parts[0]; ops = split_ops(parts[1]) if len(parts) > 1 else []
        if mn in ("bl", "b"):
            if not (ops and "callee" in ops[0]): ci.problems.append("unexpected branch: " + ln); break
            ci.call_seen = True
            _caller_resolve(ci, abi, regtag, slottag, loaded, adj)
            break
        if mn == "ret": break
        if mn in ("nop", "hint", "bti", "paciasp", "autiasp", "pacibsp", "autibsp"): continue
        if mn in ("sub", "add") and len(ops) >= 3 and a64_reg(ops[0]) == sp and a64_reg(ops[1]) == sp and ops[2].startswith("#"):
            v = int(ops[2][1:], 0)
            if len(ops) > 3:
                mm = re.fullmatch(r"lsl\s+#(\d+)", ops[3]); v <<= int(mm.group(1)) if mm else 0
            adj += v if mn == "sub" else -v; continue
        if ops and a64_reg(ops[0]) == sp and not mn.startswith(("st", "ld")):
            ci.problems.append("sp written by an unmodelled instruction: " + ln); continue
        if mn in ("adrp", "adr"):
            regtag[a64_reg(ops[0])] = _vs_tag(ops[1], "addr"); continue
        if mn == "add" and len(ops) == 3 and _VS_RE.search(ops[2]):
            t = regtag.get(a64_reg(ops[1]))
            regtag[a64_reg(ops[0])] = t if t and t[0] == "addr" and t == _vs_tag(ops[2], "addr") else None; continue
        if mn == "add" and len(ops) == 3 and a64_reg(ops[1]) == sp and ops[2].startswith("#"):
            regtag[a64_reg(ops[0])] = ("ptr", int(ops[2][1:], 0) - adj); continue
        if mn == "mov" and len(ops) == 2 and a64_reg(ops[1]) == sp and ops[1].strip() == "sp":
            regtag[a64_reg(ops[0])] = ("ptr", -adj); continue
        is_load = mn.startswith(("ldr", "ldur", "ldp", "ldnp"))
        is_store = mn.startswith(("str", "stur", "stp", "stnp"))
        if is_load or is_store:
            nreg = 2 if mn.startswith(("ldp", "stp", "ldnp", "stnp")) else 1
            rnames = [o.strip() for o in ops[:nreg]]
            regs = [a64_reg(o) for o in rnames]
            pm = mem(ops[nreg]) if len(ops) > nreg else None
            post = imm_of(ops[nreg + 1]) if len(ops) > nreg + 1 else None
            if pm is None: ci.problems.append("unparsed memory operand: " + ln); continue
            base, offtxt, pre = pm
            rsz = _A64_RSIZE.get(rnames[0][0], 8)
            if mn.startswith(("ldrb", "ldrsb", "strb", "sturb", "ldurb", "ldursb")): rsz = 1
            if mn.startswith(("ldrh", "ldrsh", "strh", "sturh", "ldurh", "ldursh")): rsz = 2
            if mn.startswith(("ldrsw", "ldursw", "ldpsw")): rsz = 4
            if base == sp:
                imm = imm_of(offtxt)
                if imm is None: ci.problems.append("symbolic sp offset: " + ln); continue
                if pre: adj -= imm; a0 = -adj
                else: a0 = imm - adj
                for k, r in enumerate(regs):
                    a = a0 + k * rsz
                    if is_load:
                        loaded.add(a)
                        if r: regtag[r] = slottag.get(a)
                    else:
                        slottag[a] = regtag.get(r) if r else None; loaded.discard(a)
                if post is not None and len(ops) > nreg + 1: adj -= post
                continue
            if is_load:
                bt = regtag.get(base)
                for k, r in enumerate(regs):
                    if not r: continue
                    if bt and bt[0] == "addr":
                        extra = 0
                        if offtxt:
                            vt = _vs_tag(offtxt)
                            if vt is not None:
                                if vt[1] != bt[1]: ci.problems.append("address of one global, offset of another: " + ln)
                                extra = vt[2]
                            else:
                                extra = imm_of(offtxt)
                                if extra is None: ci.problems.append("unparsed offset: " + ln); extra = 0
                        regtag[r] = ("val", bt[1], extra + k * rsz)
                    else:
                        regtag[r] = None
                if len(ops) > nreg + 1 or pre: regtag[base] = None
                continue
            # store through a register: the sink global behind the call or a by-reference temporary addressed through a copy of sp
            bt = regtag.get(base)
            if bt and bt[0] == "ptr":
                imm = imm_of(offtxt)
                if imm is None: ci.problems.append("unparsed offset: " + ln); continue
                for k, r in enumerate(regs):
                    slottag[bt[1] + imm + k * rsz] = regtag.get(r) if r else None
            continue
        if mn in ("mov", "fmov", "sxtb", "sxth", "sxtw", "uxtb", "uxth") and len(ops) == 2 and not ops[1].startswith("#"):
            regtag[a64_reg(ops[0])] = regtag.get(a64_reg(ops[1].split(".")[0]) or a64_reg(ops[1])); continue
        if mn in ("mov", "fmov", "movz", "movn", "movk", "movi", "orr", "and", "eor", "dup", "ins", "fcvt", "scvtf", "ucvtf", "ubfx", "sbfx", "lsl", "lsr", "asr", "mvni"):
            r = a64_reg(ops[0].split(".")[0]) or a64_reg(ops[0])
            if r: regtag[r] = None
            continue
        ci.problems.append("unknown instruction: " + ln)
    if not ci.call_seen and not ci.problems: ci.problems.append("no call found")
    return ci

_VK_RE = re.compile(r"(?<![A-Za-z0-9])_?vk(\d+)_(\d+)(?![0-9])")
def analyse_vawalk_a64(lines):
    """Apple arm64 `va_arg` walk (see c_for_sig): registers are followed symbolically as `entry sp + constant` (sp is 16-byte aligned at
    function entry, so `and x, x, #~15` of such a value is again entry sp + constant). -> CInfo, args[i] = slot the callee reads argument i from."""
    ci = CInfo(); ci.call_seen = True
    sym = {}; val = {}; addr = {}; slots = {}; adj = 0
    sp = ("gp", 31)
    def clear(r):
        sym.pop(r, None); val.pop(r, None); addr.pop(r, None)
    def imm_of(txt):
        if txt is None: return 0
        if txt.startswith("#"):
            try: return int(txt[1:], 0)
            except ValueError: return None
        return None
    for ln in lines:
        parts = ln.split(None, 1)
        mn = parts[0]; ops = split_ops(parts[1]) if len(parts) > 1 else []
        if mn == "ret": break
        if mn in ("nop", "hint", "bti", "paciasp", "autiasp", "pacibsp", "autibsp"): continue
        regs0 = a64_reg(ops[0].split(".")[0]) if ops else None
        if mn in ("sub", "add") and len(ops) == 3 and ops[2].startswith("#") and not _VK_RE.search(ops[2]):
            d, n, v = a64_reg(ops[0]), a64_reg(ops[1]), int(ops[2][1:], 0)
            if mn == "sub": v = -v
            if d == sp and n == sp: adj -= v; continue
            if d == sp: ci.problems.append("sp written: " + ln); continue
            base = -adj if n == sp else sym.get(n)
            clear(d)
            if base is not None: sym[d] = base + v
            continue
        if mn == "add" and len(ops) == 3 and _VK_RE.search(ops[2]):
            d, n = a64_reg(ops[0]), a64_reg(ops[1]); t = addr.get(n); clear(d)
            if t is not None: addr[d] = t
            continue
        if mn in ("and", "orr") and len(ops) == 3 and ops[2].startswith("#"):
            d, n, v = a64_reg(ops[0]), a64_reg(ops[1]), int(ops[2][1:], 0)
            base = sym.get(n); clear(d)
            if base is not None:
                if mn == "and":
                    low = (~v) & 0xFFFFFFFFFFFFFFFF            # cleared bits must be a low mask of at most 4 bits (sp alignment)
                    if low in (1, 3, 7, 15): sym[d] = base - (base % (low + 1))
                    else: ci.problems.append("unmodelled mask: " + ln)
                else:
                    if 0 < v < 16 and base % 16 & v == 0: sym[d] = base + v
                    else: ci.problems.append("unmodelled orr: " + ln)
            continue
        if mn in ("adrp", "adr"):
            d = a64_reg(ops[0]); clear(d); m = _VK_RE.search(ops[1])
            if m: addr[d] = int(m.group(2))
            continue
        if mn in ("mov", "fmov", "sxtw", "sxtb", "sxth", "uxtb", "uxth") and len(ops) == 2 and not ops[1].startswith("#"):
            d = a64_reg(ops[0].split(".")[0]) or a64_reg(ops[0]); n = a64_reg(ops[1].split(".")[0]) or a64_reg(ops[1])
            sv, vv, av = (-adj if n == sp else sym.get(n)), val.get(n), addr.get(n)
            clear(d)
            if sv is not None: sym[d] = sv
            if vv is not None: val[d] = vv
            if av is not None: addr[d] = av
            continue
        is_load = mn.startswith(("ldr", "ldur", "ldp", "ldnp"))
        is_store = mn.startswith(("str", "stur", "stp", "stnp"))
        if is_load or is_store:
            nreg = 2 if mn.startswith(("ldp", "stp", "ldnp", "stnp")) else 1
            rnames = [o.strip() for o in ops[:nreg]]
            regs = [a64_reg(o) for o in rnames]
            m = re.fullmatch(r"\[([^\],]+)(?:,\s*([^\]]+))?\](!?)", ops[nreg]) if len(ops) > nreg else None
            if not m: ci.problems.append("unparsed memory operand: " + ln); continue
            base = a64_reg(m.group(1)); offtxt = m.group(2); pre = m.group(3) == "!"
            post = imm_of(ops[nreg + 1]) if len(ops) > nreg + 1 else None
            rsz = _A64_RSIZE.get(rnames[0][0], 8)
            if mn.startswith(("ldrsw", "ldursw", "ldpsw")): rsz = 4
            mk = _VK_RE.search(offtxt or "")
            if is_store and (mk or (base in addr and base != sp)):
                j = int(mk.group(2)) if mk else addr[base]
                r = regs[0]
                if nreg != 1 or r not in val: ci.problems.append("sink stored from an untracked register: " + ln); continue
                if j in ci.args: ci.problems.append("argument %d sunk twice" % j); continue
                ci.args[j] = dict(kind="stack", off=val[r])
                continue
            imm = imm_of(offtxt)
            if imm is None: ci.problems.append("unparsed offset: " + ln); continue
            b = -adj if base == sp else sym.get(base)
            if b is None:
                if is_load:
                    for r in regs:
                        if r: clear(r)
                    continue
                ci.problems.append("store through an untracked pointer: " + ln); continue
            if pre:
                b += imm
                if base == sp: adj -= imm
                else: sym[base] = b
                a0 = b
            else: a0 = b + imm
            for kk, r in enumerate(regs):
                a = a0 + kk * rsz
                if is_load:
                    if r is None: continue
                    clear(r)
                    if a >= 0: val[r] = a
                    elif slots.get(a) is not None: sym[r] = slots[a]
                else:
                    slots[a] = sym.get(r) if r else None
            if post is not None:
                if base == sp: adj -= post
                else: sym[base] = b + post
            continue
        ci.problems.append("unknown instruction: " + ln)
    return ci

def analyse(abi, asm):
    if abi["arch"] == "a64":
        funcs = split_functions(asm, ["//", ";"])
        return {k: (analyse_caller_a64(v, abi) if k.endswith("cx") else analyse_vawalk_a64(v) if k.endswith("wx") else analyse_a64(v)) for k, v in funcs.items()}
    funcs = split_functions(asm, ["#"] if False else [])
    # keep '#APP' markers: strip only trailing comments that start with whitespace + '#'
    out = {}
    for k, v in funcs.items():
        cleaned = []
        for ln in v:
            if ln.startswith("#"):
                if ln.startswith(("#APP", "#NO_APP")): cleaned.append(ln)
                continue
            p = ln.find("#")
            cleaned.append(ln[:p].rstrip() if p >= 0 else ln)
        cleaned = [c for c in cleaned if c]
        out[k] = analyse_caller_x86(cleaned, ptr_size(abi), abi) if k.endswith("cx") else analyse_x86(cleaned, ptr_size(abi))
    return out

# ------------------------------------------------------------------------------------------------------------------
# Reference locations from the analysed probes
# ------------------------------------------------------------------------------------------------------------------
def ref_arg_location(abi, fi, tname):
    """-> dict(kind=reg|stack|indirect-reg|indirect-stack|unknown, regs=[(group,id)], off=int)"""
    ra = 0 if abi["arch"] == "a64" else ptr_size(abi)
    if fi.problems:
        return dict(kind="unknown", why="; ".join(fi.problems[:2]))
    vals = [(g, i) for g, i, role in fi.live_in if role == "value"]
    bases = [(g, i) for g, i, role in fi.live_in if role == "base"]
    reads = sorted(set(o for o, _ in fi.stack_reads))
    if vals and not bases and not reads:
        return dict(kind="reg", regs=vals)
    if bases and not vals and not reads:
        return dict(kind="indirect-reg", regs=bases)
    if reads and not vals and not bases:
        off = reads[0] - ra
        if reads[0] in fi.indirect_slots:
            return dict(kind="indirect-stack", off=off)
        return dict(kind="stack", off=off, offs=[r - ra for r in reads])
    if reads and vals and not bases:
        return dict(kind="split", regs=vals, off=reads[0] - ra)
    return dict(kind="unknown", why="live-in %s stack %s" % (fi.live_in, fi.stack_reads))

def ref_ret_location(abi, fi, tname):
    if fi.problems:
        return dict(kind="unknown", why="; ".join(fi.problems[:2]))
    if fi.mem_stores_via_livein:
        return dict(kind="memory", regs=list(fi.mem_stores_via_livein))
    if not fi.src_loads:
        return dict(kind="unknown", why="no load from the source symbol")
    regs = [r for _, r in sorted(fi.src_loads, key=lambda x: x[0])]
    return dict(kind="reg", regs=regs)

# ------------------------------------------------------------------------------------------------------------------
# AsmJit side
# ------------------------------------------------------------------------------------------------------------------
GROUP_NAMES = {0: "gp", 1: "vec", 2: "mask", 3: "mm"}
def parse_value(s):
    p = s.split(":")
    if p[0] == "r":
        rt = int(p[2])
        grp = GROUP_NAMES.get(int(p[1]), "g%s" % p[1])
        if rt == 28: grp = "mm"
        if rt == 29: grp = "st"
        return dict(kind="reg", group=grp, regtype=rt, id=int(p[3]), indirect=(len(p) > 4))
    if p[0] == "s":
        return dict(kind="stack", off=int(p[1]), indirect=(len(p) > 2))
    return dict(kind="unassigned")

def parse_helper_line(line):
    p = line.split()
    d = dict(id=p[1])
    for kv in p[2:]:
        k, v = kv.split("=", 1)
        d[k] = v
    d["err"] = int(d["err"])
    if d["err"] == 0:
        for k in ("ccid", "strategy", "flags", "stack", "red", "spill", "nsa", "va", "cleanup"):
            d[k] = int(d[k])
        d["pres"] = [int(x) for x in d["pres"].split(":")]
        d["passed"] = [int(x) for x in d["passed"].split(":")]
        d["ret"] = [] if d["ret"] == "-" else [parse_value(x) for x in d["ret"].split("+")]
        d["args"] = [] if d["args"] == "-" else [[] if a == "-" else [parse_value(x) for x in a.split("+")] for a in d["args"].split(",")]
    return d

def run_helper(lines, env=None):
    e = dict(os.environ)
    e.setdefault("ASAN_OPTIONS", "detect_leaks=1:abort_on_error=0:exitcode=99")
    e.setdefault("UBSAN_OPTIONS", "print_stacktrace=1:halt_on_error=1:exitcode=98")
    r = subprocess.run([HELPER], input="\n".join(lines) + "\n", stdout=subprocess.PIPE, stderr=subprocess.PIPE, text=True, env=e)
    res = {}
    for ln in r.stdout.splitlines():
        if ln.startswith("R "):
            d = parse_helper_line(ln); res[d["id"]] = d
    return r.returncode, res, r.stderr

def helper_line(sid, env, ccid, sig):
    ids = [TYPES[t]["tid"] for t in sig["args"]]
    rt = 0 if sig["ret"] == "void" else TYPES[sig["ret"]]["tid"]
    return "S %s %s %d %d %d %d %s" % (sid, env, ccid, sig["va"], rt, len(ids), " ".join(map(str, ids)))

# ------------------------------------------------------------------------------------------------------------------
# Comparison
# ------------------------------------------------------------------------------------------------------------------
def fmt_loc(l):
    if l["kind"] in ("reg", "indirect-reg"):
        return "%s%s" % ("*" if l["kind"].startswith("ind") else "", "+".join("%s%d" % r for r in l["regs"]))
    if l["kind"] in ("stack", "indirect-stack"):
        return "%s[sa+%d]" % ("*" if l["kind"].startswith("ind") else "", l["off"])
    if l["kind"] == "split": return "split(%s,[sa+%d])" % ("+".join("%s%d" % r for r in l["regs"]), l["off"])
    return l["kind"] + ":" + l.get("why", "")

def fmt_aj(pack):
    out = []
    for v in pack:
        if v["kind"] == "reg": out.append("%s%s%d" % ("*" if v["indirect"] else "", v["group"], v["id"]))
        elif v["kind"] == "stack": out.append("%s[sa+%d]" % ("*" if v["indirect"] else "", v["off"]))
        else: out.append("unassigned")
    return "+".join(out) or "none"

def model_stack_layout(abi, sig, ref, defects):
    """Recomputes the offsets of the stack-passed arguments (as classified by clang) and the size of the stack-argument area
    under the ABI rule modified by `defects` (set of finding keys that mirror what the AsmJit source does). Only used to
    attribute a deviation to a specific finding; never to judge. -> ({arg index: offset}, total)"""
    key = abi_key(abi)
    ws = ptr_size(abi)
    off = 0
    out = {}
    if abi.get("positional"):
        shift = 0
        nseq = 0
        for i, t in enumerate(sig["args"]):
            if i not in ref: continue
            l = ref[i]
            onstack = l["kind"] in ("stack", "indirect-stack")
            if key == "vectorcall64" and "vectorcall64-stack-slots-not-positional" in defects:
                # x86func.cpp: spill zone of 48 bytes, then one 8-byte slot per argument that is not passed directly in a register
                if onstack: out[i] = 48 + 8 * nseq
                if onstack or l["kind"] == "indirect-reg": nseq += 1
                continue
            if "win64-indirect-reg-consumes-stack-slot" in defects and l["kind"] == "indirect-reg":
                shift += 8
            if onstack:
                out[i] = 8 * i + shift
        if key == "vectorcall64" and "vectorcall64-stack-slots-not-positional" in defects:
            return out, 48 + 8 * nseq
        total = max([32] + [o + 8 for o in out.values()]) + 0
        if "win64-indirect-reg-consumes-stack-slot" in defects: total = 32 + 8 * sum(1 for i in ref if ref[i]["kind"] in ("stack", "indirect-stack", "indirect-reg"))
        return out, total
    round_total = ws
    for i, t in enumerate(sig["args"]):
        if i not in ref: continue
        l = ref[i]
        if l["kind"] not in ("stack", "indirect-stack"): continue
        sz = tsize(abi, t); cls = TYPES[t]["cls"]
        slot = max(sz, ws)
        align = ws
        if key == "apple-arm64":
            slot = sz; align = min(sz, 16)
            if "apple-arm64-stack-small-int-packing" in defects and sz < 4:
                slot = 4; align = 4
            if "apple-arm64-stack-vector-alignment" in defects and sz >= 16: align = 8
            round_total = 8
        elif key == "aapcs64":
            align = 16 if sz >= 16 else 8
            if "aapcs64-stack-vector-alignment" in defects: align = 8
        elif key == "sysv64":
            # x86func.cpp: integers take max(size, 8); floats/vectors take size_of(type) with no alignment at all
            fdef = "sysv64-stack-float-slot-size" in defects
            align = sz if (cls == "v" and sz >= 16) else (1 if fdef else 8)
            if "sysv64-stack-vector-alignment" in defects and cls == "v": align = 1 if fdef else 8
            if fdef and t == "f32": slot = 4
            if fdef: round_total = 1
        else:  # x86-32
            align = 16 if (cls == "v" and sz >= 16) else 4
            if sz >= 32 and cls == "v": align = sz
            if "x86-stack-vector-alignment" in defects: align = 4
        off = (off + align - 1) // align * align
        out[i] = off
        off += slot
    return out, (off + round_total - 1) // round_total * round_total

STACK_DEFECTS = {
    "sysv64": ["sysv64-stack-float-slot-size", "sysv64-stack-vector-alignment"],
    "aapcs64": ["aapcs64-stack-vector-alignment"],
    "apple-arm64": ["apple-arm64-stack-small-int-packing", "apple-arm64-stack-vector-alignment"],
    "win64": ["win64-indirect-reg-consumes-stack-slot"],
    "vectorcall64": ["vectorcall64-stack-slots-not-positional"],
    "x86": ["x86-stack-vector-alignment"],
}
def stack_defect_candidates(abi):
    return STACK_DEFECTS.get(abi_key(abi), STACK_DEFECTS["x86"] if abi["arch"] == "x86" else [])

def subsets(xs):
    out = [[]]
    for x in xs:
        out += [s + [x] for s in out]
    return sorted(out, key=len)

def _named_stack_end(abi, sig, ref, named):
    return max([l["off"] + (ptr_size(abi) if l["kind"] == "indirect-stack" else tsize(abi, sig["args"][i]))
                for i, l in ref.items() if i < named and l["kind"] in ("stack", "indirect-stack")] + [0])

def rule_unnamed_locations(abi, sig, ref):
    """Where the written ABI puts the unnamed arguments of a variadic call, given where clang's callee finds the named ones.
    -> {arg index: location} or None when a named argument has no reference location.
      Apple arm64 ("Writing ARM64 code for Apple platforms", "Update code that passes arguments to variadic functions"): every unnamed
        argument is passed on the stack, after the (packed) named stack arguments, in its own 8-byte aligned slot of 8 bytes
        (16 bytes, 16-byte aligned for 16-byte types).
      AAPCS64 / SysV x86-64: unnamed arguments are allocated exactly like named ones (next free register of their class, then 8-byte
        stack slots, 16-byte types 16-byte aligned).   Win64: positional (argument i owns rcx/rdx/r8/r9 | xmm0-3 or [8*i]; a floating
        point value in xmm<i> is duplicated in the integer register; 16-byte vectors by reference).   i386 cdecl: everything on the
        stack in 4-byte slots, 16-byte vectors 16-byte aligned (clang/gcc on Linux)."""
    key = abi_key(abi); v0 = sig["va"]; n = len(sig["args"])
    if any(i not in ref for i in range(v0)): return None
    up = lambda x, a: (x + a - 1) // a * a
    out = {}
    end = _named_stack_end(abi, sig, ref, v0)
    if key == "apple-arm64":
        cur = end
        for i in range(v0, n):
            sz = tsize(abi, sig["args"][i])
            cur = up(cur, 16 if sz >= 16 else 8)
            out[i] = dict(kind="stack", off=cur); cur += max(sz, 8)
        return out
    if key in ("aapcs64", "sysv64"):
        gp_order = abi["argregs"]["gp"]; nvec = 8
        gp_used = vec_used = 0
        for i in range(v0):
            c = TYPES[sig["args"][i]]["cls"]; l = ref[i]
            if l["kind"] == "reg":
                if c == "i": gp_used += 1
                else: vec_used += 1
            elif l["kind"] == "stack":
                if c == "i": gp_used = len(gp_order)
                elif tsize(abi, sig["args"][i]) <= 16: vec_used = nvec
            else: return None
        cur = up(end, 8)
        for i in range(v0, n):
            t = sig["args"][i]; c = TYPES[t]["cls"]; sz = tsize(abi, t)
            if c == "i" and gp_used < len(gp_order):
                out[i] = dict(kind="reg", regs=[("gp", gp_order[gp_used])]); gp_used += 1
            elif c != "i" and vec_used < nvec:
                out[i] = dict(kind="reg", regs=[("vec", vec_used)]); vec_used += 1
            else:
                if c == "i": gp_used = len(gp_order)
                else: vec_used = nvec
                cur = up(cur, 16 if sz >= 16 else 8)
                out[i] = dict(kind="stack", off=cur); cur += up(sz, 8)
        return out
    if key == "win64":
        gp = abi["argregs"]["gp"]
        for i in range(v0, n):
            t = sig["args"][i]; c = TYPES[t]["cls"]; sz = tsize(abi, t)
            byref = c == "v" and sz > 8
            if i < 4:
                if byref: out[i] = dict(kind="indirect-reg", regs=[("gp", gp[i])])
                elif c == "i": out[i] = dict(kind="reg", regs=[("gp", gp[i])])
                else: out[i] = dict(kind="reg", regs=[("gp", gp[i]), ("vec", i)])
            else:
                out[i] = dict(kind="indirect-stack" if byref else "stack", off=8 * i)
        return out
    if key == "x86-cdecl":
        cur = up(end, 4)
        for i in range(v0, n):
            t = sig["args"][i]; sz = tsize(abi, t)
            cur = up(cur, 16 if (TYPES[t]["cls"] == "v" and sz >= 16) else 4)
            out[i] = dict(kind="stack", off=cur); cur += up(sz, 4)
        return out
    return None

def same_location(a, b):
    """Two reference locations agree (register lists: one common register is enough - Win64 duplicates floats in GP and XMM)."""
    if a["kind"] != b["kind"]: return False
    if a["kind"] in ("stack", "indirect-stack"): return a["off"] == b["off"]
    return bool(set(a["regs"]) & set(b["regs"]))

def compare_signature(abi, sig, fis, aj, known_keys, stats):
    """-> list of (key, msg). Known findings are counted in stats['known'] and not returned."""
    key = abi_key(abi)
    fails = []
    def fail(k, msg):
        km = known_match(known_keys, k)
        if km: stats["known"][km] = stats["known"].get(km, 0) + 1
        else: fails.append((k, "%s: %s" % (sig_text(sig), msg)))
    named = len(sig["args"]) if sig["va"] == 255 else sig["va"]
    if aj is None:
        return [("helper-no-output", "%s: helper printed nothing" % sig_text(sig))]
    if aj["err"] != 0:
        # AsmJit refuses the signature: accepted only for types the target cannot hold
        fail("%s-init-error" % key, "FuncDetail::init failed with error %d" % aj["err"])
        return fails
    ref = {}
    for i in range(named):
        fi = fis.get("p%d" % i)
        if fi is None:
            stats["cls"]["probe-missing"] = stats["cls"].get("probe-missing", 0) + 1; continue
        l = ref_arg_location(abi, fi, sig["args"][i])
        if l["kind"] == "unknown":
            stats["cls"]["probe-unparsed"] = stats["cls"].get("probe-unparsed", 0) + 1
            stats.setdefault("unparsed", []).append("%s arg %d: %s" % (sig_text(sig), i, l.get("why")))
            continue
        ref[i] = l
    # --- classification + registers
    stack_mismatch = []
    for i, l in sorted(ref.items()):
        pack = aj["args"][i] if i < len(aj["args"]) else []
        t = sig["args"][i]
        desc = "arg %d (%s): clang %s, AsmJit %s" % (i, t, fmt_loc(l), fmt_aj(pack))
        if not pack or any(v["kind"] == "unassigned" for v in pack):
            fail("%s-arg-unassigned" % key, desc); continue
        a_regs = [(v["group"], v["id"]) for v in pack if v["kind"] == "reg"]
        a_stack = [v["off"] for v in pack if v["kind"] == "stack"]
        a_ind = any(v["indirect"] for v in pack)
        if a_regs and a_stack:
            fail("x86-int64-split-between-reg-and-stack", desc); continue
        if l["kind"] == "reg":
            if a_stack or a_ind:
                k2 = "%s-arg-class" % key
                if key == "x86-vectorcall" and TYPES[t]["cls"] == "f": k2 = "x86-vectorcall-float-not-in-xmm"
                if key == "x86-vectorcall" and TYPES[t]["cls"] == "v" and l["regs"][0][1] >= 3: k2 = "x86-vectorcall-vec-regs-overridden"
                fail(k2, desc)
            elif a_regs != l["regs"][:len(a_regs)] or len(a_regs) != len(l["regs"]):
                # clang may read the two halves in any order: compare as sets for multi-register values
                if sorted(a_regs) != sorted(l["regs"]): fail("%s-arg-reg" % key, desc)
            stats["cls"]["arg-in-reg"] = stats["cls"].get("arg-in-reg", 0) + 1
        elif l["kind"] == "indirect-reg":
            if not a_ind or a_stack: fail("%s-arg-class" % key, desc)
            elif a_regs != l["regs"]: fail("%s-arg-reg" % key, desc)
            stats["cls"]["arg-indirect-reg"] = stats["cls"].get("arg-indirect-reg", 0) + 1
        elif l["kind"] in ("stack", "indirect-stack"):
            want_ind = l["kind"] == "indirect-stack"
            if key == "x86-vectorcall" and want_ind and not a_ind: fail("x86-vectorcall-vector-not-indirect", desc)
            elif a_regs or a_ind != want_ind: fail("%s-arg-class" % key, desc)
            else:
                if a_stack[0] != l["off"]: stack_mismatch.append((i, desc))
                elif len(a_stack) > 1 and a_stack != l.get("offs", a_stack)[:len(a_stack)]: stack_mismatch.append((i, desc))
            stats["cls"]["arg-on-stack" if not want_ind else "arg-indirect-stack"] = stats["cls"].get("arg-on-stack" if not want_ind else "arg-indirect-stack", 0) + 1
        elif l["kind"] == "split":
            fail("%s-arg-class" % key, desc)
    # --- stack offsets: attribute to known layout defects when AsmJit's offsets equal the modelled defective layout
    stack_ok = not stack_mismatch
    if stack_mismatch:
        aj_offs = {i: [v["off"] for v in aj["args"][i] if v["kind"] == "stack"][0] for i, l in ref.items()
                   if l["kind"] in ("stack", "indirect-stack") and i < len(aj["args"]) and any(v["kind"] == "stack" for v in aj["args"][i])}
        explained = None
        for sub in subsets(stack_defect_candidates(abi)):
            if not sub: continue
            m, _ = model_stack_layout(abi, sig, ref, set(sub))
            if all(m.get(i) == o for i, o in aj_offs.items()):
                explained = sub; break
        if explained:
            for k in explained: fail(k, stack_mismatch[0][1] + " [layout equals the ABI layout with defect(s) %s]" % ",".join(explained))
        else:
            fail("%s-stack-offset" % key, stack_mismatch[0][1])
    # --- Apple arm64: unnamed arguments of a variadic function always travel on the stack (8-byte slots); the first one is located by
    #     a clang probe (`va_arg` right after `va_start`); (the block after this one locates all of them, on every ABI)
    if key == "apple-arm64" and sig["va"] != 255 and sig["va"] < len(sig["args"]):
        v0 = sig["va"]
        fi9 = fis.get("p900")
        probed = fi9 is not None and not fi9.problems and len(fi9.stack_reads) == 1 and not fi9.live_in
        for i in range(v0, len(sig["args"])):
            pack = aj["args"][i] if i < len(aj["args"]) else []
            if any(v["kind"] == "reg" for v in pack):
                ref_txt = ("clang's va_arg reads it from [sa+%d]" % fi9.stack_reads[0][0]) if (probed and i == v0) else "the Apple ABI passes every unnamed argument on the stack"
                fail("apple-arm64-variadic-args-in-registers", "unnamed variadic arg %d (%s): %s, AsmJit %s" % (i, sig["args"][i], ref_txt, fmt_aj(pack)))
                break
        fi = fis.get("p900")
        if fi is not None and not fi.problems and len(fi.stack_reads) == 1 and not fi.live_in:
            off = fi.stack_reads[0][0]
            pack = aj["args"][v0]
            stats["cls"]["apple-variadic-first-arg-probed"] = stats["cls"].get("apple-variadic-first-arg-probed", 0) + 1
            if not any(v["kind"] == "reg" for v in pack) and stack_ok and pack and pack[0]["kind"] == "stack" and pack[0]["off"] != off:
                fail("apple-arm64-variadic-stack-offset", "first unnamed arg %d (%s): clang va_arg reads [sa+%d], AsmJit %s" % (v0, sig["args"][v0], off, fmt_aj(pack)))
    # --- every unnamed argument of a variadic signature: located by clang's caller (where it stores / in which register it hands over
    #     each argument of a call `f(named..., v1, v2, ...)`) and by the written ABI rule; AsmJit must agree with both
    va_ends = None
    if has_caller_probe(sig) and abi.get("va"):
        v0 = sig["va"]; an = abi["name"]
        def cnt(name, n=1): stats["cls"][name] = stats["cls"].get(name, 0) + n
        cnt("variadic-signature:%s" % an)
        ci = fis.get("c")
        clang_loc = {}
        if ci is None or ci.problems:
            cnt("variadic-caller-probe-unparsed")
            stats.setdefault("unparsed", []).append("%s caller probe: %s" % (sig_text(sig), ci.problems[:2] if ci else "missing"))
        else:
            # the caller-side reading is trusted only if it agrees with the callee-side probes on every named argument
            bad = [i for i in range(v0) if i in ref and ref[i]["kind"] != "split" and (i not in ci.args or not same_location(ref[i], ci.args[i]))]
            if bad:
                cnt("variadic-caller-probe-inconsistent")
                stats.setdefault("unparsed", []).append("%s caller probe disagrees with the callee probe on named arg %d: callee %s, caller %s"
                                                        % (sig_text(sig), bad[0], fmt_loc(ref[bad[0]]), fmt_loc(ci.args[bad[0]]) if bad[0] in ci.args else "not found"))
            else:
                clang_loc = {i: ci.args[i] for i in range(v0, len(sig["args"])) if i in ci.args}
                if key != "win64":
                    for i, l in list(clang_loc.items()):
                        if l["kind"] in ("reg", "indirect-reg") and len(l["regs"]) != 1: del clang_loc[i]
        rule_loc = rule_unnamed_locations(abi, sig, ref) or {}
        walk_loc = {}
        cw = fis.get("w")
        if cw is not None:
            if cw.problems or any(i not in cw.args for i in range(v0, len(sig["args"]))):
                cnt("variadic-va_arg-walk-unparsed")
                stats.setdefault("unparsed", []).append("%s va_arg walk: %s" % (sig_text(sig), cw.problems[:2] or "argument not found"))
            else:
                walk_loc = cw.args
        if len(ref) == named:
            e = _named_stack_end(abi, sig, ref, named)
            if e % 8: cnt("variadic-named-stack-area-ends-unaligned(mod 8):%s" % an)
            elif e: cnt("variadic-named-stack-area-ends-aligned:%s" % an)
            else: cnt("variadic-no-named-stack-area:%s" % an)
        va_fail = False; refs_disagree = False
        for i in range(v0, len(sig["args"])):
            t = sig["args"][i]; pack = aj["args"][i] if i < len(aj["args"]) else []
            cl, wl, rl = clang_loc.get(i), walk_loc.get(i), rule_loc.get(i)
            refs = [(h, l) for h, l in (("located_by_clang", cl), ("located_by_clang_va_arg_walk", wl), ("judged_by_rule", rl)) if l is not None]
            if cl is None and wl is None: cnt("variadic-unnamed-not-located-by-clang:%s" % an)
            if not refs: continue
            dis = [(h1, l1, h2, l2) for x, (h1, l1) in enumerate(refs) for (h2, l2) in refs[x + 1:] if not same_location(l1, l2)]
            if dis:
                # the references disagree among themselves (the harness' reading of the ABI document versus clang, or clang's caller versus
                # clang's callee): not AsmJit's problem, never judged, always reported
                cnt("variadic-references-disagree"); refs_disagree = True
                stats.setdefault("unparsed", []).append("%s unnamed arg %d: %s says %s, %s says %s" % (sig_text(sig), i, dis[0][0], fmt_loc(dis[0][1]), dis[0][2], fmt_loc(dis[0][3])))
                break
            cnt("variadic-unnamed:%s:%s" % ({"i": "int", "f": "fp", "v": "vec"}[TYPES[t]["cls"]] + str(tsize(abi, t) * 8), refs[0][1]["kind"]))
            for how, l in refs:
                cnt("variadic_unnamed_%s:%s" % (how, an))
                src = {"located_by_clang": "clang's caller passes it in", "located_by_clang_va_arg_walk": "clang's va_arg reads it from",
                       "judged_by_rule": "the ABI rule puts it in"}[how]
                desc = "unnamed variadic arg %d (%s): %s %s, AsmJit %s" % (i, t, src, fmt_loc(l), fmt_aj(pack))
                if not pack or any(v["kind"] == "unassigned" for v in pack):
                    fail("%s-arg-unassigned" % key, desc); va_fail = True; break
                a_regs = [(v["group"], v["id"]) for v in pack if v["kind"] == "reg"]
                a_stack = [v["off"] for v in pack if v["kind"] == "stack"]
                a_ind = any(v["indirect"] for v in pack)
                want_ind = l["kind"].startswith("indirect")
                if l["kind"] in ("stack", "indirect-stack"):
                    if a_regs or a_ind != want_ind:
                        fail("apple-arm64-variadic-args-in-registers" if key == "apple-arm64" and a_regs else "%s-variadic-arg-class" % key, desc); va_fail = True; break
                    if a_stack[0] != l["off"]:
                        if stack_ok: fail("%s-variadic-stack-offset" % key, desc)
                        va_fail = True; break
                else:
                    if a_stack or a_ind != want_ind:
                        fail("%s-variadic-arg-class" % key, desc); va_fail = True; break
                    if len(a_regs) != 1 or a_regs[0] not in l["regs"]:
                        fail("%s-variadic-arg-reg" % key, desc); va_fail = True; break
            if va_fail: break      # later arguments are consequences
        size_loc = clang_loc if all(i in clang_loc for i in range(v0, len(sig["args"]))) else walk_loc
        if not va_fail and stack_ok and len(ref) == named and all(i in size_loc for i in range(v0, len(sig["args"]))) and not refs_disagree:
            va_ends = []
            for i, l in size_loc.items():
                if i < v0: continue
                if l["kind"] == "stack": va_ends.append(l["off"] + max(tsize(abi, sig["args"][i]), 8 if key == "apple-arm64" else 0))
                elif l["kind"] == "indirect-stack": va_ends.append(l["off"] + ptr_size(abi))
    # --- total stack area / callee pops
    fi0 = fis.get("p0")
    if fi0 is not None and not fi0.problems and abi["arch"] == "x86":
        want_pop = fi0.ret_imm
        if (aj["cleanup"] != 0) != (want_pop != 0) and (want_pop != 0 or aj["stack"] != 0):
            fail("%s-callee-pop" % key, "clang callee returns with ret %d, AsmJit callee cleanup %d (arg stack size %d)" % (want_pop, aj["cleanup"], aj["stack"]))
        elif want_pop and stack_ok and aj["cleanup"] != want_pop:
            fail("%s-stack-size" % key, "clang callee pops %d bytes, AsmJit %d" % (want_pop, aj["cleanup"]))
    if stack_ok and (sig["va"] == 255 or va_ends is not None):
        ends = [l["off"] + (ptr_size(abi) if l["kind"] == "indirect-stack" else tsize(abi, sig["args"][i])) for i, l in ref.items() if l["kind"] in ("stack", "indirect-stack")]
        if va_ends is not None:
            ends += va_ends
            if ends: stats["cls"]["variadic-stack-size-checked"] = stats["cls"].get("variadic-stack-size-checked", 0) + 1
        if ends and len(ref) == named:
            ws = 8 if abi["arch"] != "x86" else 4
            want = (max(ends) + ws - 1) // ws * ws
            if abi.get("positional"): want = max(want, 32)
            # x64 vectorcall: a float/vector argument passed in xmm4/xmm5 (5th/6th position) still owns its positional 8-byte slot
            # (LLVM CC_X86_64_VectorCall allocates 8 bytes of shadow stack for it; clang's caller reserves 8*n bytes, see `callee@@48`)
            if key == "vectorcall64": want = max(want, 8 * min(len(sig["args"]), 6))
            if aj["stack"] != want:
                explained = None
                for sub in subsets(stack_defect_candidates(abi)):
                    if sub and model_stack_layout(abi, sig, ref, set(sub))[1] == aj["stack"]:
                        explained = sub; break
                msg = "stack argument area: derived from clang's layout %d, AsmJit arg_stack_size() %d" % (want, aj["stack"])
                if explained:
                    for k in explained: fail(k, msg + " [equals the ABI size with defect(s) %s]" % ",".join(explained))
                else:
                    fail("%s-stack-size" % key, msg)
    # --- return value
    if sig["ret"] != "void":
        fi = fis.get("r")
        if fi is not None:
            l = ref_ret_location(abi, fi, sig["ret"])
            desc = "return (%s): clang %s, AsmJit %s" % (sig["ret"], fmt_loc(l) if l["kind"] != "memory" else "memory(sret)", fmt_aj(aj["ret"]))
            if l["kind"] == "unknown":
                stats["cls"]["ret-unparsed"] = stats["cls"].get("ret-unparsed", 0) + 1
                stats.setdefault("unparsed", []).append("%s ret: %s" % (sig_text(sig), l.get("why")))
            elif l["kind"] == "memory":
                fail("%s-ret-class" % key, desc)
            else:
                a_regs = [(v["group"], v["id"]) for v in aj["ret"] if v["kind"] == "reg"]
                if len(a_regs) != len(aj["ret"]) or a_regs != l["regs"]:
                    fail("x86-vectorcall-float-not-in-xmm" if key == "x86-vectorcall" and TYPES[sig["ret"]]["cls"] == "f" else "%s-ret-reg" % key, desc)
                stats["cls"]["ret-checked"] = stats["cls"].get("ret-checked", 0) + 1
    return fails

# ------------------------------------------------------------------------------------------------------------------
# Per-ABI fixed checks: preserved registers, red zone
# ------------------------------------------------------------------------------------------------------------------
def check_fixed(abi, fis, aj, known_keys, stats):
    key = abi_key(abi); fails = []
    def fail(k, msg):
        km = known_match(known_keys, k)
        if km: stats["known"][km] = stats["known"].get(km, 0) + 1
        else: fails.append((k, "abi=%s: %s" % (abi["name"], msg)))
    fi = fis.get("presx")
    if fi is None or fi.problems:
        stats["cls"]["pres-unparsed"] = stats["cls"].get("pres-unparsed", 0) + 1
        stats.setdefault("unparsed", []).append("%s presx: %s" % (abi["name"], fi.problems[:2] if fi else "missing"))
    else:
        saved_gp = sorted(set(i for g, i in fi.saved if g == "gp"))
        saved_vec = sorted(set(i for g, i in fi.saved if g == "vec"))
        sp_id = 31 if abi["arch"] == "a64" else 4
        ignore = {sp_id}
        if abi["arch"] == "a64": ignore.add(18)      # platform register, see cfg assumptions
        aj_gp = sorted(i for i in range(32) if aj["pres"][0] >> i & 1 and i not in ignore)
        aj_vec = sorted(i for i in range(32) if aj["pres"][1] >> i & 1)
        saved_gp = [i for i in saved_gp if i not in ignore]
        if saved_gp != aj_gp:
            fail("preserved-regs:%s" % key, "callee-saved GP registers: clang saves %s, AsmJit preserved mask %s" % (saved_gp, aj_gp))
        if saved_vec != aj_vec:
            fail("preserved-regs:%s" % key, "callee-saved vector registers: clang saves %s, AsmJit preserved mask %s" % (saved_vec, aj_vec))
        stats["cls"]["preserved-checked"] = stats["cls"].get("preserved-checked", 0) + 1
    reach = []
    for n in RZ_SIZES:
        f = fis.get("rz%dx" % n)
        if f is None or f.problems: reach = None; break
        reach.append(f.redzone_reach)
    if reach is None:
        stats["cls"]["redzone-unparsed"] = stats["cls"].get("redzone-unparsed", 0) + 1
        stats.setdefault("unparsed", []).append("%s red zone probes: %s" % (abi["name"], [fis[k].problems[:1] for k in fis if k.startswith("rz")]))
    else:
        want = max(reach)       # bytes below sp that clang-compiled leaf functions address without moving sp
        if "keyas" in abi:
            pass                # foreign convention on this platform (ms_abi on Linux, sysv_abi on Windows): the red zone is a platform matter
        elif aj["red"] != want:
            fail("red-zone:%s" % key, "clang leaf functions address up to %d bytes below sp (probes %s), AsmJit red_zone_size() %d" % (want, reach, aj["red"]))
        else:
            stats["cls"]["redzone-checked"] = stats["cls"].get("redzone-checked", 0) + 1
    return fails

# ------------------------------------------------------------------------------------------------------------------
# light-call: internal consistency only
# ------------------------------------------------------------------------------------------------------------------
def gen_light_signature(seed, lc, idx):
    rng = random.Random("c06l:%d:%s:%d" % (seed, lc["name"], idx))
    n = rng.randint(0, 14)
    ints = INTS if lc["arch"] == "x64" else INTS32
    pool = ints + FLOATS + vecs(16) + vecs(32)
    args = [rng.choice(pool) for _ in range(n)]
    ret = rng.choice(["void"] + ints + FLOATS + vecs(16))
    return dict(abi=lc["name"], ret=ret, args=args, va=255)

def check_light(lc, sig, aj, known_keys, stats):
    fails = []
    key = "lightcall"
    def fail(k, msg):
        km = known_match(known_keys, k)
        if km: stats["known"][km] = stats["known"].get(km, 0) + 1
        else: fails.append((k, "%s: %s" % (sig_text(sig), msg)))
    if aj is None or aj["err"] != 0:
        fail("lightcall-init-error", "FuncDetail::init failed: %s" % (aj and aj["err"])); return fails
    seen = {}
    spans = []
    for i, pack in enumerate(aj["args"]):
        for v in pack:
            if v["kind"] == "unassigned":
                fail("lightcall-arg-unassigned", "arg %d (%s) has no location" % (i, sig["args"][i])); continue
            if v["kind"] == "reg":
                loc = (v["group"], v["id"])
                if loc in seen: fail("lightcall-arg-overlap", "args %d and %d share %s%d" % (seen[loc], i, loc[0], loc[1]))
                seen[loc] = i
                gi = {"gp": 0, "vec": 1, "mask": 2, "mm": 3}.get(v["group"])
                if gi is not None and aj["pres"][gi] >> v["id"] & 1:
                    # informational: light-call declares (almost) every register callee-saved, including the ones that carry arguments;
                    # the callee then has to restore them, which is legal. Counted, not judged.
                    stats["cls"]["lightcall-arg-in-callee-saved-reg(info)"] = stats["cls"].get("lightcall-arg-in-callee-saved-reg(info)", 0) + 1
            else:
                sz = tsize(dict(arch=lc["arch"]), sig["args"][i])
                for (o, s, j) in spans:
                    if v["off"] < o + s and o < v["off"] + sz:
                        fail("lightcall-arg-overlap", "stack args %d [%d,%d) and %d [%d,%d) overlap" % (j, o, o + s, i, v["off"], v["off"] + sz))
                spans.append((v["off"], sz, i))
    if spans and aj["stack"] < max(o + s for o, s, _ in spans):
        fail("lightcall-stack-size", "arg_stack_size %d smaller than the end of the last stack argument %d" % (aj["stack"], max(o + s for o, s, _ in spans)))
    # documented preserved set (x86func.cpp): all GP registers; vector registers >= n
    n = lc["n"]
    ngp = 16 if lc["arch"] == "x64" else 8
    want_gp = ((1 << ngp) - 1) & ~0b101      # every GP register except the return registers (e/rax, e/rdx)
    if aj["pres"][0] & want_gp != want_gp:
        fail("preserved-regs:lightcall", "GP preserved mask %#x does not contain all %d GP registers other than the return registers ax/dx" % (aj["pres"][0], ngp))
    nvec = 16 if lc["arch"] == "x64" else 8
    want_vec = ((1 << nvec) - 1) & ~((1 << n) - 1)
    if aj["pres"][1] & want_vec != want_vec:
        fail("preserved-regs:lightcall", "vector preserved mask %#x does not contain xmm%d..xmm%d" % (aj["pres"][1], n, nvec - 1))
    for v in aj["ret"]:
        gi = {"gp": 0, "vec": 1}.get(v.get("group"))
        if v["kind"] == "reg" and gi is not None and aj["pres"][gi] >> v["id"] & 1:
            fail("lightcall-ret-in-preserved-reg", "return value in %s%d which the convention lists as preserved" % (v["group"], v["id"]))
    stats["cls"]["lightcall-checked"] = stats["cls"].get("lightcall-checked", 0) + 1
    return fails

# ------------------------------------------------------------------------------------------------------------------
# Driver
# ------------------------------------------------------------------------------------------------------------------
def needs_exclusion(abi, sig, stats, known_keys=()):
    """Generator-side exclusions (counted): shapes that only re-trigger a known finding (or abort the helper) are rewritten so that
    the search continues behind them; TRIGGERS below keeps one fixed signature per known class."""
    key = abi_key(abi)
    def count(name):
        stats["cls"]["excluded:" + name] = stats["cls"].get("excluded:" + name, 0) + 1
    if key in ("win64", "vectorcall64"):
        # vector arguments at index >= 16 index CallConv::_passed_order out of bounds (UBSan abort): covered by the dedicated probe
        for i, t in enumerate(sig["args"]):
            if i >= 16 and TYPES[t]["cls"] == "v":
                sig["args"][i] = "f64"; count("win64-vector-arg-index>=16")
    if key == "sysv64" and sig["va"] != 255:
        # LLVM passes 256/512-bit vectors of variadic functions in memory even when they are named (X86CallingConv.td: CCIfNotVarArg),
        # gcc passes named ones in ymm/zmm: no unambiguous reference
        for i, t in enumerate(sig["args"]):
            if TYPES[t]["cls"] == "v" and TYPES[t]["size"] > 16:
                sig["args"][i] = "f32x4"; count("sysv64-variadic-wide-vector(compilers-disagree)")
    if abi.get("va") and sig["va"] != 255:
        # unnamed arguments undergo the default promotions in C
        promo = {"i8": "i32", "u8": "i32", "i16": "i32", "u16": "i32", "f32": "f64"}
        for i in range(sig["va"], len(sig["args"])):
            t = sig["args"][i]
            if t in promo: sig["args"][i] = promo[t]
            elif TYPES[t]["cls"] == "v" and TYPES[t]["size"] != 16 and not (TYPES[t]["size"] == 8 and abi["arch"] == "a64"): sig["args"][i] = "i32x4"
    if key.startswith("x86-regparm") and known_match(known_keys, "x86-int64-split-between-reg-and-stack"):
        free = int(key[-1])
        for i, t in enumerate(sig["args"]):
            if TYPES[t]["cls"] != "i": continue
            need = 2 if tsize(abi, t) == 8 else 1
            if need == 2 and free == 1:
                sig["args"][i] = "i32"; need = 1; count("x86-int64-split-between-reg-and-stack")
            free = free - need if need <= free else 0
    if key == "x86-vectorcall":
        if known_match(known_keys, "x86-vectorcall-float-not-in-xmm"):
            for i, t in enumerate(sig["args"]):
                if TYPES[t]["cls"] == "f": sig["args"][i] = "u32"; count("x86-vectorcall-float-not-in-xmm")
            if sig["ret"] != "void" and TYPES[sig["ret"]]["cls"] == "f": sig["ret"] = "u32"; count("x86-vectorcall-float-not-in-xmm")
        if known_match(known_keys, "x86-vectorcall-vec-regs-overridden") or known_match(known_keys, "x86-vectorcall-vector-not-indirect"):
            nv = 0
            for i, t in enumerate(sig["args"]):
                if TYPES[t]["cls"] == "v":
                    nv += 1
                    if nv > 3: sig["args"][i] = "u16"; count("x86-vectorcall-more-than-3-vectors")
    return sig

# One fixed signature per finding class that the generators avoid once it is known: keeps the known finding counted (and noticed
# when it gets fixed). Only the listed keys are judged on these signatures (their other offsets are consequences).
TRIGGERS = [
    ("x86-int64-split-between-reg-and-stack", "abi=x86-regparm3 va=255 ret=void args=i32,i32,i64"),
    ("x86-vectorcall-float-not-in-xmm", "abi=x86-vectorcall va=255 ret=void args=f32,f64"),
    ("x86-vectorcall-vec-regs-overridden", "abi=x86-vectorcall va=255 ret=void args=i32x4,i32x4,i32x4,i32x4"),
    ("x86-vectorcall-vector-not-indirect", "abi=x86-vectorcall va=255 ret=void args=i32x4,i32x4,i32x4,i32x4,i32x4,i32x4,i32x4"),
]

def process_batch(abi, batch, with_fixed):
    """batch: [(k, sig)] -> (asm analysis per signature, fixed-probe analysis, error text)"""
    tn = set(["i32"])
    for _, s in batch:
        tn.update(s["args"])
        if s["ret"] != "void": tn.add(s["ret"])
    src = c_prelude(tn) + "".join(c_for_sig(k, s, abi) for k, s in batch)
    if with_fixed: src += c_fixed_probes(abi)
    rc, out, err = run_clang(abi, src)
    if rc != 0:
        return None, None, "clang failed (%s): %s" % (abi["name"], err[-400:]), src
    fa = analyse(abi, out)
    per = {}
    for name, fi in fa.items():
        m = re.fullmatch(r"s(\d+)(p\d+|r|c|w)x", name)
        if m: per.setdefault(int(m.group(1)), {})[m.group(2)] = fi
    fixed = {n: fi for n, fi in fa.items() if n == "presx" or n.startswith("rz")}
    return per, fixed, None, src

def win64_oob_probe(known_keys, stats):
    """Dedicated probe, separate process: a Win64 signature with a vector argument at index 16."""
    sig = dict(abi="win64", ret="void", args=["i32"] * 16 + ["f32x4"], va=255)
    rc, res, err = run_helper([helper_line("oob", "x64win", 33, sig)])
    aj = res.get("oob")
    msg = None
    if rc != 0 and ("out of bounds" in err or "runtime error" in err):
        first = [l for l in err.splitlines() if "runtime error" in l]
        msg = "%s: %s" % (sig_text(sig), first[0].strip() if first else err[-200:])
    elif rc != 0:
        return [("helper-crash", "win64 OOB probe: helper exit %d: %s" % (rc, err[-300:]))]
    elif aj and aj["err"] == 0:
        pack = aj["args"][16]
        if any(v["kind"] == "reg" for v in pack):
            msg = "%s: argument 16 reported as %s (Win64 passes only arguments 0-3 in registers)" % (sig_text(sig), fmt_aj(pack))
    stats["cls"]["win64-oob-probe"] = stats["cls"].get("win64-oob-probe", 0) + 1
    if msg:
        km = known_match(known_keys, "win64-passed-order-oob")
        if km: stats["known"][km] = stats["known"].get(km, 0) + 1; return []
        return [("win64-passed-order-oob", msg)]
    return []

def evaluate(sigs_by_abi, known_keys, log, batch_size=12):
    """sigs_by_abi: {abi name: [sig]} -> (stats, fails[(key,msg,sig)])"""
    stats = dict(cls={}, known={}, evaluations=0, nontrivial=0, hashes=set(), samples=[])
    fails = []
    jobs = []
    for an, sigs in sigs_by_abi.items():
        abi = ABI_BY_NAME[an]
        for b in range(0, len(sigs), batch_size):
            jobs.append((abi, [(b + j, s) for j, s in enumerate(sigs[b:b + batch_size])], b == 0))
    with ThreadPoolExecutor(max_workers=NCPU) as ex:
        results = list(ex.map(lambda j: process_batch(*j), jobs))
    # helper: one run for everything
    lines = []
    for an, sigs in sigs_by_abi.items():
        abi = ABI_BY_NAME[an]
        for k, s in enumerate(sigs):
            lines.append(helper_line("%s/%d" % (an, k), abi["env"], abi["ccid"], s))
    rc, ajres, herr = run_helper(lines)
    if rc != 0:
        fails.append(("helper-crash", "c06_abi exited with %d: %s" % (rc, herr[-600:].replace("\n", " | ")), None))
    for (abi, batch, with_fixed), (per, fixed, err, src) in zip(jobs, results):
        an = abi["name"]
        if err:
            stats["cls"]["clang-failed"] = stats["cls"].get("clang-failed", 0) + 1
            stats.setdefault("unparsed", []).append(err)
            continue
        for k, sig in batch:
            aj = ajres.get("%s/%d" % (an, k))
            fs = compare_signature(abi, sig, per.get(k, {}), aj, known_keys, stats)
            stats["evaluations"] += 1
            stats["cls"]["abi:" + an] = stats["cls"].get("abi:" + an, 0) + 1
            if sig["va"] != 255: stats["cls"]["varargs"] = stats["cls"].get("varargs", 0) + 1
            nstack = 0
            if aj and aj["err"] == 0:
                nstack = sum(1 for p in aj["args"] for v in p if v["kind"] == "stack")
            if nstack >= 1 or len(sig["args"]) > 4:
                stats["nontrivial"] += 1
                stats["hashes"].add(struct.unpack("<Q", hashlib.sha1(sig_text(sig).encode()).digest()[:8])[0])
                if len(stats["samples"]) < 4: stats["samples"].append(sig_text(sig))
            for kx, m in fs: fails.append((kx, m, sig))
        if with_fixed:
            k0, s0 = batch[0]
            aj = ajres.get("%s/%d" % (an, k0))
            if aj and aj["err"] == 0:
                for kx, m in check_fixed(abi, fixed, aj, known_keys, stats): fails.append((kx, m, s0))
    return stats, fails

def run(part, tier, seed, pdir, rep_dir, known_keys, log):
    tcfg = part[tier]
    per_abi = tcfg["sigs_per_abi"]
    known_keys = list(known_keys)
    sigs_by_abi = {}
    pre_stats = dict(cls={})
    for abi in ABIS:
        n = max(4, int(per_abi * abi.get("weight", 1.0)))
        sigs_by_abi[abi["name"]] = [needs_exclusion(abi, gen_signature(seed, abi, i), pre_stats, known_keys) for i in range(n)]
        if abi.get("va"):
            nv = max(4, int(tcfg.get("va_sigs_per_abi", per_abi // 2) * abi.get("weight", 1.0)))
            sigs_by_abi[abi["name"]] += [needs_exclusion(abi, gen_va_signature(seed, abi, i), pre_stats, known_keys) for i in range(nv)]
    stats, fails = evaluate(sigs_by_abi, known_keys, log)
    for k, v in pre_stats["cls"].items(): stats["cls"][k] = stats["cls"].get(k, 0) + v
    # fixed trigger signatures of the classes excluded above
    for tkey, ttext in TRIGGERS:
        tsig = parse_sig_text(ttext)
        tstats, tfails = evaluate({tsig["abi"]: [tsig]}, [], log)
        hit = [f for f in tfails if f[0] == tkey]
        stats["cls"]["trigger:" + tkey] = stats["cls"].get("trigger:" + tkey, 0) + 1
        if hit:
            km = known_match(known_keys, tkey)
            if km: stats["known"][km] = stats["known"].get(km, 0) + 1
            else: fails.append(hit[0])
    # light-call
    lines, lsigs = [], {}
    for lc in LIGHT:
        for i in range(tcfg.get("light_sigs", 40)):
            s = gen_light_signature(seed, lc, i)
            sid = "%s/%d" % (lc["name"], i)
            lsigs[sid] = (lc, s)
            lines.append(helper_line(sid, lc["env"], lc["ccid"], s))
    rc, ajres, herr = run_helper(lines)
    if rc != 0: fails.append(("helper-crash", "c06_abi (light-call) exited with %d: %s" % (rc, herr[-600:].replace("\n", " | ")), None))
    for sid, (lc, s) in lsigs.items():
        stats["evaluations"] += 1
        for kx, m in check_light(lc, s, ajres.get(sid), known_keys, stats): fails.append((kx, m, s))
    for kx, m in win64_oob_probe(known_keys, stats): fails.append((kx, m, dict(abi="win64", ret="void", args=["i32"] * 16 + ["f32x4"], va=255)))
    # ---- report
    violations, seen = [], {}
    for kx, m, sig in fails:
        seen[kx] = seen.get(kx, 0) + 1
        if seen[kx] > 1: continue
        path = os.path.join(rep_dir, "abi-%s.sig" % re.sub(r"[^A-Za-z0-9_.-]", "_", kx))
        with open(path, "w") as f:
            f.write("# property C06 part A key=%s\n# %s\n%s\n" % (kx, m, sig_text(sig) if sig else ""))
        violations.append((kx, path, m))
    hp = os.path.join(pdir, "abi.hashes")
    with open(hp, "wb") as f:
        for h in sorted(stats["hashes"]): f.write(struct.pack("<Q", h))
    notes = []
    if stats.get("unparsed"):
        notes.append("part A: %d probe(s) could not be interpreted (skipped, not judged); first: %s" % (len(stats["unparsed"]), stats["unparsed"][0][:300]))
    for kx, c in sorted(seen.items()):
        if c > 1: notes.append("part A: failure key %s occurred %d times" % (kx, c))
    cls = {"A:" + k: v for k, v in stats["cls"].items()}
    return dict(evaluations=stats["evaluations"], nontrivial_evals=stats["nontrivial"], classes=cls, known_hits=stats["known"],
                samples=["A: " + s for s in stats["samples"]], notes=notes, violations=violations, hash_files=[hp])

def replay(part, path, known_keys):
    text = [l for l in open(path).read().splitlines() if l.strip() and not l.startswith("#")]
    if not text:
        print("REPLAY-OK (nothing to replay)"); return 0
    sig = parse_sig_text(text[0])
    an = sig["abi"]
    def lg(*a): pass
    if an.startswith("lightcall"):
        lc = [l for l in LIGHT if l["name"] == an][0]
        rc, res, err = run_helper([helper_line("x", lc["env"], lc["ccid"], sig)])
        stats = dict(cls={}, known={})
        fs = check_light(lc, sig, res.get("x"), list(known_keys), stats)
    elif an == "win64" and len(sig["args"]) > 16 and any(TYPES[t]["cls"] == "v" for t in sig["args"][16:]):
        stats = dict(cls={}, known={})
        fs = win64_oob_probe(list(known_keys), stats)
    else:
        stats, fl = evaluate({an: [sig]}, list(known_keys), lg)
        fs = [(k, m) for k, m, _ in fl]
    if fs:
        for k, m in fs: print("REPLAY-FAIL key=%s msg=%s" % (k, m))
        print("VIOLATION property=C06 replay=%s" % path)
        return 1
    print("REPLAY-OK")
    return 0

def _standalone_run(seed, n):
    """python3 fw/c06_abi.py --run SEED N : part A alone (used for sensitivity runs with C06_ABI_HELPER pointing to a mutant build)."""
    known = []
    for line in open(os.path.join(ROOT, "known_findings.txt")):
        m = re.match(r"known:\s+property=C06\s+key=(\S+)", line)
        if m: known.append(m.group(1))
    import tempfile
    d = tempfile.mkdtemp(prefix="c06abi-")
    part = dict(quick=dict(sigs_per_abi=n, va_sigs_per_abi=max(4, n * 2 // 3), light_sigs=n))
    res = run(part, "quick", seed, d, d, known, print)
    print("evaluations", res["evaluations"], "nontrivial", res["nontrivial_evals"], "known", res["known_hits"])
    for k, pth, m in res["violations"]: print("VIOLATION", k, "::", m[:400])
    for nn in res["notes"]: print("NOTE", nn[:300])
    return 1 if res["violations"] else 0

if __name__ == "__main__":
    if sys.argv[1] == "--run":
        sys.exit(_standalone_run(int(sys.argv[2]), int(sys.argv[3])))
    # ad-hoc: python3 fw/c06_abi.py "abi=sysv64 va=255 ret=void args=i32,f32"
    sig = parse_sig_text(sys.argv[1])
    abi = ABI_BY_NAME[sig["abi"]]
    per, fixed, err, src = process_batch(abi, [(0, sig)], True)
    print(src); print(err)
    rc, out, e2 = run_clang(abi, src); print(out)
    for k, fi in (per or {}).get(0, {}).items():
        print(k, "live_in", fi.live_in, "stack", fi.stack_reads, "ind", fi.indirect_slots, "ret", fi.ret_imm, "src", fi.src_loads, "prob", fi.problems)
    for k, fi in (fixed or {}).items():
        print(k, "saved", fi.saved, "adj", fi.sp_adjust_first, "neg", fi.neg_sp_access, "prob", fi.problems)
    st, fl = evaluate({sig["abi"]: [sig]}, [], print)
    print(st["cls"]); print(fl)
