"""C12 sub-check (6): the generated instruction tables agree with the ISA database they are generated from.

Copies the working tree of the repository to a fresh scratch directory (outside /repo and /verif), runs
tools/tablegen-x86.js and tools/tablegen-a64.js there (they rewrite the *instdb* / *globals* files in place) and compares
every file the generators touched with the committed one. A difference is a violation keyed "tablegen-diff:<file>".
The scratch directory is removed before returning. Replay: `./check C12 --replay replays/C12/tablegen-diff-*.case`.
"""
import os, subprocess, tempfile, shutil, hashlib, difflib, re

ROOT = os.path.dirname(os.path.dirname(os.path.abspath(__file__)))
GENERATORS = ["tablegen-x86.js", "tablegen-a64.js"]


def _repo():
    return os.environ.get("VERIF_REPO", "/repo")


def _hash_tree(base, rel_dirs):
    out = {}
    for rd in rel_dirs:
        for dp, _, fns in os.walk(os.path.join(base, rd)):
            for fn in fns:
                p = os.path.join(dp, fn)
                try:
                    out[os.path.relpath(p, base)] = hashlib.sha1(open(p, "rb").read()).hexdigest()
                except OSError:
                    pass
    return out


def _regenerate(log):
    """Returns (diffs: {relpath: first_hunk_text}, notes[], files_compared)."""
    repo = _repo()
    scratch = tempfile.mkdtemp(prefix="c12-tablegen-")
    notes, diffs = [], {}
    try:
        dst = os.path.join(scratch, "repo")
        shutil.copytree(repo, dst, symlinks=True, ignore=shutil.ignore_patterns(".git", "_build", "build"))
        before = _hash_tree(dst, ["asmjit", "db"])
        for g in GENERATORS:
            r = subprocess.run(["node", g], cwd=os.path.join(dst, "tools"), stdout=subprocess.PIPE, stderr=subprocess.STDOUT, text=True, timeout=900)
            if r.returncode != 0:
                diffs["<generator>" + g] = "node tools/%s failed with exit code %d: %s" % (g, r.returncode, r.stdout[-600:])
            missing = [l for l in r.stdout.splitlines() if "MISSING INSTRUCTION" in l]
            if missing:
                notes.append("%s: %d ISA-database instructions have no AsmJit instruction id (reported by the generator as MISSING INSTRUCTION, e.g. %s)" % (g, len(missing), missing[0].strip()[:60]))
            for line in r.stdout.splitlines():
                if "MISSING INSTRUCTION" not in line and re.search(r"(?i)\b(error|fatal|has no|cannot|couldn't)\b", line):
                    notes.append("%s: %s" % (g, line.strip()[:200]))
        after = _hash_tree(dst, ["asmjit", "db"])
        compared = 0
        for rel in sorted(set(before) | set(after)):
            if before.get(rel) == after.get(rel) or rel.endswith('.backup'):
                continue
            compared += 1
            a = open(os.path.join(repo, rel), errors="replace").read().splitlines() if os.path.exists(os.path.join(repo, rel)) else []
            b = open(os.path.join(dst, rel), errors="replace").read().splitlines() if os.path.exists(os.path.join(dst, rel)) else []
            hunk = []
            for l in difflib.unified_diff(a, b, "committed/" + rel, "regenerated/" + rel, lineterm="", n=1):
                hunk.append(l)
                if len(hunk) > 14:
                    break
            diffs[rel] = "\n".join(hunk)
        return diffs, notes, len(before), compared
    finally:
        shutil.rmtree(scratch, ignore_errors=True)


def run(part, tier, seed, pdir, rep_dir, known_keys, log):
    diffs, notes, nfiles, changed = _regenerate(log)
    res = dict(evaluations=nfiles, nontrivial_evals=len(GENERATORS), classes={"tablegen_files_compared": nfiles, "tablegen_generators_run": len(GENERATORS), "tablegen_files_rewritten_differently": changed},
               known_hits={}, samples=["node tools/tablegen-x86.js + tools/tablegen-a64.js on a scratch copy: %d files under asmjit/ and db/ compared, %d differ" % (nfiles, changed)],
               notes=notes[:10], violations=[], hash_files=[])
    import fnmatch
    for rel, hunk in diffs.items():
        key = "tablegen-diff:" + os.path.basename(rel)
        k = next((x for x in known_keys if x == key or fnmatch.fnmatch(key, x)), None)
        if k:
            res["known_hits"][k] = res["known_hits"].get(k, 0) + 1
            continue
        path = os.path.join(rep_dir, re.sub(r"[^A-Za-z0-9_.-]", "_", key) + ".case")
        open(path, "w").write("# property C12 key=%s\n# regenerating the tables from the ISA database changes %s\n# %s\ntablegen %s\nend\n" % (key, rel, hunk.replace("\n", "\n# "), rel))
        res["violations"].append((key, path, "regenerated %s differs from the committed file; first hunk: %s" % (rel, hunk.replace("\n", " | ")[:900])))
    return res


def replay(part, path, known_keys):
    diffs, notes, nfiles, changed = _regenerate(lambda *a: None)
    want = None
    for line in open(path):
        if line.startswith("tablegen "):
            want = line.split(None, 1)[1].strip()
    hit = [r for r in diffs if want is None or r == want]
    if hit:
        print("REPLAY-FAIL key=tablegen-diff:%s msg=%s" % (os.path.basename(hit[0]), diffs[hit[0]].replace("\n", " | ")[:600]))
        print("VIOLATION property=C12 replay=%s" % path)
        return 1
    print("REPLAY-OK")
    return 0
