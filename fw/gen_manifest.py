#!/usr/bin/env python3
"""Regenerates /verif/MANIFEST.json from fw/props_cfg.py (claimed checks) + fw/manifest_meta.py (texts)."""
import json, os, sys
ROOT = os.path.dirname(os.path.dirname(os.path.abspath(__file__)))
sys.path.insert(0, os.path.join(ROOT, "fw"))
import props_cfg, manifest_meta as mm

ALL = ["C%02d" % i for i in range(1, 21)]
checks = []
for pid in ALL:
    if pid not in props_cfg.PROPS or pid in mm.NOT_CLAIMED:
        continue
    cfg = props_cfg.PROPS[pid]
    meta = props_cfg.METAS[pid]
    checks.append(dict(
        property_id=pid,
        quick_cmd="./check %s --tier quick" % pid,
        thorough_cmd="./check %s --tier thorough" % pid,
        evidence_file="evidence/%s.json" % pid,
        replay_cmd_template="./check %s --replay {path}" % pid,
        engine=meta["engine"],
        level_claimed=dict(category=cfg["level"], text=meta["level_text"], design_ref=meta["design_ref"]),
        level_note=meta["level_note"],
        technique=meta["technique"],
    ))
na = []
for pid in ALL:
    if pid in props_cfg.PROPS and pid not in mm.NOT_CLAIMED:
        continue
    na.append(dict(property_id=pid, reason=mm.NOT_CLAIMED.get(pid, "check not built yet at this revision of /verif (planned in DESIGN.md section 4); no claim is made")))
man = dict(
    version=1,
    setup_cmd="make -s -j16 all",
    hooks=dict(
        guard="ASMJIT_VERIF",
        enable="every check compiles /repo/asmjit/*/*.cpp itself with -DASMJIT_VERIF (Makefile, COMMON flags); no cmake involved",
        baseline_off_cmd="cmake -S /repo -B /repo/_build -G Ninja -DASMJIT_TEST=ON -DCMAKE_BUILD_TYPE=RelWithDebInfo && cmake --build /repo/_build && ctest --test-dir /repo/_build -j8 --timeout 900",
        source_commits=mm.HOOK_COMMITS,
        add_only=True,
    ),
    engines=mm.ENGINES,
    checks=checks,
    notes=mm.NOTES,
    not_applicable=na,
)
json.dump(man, open(os.path.join(ROOT, "MANIFEST.json"), "w"), indent=1)
print("MANIFEST.json: %d checks, %d not claimed" % (len(checks), len(na)))
