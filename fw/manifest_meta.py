HOOK_COMMITS = ["cc2d331"]
NOT_CLAIMED = {}
NOTES = ("All checks are generated-input searches against explicit oracles (property-based testing / fuzzing). "
         "./check <ID> rebuilds AsmJit from /repo's working tree with ASan+UBSan and ASMJIT_ASSERT active, runs the harness on all "
         "cores with seeds derived from VERIF_SEED, merges counters into evidence/<ID>.json. Replay files are plain text cases "
         "re-run without the library.")
ENGINES = [
    dict(name="rapidcheck", path="fw/vh.h", serves_properties=["C19"], kind_free_text="property-based testing (generators + integrated shrinking), one process per worker, Case = plain serialisable data"),
]
