HOOK_COMMITS = []
NOT_CLAIMED = {}
NOTES = ("All checks are generated-input searches against explicit oracles (property-based testing / fuzzing). "
         "./check <ID> rebuilds AsmJit from /repo's working tree with ASan+UBSan and ASMJIT_ASSERT active, runs the harness on all "
         "cores with seeds derived from VERIF_SEED, merges counters into evidence/<ID>.json. Replay files are plain text cases "
         "re-run without the library.")
ENGINES = [
    dict(name="rapidcheck", path="fw/vh.h", serves_properties=["C19"], kind_free_text="property-based testing (generators + integrated shrinking), one process per worker, Case = plain serialisable data"),
]
META = {}
META["C19"] = dict(
    engine="rapidcheck",
    technique="property-based testing: generated add/fill/reset/embed histories vs. a byte-image reference model",
    level_text=("Exploration: tens of thousands (quick) to millions (thorough) of generated constant-pool histories are compared step by step "
                "with an explicit model (alignment, dedup, stability of earlier offsets, byte-exact fill, zero gaps, size/alignment cover, "
                "invalid sizes rejected without state change, embed_const_pool image and label). Not a proof: absence of failures in the "
                "explored histories."),
    level_note="Trusts the harness model (~150 lines) and ASan/UBSan; data alphabet is small by design to force sharing and gap reuse.",
    design_ref="DESIGN.md section 4, C19",
)
