HOOK_COMMITS = ["cc2d331"]
NOT_CLAIMED = {}
NOTES = ("All checks are generated-input searches against explicit oracles (property-based testing / fuzzing). "
         "./check <ID> rebuilds AsmJit from /repo's working tree with ASan+UBSan and ASMJIT_ASSERT active, runs the harness on all "
         "cores with seeds derived from VERIF_SEED, merges counters into evidence/<ID>.json. Replay files are plain text cases "
         "re-run without the library.")
ALL = ["C%02d" % i for i in range(1, 21)]
ENGINES = [
    dict(name="rapidcheck harness framework", path="fw/vh.h", serves_properties=[x for x in ALL if x != "C14"],
         kind_free_text="property-based testing (generators + integrated shrinking + deterministic sweeps), one process per worker, Case = plain serialisable integer data; replay without the library"),
    dict(name="libFuzzer", path="fw/run_libfuzzer.py", serves_properties=["C14"],
         kind_free_text="coverage-guided fuzzing (clang -fsanitize=fuzzer,address,undefined) with the semantic oracle inside the target; saved artifact = replay unit"),
    dict(name="LLVM-14 MC + binutils libopcodes oracles", path="oracle/", serves_properties=["C01", "C02", "C03", "C04", "C13", "C17", "C20", "C14"],
         kind_free_text="independent assembler/disassemblers linked in-process as differential oracles"),
    dict(name="ISA-database template judges", path="gen/", serves_properties=["C01", "C02", "C12", "C13", "C14"],
         kind_free_text="x86 encoding-rule judge (gen/x86tmpl.h) and AArch64 fixed-bit masks generated from db/*.json"),
    dict(name="host execution trampoline", path="hostexec/", serves_properties=["C05", "C06", "C07", "C12"],
         kind_free_text="runs generated machine code on the host CPU on a private stack with full register-state capture; signals become results"),
    dict(name="clang ABI probes", path="fw/c06_abi.py", serves_properties=["C06"],
         kind_free_text="generated C signatures compiled by clang for 16 ABI variants; argument locations extracted from the assembly as reference"),
    dict(name="fault injection", path="props/c15.cpp", serves_properties=["C15"],
         kind_free_text="arena hook H1 (ASMJIT_VERIF) + linker --wrap of malloc/mmap family; enumerated and generated fault plans"),
    dict(name="ThreadSanitizer", path="props/c11.cpp", serves_properties=["C11"],
         kind_free_text="generated multi-thread schedules of allocator/runtime operations under TSan plus a linearisability-style model check of results"),
]
