# Per-property configuration of the driver. One entry per property; an entry may have several parts
# (engines / harnesses) whose counters are merged into one evidence file.
PROPS = {}

PROPS["C19"] = dict(
    harness="c19", level="exploration",
    quick=dict(cases=24000, max_size=80, workers=8),
    thorough=dict(cases=1600000, max_size=200, workers=16),
    rule=("rapidcheck sequences of ConstPool add(size in 1..64 valid and invalid; data from a small 4-byte-word alphabet so that "
          "equal constants and halves/quarters of wider ones recur) / fill / reset / embed_const_pool, judged by an explicit byte-image "
          "model; a case is non-trivial when an alignment gap was created AND a later constant was placed into a gap or shared with a "
          "wider constant; distinct = distinct case text"),
    assumptions=["ASan+UBSan build with ASMJIT_ASSERT active", "overlap is allowed only for nested power-of-two blocks with equal bytes (registered sub-constants)"],
)
