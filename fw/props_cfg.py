# Loads cfg/C??.py: each defines PROP (driver configuration) and META (manifest texts).
import os, glob, runpy
ROOT = os.path.dirname(os.path.dirname(os.path.abspath(__file__)))
PROPS, METAS = {}, {}
for f in sorted(glob.glob(os.path.join(ROOT, "cfg", "C*.py"))):
    pid = os.path.basename(f)[:-3]
    ns = runpy.run_path(f)
    PROPS[pid] = ns["PROP"]
    METAS[pid] = ns.get("META", {})
