"""Custom runner for libFuzzer targets (see check: parts with runner="custom", module="run_libfuzzer").
part keys: target (binary name under build/bin), quick/thorough: dict(runs=, workers=, max_len=, timeout=), corpus (optional seed dir),
regress (dir of saved inputs re-run first), env (extra environment)."""
import os, subprocess, shutil, glob, json, re, time

ROOT = os.path.dirname(os.path.dirname(os.path.abspath(__file__)))


def _env(part, known_keys, counters=None):
    e = dict(os.environ)
    e["ASAN_OPTIONS"] = "detect_leaks=1:abort_on_error=0:exitcode=99:allocator_may_return_null=1:handle_abort=1"
    e["UBSAN_OPTIONS"] = "print_stacktrace=1:halt_on_error=1:exitcode=98"
    if known_keys:
        e["VH_KNOWN"] = ",".join(known_keys)
    if counters:
        e["VH_COUNTERS"] = counters
    e.update(part.get("env") or {})
    return e


def _run_one(binpath, path, part, known_keys, timeout=120):
    try:
        r = subprocess.run([binpath, path], stdout=subprocess.PIPE, stderr=subprocess.PIPE, env=_env(part, known_keys), text=True, errors="replace", timeout=timeout)
        return r.returncode, r.stderr
    except subprocess.TimeoutExpired:
        return 0, "timeout"


def replay(part, path, known_keys):
    binpath = os.path.join(ROOT, "build/bin", part["target"])
    rc, err = _run_one(binpath, path, part, known_keys)
    print(err[-3000:])
    if rc != 0:
        print("VIOLATION property=%s replay=%s" % (part.get("property", "?"), path))
        return 1
    print("REPLAY-OK")
    return 0


def run(part, tier, seed, pdir, rep_dir, known_keys, log):
    cfg = part[tier]
    binpath = os.path.join(ROOT, "build/bin", part["target"])
    res = dict(evaluations=0, nontrivial_evals=0, classes={}, known_hits={}, samples=[], notes=[], violations=[], hash_files=[], inconclusive=[])
    # 1. regression inputs
    reg = os.path.join(ROOT, part.get("regress", ""))
    if part.get("regress") and os.path.isdir(reg):
        for f in sorted(glob.glob(os.path.join(reg, "*"))):
            if os.path.isdir(f) or f.endswith(".txt") or f.endswith(".case"):
                continue
            rc, err = _run_one(binpath, f, part, known_keys)
            res["classes"]["regress_inputs"] = res["classes"].get("regress_inputs", 0) + 1
            if rc != 0:
                first = next((l.strip() for l in err.splitlines() if "ERROR:" in l or "runtime error" in l or "ORACLE" in l), err[-200:])
                res["violations"].append(("regress:" + os.path.basename(f), f, first))
    # 2. fuzzing campaigns
    workers = min(cfg.get("workers", 16), os.cpu_count() or 4)
    procs = []
    for w in range(workers):
        cdir = os.path.join(pdir, "corpus%d" % w)
        os.makedirs(cdir, exist_ok=True)
        if part.get("corpus") and w % 2 == 0:      # half of the workers start from the seed corpus, half from an empty one
            for f in glob.glob(os.path.join(ROOT, part["corpus"], "*")):
                if os.path.isfile(f):
                    shutil.copy(f, cdir)
        adir = os.path.join(pdir, "art%d" % w) + "/"
        os.makedirs(adir, exist_ok=True)
        argv = [binpath, "-seed=%d" % (seed * 1000 + w + 1), "-runs=%d" % cfg["runs"], "-max_len=%d" % cfg.get("max_len", 512), "-artifact_prefix=" + adir,
                "-print_final_stats=1", "-timeout=20", "-rss_limit_mb=3000", "-len_control=0", cdir]
        argv += part.get("fuzz_args", [])
        cj = os.path.join(pdir, "w%d.json" % w)
        procs.append((w, adir, cj, subprocess.Popen(argv, stdout=subprocess.PIPE, stderr=subprocess.PIPE, env=_env(part, known_keys, cj), text=True, errors="replace")))
    deadline = time.time() + cfg.get("timeout", 3600)
    for w, adir, cj, p in procs:
        try:
            out, err = p.communicate(timeout=max(1, deadline - time.time()))
        except subprocess.TimeoutExpired:
            p.kill(); out, err = p.communicate()
            res["inconclusive"].append("fuzz worker %d hit the wall-clock budget" % w)
        m = re.search(r"stat::number_of_executed_units:\s*(\d+)", err)
        execs = int(m.group(1)) if m else 0
        res["evaluations"] += execs
        res["classes"]["fuzz_executions"] = res["classes"].get("fuzz_executions", 0) + execs
        if os.path.exists(cj):
            try:
                j = json.load(open(cj))
                res["nontrivial_evals"] += j.get("nontrivial_evals", 0)
                for k, v in j.get("classes", {}).items():
                    res["classes"][k] = res["classes"].get(k, 0) + v
                for k, v in j.get("known_hits", {}).items():
                    res["known_hits"][k] = res["known_hits"].get(k, 0) + v
                res["samples"] += j.get("samples", [])[:2]
                hf = cj[:-5] + ".hashes"
                if os.path.exists(hf):
                    res["hash_files"].append(hf)
            except Exception:
                pass
        for a in sorted(glob.glob(adir + "*")):
            bn = os.path.basename(a)
            if bn.startswith("crash-") or bn.startswith("leak-"):
                dst = os.path.join(rep_dir, "%s-w%d-%s" % (part["target"], w, bn))
                shutil.copyfile(a, dst)
                first = ""
                for l in err.splitlines():
                    if "ORACLE" in l or "ERROR: AddressSanitizer" in l or "runtime error:" in l or "ERROR: LeakSanitizer" in l or "deadly signal" in l:
                        first = l.strip(); break
                # confirm by replaying the artifact
                rc, e2 = _run_one(binpath, dst, part, known_keys)
                if rc != 0:
                    res["violations"].append(("fuzz-" + bn.split("-")[0], dst, first or e2[-300:]))
                else:
                    res["inconclusive"].append("artifact %s did not reproduce" % bn)
            elif bn.startswith(("slow-unit", "timeout", "oom")):
                res["classes"]["load_noise_artifacts"] = res["classes"].get("load_noise_artifacts", 0) + 1
    return res
