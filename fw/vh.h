// Verification harness framework (shared by all rapidcheck-driven properties).
//
// A harness provides:
//   const char* vh_property();                       e.g. "C19"
//   rc::Gen<vh::Case> vh_gen(const vh::Opts&);        generator of cases (all randomness lives here)
//   void vh_run(const vh::Case&, vh::Ctx&);           the property body; reports through Ctx
//
// A Case is plain data (config ints + a list of operations, each a list of ints [+ optional blob]),
// serialisable to text so that a shrunk failure becomes a replay file that is re-run WITHOUT the
// library (`--replay FILE`). The same main() also runs every file of regress/<ID>/ first.
#pragma once

#include <rapidcheck.h>

#include <cinttypes>
#include <cstdint>
#include <cstdio>
#include <cstdlib>
#include <cstring>
#include <fcntl.h>
#include <unistd.h>
#include <sys/stat.h>
#include <dirent.h>
#include <fnmatch.h>

#include <algorithm>
#include <functional>
#include <map>
#include <set>
#include <sstream>
#include <string>
#include <unordered_set>
#include <vector>

namespace vh {

using Op = std::vector<int64_t>;

struct Case {
  std::vector<int64_t> cfg;
  std::vector<Op> ops;

  std::string to_text() const {
    std::string s;
    char buf[32];
    s += "cfg";
    for (int64_t v : cfg) { snprintf(buf, sizeof buf, " %" PRId64, v); s += buf; }
    s += "\n";
    for (const Op& op : ops) {
      s += "op";
      for (int64_t v : op) { snprintf(buf, sizeof buf, " %" PRId64, v); s += buf; }
      s += "\n";
    }
    return s;
  }

  static bool parse(const std::string& text, Case& out) {
    out = Case();
    std::istringstream in(text);
    std::string line;
    bool seen_cfg = false;
    while (std::getline(in, line)) {
      if (line.empty() || line[0] == '#') continue;
      std::istringstream ls(line);
      std::string tag;
      ls >> tag;
      std::vector<int64_t> vals;
      int64_t v;
      while (ls >> v) vals.push_back(v);
      if (tag == "cfg") { out.cfg = vals; seen_cfg = true; }
      else if (tag == "op") out.ops.push_back(vals);
      else if (tag == "end") break;
    }
    return seen_cfg;
  }
};

inline uint64_t fnv1a(const void* p, size_t n, uint64_t h = 1469598103934665603ull) {
  const unsigned char* b = (const unsigned char*)p;
  for (size_t i = 0; i < n; i++) { h ^= b[i]; h *= 1099511628211ull; }
  return h;
}
inline uint64_t hash_str(const std::string& s) { return fnv1a(s.data(), s.size()); }

struct Failure {
  std::string key;   // stable identifier of the failure class (matches known_findings.txt keys)
  std::string msg;
};

struct Opts {
  std::string tier = "quick";
  std::string out_dir = "build/run/tmp";
  std::string replay;
  std::string regress_dir;
  int worker = 0;
  int workers = 1;
  long cases = 100;
  int max_size = 100;
  uint64_t seed = 1;
  std::set<std::string> known;              // failure keys listed as known findings
  std::map<std::string, std::string> kv;    // extra --key=value options for the harness
  // known-finding keys may end in a glob ("j3-disp:vpdp*"); returns the matching listed key or "".
  std::string known_match(const std::string& key) const {
    if (known.count(key)) return key;
    for (const std::string& k : known) if (k.find_first_of("*?[") != std::string::npos && fnmatch(k.c_str(), key.c_str(), 0) == 0) return k;
    return std::string();
  }
  long geti(const char* k, long dflt) const { auto it = kv.find(k); return it == kv.end() ? dflt : atol(it->second.c_str()); }
  bool is_thorough() const { return tier == "thorough"; }
};

// Per-run counters; dumped as JSON for the driver to merge.
struct Ctx {
  const Opts* opts = nullptr;
  uint64_t evaluations = 0;
  uint64_t nontrivial_evals = 0;
  std::unordered_set<uint64_t> nontrivial_hashes;
  std::map<std::string, uint64_t> classes;
  std::map<std::string, uint64_t> known_hits;
  std::map<std::string, std::pair<uint64_t, std::string>> collected;   // --collect=1: every failure key with count + first message
  std::vector<std::string> samples;
  std::vector<std::string> notes;
  size_t max_samples = 6;
  size_t max_hashes = 4000000;
  bool exhaustive = false;

  // state of the current case
  const Case* cur = nullptr;
  bool cur_nontrivial = false;
  std::string cur_sample;
  bool in_shrink = false;

  void cls(const std::string& name, uint64_t n = 1) { classes[name] += n; }
  // Marks the current case as non-trivial by the property's rule.
  void nontrivial() { cur_nontrivial = true; }
  // Human-readable rendering of the current case (kept for the first few non-trivial cases).
  void sample(const std::string& s) { cur_sample = s; }
  bool want_sample() const { return samples.size() < max_samples; }
  // Count an independent sub-case (for harnesses where one Case contains many judged items).
  void sub_nontrivial(uint64_t h) { nontrivial_evals++; if (nontrivial_hashes.size() < max_hashes) nontrivial_hashes.insert(h); }

  [[noreturn]] void fail(const std::string& key, const std::string& msg) { throw Failure{key, msg}; }
  // Reports a failure unless its key is a listed known finding (then it is counted and the case continues).
  // Returns true if the finding is known (caller continues).
  bool fail_unless_known(const std::string& key, const std::string& msg) {
    if (opts) { std::string k = opts->known_match(key); if (!k.empty()) { known_hits[k]++; return true; } }
    if (opts && opts->geti("collect", 0)) { auto& e = collected[key]; if (e.first++ == 0) e.second = msg; return true; }   // triage mode
    throw Failure{key, msg};
  }
  bool is_known(const std::string& key) const { return opts && !opts->known_match(key).empty(); }
  void known_excluded(const std::string& key) { known_hits[key]++; }
};

// A failed check throws vh::Failure unless its key is a listed known finding (counted; execution continues).
#define VH_CHECK(ctx, cond, key, ...)                                                        \
  do { if (!(cond)) { char _b[1024]; snprintf(_b, sizeof _b, __VA_ARGS__);                   \
       (ctx).fail_unless_known((key), std::string(#cond " :: ") + _b); } } while (0)

inline std::string json_escape(const std::string& s) {
  std::string o;
  for (unsigned char c : s) {
    switch (c) {
      case '"': o += "\\\""; break;
      case '\\': o += "\\\\"; break;
      case '\n': o += "\\n"; break;
      case '\t': o += "\\t"; break;
      case '\r': o += "\\r"; break;
      default:
        if (c < 0x20 || c >= 0x7f) { char b[8]; snprintf(b, sizeof b, "\\u%04x", c); o += b; }
        else o += (char)c;
    }
  }
  return o;
}

inline void write_file(const std::string& path, const std::string& data) {
  FILE* f = fopen(path.c_str(), "wb");
  if (!f) return;
  fwrite(data.data(), 1, data.size(), f);
  fclose(f);
}

inline bool read_file(const std::string& path, std::string& out) {
  FILE* f = fopen(path.c_str(), "rb");
  if (!f) return false;
  char buf[65536];
  size_t n;
  out.clear();
  while ((n = fread(buf, 1, sizeof buf, f)) > 0) out.append(buf, n);
  fclose(f);
  return true;
}

inline void mkdirs(const std::string& path) {
  std::string p;
  for (size_t i = 0; i <= path.size(); i++) {
    if (i == path.size() || path[i] == '/') { if (!p.empty()) mkdir(p.c_str(), 0777); }
    if (i < path.size()) p += path[i];
  }
}

inline void dump_counters(const Ctx& ctx, const std::string& path, const std::string& status,
                          const std::string& replay, const std::string& fail_key, const std::string& fail_msg) {
  std::string s = "{\n";
  char b[128];
  snprintf(b, sizeof b, "  \"evaluations\": %" PRIu64 ",\n  \"nontrivial_evals\": %" PRIu64 ",\n", ctx.evaluations, ctx.nontrivial_evals);
  s += b;
  s += "  \"status\": \"" + json_escape(status) + "\",\n";
  s += "  \"replay\": \"" + json_escape(replay) + "\",\n";
  s += "  \"fail_key\": \"" + json_escape(fail_key) + "\",\n";
  s += "  \"fail_msg\": \"" + json_escape(fail_msg) + "\",\n";
  s += std::string("  \"exhaustive\": ") + (ctx.exhaustive ? "true" : "false") + ",\n";
  s += "  \"classes\": {";
  bool first = true;
  for (auto& kv : ctx.classes) { snprintf(b, sizeof b, "%" PRIu64, kv.second); s += (first ? "" : ", "); s += "\"" + json_escape(kv.first) + "\": " + b; first = false; }
  s += "},\n  \"known_hits\": {";
  first = true;
  for (auto& kv : ctx.known_hits) { snprintf(b, sizeof b, "%" PRIu64, kv.second); s += (first ? "" : ", "); s += "\"" + json_escape(kv.first) + "\": " + b; first = false; }
  s += "},\n  \"collected\": {";
  first = true;
  for (auto& kv : ctx.collected) { snprintf(b, sizeof b, "%" PRIu64, kv.second.first); s += (first ? "" : ", "); s += "\"" + json_escape(kv.first) + "\": [" + b + ", \"" + json_escape(kv.second.second) + "\"]"; first = false; }
  s += "},\n  \"samples\": [";
  first = true;
  for (auto& x : ctx.samples) { s += (first ? "" : ", "); s += "\"" + json_escape(x) + "\""; first = false; }
  s += "],\n  \"notes\": [";
  first = true;
  for (auto& x : ctx.notes) { s += (first ? "" : ", "); s += "\"" + json_escape(x) + "\""; first = false; }
  s += "]\n}\n";
  write_file(path, s);
  // hashes (binary u64 array) for exact cross-worker distinct counting
  std::string hp = path.substr(0, path.size() - 5) + ".hashes";
  FILE* f = fopen(hp.c_str(), "wb");
  if (f) {
    std::vector<uint64_t> v(ctx.nontrivial_hashes.begin(), ctx.nontrivial_hashes.end());
    if (!v.empty()) fwrite(v.data(), 8, v.size(), f);
    fclose(f);
  }
}

// Range generator that does not collapse at small sizes (still shrinks towards lo).
template<typename T>
inline rc::Gen<T> irange(T lo, T hi_inclusive) {
  return rc::gen::resize(1000, rc::gen::inRange<T>(lo, (T)(hi_inclusive + 1)));
}
// Size-scaled range (grows with rapidcheck's size parameter).
template<typename T>
inline rc::Gen<T> srange(T lo, T hi_inclusive) {
  return rc::gen::inRange<T>(lo, (T)(hi_inclusive + 1));
}

} // namespace vh

// ---- to be provided by the harness -----------------------------------------------------------
const char* vh_property();
rc::Gen<vh::Case> vh_gen(const vh::Opts&);
void vh_run(const vh::Case&, vh::Ctx&);
// Optional hooks (weak defaults below).
void vh_init(const vh::Opts&, vh::Ctx&) __attribute__((weak));
// Optional deterministic enumeration run BEFORE the generated cases: fills `out` with the k-th case of this worker's share
// (k = 0,1,2,...) and returns true, or returns false when the share is exhausted. Cases must be a pure function of (opts, k).
bool vh_enum(const vh::Opts&, uint64_t k, vh::Case& out) __attribute__((weak));
void vh_fini(const vh::Opts&, vh::Ctx&) __attribute__((weak));

#ifdef VH_MAIN

namespace vh {

static Ctx g_ctx;
static Opts g_opts;
static int g_cur_fd = -1;

static void write_current(const std::string& text) {
  if (g_cur_fd < 0) return;
  if (pwrite(g_cur_fd, text.data(), text.size(), 0) < 0) {}
  if (ftruncate(g_cur_fd, (off_t)text.size()) < 0) {}
}

// Runs one case outside of rapidcheck. Returns 0 ok, 1 failure.
static int run_plain(const Case& c, Ctx& ctx, Failure* out) {
  ctx.cur = &c;
  ctx.cur_nontrivial = false;
  ctx.cur_sample.clear();
  ctx.evaluations++;
  try {
    vh_run(c, ctx);
  } catch (const Failure& f) {
    if (out) *out = f;
    return 1;
  } catch (const std::exception& e) {
    if (out) *out = Failure{"exception", std::string("unexpected C++ exception: ") + e.what()};
    return 1;
  } catch (...) {
    if (out) *out = Failure{"exception", "unexpected non-std exception"};
    return 1;
  }
  if (ctx.cur_nontrivial) {
    ctx.nontrivial_evals++;
    if (ctx.nontrivial_hashes.size() < ctx.max_hashes) ctx.nontrivial_hashes.insert(hash_str(c.to_text()));
    if (ctx.samples.size() < ctx.max_samples)
      ctx.samples.push_back(ctx.cur_sample.empty() ? c.to_text() : ctx.cur_sample);
  }
  return 0;
}

static void parse_args(int argc, char** argv, Opts& o) {
  for (int i = 1; i < argc; i++) {
    std::string a = argv[i];
    auto next = [&]() -> std::string { return (i + 1 < argc) ? argv[++i] : ""; };
    if (a == "--tier") o.tier = next();
    else if (a == "--out") o.out_dir = next();
    else if (a == "--replay") o.replay = next();
    else if (a == "--regress") o.regress_dir = next();
    else if (a == "--worker") o.worker = atoi(next().c_str());
    else if (a == "--workers") o.workers = atoi(next().c_str());
    else if (a == "--cases") o.cases = atol(next().c_str());
    else if (a == "--max-size") o.max_size = atoi(next().c_str());
    else if (a == "--seed") o.seed = strtoull(next().c_str(), nullptr, 10);
    else if (a == "--known") { std::string k = next(); size_t p = 0; while (p <= k.size()) { size_t q = k.find(',', p); if (q == std::string::npos) q = k.size(); if (q > p) o.known.insert(k.substr(p, q - p)); p = q + 1; } }
    else if (a.rfind("--", 0) == 0 && a.find('=') != std::string::npos) { size_t e = a.find('='); o.kv[a.substr(2, e - 2)] = a.substr(e + 1); }
  }
}

static int vh_main(int argc, char** argv) {
  Opts& o = g_opts;
  parse_args(argc, argv, o);
  Ctx& ctx = g_ctx;
  ctx.opts = &o;
  if (vh_init) vh_init(o, ctx);

  char wb[64];
  snprintf(wb, sizeof wb, "/w%d", o.worker);
  std::string base = o.out_dir + wb;

  // --- replay mode: run one file, bypassing the library ---
  if (!o.replay.empty()) {
    std::string text;
    Case c;
    if (!read_file(o.replay, text) || !Case::parse(text, c)) { fprintf(stderr, "cannot read replay %s\n", o.replay.c_str()); return 2; }
    Failure f;
    int r = run_plain(c, ctx, &f);
    if (r) { printf("REPLAY-FAIL key=%s msg=%s\n", f.key.c_str(), f.msg.c_str()); return 1; }
    printf("REPLAY-OK\n");
    return 0;
  }

  mkdirs(o.out_dir);
  g_cur_fd = open((base + ".current").c_str(), O_CREAT | O_RDWR | O_TRUNC, 0666);

  // --- regression tier: every saved case first ---
  if (!o.regress_dir.empty() && o.worker == 0) {
    DIR* d = opendir(o.regress_dir.c_str());
    if (d) {
      std::vector<std::string> files;
      while (dirent* e = readdir(d)) { std::string n = e->d_name; if (n.size() > 5 && n.substr(n.size() - 5) == ".case") files.push_back(n); }
      closedir(d);
      std::sort(files.begin(), files.end());
      for (auto& n : files) {
        std::string text; Case c;
        std::string path = o.regress_dir + "/" + n;
        if (!read_file(path, text) || !Case::parse(text, c)) continue;
        write_current(text);
        Failure f;
        ctx.cls("regress_cases");
        if (run_plain(c, ctx, &f)) {
          { std::string kk = o.known_match(f.key); if (!kk.empty()) { ctx.known_hits[kk]++; continue; } }
          dump_counters(ctx, base + ".json", "fail", path, f.key, f.msg);
          printf("FAIL key=%s replay=%s msg=%s\n", f.key.c_str(), path.c_str(), f.msg.c_str());
          return 1;
        }
      }
    }
  }

  // --- deterministic enumeration (optional) ---
  if (vh_enum) {
    Case c;
    for (uint64_t k = 0; vh_enum(o, k, c); k++) {
      std::string text = c.to_text();
      write_current(text);
      Failure f;
      if (run_plain(c, ctx, &f)) {
        { std::string kk = o.known_match(f.key); if (!kk.empty()) { ctx.known_hits[kk]++; continue; } }
        std::string rp = base + ".case";
        write_file(rp, "# property " + std::string(vh_property()) + " key=" + f.key + "\n# " + f.msg + "\n" + text + "end\n");
        dump_counters(ctx, base + ".json", "fail", rp, f.key, f.msg);
        printf("FAIL key=%s replay=%s msg=%s\n", f.key.c_str(), rp.c_str(), f.msg.c_str());
        return 1;
      }
    }
  }

  // --- generated cases ---
  if (o.cases > 0) {
    {
    char params[256];
    snprintf(params, sizeof params, "seed=%" PRIu64 " max_success=%ld max_size=%d max_discard_ratio=50 noshrink=0", o.seed, o.cases, o.max_size);
    setenv("RC_PARAMS", params, 1);
  }
  std::string last_fail_text;
  Failure last_fail;
  bool failed = false;
  auto gen = vh_gen(o);
  bool ok = rc::check(std::string("property ") + vh_property(), [&]() {
    Case c = *gen;
    std::string text;
    ctx.cur = &c;
    ctx.cur_nontrivial = false;
    ctx.cur_sample.clear();
    ctx.evaluations++;
    text = c.to_text();
    write_current(text);
    try {
      vh_run(c, ctx);
    } catch (const Failure& f) {
      last_fail = f;
      last_fail_text = text;
      failed = true;
      RC_FAIL(f.key + ": " + f.msg);
    } catch (const std::exception& e) {
      last_fail = Failure{"exception", std::string("unexpected C++ exception: ") + e.what()};
      last_fail_text = text;
      failed = true;
      RC_FAIL(last_fail.msg);
    } catch (...) {
      last_fail = Failure{"exception", "unexpected non-std exception"};
      last_fail_text = text;
      failed = true;
      RC_FAIL(last_fail.msg);
    }
    if (ctx.cur_nontrivial && !failed) {
      ctx.nontrivial_evals++;
      if (ctx.nontrivial_hashes.size() < ctx.max_hashes) ctx.nontrivial_hashes.insert(hash_str(text));
      if (ctx.samples.size() < ctx.max_samples)
        ctx.samples.push_back(ctx.cur_sample.empty() ? text : ctx.cur_sample);
    }
  });
  if (!ok && failed) {
    std::string rp = base + ".case";
    write_file(rp, "# property " + std::string(vh_property()) + " key=" + last_fail.key + "\n# " + last_fail.msg + "\n" + last_fail_text + "end\n");
    dump_counters(ctx, base + ".json", "fail", rp, last_fail.key, last_fail.msg);
    printf("FAIL key=%s replay=%s msg=%s\n", last_fail.key.c_str(), rp.c_str(), last_fail.msg.c_str());
    return 1;
  }
  if (!ok) {
    // rapidcheck gave up (too many discards) or failed without a harness failure: inconclusive, not a violation
    dump_counters(ctx, base + ".json", "gaveup", "", "", "");
    printf("GAVEUP\n");
    return 0;
  }
  } // cases > 0
  if (vh_fini) vh_fini(o, ctx);
  dump_counters(ctx, base + ".json", "ok", "", "", "");
  unlink((base + ".current").c_str());
  return 0;
}

} // namespace vh

int main(int argc, char** argv) { return vh::vh_main(argc, argv); }

#endif // VH_MAIN
