#!/usr/bin/env python3
"""Extracts (mnemonic, operand-shape) templates from /repo/asmjit-testing/tests/asmjit_test_assembler_a64.cpp.
The test file enumerates every AArch64 form AsmJit implements; only the *shapes* are taken from it (register class,
arrangement, addressing mode, shift kind, immediate/cond/label slots) plus the example values as a calibration instance.
usage: a64_templates.py <repo> <out>"""
import re, sys
repo, out = sys.argv[1], sys.argv[2]
src = open(repo + "/asmjit-testing/tests/asmjit_test_assembler_a64.cpp").read()

def split_args(s):
    args, depth, cur = [], 0, ""
    for ch in s:
        if ch == "(": depth += 1
        if ch == ")": depth -= 1
        if ch == "," and depth == 0:
            args.append(cur.strip()); cur = ""
        else:
            cur += ch
    if cur.strip(): args.append(cur.strip())
    return args

def num(s):
    s = s.strip()
    try:
        t = s.rstrip("uUlL")
        if t.lower().startswith("0x") or t.lower().startswith("-0x"): return int(t, 16)
        return int(t, 10)
    except ValueError:
        return None

def classify(e):
    """returns (shape, example-values list) or None when unsupported"""
    m = re.fullmatch(r"([wx])(\d+)", e)
    if m: return (m.group(1).upper(), [int(m.group(2))])
    if e in ("wzr", "xzr", "sp", "wsp"): return (e.upper(), [])
    m = re.fullmatch(r"([bhsdq])(\d+)", e)
    if m: return ("S" + m.group(1), [int(m.group(2))])
    m = re.fullmatch(r"v(\d+)\.([bhsd])(\d+)\(\)", e)
    if m: return ("V:%s%s" % (m.group(2), m.group(3)), [int(m.group(1))])
    m = re.fullmatch(r"v(\d+)\.([bhsd])(\d*)\((\d+)\)", e)
    if m: return ("VE:%s%s" % (m.group(2), m.group(3)), [int(m.group(1)), int(m.group(4))])
    m = re.fullmatch(r"v(\d+)", e)
    if m: return ("V:", [int(m.group(1))])
    m = re.fullmatch(r"(ptr|ptr_pre|ptr_post)\((.*)\)", e)
    if m:
        kind, inner = m.group(1), split_args(m.group(2))
        b = inner[0]
        if b == "sp": base = 31
        else:
            bm = re.fullmatch(r"x(\d+)", b)
            if not bm: return None
            base = int(bm.group(1))
        if len(inner) == 1:
            return ("M:base" if kind == "ptr" else None, [base]) if kind == "ptr" else None
        if len(inner) == 2:
            n = num(inner[1])
            if n is not None:
                return ({"ptr": "M:off", "ptr_pre": "M:pre", "ptr_post": "M:post"}[kind], [base, n])
            im = re.fullmatch(r"([wx])(\d+)", inner[1])
            if im:
                if kind == "ptr_pre": return None
                return (("M:idx" if kind == "ptr" else "M:postreg") + im.group(1), [base, int(im.group(2))])
            return None
        if len(inner) == 3 and kind == "ptr":
            im = re.fullmatch(r"([wx])(\d+)", inner[1])
            sm = re.fullmatch(r"(lsl|uxtw|sxtw|sxtx|uxtx)\((\d+)\)", inner[2])
            if im and sm: return ("M:ext%s:%s" % (im.group(1), sm.group(1)), [base, int(im.group(2)), int(sm.group(2))])
        return None
    m = re.fullmatch(r"(lsl|lsr|asr|ror|msl|uxtb|uxth|uxtw|uxtx|sxtb|sxth|sxtw|sxtx)\((\d+)\)", e)
    if m: return ("SH:" + m.group(1), [int(m.group(2))])
    m = re.fullmatch(r"CondCode::k([A-Z]+)", e)
    if m: return ("CC", [m.group(1)])
    n = num(e)
    if n is not None: return ("I", [n])
    if re.fullmatch(r"-?\d+\.\d+f?", e): return ("F", [e.rstrip("f")])
    return None

seen, lines, skipped = set(), [], {}
for m in re.finditer(r'TEST_INSTRUCTION\("([0-9A-Fa-f]+)"\s*,\s*([a-z0-9_]+)\((.*)\)\);', src):
    hexs, mn, argstr = m.group(1), m.group(2), m.group(3)
    args = split_args(argstr)
    shapes, vals, ok = [], [], True
    for a in args:
        c = classify(a)
        if c is None or c[0] is None:
            ok = False; skipped[a[:30]] = skipped.get(a[:30], 0) + 1; break
        shapes.append(c[0]); vals.append(",".join(str(v) for v in c[1]))
    if not ok: continue
    key = mn + "|" + ";".join(shapes)
    if key in seen: continue
    seen.add(key)
    lines.append("%s|%s|%s|%s" % (mn.rstrip("_"), ";".join(shapes), ";".join(vals), hexs))
open(out, "w").write("\n".join(lines) + "\n")
print("templates:", len(lines), "skipped operand kinds:", len(skipped), file=sys.stderr)
for k, v in sorted(skipped.items(), key=lambda kv: -kv[1])[:15]: print("  skipped", v, k, file=sys.stderr)
