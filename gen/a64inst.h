// AArch64 instruction instances from operand-shape templates (build/gen/a64_templates.txt): neutral description,
// AsmJit operands (public constructors) and assembler text rendered by OUR OWN renderer for LLVM MC.
#pragma once
#include <asmjit/core.h>
#include <asmjit/a64.h>

#include <cinttypes>
#include <cstdio>
#include <cstdlib>
#include <map>
#include <string>
#include <vector>

namespace ai {

struct Template {
  std::string name;                       // mnemonic
  std::vector<std::string> shapes;        // one per operand
  std::vector<std::vector<std::string>> ex; // example values per operand (strings)
  std::string ex_hex;                     // expected bytes of the example (from the repository's own test; informational)
};

inline std::vector<std::string> split(const std::string& s, char c) {
  std::vector<std::string> v; size_t p = 0;
  for (;;) { size_t q = s.find(c, p); if (q == std::string::npos) { v.push_back(s.substr(p)); break; } v.push_back(s.substr(p, q - p)); p = q + 1; }
  return v;
}

inline bool load_templates(const char* path, std::vector<Template>& out) {
  FILE* f = fopen(path, "r");
  if (!f) return false;
  char* line = nullptr; size_t cap = 0; ssize_t n;
  while ((n = getline(&line, &cap, f)) > 0) {
    while (n > 0 && (line[n - 1] == '\n' || line[n - 1] == '\r')) line[--n] = 0;
    std::vector<std::string> t = split(line, '|');
    if (t.size() < 4) continue;
    Template tp; tp.name = t[0]; tp.ex_hex = t[3];
    if (!t[1].empty()) { tp.shapes = split(t[1], ';'); std::vector<std::string> ev = split(t[2], ';'); for (size_t i = 0; i < tp.shapes.size(); i++) tp.ex.push_back(i < ev.size() && !ev[i].empty() ? split(ev[i], ',') : std::vector<std::string>()); }
    out.push_back(tp);
  }
  free(line); fclose(f);
  return !out.empty();
}

enum class K : uint8_t { GpW, GpX, Wzr, Xzr, Wsp, Sp, Scalar, VecArr, VecElem, Mem, Shift, Imm, Float, Cond };

struct Opnd {
  K kind = K::Imm;
  int id = 0;                 // register id (0..31)
  char sc = 0;                // scalar class b/h/s/d/q
  std::string arr;            // arrangement "s4", "b16", "" / element type "s", "b4"
  int lane = 0;               // element index
  // memory
  int mode = 0;               // 0 base, 1 off, 2 pre, 3 post, 4 idx, 5 postreg, 6 ext
  int base = 0;               // 0..30, 31 = sp
  bool idx_x = true; int idx = 0;
  std::string ext; int amount = 0;  // shift/extend kind + amount (mem ext and Shift operands)
  int64_t imm = 0;
  double fimm = 0;
  std::string cond;
};

struct Inst { const Template* t = nullptr; std::vector<Opnd> ops; };

struct Choices {
  const std::vector<int64_t>* v; size_t pos;
  Choices(const std::vector<int64_t>& vv, size_t start) : v(&vv), pos(start) {}
  uint64_t raw() { uint64_t x = pos < v->size() ? uint64_t((*v)[pos]) : 0; pos++; return x; }
  int pick(int n) { return n <= 1 ? (raw(), 0) : int(raw() % uint64_t(n)); }
};

inline int lanes_of(const std::string& et) {   // max element index + 1 for an element type ("b","h","s","d","b4","h2")
  if (et == "b") return 16; if (et == "h") return 8; if (et == "s") return 4; if (et == "d") return 2; if (et == "b4") return 4; if (et == "h2") return 4;
  return 1;
}

inline bool is_list_inst(const std::string& n) {
  static const char* k[] = {"ld1", "ld2", "ld3", "ld4", "st1", "st2", "st3", "st4", "ld1r", "ld2r", "ld3r", "ld4r"};
  for (const char* x : k) if (n == x) return true;
  return false;
}

// `use_example`: reproduce the template's example instance (calibration). Otherwise values come from the choices.
inline Inst instantiate(const Template& t, Choices& c, bool use_example, bool near_miss_ok) {
  Inst in; in.t = &t;
  auto exi = [&](size_t op, size_t k, int64_t dflt) -> int64_t { return (op < t.ex.size() && k < t.ex[op].size()) ? strtoll(t.ex[op][k].c_str(), nullptr, 0) : dflt; };
  auto reg_id = [&](size_t op, size_t k, int n) -> int {
    if (use_example) { c.raw(); c.raw(); return int(exi(op, k, 0)); }
    int s = c.pick(8);
    int id = s == 0 ? 0 : s == 1 ? n - 1 : s == 2 ? n - 2 : c.pick(n);
    if (s > 2) {} else c.raw();
    return id;
  };
  static const int64_t imms[] = {0, 1, 2, 3, 4, 5, 7, 8, 12, 15, 16, 17, 24, 31, 32, 33, 48, 56, 63, 64, 65, 127, 128, 255, 256, 511, 512, 1023, 4095, 4096, 4097, 0x7FFF, 0xFFFF, 0x10000,
                                 0xFF00, 0xFFFF0000LL, 0xFFFFFFFFLL, 0x00FF00FF00FF00FFLL, 0x5555555555555555LL, 0x0000FFFF0000FFFFLL, -1, -2, -8, -16, -256, -257, 0x7FFFFFFF, 0x80000000LL, 0x123456789ABCDEFLL};
  static const int64_t offs[] = {0, 1, 2, 3, 4, 8, 12, 16, 24, 32, 48, 64, 120, 124, 128, 248, 252, 255, 256, 257, 504, 508, 512, 1008, 1016, 1020, 1024, 2040, 4088, 4092, 4095, 4096, 8190, 8192, 16380, 16384,
                                 32760, 32768, 65520, -1, -4, -8, -16, -64, -128, -256, -257, -512, -1024};
  for (size_t i = 0; i < t.shapes.size(); i++) {
    const std::string& sh = t.shapes[i];
    Opnd o;
    if (sh == "W" || sh == "X") {
      o.kind = sh == "W" ? K::GpW : K::GpX; o.id = reg_id(i, 0, 31);
      // near miss / "SP or ZR where allowed": occasionally put zr or sp in a plain register slot (the independent assembler decides validity)
      if (!use_example && near_miss_ok) { int z = c.pick(24); if (z == 0) o.kind = sh == "W" ? K::Wzr : K::Xzr; else if (z == 1) o.kind = sh == "W" ? K::Wsp : K::Sp; } else c.raw();
    }
    else if (sh == "WZR") { o.kind = K::Wzr; c.raw(); c.raw(); c.raw(); }
    else if (sh == "XZR") { o.kind = K::Xzr; c.raw(); c.raw(); c.raw(); }
    else if (sh == "WSP") { o.kind = K::Wsp; c.raw(); c.raw(); c.raw(); }
    else if (sh == "SP") { o.kind = K::Sp; c.raw(); c.raw(); c.raw(); }
    else if (sh.size() == 2 && sh[0] == 'S') { o.kind = K::Scalar; o.sc = sh[1]; o.id = reg_id(i, 0, 32); c.raw(); }
    else if (sh.rfind("V:", 0) == 0) { o.kind = K::VecArr; o.arr = sh.substr(2); o.id = reg_id(i, 0, 32); c.raw(); }
    else if (sh.rfind("VE:", 0) == 0) {
      o.kind = K::VecElem; o.arr = sh.substr(3); o.id = reg_id(i, 0, 32);
      int n = lanes_of(o.arr);
      if (use_example) { o.lane = int(exi(i, 1, 0)); c.raw(); }
      else { int s = c.pick(n + ((near_miss_ok && n < 16) ? 1 : 0)); o.lane = s; }   // lane 16 is not representable in a Vec operand (4-bit index)
    }
    else if (sh.rfind("M:", 0) == 0) {
      o.kind = K::Mem;
      std::string m = sh.substr(2);
      if (use_example) { o.base = int(exi(i, 0, 0)); c.raw(); c.raw(); } else { int s = c.pick(6); o.base = s == 0 ? 31 : s == 1 ? 30 : c.pick(31); if (s < 2) c.raw(); }
      auto pick_off = [&]() -> int64_t { if (use_example) { c.raw(); return exi(i, 1, 0); } int s = c.pick(int(sizeof(offs) / sizeof(offs[0])) + 2); if (s >= int(sizeof(offs) / sizeof(offs[0]))) return exi(i, 1, 0) * (s & 1 ? 2 : 1); return offs[s]; };
      if (m == "base") o.mode = 0;
      else if (m == "off") { o.mode = 1; o.imm = pick_off(); }
      else if (m == "pre") { o.mode = 2; o.imm = pick_off(); if (o.imm == 0) o.imm = exi(i, 1, 16) ? exi(i, 1, 16) : 16; }
      else if (m == "post") { o.mode = 3; o.imm = pick_off(); if (o.imm == 0) o.imm = exi(i, 1, 16) ? exi(i, 1, 16) : 16; }
      else if (m == "idxx" || m == "idxw") { o.mode = 4; o.idx_x = m == "idxx"; o.idx = use_example ? int(exi(i, 1, 0)) : c.pick(31); }
      else if (m == "postregx" || m == "postregw") { o.mode = 5; o.idx_x = m == "postregx"; o.idx = use_example ? int(exi(i, 1, 0)) : c.pick(31); }
      else if (m.rfind("ext", 0) == 0) {
        o.mode = 6; o.idx_x = m[3] == 'x'; o.ext = m.substr(5);
        if (use_example) { o.idx = int(exi(i, 1, 0)); o.amount = int(exi(i, 2, 0)); c.raw(); c.raw(); c.raw(); }
        else {
          o.idx = c.pick(31);
          static const char* exts[] = {"lsl", "uxtw", "sxtw", "sxtx"};
          int e = c.pick(6); if (e < 4) { o.ext = exts[e]; o.idx_x = (e == 0 || e == 3); }
          o.amount = c.pick(5);
        }
      }
    }
    else if (sh.rfind("SH:", 0) == 0) {
      o.kind = K::Shift; o.ext = sh.substr(3);
      if (use_example) { o.amount = int(exi(i, 0, 0)); c.raw(); c.raw(); }
      else {
        static const char* sh4[] = {"lsl", "lsr", "asr", "ror"};
        static const char* ex8[] = {"uxtb", "uxth", "uxtw", "uxtx", "sxtb", "sxth", "sxtw", "sxtx"};
        int e = c.pick(16);
        bool is_ext = o.ext[0] == 'u' || o.ext[0] == 's';
        if (o.ext != "msl") { if (!is_ext && e < 4) o.ext = sh4[e]; if (is_ext && e < 8) o.ext = ex8[e]; }
        int s = c.pick(12);
        o.amount = s < 5 ? s : s == 5 ? 8 : s == 6 ? 12 : s == 7 ? 16 : s == 8 ? 31 : s == 9 ? 32 : s == 10 ? 48 : 63;
      }
    }
    else if (sh == "I") {
      o.kind = K::Imm;
      if (use_example) { o.imm = exi(i, 0, 0); c.raw(); c.raw(); }
      else {
        int n = int(sizeof(imms) / sizeof(imms[0]));
        int s = c.pick(n + 6);
        int64_t e = exi(i, 0, 0);
        if (s < n) o.imm = imms[s]; else { int k = s - n; o.imm = k == 0 ? e : k == 1 ? e + 1 : k == 2 ? e - 1 : k == 3 ? e * 2 : k == 4 ? e / 2 : -e; }
        uint64_t r2 = c.raw();
        bool w_form = !t.shapes.empty() && (t.shapes[0] == "W" || t.shapes[0] == "WZR" || t.shapes[0] == "WSP");
        // 64-bit forms: occasionally a value whose low half is plausible but which has one bit set at or above bit 32 (an encoder that
        // checks only the low 32 bits accepts it)
        if (near_miss_ok && !w_form && (r2 & 0xF) == 0xF && o.imm >= 0) o.imm |= int64_t(1) << (32 + int((r2 >> 4) % 31));
        if (w_form && (o.imm > 0xFFFFFFFFLL || o.imm < -0x80000000LL)) o.imm &= 0xFFFFFFFFLL;
      }
    }
    else if (sh == "F") {
      o.kind = K::Float;
      double e = (i < t.ex.size() && !t.ex[i].empty()) ? atof(t.ex[i][0].c_str()) : 1.0;
      static const double fv[] = {1.0, 0.5, 2.0, -1.0, 0.125, 31.0, 1.9375, -0.25, 3.0, 0.1, 100.0, 1.0e-3};
      if (use_example) { o.fimm = e; c.raw(); } else o.fimm = fv[c.pick(12)];
    }
    else if (sh == "CC") {
      o.kind = K::Cond;
      static const char* cc[] = {"EQ", "NE", "HS", "LO", "MI", "PL", "VS", "VC", "HI", "LS", "GE", "LT", "GT", "LE", "AL"};
      if (use_example) { o.cond = (i < t.ex.size() && !t.ex[i].empty()) ? t.ex[i][0] : "EQ"; c.raw(); } else o.cond = cc[c.pick(15)];
    }
    in.ops.push_back(o);
  }
  if (!use_example && (is_list_inst(t.name) || t.name == "tbl" || t.name == "tbx")) {
    size_t first = (t.name == "tbl" || t.name == "tbx") ? 1 : 0, last = first;
    while (last < in.ops.size() && (in.ops[last].kind == K::VecArr || in.ops[last].kind == K::VecElem)) last++;
    if (t.name == "tbl" || t.name == "tbx") { if (last > first) last--; }        // the final vector is the index operand, not part of the list
    bool keep_random = c.pick(6) == 0;
    if (!keep_random) for (size_t k = first + 1; k < last; k++) { in.ops[k].id = (in.ops[first].id + int(k - first)) & 31; in.ops[k].lane = in.ops[first].lane; }
  }
  return in;
}

// ---- AsmJit operands -----------------------------------------------------------------------------------------------------
inline asmjit::a64::Vec vec_with(const std::string& arr, int id, bool elem, int lane) {
  using namespace asmjit::a64;
  Vec vv = v(uint32_t(id));
  uint32_t l = uint32_t(lane);
  if (!elem) {
    if (arr == "b8") return vv.b8(); if (arr == "b16") return vv.b16(); if (arr == "h4") return vv.h4(); if (arr == "h8") return vv.h8();
    if (arr == "s2") return vv.s2(); if (arr == "s4") return vv.s4(); if (arr == "d2") return vv.d2();
    if (arr == "h2") return vv.h2();
    return vv;
  }
  if (arr == "b") return vv.b(l); if (arr == "h") return vv.h(l); if (arr == "s") return vv.s(l); if (arr == "d") return vv.d(l);
  if (arr == "b4") return vv.b4(l); if (arr == "h2") return vv.h2(l);
  return vv;
}

inline asmjit::a64::Shift make_shift(const std::string& k, int amount) {
  using namespace asmjit::a64;
  uint32_t a = uint32_t(amount);
  if (k == "lsl") return lsl(a); if (k == "lsr") return lsr(a); if (k == "asr") return asr(a); if (k == "ror") return ror(a); if (k == "msl") return msl(a);
  if (k == "uxtb") return uxtb(a); if (k == "uxth") return uxth(a); if (k == "uxtw") return uxtw(a); if (k == "uxtx") return uxtx(a);
  if (k == "sxtb") return sxtb(a); if (k == "sxth") return sxth(a); if (k == "sxtw") return sxtw(a); return sxtx(a);
}

inline asmjit::Operand to_asmjit(const Opnd& o) {
  using namespace asmjit;
  switch (o.kind) {
    case K::GpW: return a64::w(uint32_t(o.id));
    case K::GpX: return a64::x(uint32_t(o.id));
    case K::Wzr: return a64::wzr;
    case K::Xzr: return a64::xzr;
    case K::Wsp: return a64::wsp;
    case K::Sp: return a64::sp;
    case K::Scalar: {
      uint32_t id = uint32_t(o.id);
      switch (o.sc) { case 'b': return a64::b(id); case 'h': return a64::h(id); case 's': return a64::s(id); case 'd': return a64::d(id); default: return a64::q(id); }
    }
    case K::VecArr: return vec_with(o.arr, o.id, false, 0);
    case K::VecElem: return vec_with(o.arr, o.id, true, o.lane);
    case K::Mem: {
      a64::Gp base = o.base == 31 ? a64::sp : a64::x(uint32_t(o.base));
      a64::Gp idx = o.idx_x ? a64::x(uint32_t(o.idx)) : a64::w(uint32_t(o.idx));
      switch (o.mode) {
        case 0: return a64::ptr(base);
        case 1: return a64::ptr(base, int32_t(o.imm));
        case 2: return a64::ptr_pre(base, int32_t(o.imm));
        case 3: return a64::ptr_post(base, int32_t(o.imm));
        case 4: return a64::ptr(base, idx);
        case 5: return a64::ptr_post(base, idx);
        default: return a64::ptr(base, idx, make_shift(o.ext, o.amount));
      }
    }
    case K::Shift: return Imm(make_shift(o.ext, o.amount));
    case K::Imm: return Imm(o.imm);
    case K::Float: return Imm(o.fimm);
    case K::Cond: {
      static const char* cc[] = {"AL", "NA", "EQ", "NE", "HS", "LO", "MI", "PL", "VS", "VC", "HI", "LS", "GE", "LT", "GT", "LE"};
      // arm::CondCode values: kAL=0, kNA=1, kEQ=2 ...
      for (uint32_t i = 0; i < 16; i++) if (o.cond == cc[i]) return Imm(i);
      return Imm(2);
    }
  }
  return Operand();
}

// ---- rendering for LLVM MC ----------------------------------------------------------------------------------------------------
inline std::string arr_text(const std::string& a) {   // "s4" -> "4s"
  if (a.size() >= 2) return a.substr(1) + a.substr(0, 1);
  return a;
}

inline std::string reg_text(const Opnd& o) {
  char b[32];
  switch (o.kind) {
    case K::GpW: snprintf(b, sizeof b, "w%d", o.id); return b;
    case K::GpX: snprintf(b, sizeof b, "x%d", o.id); return b;
    case K::Wzr: return "wzr"; case K::Xzr: return "xzr"; case K::Wsp: return "wsp"; case K::Sp: return "sp";
    case K::Scalar: snprintf(b, sizeof b, "%c%d", o.sc, o.id); return b;
    case K::VecArr: if (o.arr.empty()) { snprintf(b, sizeof b, "v%d", o.id); return b; } snprintf(b, sizeof b, "v%d.%s", o.id, arr_text(o.arr).c_str()); return b;
    case K::VecElem: snprintf(b, sizeof b, "v%d.%s[%d]", o.id, arr_text(o.arr).c_str(), o.lane); return b;
    default: return "?";
  }
}

inline std::string mem_text(const Opnd& o) {
  char b[96];
  std::string base = o.base == 31 ? "sp" : "x" + std::to_string(o.base);
  std::string idx = std::string(o.idx_x ? "x" : "w") + std::to_string(o.idx);
  switch (o.mode) {
    case 0: return "[" + base + "]";
    case 1: snprintf(b, sizeof b, "[%s, #%lld]", base.c_str(), (long long)o.imm); return b;
    case 2: snprintf(b, sizeof b, "[%s, #%lld]!", base.c_str(), (long long)o.imm); return b;
    case 3: snprintf(b, sizeof b, "[%s], #%lld", base.c_str(), (long long)o.imm); return b;
    case 4: return "[" + base + ", " + idx + "]";
    case 5: return "[" + base + "], " + idx;
    default:
      if (o.amount == 0) { if (o.ext == "lsl") snprintf(b, sizeof b, "[%s, %s]", base.c_str(), idx.c_str()); else snprintf(b, sizeof b, "[%s, %s, %s]", base.c_str(), idx.c_str(), o.ext.c_str()); }
      else snprintf(b, sizeof b, "[%s, %s, %s #%d]", base.c_str(), idx.c_str(), o.ext.c_str(), o.amount);
      return b;
  }
}


inline std::string render(const Inst& in) {
  const std::string& n = in.t->name;
  std::string s = n;
  std::vector<std::string> parts;
  size_t i = 0, cnt = in.ops.size();
  auto opnd_text = [&](const Opnd& o) -> std::string {
    char b[64];
    switch (o.kind) {
      case K::Mem: return mem_text(o);
      case K::Shift: snprintf(b, sizeof b, "%s #%d", o.ext.c_str(), o.amount); return b;
      case K::Imm: snprintf(b, sizeof b, "#%lld", (long long)o.imm); return b;
      case K::Float: if (o.fimm == double(int64_t(o.fimm))) snprintf(b, sizeof b, "#%.1f", o.fimm); else snprintf(b, sizeof b, "#%.10g", o.fimm); return b;
      case K::Cond: { std::string c = o.cond; for (char& ch : c) ch = char(tolower((unsigned char)ch)); return c; }
      default: return reg_text(o);
    }
  };
  if (is_list_inst(n)) {
    // leading vector operands form the register list
    std::string list = "{ "; bool elem = false; int lane = 0; size_t k = 0;
    for (; k < cnt && (in.ops[k].kind == K::VecArr || in.ops[k].kind == K::VecElem); k++) {
      if (k) list += ", ";
      Opnd t = in.ops[k];
      if (t.kind == K::VecElem) { elem = true; lane = t.lane; char b[32]; snprintf(b, sizeof b, "v%d.%s", t.id, arr_text(t.arr).c_str()); list += b; }
      else list += reg_text(t);
    }
    list += " }";
    if (elem) list += "[" + std::to_string(lane) + "]";
    parts.push_back(list);
    i = k;
  } else if ((n == "tbl" || n == "tbx") && cnt >= 3) {
    parts.push_back(reg_text(in.ops[0]));
    std::string list = "{ ";
    for (size_t k = 1; k + 1 < cnt; k++) { if (k > 1) list += ", "; list += reg_text(in.ops[k]); }
    list += " }";
    parts.push_back(list);
    parts.push_back(reg_text(in.ops[cnt - 1]));
    i = cnt;
  }
  for (; i < cnt; i++) {
    const Opnd& o = in.ops[i];
    // a mem operand in post-index mode renders as two comma separated parts; keep as one string (commas inside are fine)
    parts.push_back(opnd_text(o));
  }
  for (size_t k = 0; k < parts.size(); k++) { s += k ? ", " : " "; s += parts[k]; }
  return s;
}

} // namespace ai
