// Dumps the AArch64 ISA database (expanded by /repo/db/aarch64.js): per form its fixed-bit mask/value and operand syntax.
// usage: node dump_a64_forms.js <repo> <out>
const path = require("path"), fs = require("fs");
const repo = process.argv[2] || "/repo", out = process.argv[3];
const asmdb = require(path.join(repo, "db", "index.js"));
const isa = new asmdb.aarch64.ISA(JSON.parse(fs.readFileSync(path.join(repo, "db", "isa_aarch64.json"))));
const L = [];
for (const i of isa.instructions) {
  let fieldMask = 0;
  for (const fname of Object.keys(i.fields || {})) {
    const f = i.fields[fname];
    for (const v of f.values) { for (let b = 0; b < v.size; b++) fieldMask |= (1 << (v.index + b)); }
  }
  const mask = (~fieldMask) >>> 0;
  const value = (i.opcodeValue & mask) >>> 0;
  const ops = i.operands.map(o => (o.data || o.reg || "").replace(/[|\s]/g, "_")).join(",");
  const cons = i.operands.map(o => o.consecutive || 0).join(",");
  L.push([i.name, mask.toString(16), value.toString(16), i.opcodeString.replace(/\|/g, "/").replace(/\s+/g, ""), Object.keys(i.ext || {}).join(","), ops, cons].join("|"));
}
fs.writeFileSync(out, L.join("\n") + "\n");
console.log("a64 forms:", L.length);
