// C12: AArch64 ISA-database forms whose syntax implies a run of consecutive registers (Nx{...} register lists, N >= 2).
// One line per form:  L|idx|name|ext|op;op;...   op = r,<regType>,<elementType|->,<hasElementIndex>,<artificial>,<runLen (lead only)>,<plus>
//                                               | m,<mem text> | i,<imm text>
// usage: node dump_a64_lists.js <repo> <out>
const path = require("path"), fs = require("fs");
const repo = process.argv[2] || "/repo";
const out = process.argv[3];
const asmdb = require(path.join(repo, "db", "index.js"));
const isa = new asmdb.aarch64.ISA(JSON.parse(fs.readFileSync(path.join(repo, "db", "isa_aarch64.json"))));
const S = (s) => (s === undefined || s === null || s === "" ? "-" : String(s).replace(/[|;,\s]/g, "_"));
const L = [];
let idx = 0, total = 0;
for (const i of isa.instructions) {
  total++;
  const ops = i.operands;
  if (!ops.some((o) => o.artificial)) continue;
  const parts = [];
  for (let k = 0; k < ops.length; k++) {
    const o = ops[k];
    if (o.type === "reg" || o.type === "reg-list") {
      let run = 0, plus = 0, et = o.elementType, el = o.element || /\[#\w+\]$/.test(String(o.data || ""));
      const m = String(o.data || "").match(/^(\d+)x\{(.*)\}([+]?[+]?)/);
      if (m && !o.artificial) { run = parseInt(m[1]); plus = m[3].length; }
      if (o.artificial) {           // inherit the element type / index of the lead
        for (let q = k - 1; q >= 0; q--) if (!ops[q].artificial) { et = ops[q].elementType; el = ops[q].element || /\[#\w+\]$/.test(String(ops[q].data || "")); break; }
      }
      parts.push(["r", S(o.regType), S(et), el ? 1 : 0, o.artificial ? 1 : 0, run, plus].join(","));
    } else if (o.type === "mem") parts.push("m," + S(o.data));
    else parts.push("i," + S(o.data));
  }
  L.push(["L", idx++, i.name, S(Object.keys(i.ext || {}).join("+")), parts.join(";")].join("|"));
}
fs.writeFileSync(out, L.join("\n") + "\n");
console.log("forms:", total, "with register lists:", idx);
