// C12: per-form extras of the x86 ISA database that gen/dump_x86_forms.js does not carry (same form order/index):
//   X|idx|name|categories|io (FLAG=R|W|X|U|0|1 ...)|volatile
// usage: node dump_c12_x86.js <repo> <out>
const path = require("path"), fs = require("fs");
const repo = process.argv[2] || "/repo";
const out = process.argv[3];
const asmdb = require(path.join(repo, "db", "index.js"));
const isa = new asmdb.x86.ISA(JSON.parse(fs.readFileSync(path.join(repo, "db", "isa_x86.json"))));
const L = [];
let idx = 0;
for (const i of isa.instructions) {
  const io = Object.keys(i.io || {}).map((k) => k + "=" + i.io[k]).join(",") || "-";
  const cat = Object.keys(i.category || {}).join(",") || "-";
  L.push(["X", idx++, i.name, cat, io, i.volatile ? 1 : 0].join("|"));
}
fs.writeFileSync(out, L.join("\n") + "\n");
console.log("forms:", idx);
