// Dumps the x86 ISA database (as expanded by /repo/db/x86.js) into a line-oriented table for the C++ harnesses.
// usage: node dump_x86_forms.js <repo> <out>
const path = require("path"), fs = require("fs");
const repo = process.argv[2] || "/repo";
const out = process.argv[3];
const asmdb = require(path.join(repo, "db", "index.js"));
const isa = new asmdb.x86.ISA(JSON.parse(fs.readFileSync(path.join(repo, "db", "isa_x86.json"))));
const L = [];
const B = (b) => (b ? "1" : "0");
const S = (s) => (s === undefined || s === null || s === "" ? "-" : String(s).replace(/[|\s]/g, "_"));
let idx = 0;
for (const i of isa.instructions) {
  const o = i.opcode;
  let enc = i.encoding.replace(/_/g, "");
  if (enc === "NONE" || enc === "OP") enc = "";
  const cand = [];
  i.operands.forEach((op, k) => {
    const fixedReg = op.reg && !op.mem && op.reg !== op.regType && op.reg !== "st(i)";
    if (!op.implicit && (op.reg || op.mem) && !fixedReg && !op.memOff && !(op.mem && op.memSegment)) cand.push(k);
  });
  const roles = i.operands.map(() => "-");
  let supported = 1;
  if (enc === "") {
    if (o.ri) { const c = cand.filter(k => i.operands[k].reg && !i.operands[k].mem); if (c.length === 1) roles[c[0]] = "O"; else if (c.length === 2 && i.operands[c[0]].reg === i.operands[c[1]].reg) { roles[c[1]] = "O"; } else supported = 0; }
    else if (/^[0-7]$/.test(o.modr || "") && cand.length === 1) roles[cand[0]] = "M";
    else if (cand.length === 0) {}
    else supported = 0;
  } else if (enc.length === cand.length) {
    cand.forEach((k, j) => { roles[k] = enc[j]; });
  } else supported = 0;
  const pf = i.prefixes || {};
  const head = ["F", idx++, i.name, i.arch, i.encoding, S(i.prefix), S(o.pp), S(o.mm), S(o.w), S(o.l), S(o.byte), B(o.ri), B(o._67h),
    S(o.mod), S(o.modr), S(o.modrm), i.imm || 0, i.rel || 0, B(i.moff), B(i.kmask), B(i.zmask), B(i.er), B(i.sae), B(i.broadcast), i.bcstSize,
    S(i.tupleType), i.elementSize, S(i.vsibReg), i.vsibSize, B(pf.lock), B(pf.rep || pf.repe || pf.repz), B(pf.repne || pf.repnz), B(pf.xacquire), B(pf.xrelease),
    i.implicit ? 1 : 0, supported, S(Object.keys(i.ext || {}).join(",")), B(o.nd), B(o.nf), S(o.scc), B(i.alt), S(i.aliasOf), S(i.privilege), S(i.control),
    B(i.deprecated), S(i.k), S(Object.keys(pf).join(",")), S(i.encodingPreference), i.consecutiveLead || 0, S(i.groupPattern), i.groupIndex, i.opcodeString.replace(/\|/g, "_")];
  L.push(head.join("|"));
  i.operands.forEach((op, k) => {
    L.push(["O", S(op.data), S(op.reg), S(op.mem), op.memSize, op.imm || 0, S(op.immSign), op.rel || 0, B(op.implicit), B(op.read), B(op.write),
      S(op.regType), S(op.memSegment), S(op.memRegOnly), B(op.memOff), B(op.memFar), S(op.vsibReg), op.vsibSize, op.bcstSize, op.rwxIndex, op.rwxWidth,
      op.regIndexRel || 0, B(op.zext), roles[k], S(op.immValue)].join("|"));
  });
}
// alias map: alias mnemonic -> instruction name
const am = isa.aliases || {};
for (const a of Object.keys(am)) L.push(["A", a, typeof am[a] === "string" ? am[a] : (am[a].name || JSON.stringify(am[a]))].join("|"));
fs.writeFileSync(out, L.join("\n") + "\n");
console.log("forms:", idx);
