// Loader for build/gen/x86_forms.txt (dumped from /repo/db by gen/dump_x86_forms.js at check time).
#pragma once
#include <cstdint>
#include <cstdio>
#include <cstdlib>
#include <cstring>
#include <map>
#include <string>
#include <vector>

namespace xdb {

struct Op {
  std::string data, reg, mem, immSign, regType, memSegment, memRegOnly, vsibReg, immValue;
  int memSize = -1, imm = 0, rel = 0, vsibSize = -1, bcstSize = -1, rwxIndex = -1, rwxWidth = -1, regIndexRel = 0;
  bool implicit = false, read = false, write = false, memOff = false, memFar = false, zext = false;
  char role = '-';
  bool is_reg() const { return !reg.empty(); }
  bool is_mem() const { return !mem.empty(); }
  bool is_imm() const { return imm > 0; }
  bool is_rel() const { return rel > 0; }
  bool fixed_reg() const { return !reg.empty() && reg != regType && reg != "st(i)"; }
};

struct Form {
  int idx = 0;
  std::string name, arch, encoding, prefix, pp, mm, w, l, byte_s, mod, modr, modrm, tupleType, vsibReg, ext, scc, aliasOf, privilege, control, kfunc, prefixes, encPref, groupPattern, opcodeString;
  int byte = -1, bcstSize = -1, elementSize = -1, vsibSize = -1, consecutiveLead = 0, groupIndex = -1;
  bool ri = false, _67h = false, moff = false, kmask = false, zmask = false, er = false, sae = false, broadcast = false;
  bool lock = false, rep = false, repne = false, xacquire = false, xrelease = false, hasImplicit = false, tmplSupported = false;
  bool nd = false, nf = false, alt = false, deprecated = false;
  std::vector<Op> ops;
  // derived
  std::vector<std::string> optokens;   // opcodeString split
  std::vector<int> immBytes;           // sizes of immediate fields in order (is4 = -1)
  int relBytes = 0;
  bool hasModRM() const { return !mod.empty(); }
  bool is_vex() const { return prefix == "VEX" || prefix == "XOP"; }
  bool is_evex() const { return prefix == "EVEX"; }
  bool is_apx() const { return ext.find("APX_F") != std::string::npos || prefix == "REX2"; }
  bool mode_ok(int mode) const { return arch == "ANY" || (mode == 32 && arch == "X86") || (mode == 64 && arch == "X64"); }
};

inline std::vector<std::string> split(const std::string& s, char c) {
  std::vector<std::string> v;
  size_t p = 0;
  for (;;) {
    size_t q = s.find(c, p);
    if (q == std::string::npos) { v.push_back(s.substr(p)); break; }
    v.push_back(s.substr(p, q - p));
    p = q + 1;
  }
  return v;
}

inline std::string dash(const std::string& s) { return s == "-" ? std::string() : s; }

struct DB {
  std::vector<Form> forms;
  std::map<std::string, std::vector<int>> by_name;

  bool load(const char* path) {
    FILE* f = fopen(path, "r");
    if (!f) return false;
    char* line = nullptr;
    size_t cap = 0;
    ssize_t n;
    while ((n = getline(&line, &cap, f)) > 0) {
      while (n > 0 && (line[n - 1] == '\n' || line[n - 1] == '\r')) line[--n] = 0;
      std::vector<std::string> t = split(line, '|');
      if (t[0] == "F" && t.size() >= 52) {
        Form fm;
        int k = 1;
        fm.idx = atoi(t[k++].c_str());
        fm.name = t[k++]; fm.arch = t[k++]; fm.encoding = t[k++]; fm.prefix = dash(t[k++]); fm.pp = dash(t[k++]); fm.mm = dash(t[k++]);
        fm.w = dash(t[k++]); fm.l = dash(t[k++]); fm.byte_s = dash(t[k++]); fm.ri = t[k++] == "1"; fm._67h = t[k++] == "1";
        fm.mod = dash(t[k++]); fm.modr = dash(t[k++]); fm.modrm = dash(t[k++]);
        k++; /* imm (unused) */ fm.relBytes = atoi(t[k++].c_str()); fm.moff = t[k++] == "1";
        fm.kmask = t[k++] == "1"; fm.zmask = t[k++] == "1"; fm.er = t[k++] == "1"; fm.sae = t[k++] == "1"; fm.broadcast = t[k++] == "1";
        fm.bcstSize = atoi(t[k++].c_str()); fm.tupleType = dash(t[k++]); fm.elementSize = atoi(t[k++].c_str());
        fm.vsibReg = dash(t[k++]); fm.vsibSize = atoi(t[k++].c_str());
        fm.lock = t[k++] == "1"; fm.rep = t[k++] == "1"; fm.repne = t[k++] == "1"; fm.xacquire = t[k++] == "1"; fm.xrelease = t[k++] == "1";
        fm.hasImplicit = t[k++] == "1"; fm.tmplSupported = t[k++] == "1"; fm.ext = dash(t[k++]);
        fm.nd = t[k++] == "1"; fm.nf = t[k++] == "1"; fm.scc = dash(t[k++]); fm.alt = t[k++] == "1"; fm.aliasOf = dash(t[k++]);
        fm.privilege = dash(t[k++]); fm.control = dash(t[k++]); fm.deprecated = t[k++] == "1"; fm.kfunc = dash(t[k++]);
        fm.prefixes = dash(t[k++]); fm.encPref = dash(t[k++]); fm.consecutiveLead = atoi(t[k++].c_str());
        fm.groupPattern = dash(t[k++]); fm.groupIndex = atoi(t[k++].c_str());
        fm.opcodeString = t[k++];
        if (!fm.byte_s.empty()) fm.byte = int(strtol(fm.byte_s.c_str(), nullptr, 16));
        fm.optokens = split(fm.opcodeString, ' ');
        for (const std::string& tok : fm.optokens) {
          if (tok == "ib") fm.immBytes.push_back(1);
          else if (tok == "iw") fm.immBytes.push_back(2);
          else if (tok == "id") fm.immBytes.push_back(4);
          else if (tok == "iq") fm.immBytes.push_back(8);
          else if (tok == "if") fm.immBytes.push_back(6);
          else if (tok == "iv") fm.immBytes.push_back(fm.groupIndex == 0 ? 2 : 4);
          else if (tok == "/is4") fm.immBytes.push_back(-1);
        }
        forms.push_back(fm);
      } else if (t[0] == "O" && t.size() >= 25 && !forms.empty()) {
        Op o;
        int k = 1;
        o.data = dash(t[k++]); o.reg = dash(t[k++]); o.mem = dash(t[k++]); o.memSize = atoi(t[k++].c_str()); o.imm = atoi(t[k++].c_str());
        o.immSign = dash(t[k++]); o.rel = atoi(t[k++].c_str()); o.implicit = t[k++] == "1"; o.read = t[k++] == "1"; o.write = t[k++] == "1";
        o.regType = dash(t[k++]); o.memSegment = dash(t[k++]); o.memRegOnly = dash(t[k++]); o.memOff = t[k++] == "1"; o.memFar = t[k++] == "1";
        o.vsibReg = dash(t[k++]); o.vsibSize = atoi(t[k++].c_str()); o.bcstSize = atoi(t[k++].c_str()); o.rwxIndex = atoi(t[k++].c_str());
        o.rwxWidth = atoi(t[k++].c_str()); o.regIndexRel = atoi(t[k++].c_str()); o.zext = t[k++] == "1"; o.role = t[k++][0]; o.immValue = dash(t[k++]);
        forms.back().ops.push_back(o);
      }
    }
    free(line);
    fclose(f);
    for (size_t i = 0; i < forms.size(); i++) by_name[forms[i].name].push_back(int(i));
    return !forms.empty();
  }
};

} // namespace xdb
