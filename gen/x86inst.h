// Instantiation of x86 ISA-database forms: from a form + a vector of integer choices to
//   (a) a neutral description (XInst) of the intended instruction,
//   (b) AsmJit operands (through the public operand constructors),
//   (c) Intel-syntax text rendered by OUR OWN renderer (never AsmJit's formatter) for LLVM MC.
#pragma once
#include "x86db.h"

#include <asmjit/core.h>
#include <asmjit/x86.h>

#include <cinttypes>

namespace xi {

enum class RC : uint8_t { None, Gp8Lo, Gp8Hi, Gp16, Gp32, Gp64, Mm, Xmm, Ymm, Zmm, K, Tmm, St, Sreg, Creg, Dreg, Bnd, Rip };

struct Reg { RC rc = RC::None; int id = 0; };

struct Mem {
  int size_bits = 0;            // 0 = unspecified
  Reg base, index;              // base.rc None = no base; Rip = rip-relative; index.rc None = no index
  int scale = 1;                // 1,2,4,8
  int64_t disp = 0;             // displacement or absolute address
  int seg = 0;                  // 0 none, 1=es 2=cs 3=ss 4=ds 5=fs 6=gs
  int bcst = 0;                 // N of {1toN}, 0 none
  bool moff = false;            // moffs form (absolute, up to 64-bit)
  bool abs = false;             // absolute [disp] (no base, no index possible but index allowed)
  int addr_bits = 0;            // 16/32/64 effective address size
};

struct Opnd {
  enum Kind { kReg, kMem, kImm, kRel } kind = kReg;      // kRel: a code label (bound at offset 0 of the same section) for rel8/rel32 operands
  Reg reg;
  Mem mem;
  int64_t imm = 0;
  int db_index = -1;            // index of the DB operand this came from
};

enum : uint32_t { kOptLock = 1, kOptRep = 2, kOptRepne = 4, kOptXacquire = 8, kOptXrelease = 16, kOptRex = 32, kOptVex3 = 64, kOptEvex = 128,
                  kOptModMR = 256, kOptModRM = 512, kOptLongForm = 1024 };

struct XInst {
  int mode = 64;
  const xdb::Form* form = nullptr;
  std::vector<Opnd> ops;        // explicit operands, in API order
  int k = 0;                    // {kN}, 0 none
  bool z = false;
  int er = -1;                  // -1 none, 0 rn, 1 rd, 2 ru, 3 rz
  bool sae = false;
  uint32_t options = 0;
  bool valid = true;            // false: this form cannot be instantiated by this generator (counted)
  std::string why_invalid;
};

// ---- register naming (architectural names; independent of AsmJit's formatter) --------------------------------------
inline const char* gp_name(RC rc, int id) {
  static const char* n8[] = {"al","cl","dl","bl","spl","bpl","sil","dil","r8b","r9b","r10b","r11b","r12b","r13b","r14b","r15b"};
  static const char* n8h[] = {"ah","ch","dh","bh"};
  static const char* n16[] = {"ax","cx","dx","bx","sp","bp","si","di","r8w","r9w","r10w","r11w","r12w","r13w","r14w","r15w"};
  static const char* n32[] = {"eax","ecx","edx","ebx","esp","ebp","esi","edi","r8d","r9d","r10d","r11d","r12d","r13d","r14d","r15d"};
  static const char* n64[] = {"rax","rcx","rdx","rbx","rsp","rbp","rsi","rdi","r8","r9","r10","r11","r12","r13","r14","r15"};
  switch (rc) {
    case RC::Gp8Lo: return n8[id & 15];
    case RC::Gp8Hi: return n8h[id & 3];
    case RC::Gp16: return n16[id & 15];
    case RC::Gp32: return n32[id & 15];
    case RC::Gp64: return n64[id & 15];
    default: return "?";
  }
}

inline std::string reg_name(const Reg& r) {
  char b[24];
  switch (r.rc) {
    case RC::Gp8Lo: case RC::Gp8Hi: case RC::Gp16: case RC::Gp32: case RC::Gp64: return gp_name(r.rc, r.id);
    case RC::Mm: snprintf(b, sizeof b, "mm%d", r.id); return b;
    case RC::Xmm: snprintf(b, sizeof b, "xmm%d", r.id); return b;
    case RC::Ymm: snprintf(b, sizeof b, "ymm%d", r.id); return b;
    case RC::Zmm: snprintf(b, sizeof b, "zmm%d", r.id); return b;
    case RC::K: snprintf(b, sizeof b, "k%d", r.id); return b;
    case RC::Tmm: snprintf(b, sizeof b, "tmm%d", r.id); return b;
    case RC::St: snprintf(b, sizeof b, "st(%d)", r.id); return b;
    case RC::Sreg: { static const char* s[] = {"?", "es", "cs", "ss", "ds", "fs", "gs", "?"}; return s[r.id & 7]; }
    case RC::Creg: snprintf(b, sizeof b, "cr%d", r.id); return b;
    case RC::Dreg: snprintf(b, sizeof b, "dr%d", r.id); return b;
    case RC::Bnd: snprintf(b, sizeof b, "bnd%d", r.id); return b;
    case RC::Rip: return "rip";
    default: return "?";
  }
}

inline int rc_bits(RC rc) {
  switch (rc) {
    case RC::Gp8Lo: case RC::Gp8Hi: return 8; case RC::Gp16: return 16; case RC::Gp32: return 32; case RC::Gp64: return 64;
    case RC::Mm: return 64; case RC::Xmm: return 128; case RC::Ymm: return 256; case RC::Zmm: return 512; case RC::K: return 64;
    default: return 0;
  }
}

// Maps a DB register token to a class (+ fixed id, or -1 when any id of the class may be chosen).
inline bool db_reg_class(const std::string& tok, RC& rc, int& fixed) {
  fixed = -1;
  struct F { const char* n; RC rc; int id; };
  static const F fixedRegs[] = {
    {"al", RC::Gp8Lo, 0}, {"cl", RC::Gp8Lo, 1}, {"dl", RC::Gp8Lo, 2}, {"bl", RC::Gp8Lo, 3}, {"ah", RC::Gp8Hi, 0},
    {"ax", RC::Gp16, 0}, {"cx", RC::Gp16, 1}, {"dx", RC::Gp16, 2}, {"bx", RC::Gp16, 3}, {"si", RC::Gp16, 6}, {"di", RC::Gp16, 7},
    {"eax", RC::Gp32, 0}, {"ecx", RC::Gp32, 1}, {"edx", RC::Gp32, 2}, {"ebx", RC::Gp32, 3}, {"esi", RC::Gp32, 6}, {"edi", RC::Gp32, 7},
    {"rax", RC::Gp64, 0}, {"rcx", RC::Gp64, 1}, {"rdx", RC::Gp64, 2}, {"rbx", RC::Gp64, 3}, {"rsi", RC::Gp64, 6}, {"rdi", RC::Gp64, 7},
    {"es", RC::Sreg, 1}, {"cs", RC::Sreg, 2}, {"ss", RC::Sreg, 3}, {"ds", RC::Sreg, 4}, {"fs", RC::Sreg, 5}, {"gs", RC::Sreg, 6},
    {"xmm0", RC::Xmm, 0}, {"st(0)", RC::St, 0},
  };
  for (const F& f : fixedRegs) if (tok == f.n) { rc = f.rc; fixed = f.id; return true; }
  if (tok == "r8") { rc = RC::Gp8Lo; return true; }
  if (tok == "r16") { rc = RC::Gp16; return true; }
  if (tok == "r32") { rc = RC::Gp32; return true; }
  if (tok == "r64") { rc = RC::Gp64; return true; }
  if (tok == "mm") { rc = RC::Mm; return true; }
  if (tok == "xmm") { rc = RC::Xmm; return true; }
  if (tok == "ymm") { rc = RC::Ymm; return true; }
  if (tok == "zmm") { rc = RC::Zmm; return true; }
  if (tok == "k") { rc = RC::K; return true; }
  if (tok == "tmm") { rc = RC::Tmm; return true; }
  if (tok == "st(i)") { rc = RC::St; return true; }
  if (tok == "sreg") { rc = RC::Sreg; return true; }
  if (tok == "creg") { rc = RC::Creg; return true; }
  if (tok == "dreg") { rc = RC::Dreg; return true; }
  if (tok == "bnd") { rc = RC::Bnd; return true; }
  return false;
}

// ---- choice cursor: every integer vector is a valid choice sequence (robust decoding) -------------------------------
struct Choices {
  const std::vector<int64_t>* v;
  size_t pos;
  Choices(const std::vector<int64_t>& vv, size_t start) : v(&vv), pos(start) {}
  uint64_t raw() { uint64_t x = pos < v->size() ? uint64_t((*v)[pos]) : 0; pos++; return x; }
  int pick(int n) { return n <= 1 ? (raw(), 0) : int(raw() % uint64_t(n)); }
  bool chance(int num, int den) { return pick(den) < num; }
};

// rel8/rel32 operands are instantiated (as a label bound at the instruction) only by harnesses that ask for it (C13); the byte-level
// judges (C01) leave displacement fields to C03.
inline bool& allow_rel_operands() { static bool v = false; return v; }

inline int64_t pick_disp(Choices& c, int scaleN) {
  // displacement boundary set incl. disp8*N boundaries
  int64_t n = scaleN > 0 ? scaleN : 1;
  static const int64_t base[] = {0, 1, -1, 127, 128, 129, -127, -128, -129, 0x40, 0x100, 0x1234, -0x1234, 0x7fffffff, -0x7fffffffLL - 1, 0x12345678, -0x12345678};
  int sel = c.pick(40);
  if (sel < 17) return base[sel];
  if (sel < 32) {  // around disp8*N limits
    static const int64_t m[] = {127, 128, -128, -129, 1, -1, 2, 64, -64, 100};
    int64_t v = m[c.pick(10)] * n;
    int adj = c.pick(5);
    return v + (adj == 3 ? 1 : adj == 4 ? -1 : 0);
  }
  return int64_t(int32_t(uint32_t(c.raw() * 2654435761u)));
}

inline int64_t pick_imm(Choices& c, int bits, const std::string& sign) {
  if (bits >= 64) {
    static const int64_t b[] = {0, 1, -1, 0x7f, 0x80, 0xff, 0x7fff, 0x8000, 0xffff, 0x7fffffff, 0x80000000LL, 0xffffffffLL, 0x100000000LL, INT64_MAX, INT64_MIN, 0x123456789abcdef0LL};
    int s = c.pick(24);
    if (s < 16) return b[s];
    return int64_t(c.raw() * 0x9E3779B97F4A7C15ull);
  }
  int64_t smin = -(int64_t(1) << (bits - 1)), smax = (int64_t(1) << (bits - 1)) - 1, umax = (int64_t(1) << bits) - 1;
  int64_t lo, hi;
  if (sign == "signed") { lo = smin; hi = smax; }
  else if (sign == "unsigned") { lo = 0; hi = umax; }
  else { lo = smin; hi = umax; }
  int s = c.pick(16);
  int64_t v;
  switch (s) {
    case 0: v = 0; break; case 1: v = 1; break; case 2: v = lo; break; case 3: v = hi; break; case 4: v = smax; break;
    case 5: v = -1; break; case 6: v = smax + 1; break; case 7: v = 2; break; case 8: v = lo + 1; break; case 9: v = hi - 1; break;
    default: { uint64_t r = c.raw() * 0x9E3779B97F4A7C15ull; uint64_t span = uint64_t(hi - lo) + 1; v = lo + int64_t(span ? (r >> 11) % span : 0); }
  }
  if (v < lo) v = lo;
  if (v > hi) v = hi;
  return v;
}

inline int tuple_disp8_n(const xdb::Form& f, int vl_bits, bool bcst, int mem_bits);

inline int vec_bits_of(const XInst& xi) {
  int m = 0;
  for (const Opnd& o : xi.ops) if (o.kind == Opnd::kReg && (o.reg.rc == RC::Xmm || o.reg.rc == RC::Ymm || o.reg.rc == RC::Zmm)) m = std::max(m, rc_bits(o.reg.rc));
  return m;
}

// ---- instantiate ----------------------------------------------------------------------------------------------------
// cfg: mode; choices consumed sequentially. `allow_options`: generate lock/rep/... prefixes where the DB allows.
inline XInst instantiate(const xdb::Form& f, int mode, Choices& c, bool allow_options = true) {
  XInst xi;
  xi.mode = mode;
  xi.form = &f;
  const bool evex = f.is_evex();
  const int gp_ids = mode == 64 ? 16 : 8;
  const int vec_ids = mode == 64 ? (evex ? 32 : 16) : 8;
  int lead_id = -1;
  bool any_mem = false;
  int str_addr_bits = 0;

  for (size_t oi = 0; oi < f.ops.size(); oi++) {
    const xdb::Op& d = f.ops[oi];
    if (d.implicit && d.immValue.empty()) continue;
    Opnd o;
    o.db_index = int(oi);
    if (d.is_rel()) {
      if (!allow_rel_operands()) { xi.valid = false; xi.why_invalid = "rel operand (covered by C03)"; return xi; }
      o.kind = Opnd::kRel; xi.ops.push_back(o); continue;
    }
    if (d.data == "dfv") { xi.valid = false; xi.why_invalid = "APX dfv operand"; return xi; }
    bool has_reg = d.is_reg(), has_mem = d.is_mem();
    bool use_mem = has_mem && (!has_reg || c.chance(1, 2));
    if (has_reg && has_mem) { /* consumed one choice above */ } else c.raw();

    if (d.is_imm() && !has_reg && !has_mem) {
      o.kind = Opnd::kImm;
      if (!d.immValue.empty()) o.imm = atoll(d.immValue.c_str());
      else o.imm = pick_imm(c, d.imm, d.immSign);
      xi.ops.push_back(o);
      continue;
    }
    if (!use_mem) {
      RC rc; int fixed;
      if (!db_reg_class(d.reg, rc, fixed)) { xi.valid = false; xi.why_invalid = "unknown reg token " + d.reg; return xi; }
      o.kind = Opnd::kReg;
      o.reg.rc = rc;
      if (fixed >= 0) { o.reg.id = fixed; c.raw(); }
      else {
        int n;
        switch (rc) {
          case RC::Gp8Lo: {
            // low byte regs: 32-bit mode only al..bl; hi regs chosen sometimes
            if (c.chance(1, 8)) { o.reg.rc = RC::Gp8Hi; o.reg.id = c.pick(4); }
            else o.reg.id = c.pick(mode == 64 ? 16 : 4);
            n = -1; break;
          }
          case RC::Gp16: case RC::Gp32: case RC::Gp64: n = gp_ids; break;
          case RC::Xmm: case RC::Ymm: case RC::Zmm: n = vec_ids; break;
          case RC::Mm: case RC::K: case RC::Tmm: case RC::St: n = 8; break;
          case RC::Sreg: o.reg.id = 1 + c.pick(6); n = -1; break;
          case RC::Creg: n = mode == 64 ? 9 : 8; if (false) {} break;
          case RC::Dreg: n = 8; break;
          case RC::Bnd: n = 4; break;
          default: n = 8;
        }
        if (n > 0) {
          // bias towards interesting ids: 0, 4(sp), 5(bp), 12, 13, top
          int s = c.pick(10);
          int id;
          if (s == 0) id = 4 % n; else if (s == 1) id = 5 % n; else if (s == 2) id = 12 % n; else if (s == 3) id = 13 % n; else if (s == 4) id = n - 1;
          else id = c.pick(n);
          if (s < 5) c.raw();
          o.reg.id = id;
        }
      }
      if (d.regIndexRel > 0) {
        // second..nth register of a consecutive run: must follow the lead
        if (lead_id >= 0) o.reg.id = (lead_id + d.regIndexRel) % 8;
      } else if (lead_id < 0 && oi + 1 < f.ops.size() && f.ops[oi + 1].regIndexRel > 0 && (rc == RC::K || rc == RC::Xmm || rc == RC::Ymm || rc == RC::Zmm)) {
        if (rc == RC::K) { o.reg.id &= 6; } else { o.reg.id &= ~3; }
        lead_id = o.reg.id;
      } else if (f.consecutiveLead > 0 && lead_id < 0 && (rc == RC::K || rc == RC::Xmm || rc == RC::Ymm || rc == RC::Zmm) && d.write) {
        if (rc == RC::K) { o.reg.id &= 6; }                   // k pair: even lead
        else { o.reg.id &= ~3; }                              // block of 4
        lead_id = o.reg.id;
      }
      if (d.data == "k+1" && lead_id < 0) {}
      xi.ops.push_back(o);
      continue;
    }

    // ---- memory operand ----
    any_mem = true;
    o.kind = Opnd::kMem;
    Mem& m = o.mem;
    m.size_bits = d.memSize > 0 ? d.memSize : 0;
    if (d.mem == "mem" || d.mem == "mib" || d.mem == "tmem") m.size_bits = 0;
    if (d.memOff) {
      m.abs = true;
      m.addr_bits = mode;
      static const int64_t a[] = {0, 0x1234, 0x7fffffff, 0x80000000LL, 0xffffffffLL, 0x100000000LL, 0x123456789abcLL, INT64_MAX, int64_t(0xfedcba9876543210ull), -1};
      m.disp = a[c.pick(10)];
      if (mode == 32) m.disp &= 0xffffffffLL;
      m.seg = c.chance(1, 6) ? 1 + c.pick(6) : 0;
      xi.ops.push_back(o);
      continue;
    }
    if (!d.memSegment.empty()) {
      // string-instruction operand: [zsi] / [zdi] with architectural segment
      bool is_si = d.memRegOnly.find("si") != std::string::npos;
      bool is_bx = d.memRegOnly.find("bx") != std::string::npos;
      int id = is_si ? 6 : is_bx ? 3 : 7;
      bool any_base = d.memRegOnly.size() >= 2 && d.memRegOnly[0] == 'r' && isdigit((unsigned char)d.memRegOnly[1]);      // enqcmd/movdir64b: es:[any GP register]
      int sel = c.pick(8);
      if (any_base) id = c.pick(mode == 64 ? 16 : 8);
      if (str_addr_bits) sel = (str_addr_bits == (mode == 64 ? 32 : 16)) ? 0 : 1;      // all string operands share one address size
      if (mode == 64) { m.base.rc = sel == 0 ? RC::Gp32 : RC::Gp64; m.addr_bits = sel == 0 ? 32 : 64; }
      else { m.base.rc = sel == 0 ? RC::Gp16 : RC::Gp32; m.addr_bits = sel == 0 ? 16 : 32; }
      str_addr_bits = m.addr_bits;
      m.base.id = id;
      if (d.memSegment == "es") m.seg = c.chance(1, 3) ? 1 : 0;       // es:[zdi] cannot be overridden; explicit es allowed
      else m.seg = c.chance(1, 4) ? 1 + c.pick(6) : 0;
      xi.ops.push_back(o);
      continue;
    }
    int N = 1;  // disp8 scale for the boundary chooser (exact value recomputed by the judge)
    if (evex) N = 64;
    bool vsib = !d.vsibReg.empty();
    int form_sel = c.pick(16);
    int seg_sel = c.pick(10);
    m.seg = seg_sel == 0 ? 5 : seg_sel == 1 ? 6 : seg_sel == 2 ? 1 + c.pick(4) : 0;
    if (seg_sel != 2) c.raw();
    if (str_addr_bits && form_sel >= 12) form_sel = 4;
    if (mode == 64) {
      bool a32 = c.chance(1, 8);
      if (str_addr_bits) a32 = str_addr_bits == 32;
      RC arc = a32 ? RC::Gp32 : RC::Gp64;
      m.addr_bits = a32 ? 32 : 64;
      auto pick_gp = [&](bool is_index) { int s = c.pick(8); int id = s == 0 ? 4 : s == 1 ? 5 : s == 2 ? 12 : s == 3 ? 13 : c.pick(16); if (s < 4) c.raw(); if (is_index && id == 4) id = 6; return id; };
      if (vsib) {
        m.index.rc = d.vsibReg == "xmm" ? RC::Xmm : d.vsibReg == "ymm" ? RC::Ymm : RC::Zmm;
        m.index.id = c.pick(vec_ids);
        if (form_sel < 13) { m.base.rc = arc; m.base.id = pick_gp(false); } else { m.abs = true; m.addr_bits = 64; }
        m.scale = 1 << c.pick(4);
        m.disp = pick_disp(c, N);
      } else if (form_sel < 4) { m.base.rc = arc; m.base.id = pick_gp(false); m.disp = c.chance(1, 2) ? 0 : pick_disp(c, N); }
      else if (form_sel < 8) { m.base.rc = arc; m.base.id = pick_gp(false); m.disp = pick_disp(c, N); }
      else if (form_sel < 12) { m.base.rc = arc; m.base.id = pick_gp(false); m.index.rc = arc; m.index.id = pick_gp(true); m.scale = 1 << c.pick(4); m.disp = pick_disp(c, N); }
      else if (form_sel == 12) { m.index.rc = arc; m.index.id = pick_gp(true); m.scale = 1 << c.pick(4); m.disp = pick_disp(c, N); m.abs = true; }
      else if (form_sel == 13) { m.base.rc = RC::Rip; m.addr_bits = 64; m.disp = pick_disp(c, 1); }
      else {
        m.abs = true; m.addr_bits = 64; m.disp = pick_disp(c, 1);
        // absolute addresses in [2^31, 2^32) are reachable in 64-bit mode only zero-extended, i.e. with an address-size prefix that the
        // encoder inserts after the fact (derived from the picked value so that the choice sequence of older replay files is unchanged)
        if (m.disp == 0x12345678) m.disp = 0x92345678LL; else if (m.disp == 0x40) m.disp = 0x80000040LL; else if (m.disp == -0x1234) m.disp = 0xFFFFEDCCLL; else if (m.disp == 129) m.disp = 0x80000000LL;
      }
    } else {
      bool a16 = c.chance(1, 6) && !vsib;
      if (str_addr_bits) a16 = str_addr_bits == 16;
      m.addr_bits = a16 ? 16 : 32;
      if (a16) {
        // 16-bit addressing: bx+si, bx+di, bp+si, bp+di, si, di, bp, bx, or disp16
        static const int b16[] = {3, 3, 5, 5, -1, -1, 5, 3};
        static const int i16[] = {6, 7, 6, 7, 6, 7, -1, -1};
        int s = c.pick(9);
        if (s == 8 && str_addr_bits) s = 7;      // string-operand companions need a base register of the same address size
        if (s == 8) { m.abs = true; m.addr_bits = 32; m.disp = pick_disp(c, 1) & 0xffff; }
        else {
          if (b16[s] >= 0) { m.base.rc = RC::Gp16; m.base.id = b16[s]; }
          if (i16[s] >= 0) { if (m.base.rc == RC::None) { m.base.rc = RC::Gp16; m.base.id = i16[s]; } else { m.index.rc = RC::Gp16; m.index.id = i16[s]; } }
          int64_t dd = pick_disp(c, 1);
          m.disp = int64_t(int16_t(uint16_t(dd)));
        }
      } else {
        auto pick_gp = [&](bool is_index) { int s = c.pick(6); int id = s == 0 ? 4 : s == 1 ? 5 : c.pick(8); if (s < 2) c.raw(); if (is_index && id == 4) id = 6; return id; };
        if (vsib) {
          m.index.rc = d.vsibReg == "xmm" ? RC::Xmm : d.vsibReg == "ymm" ? RC::Ymm : RC::Zmm;
          m.index.id = c.pick(8);
          if (form_sel < 13) { m.base.rc = RC::Gp32; m.base.id = pick_gp(false); } else m.abs = true;
          m.scale = 1 << c.pick(4);
          m.disp = pick_disp(c, N);
        } else if (form_sel < 4) { m.base.rc = RC::Gp32; m.base.id = pick_gp(false); m.disp = c.chance(1, 2) ? 0 : pick_disp(c, N); }
        else if (form_sel < 8) { m.base.rc = RC::Gp32; m.base.id = pick_gp(false); m.disp = pick_disp(c, N); }
        else if (form_sel < 12) { m.base.rc = RC::Gp32; m.base.id = pick_gp(false); m.index.rc = RC::Gp32; m.index.id = pick_gp(true); m.scale = 1 << c.pick(4); m.disp = pick_disp(c, N); }
        else if (form_sel < 14) { m.index.rc = RC::Gp32; m.index.id = pick_gp(true); m.scale = 1 << c.pick(4); m.disp = pick_disp(c, N); m.abs = true; }
        else { m.abs = true; m.disp = pick_disp(c, 1); }
      }
    }
    if (d.bcstSize > 0 && c.chance(1, 3)) {
      // broadcast {1toN}: N = vector length / element size, determined after all operands are known
      m.bcst = -1;
      m.size_bits = d.bcstSize;
    }
    xi.ops.push_back(o);
  }

  // resolve broadcast N
  int vl = vec_bits_of(xi);
  for (Opnd& o : xi.ops)
    if (o.kind == Opnd::kMem && o.mem.bcst == -1) {
      int full = f.ops[size_t(o.db_index)].memSize;     // full-width memory size of the form = vector length for fv tuples
      int w = full > 0 ? full : vl;
      int n = w / std::max(1, f.ops[size_t(o.db_index)].bcstSize);
      if (n < 2 || n > 64) { o.mem.bcst = 0; o.mem.size_bits = full; } else o.mem.bcst = n;
    }

  // decorations
  if (f.kmask && c.chance(1, 2)) { xi.k = 1 + c.pick(7); if (f.zmask && c.chance(1, 2)) xi.z = true; } else { c.raw(); c.raw(); }
  if (!any_mem && (f.er || f.sae)) {
    // DB: {er}/{sae} only with 512-bit (or scalar) register forms
    bool ok_len = (f.l == "512" || f.l == "LIG" || (f.l == "xyz" && f.groupIndex == 2) || vl == 512);
    if (ok_len && c.chance(1, 2)) { if (f.er) xi.er = c.pick(4); else xi.sae = true; }
  }
  if (allow_options) {
    bool mem0 = !xi.ops.empty() && xi.ops[0].kind == Opnd::kMem;
    bool memAny = any_mem;
    if (f.lock && memAny && c.chance(1, 4)) {
      xi.options |= kOptLock;
      if (f.xacquire && c.chance(1, 3)) xi.options |= kOptXacquire;
      else if (f.xrelease && c.chance(1, 3)) xi.options |= kOptXrelease;
    } else if (f.xrelease && !f.lock && mem0 && c.chance(1, 6)) xi.options |= kOptXrelease;
    if (f.rep && c.chance(1, 4)) xi.options |= kOptRep;
    else if (f.repne && c.chance(1, 4)) xi.options |= kOptRepne;
  }
  return xi;
}

// ---- AsmJit operands ---------------------------------------------------------------------------------------------------
inline asmjit::Operand to_asmjit_reg(const Reg& r) {
  using namespace asmjit;
  switch (r.rc) {
    case RC::Gp8Lo: return x86::gpb_lo(uint32_t(r.id));
    case RC::Gp8Hi: return x86::gpb_hi(uint32_t(r.id));
    case RC::Gp16: return x86::gpw(uint32_t(r.id));
    case RC::Gp32: return x86::gpd(uint32_t(r.id));
    case RC::Gp64: return x86::gpq(uint32_t(r.id));
    case RC::Mm: return x86::Mm(uint32_t(r.id));
    case RC::Xmm: return x86::xmm(uint32_t(r.id));
    case RC::Ymm: return x86::ymm(uint32_t(r.id));
    case RC::Zmm: return x86::zmm(uint32_t(r.id));
    case RC::K: return x86::KReg(uint32_t(r.id));
    case RC::Tmm: return x86::Tmm(uint32_t(r.id));
    case RC::St: return x86::St(uint32_t(r.id));
    case RC::Sreg: return x86::SReg(uint32_t(r.id));
    case RC::Creg: return x86::CReg(uint32_t(r.id));
    case RC::Dreg: return x86::DReg(uint32_t(r.id));
    case RC::Bnd: return x86::Bnd(uint32_t(r.id));
    case RC::Rip: return x86::rip;
    default: return Operand();
  }
}

inline asmjit::Operand to_asmjit(const Opnd& o) {
  using namespace asmjit;
  if (o.kind == Opnd::kRel) return Label(0);       // emit() creates and binds label 0 first
  if (o.kind == Opnd::kReg) return to_asmjit_reg(o.reg);
  if (o.kind == Opnd::kImm) return Imm(o.imm);
  const Mem& m = o.mem;
  x86::Mem mem;
  uint32_t size = uint32_t(m.size_bits / 8);
  uint32_t shift = m.scale == 8 ? 3 : m.scale == 4 ? 2 : m.scale == 2 ? 1 : 0;
  if (m.base.rc != RC::None) {
    Operand b = to_asmjit_reg(m.base);
    if (m.index.rc != RC::None) {
      Operand ix = to_asmjit_reg(m.index);
      mem = x86::Mem(b.as<asmjit::Reg>(), ix.as<asmjit::Reg>(), shift, int32_t(m.disp), size);
    } else mem = x86::Mem(b.as<asmjit::Reg>(), int32_t(m.disp), size);
  } else {
    if (m.index.rc != RC::None) {
      Operand ix = to_asmjit_reg(m.index);
      mem = x86::Mem(uint64_t(m.disp), ix.as<asmjit::Reg>(), shift, size);
    } else mem = x86::Mem(uint64_t(m.disp), size);
    mem.set_addr_abs();
  }
  if (m.seg) mem.set_segment(uint32_t(m.seg));
  if (m.bcst > 0) {
    x86::Mem::Broadcast b = m.bcst == 2 ? x86::Mem::Broadcast::k1To2 : m.bcst == 4 ? x86::Mem::Broadcast::k1To4 : m.bcst == 8 ? x86::Mem::Broadcast::k1To8 :
                            m.bcst == 16 ? x86::Mem::Broadcast::k1To16 : m.bcst == 32 ? x86::Mem::Broadcast::k1To32 : x86::Mem::Broadcast::k1To64;
    mem.set_broadcast(b);
  }
  return mem;
}

// Issues the instruction on an emitter. `ops_out` receives the operand array used (for other checks).
inline asmjit::Error emit(asmjit::BaseEmitter& e, asmjit::InstId id, const XInst& xi, std::vector<asmjit::Operand_>* ops_out = nullptr) {
  using namespace asmjit;
  Operand_ ops[8];
  size_t n = 0;
  for (const Opnd& o : xi.ops) { if (n >= 6) break; Operand op = to_asmjit(o); ops[n++] = op; }
  if (xi.sae || xi.er >= 0) {
    // AsmJit expresses {er}/{sae} through instruction options
  }
  InstOptions opt = InstOptions::kNone;
  if (xi.options & kOptLock) opt |= InstOptions::kX86_Lock;
  if (xi.options & kOptRep) opt |= InstOptions::kX86_Rep;
  if (xi.options & kOptRepne) opt |= InstOptions::kX86_Repne;
  if (xi.options & kOptXacquire) opt |= InstOptions::kX86_XAcquire;
  if (xi.options & kOptXrelease) opt |= InstOptions::kX86_XRelease;
  if (xi.options & kOptRex) opt |= InstOptions::kX86_Rex;
  if (xi.options & kOptVex3) opt |= InstOptions::kX86_Vex3;
  if (xi.options & kOptEvex) opt |= InstOptions::kX86_Evex;
  if (xi.options & kOptModMR) opt |= InstOptions::kX86_ModMR;
  if (xi.options & kOptModRM) opt |= InstOptions::kX86_ModRM;
  if (xi.options & kOptLongForm) opt |= InstOptions::kLongForm;
  if (xi.z) opt |= InstOptions::kX86_ZMask;
  if (xi.sae) opt |= InstOptions::kX86_SAE;
  if (xi.er >= 0) {
    opt |= InstOptions::kX86_ER;
    opt |= xi.er == 0 ? InstOptions::kX86_RN_SAE : xi.er == 1 ? InstOptions::kX86_RD_SAE : xi.er == 2 ? InstOptions::kX86_RU_SAE : InstOptions::kX86_RZ_SAE;
  }
  for (const Opnd& o : xi.ops) if (o.kind == Opnd::kRel) { Label l = e.new_label(); e.bind(l); break; }      // label 0, bound where the instruction starts
  e.add_inst_options(opt);
  if (xi.k) e.set_extra_reg(x86::KReg(uint32_t(xi.k)));
  if (ops_out) ops_out->assign(ops, ops + n);
  return e.emit_op_array(id, ops, n);
}

// ---- rendering (Intel syntax as accepted by LLVM MC) --------------------------------------------------------------------
inline std::string hex64(int64_t v) {
  char b[40];
  if (v < 0) snprintf(b, sizeof b, "-0x%" PRIx64, uint64_t(0) - uint64_t(v)); else snprintf(b, sizeof b, "0x%" PRIx64, uint64_t(v));
  return b;
}

inline const char* size_kw(int bits) {
  switch (bits) {
    case 8: return "byte ptr "; case 16: return "word ptr "; case 32: return "dword ptr "; case 48: return "fword ptr "; case 64: return "qword ptr ";
    case 80: return "tbyte ptr "; case 128: return "xmmword ptr "; case 256: return "ymmword ptr "; case 512: return "zmmword ptr ";
    default: return "";
  }
}

inline std::string render_mem(const Mem& m, int mode) {
  std::string s = size_kw(m.size_bits);
  if (m.seg) { Reg sr{RC::Sreg, m.seg}; s += reg_name(sr) + ":"; }
  s += "[";
  bool first = true;
  if (m.base.rc != RC::None) { s += reg_name(m.base); first = false; }
  if (m.index.rc != RC::None) { if (!first) s += " + "; s += reg_name(m.index); if (m.index.rc != RC::Gp16) { char b[8]; snprintf(b, sizeof b, "*%d", m.scale); s += b; } first = false; }
  if (first) {
    // absolute
    uint64_t a = uint64_t(m.disp);
    if (mode == 32) a &= 0xffffffffu;
    char b[32]; snprintf(b, sizeof b, "0x%" PRIx64, a); s += b;
  } else if (m.disp != 0) {
    if (m.disp < 0) { s += " - "; s += hex64(-m.disp); } else { s += " + "; s += hex64(m.disp); }
  }
  s += "]";
  if (m.bcst > 0) { char b[16]; snprintf(b, sizeof b, "{1to%d}", m.bcst); s += b; }
  return s;
}

inline std::string render(const XInst& xi, const char* mnemonic_override = nullptr) {
  const xdb::Form& f = *xi.form;
  std::string s;
  if (xi.options & kOptXacquire) s += "xacquire ";
  if (xi.options & kOptXrelease) s += "xrelease ";
  if (xi.options & kOptLock) s += "lock ";
  if (xi.options & kOptRep) s += "rep ";
  if (xi.options & kOptRepne) s += "repne ";
  s += mnemonic_override ? mnemonic_override : f.name.c_str();
  bool first = true;
  size_t imm_pos = xi.ops.size();
  for (size_t i = 0; i < xi.ops.size(); i++) if (xi.ops[i].kind == Opnd::kImm) { imm_pos = i; break; }
  for (size_t i = 0; i < xi.ops.size(); i++) {
    const Opnd& o = xi.ops[i];
    // LLVM wants {sae}/{er} before a trailing immediate
    if (i == imm_pos && (xi.sae || xi.er >= 0)) {
      s += first ? " " : ", ";
      static const char* er[] = {"{rn-sae}", "{rd-sae}", "{ru-sae}", "{rz-sae}"};
      s += xi.sae ? "{sae}" : er[xi.er & 3];
      first = false;
    }
    s += first ? " " : ", ";
    first = false;
    if (o.kind == Opnd::kReg) s += reg_name(o.reg);
    else if (o.kind == Opnd::kRel) s += "L0";
    else if (o.kind == Opnd::kImm) s += hex64(o.imm);
    else s += render_mem(o.mem, xi.mode);
    if (i == 0 && xi.k) { char b[16]; snprintf(b, sizeof b, " {k%d}", xi.k); s += b; if (xi.z) s += " {z}"; }
  }
  if (imm_pos == xi.ops.size() && (xi.sae || xi.er >= 0)) {
    static const char* er[] = {"{rn-sae}", "{rd-sae}", "{ru-sae}", "{rz-sae}"};
    s += first ? " " : ", ";
    s += xi.sae ? "{sae}" : er[xi.er & 3];
  }
  return s;
}

} // namespace xi
