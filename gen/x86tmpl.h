// ISA-database encoding-rule judge: do these bytes encode some DB form of the instruction's mnemonic that admits the
// requested operands? Written from the Intel SDM encoding rules (prefixes, REX, VEX/XOP/EVEX payloads, ModRM/SIB/disp,
// disp8*N, immediates). It exposes and compares *fields*; it shares no code or tables with AsmJit.
#pragma once
#include "x86inst.h"
#include <algorithm>
#include <cctype>

namespace xt {

enum Status { kMatch, kMismatch, kUndecided };
struct Verdict { Status status = kUndecided; std::string detail; int form = -1; };

using xi::RC;
using xi::XInst;
using xi::Opnd;

inline bool is_vec(RC rc) { return rc == RC::Xmm || rc == RC::Ymm || rc == RC::Zmm; }

// Field value (low 3 bits + extension bits) of a register in an encoding.
inline int reg_code(const xi::Reg& r) {
  switch (r.rc) {
    case RC::Gp8Hi: return 4 + (r.id & 3);
    case RC::Sreg: return r.id - 1;
    default: return r.id;
  }
}

inline bool imm_fits(int64_t v, int bits, const std::string& sign) {
  if (bits >= 64) return true;
  int64_t smin = -(int64_t(1) << (bits - 1)), smax = (int64_t(1) << (bits - 1)) - 1, umax = (int64_t(1) << bits) - 1;
  if (sign == "signed") return v >= smin && v <= smax;
  if (sign == "unsigned") return v >= 0 && v <= umax;
  return v >= smin && v <= umax;
}

// An operand of a DB form that the API caller passes explicitly ("<...>" operands are implicit, except the literal `1`
// of shift/rotate forms, which AsmJit takes as an ordinary immediate).
inline bool is_explicit(const xdb::Op& d) { return !d.implicit || !d.immValue.empty(); }

// Operand size (bits) the immediate is extended to: the size of the first register/memory operand of the form.
inline int form_opsize(const xdb::Form& G) {
  for (const xdb::Op& d : G.ops) {
    if (d.is_reg()) { RC rc; int fx; if (xi::db_reg_class(d.reg, rc, fx)) { int b = xi::rc_bits(rc); if (b) return b; } }
    if (d.is_mem() && d.memSize > 0) return d.memSize;
  }
  return 0;
}

// Can `v` be produced by a `bits`-wide immediate field (sign per `sign`) extended to `opsize` bits?
inline bool imm_fits_ext(int64_t v, int bits, const std::string& sign, int opsize) {
  if (bits >= 64) return true;
  if (imm_fits(v, bits, sign)) return true;
  if (opsize < bits || opsize > 64 || opsize == 0) return false;
  uint64_t om = opsize >= 64 ? ~uint64_t(0) : ((uint64_t(1) << opsize) - 1);
  uint64_t fm = (uint64_t(1) << bits) - 1;
  uint64_t t = uint64_t(v) & om;
  // the value must be a canonical rendering of an opsize-wide quantity (zero- or sign-extended to 64 bits)
  int64_t sx = opsize >= 64 ? int64_t(t) : int64_t(t << (64 - opsize)) >> (64 - opsize);
  if (uint64_t(v) != t && v != sx) return false;
  uint64_t f = t & fm;
  uint64_t sext = (f & (uint64_t(1) << (bits - 1))) ? (f | ~fm) : f;
  bool ok_s = (sext & om) == t, ok_u = f == t;
  if (sign == "signed") return ok_s;
  if (sign == "unsigned") return ok_u;
  return ok_s || ok_u;
}

// Does DB form G admit the requested operands / decorations? `with_implicit`: the caller passed the implicit operands explicitly as well
// (AsmJit's API accepts both, e.g. imul(ax, r8) or cmpxchg(mem, reg, eax)).
inline bool admits_impl(const xdb::Form& G, const XInst& x, bool with_implicit) {
  size_t n = 0;
  for (const xdb::Op& d : G.ops) if (with_implicit || is_explicit(d)) n++;
  if (n != x.ops.size()) return false;
  const int opsize = form_opsize(G);
  if (x.k && !G.kmask) return false;
  if (x.z && !G.zmask) return false;
  if (x.er >= 0 && !G.er) return false;
  if (x.sae && !(G.sae || G.er)) return false;
  size_t j = 0;
  for (const xdb::Op& d : G.ops) {
    if (!with_implicit && !is_explicit(d)) continue;
    const Opnd& o = x.ops[j++];
    if (o.kind == Opnd::kRel) { if (!d.is_rel()) return false; continue; }
    if (o.kind == Opnd::kReg) {
      if (!d.is_reg()) return false;
      RC rc; int fixed;
      if (!xi::db_reg_class(d.reg, rc, fixed)) return false;
      if (rc == RC::Gp8Lo && fixed < 0 && o.reg.rc == RC::Gp8Hi) { /* r8 admits ah..bh */ }
      else if (rc != o.reg.rc) return false;
      if (fixed >= 0 && fixed != o.reg.id) return false;
    } else if (o.kind == Opnd::kMem) {
      if (!d.is_mem()) return false;
      if (d.memOff) { if (!(o.mem.abs && o.mem.base.rc == RC::None && o.mem.index.rc == RC::None && o.mem.bcst == 0)) return false; }
      bool vs = is_vec(o.mem.index.rc);
      if (vs != !d.vsibReg.empty()) return false;
      if (vs) { const char* nm = o.mem.index.rc == RC::Xmm ? "xmm" : o.mem.index.rc == RC::Ymm ? "ymm" : "zmm"; if (d.vsibReg != nm) return false; }
      if (o.mem.bcst > 0) { if (d.bcstSize <= 0 || (o.mem.size_bits != 0 && d.bcstSize != o.mem.size_bits)) return false; }
      else if (o.mem.size_bits != 0 && d.memSize > 0 && d.memSize != o.mem.size_bits) return false;
      if (!d.memSegment.empty()) {
        bool is_si = d.memRegOnly.find("si") != std::string::npos, is_bx = d.memRegOnly.find("bx") != std::string::npos;
        int id = is_si ? 6 : is_bx ? 3 : 7;
        // "m512(es:r32|r64)" (enqcmd, movdir64b): the destination address is in ANY general register (ModRM.reg), with the address size
        // selecting its width (SDM: ENQCMD/MOVDIR64B r32/r64, m512 - a 67h prefix gives the narrower register in either mode)
        bool any_base = d.memRegOnly.size() >= 2 && d.memRegOnly[0] == 'r' && isdigit((unsigned char)d.memRegOnly[1]);
        if ((!any_base && o.mem.base.id != id) || o.mem.index.rc != RC::None || o.mem.disp != 0) return false;
        if (any_base && !(o.mem.base.rc == RC::Gp16 || o.mem.base.rc == RC::Gp32 || o.mem.base.rc == RC::Gp64)) return false;
      }
    } else {
      if (!d.is_imm() || d.is_reg() || d.is_mem()) return false;
      if (!d.immValue.empty()) { if (atoll(d.immValue.c_str()) != o.imm) return false; }
      else if (!imm_fits_ext(o.imm, d.imm, d.immSign, opsize)) return false;
    }
  }
  return true;
}
inline bool admits(const xdb::Form& G, const XInst& x) { return admits_impl(G, x, false); }
inline bool admits_any(const xdb::Form& G, const XInst& x) { return admits_impl(G, x, false) || (G.hasImplicit && admits_impl(G, x, true)); }

struct Cursor {
  const uint8_t* p; size_t n, pos = 0;
  bool have(size_t k) const { return pos + k <= n; }
  int peek() const { return pos < n ? p[pos] : -1; }
  int get() { return pos < n ? p[pos++] : -1; }
};

inline int map_code(const std::string& mm) {
  if (mm == "0F") return 1; if (mm == "0F38") return 2; if (mm == "0F3A") return 3; if (mm == "MAP4") return 4;
  if (mm == "MAP5") return 5; if (mm == "MAP6") return 6; if (mm == "MAP7") return 7; if (mm == "M8" || mm == "MAP8") return 8; if (mm == "M9" || mm == "MAP9") return 9; if (mm == "MA" || mm == "MAPA") return 10;
  return -1;
}

// Tries to match bytes against one DB form. Returns "" on match, otherwise the reason. `undecided` set when the judge lacks a rule.
inline std::string match_form(const xdb::Form& G, const XInst& x, const uint8_t* bytes, size_t n, bool& undecided) {
  undecided = false;
  const int mode = x.mode;
  char msg[256];
#define XT_FAIL(...) do { snprintf(msg, sizeof msg, __VA_ARGS__); return std::string(msg); } while (0)
#define XT_UNDEC(s) do { undecided = true; return std::string(s); } while (0)

  // ---- operands by role ----
  const Opnd* opR = nullptr; const Opnd* opM = nullptr; const Opnd* opV = nullptr; const Opnd* opS = nullptr; const Opnd* opO = nullptr;
  const xdb::Op* dM = nullptr;
  const Opnd* memop = nullptr; const xdb::Op* dmem = nullptr;
  std::vector<const Opnd*> imms;
  {
    size_t j = 0;
    for (const xdb::Op& d : G.ops) {
      if (!is_explicit(d)) continue;
      const Opnd& o = x.ops[j++];
      if (o.kind == Opnd::kImm) { if (d.immValue.empty()) imms.push_back(&o); continue; }
      if (o.kind == Opnd::kMem) { memop = &o; dmem = &d; }
      switch (d.role) {
        case 'R': opR = &o; break; case 'M': opM = &o; dM = &d; break; case 'V': opV = &o; break; case 'S': opS = &o; break; case 'O': opO = &o; break;
        default: break;
      }
    }
  }
  if (G.name == "lcall" || G.name == "ljmp") std::reverse(imms.begin(), imms.end());   // API: (selector, offset); encoding: offset, selector
  const bool is_moff = G.moff;
  if (memop && memop != opM && !is_moff && dmem->memSegment.empty()) XT_UNDEC("memory operand without M role");
  if (opR && opR->kind != Opnd::kReg) XT_UNDEC("R role on non-register");
  if (opV && opV->kind != Opnd::kReg) XT_UNDEC("V role on non-register");
  if (opS && opS->kind != Opnd::kReg) XT_UNDEC("S role on non-register");

  const bool legacy = G.prefix.empty() || G.prefix == "3DNOW";
  const bool vex = G.prefix == "VEX" || G.prefix == "XOP";
  const bool evex = G.prefix == "EVEX";
  if (!legacy && !vex && !evex) XT_UNDEC("prefix kind " + G.prefix);

  // ---- read the opcode-string tokens (the database's own notation) ----
  bool need66 = false, needF2 = false, needF3 = false, need9B = false, needW = false;
  std::vector<int> lit;          // literal opcode bytes (legacy: incl. escape bytes)
  bool lit_plus_r = false;
  int modSpec = -1;              // -1 none, 0 any ("xx"), 1 must be 3, 2 must not be 3
  int regSpec = -2;              // -2 none, -1 'r' operand, 0..7 digit
  int rmSpec = -2;               // -2 none, -1 'b' operand, 0..7 digit
  bool have_modrm = false;
  {
    size_t t0 = legacy ? 0 : 1;
    bool seen_opcode = false;
    for (size_t ti = t0; ti < G.optokens.size(); ti++) {
      const std::string& t = G.optokens[ti];
      if (t.empty() || t == "NP" || t == "NFx" || t == "NOREP" || t == "NO67") continue;
      if (t == "REX.W") { needW = true; continue; }
      if (t == "ib" || t == "iw" || t == "id" || t == "iq" || t == "iv" || t == "if" || t == "/is4" || t == "moff" || t == "cb" || t == "cw" || t == "cd") continue;
      if (t == "/r") { have_modrm = true; modSpec = 0; regSpec = -1; rmSpec = -1; continue; }
      if (t.size() == 2 && t[0] == '/' && t[1] >= '0' && t[1] <= '7') { have_modrm = true; modSpec = 0; regSpec = t[1] - '0'; rmSpec = -1; continue; }
      if (t.rfind("11:", 0) == 0 || t.rfind("!(11):", 0) == 0) {
        have_modrm = true;
        bool is11 = t[0] == '1';
        modSpec = is11 ? 1 : 2;
        std::string rest = t.substr(is11 ? 3 : 6);
        if (rest.size() != 7 || rest[3] != ':') XT_UNDEC("modrm token " + t);
        std::string r = rest.substr(0, 3), m = rest.substr(4, 3);
        regSpec = r == "rrr" ? -1 : int(strtol(r.c_str(), nullptr, 2));
        rmSpec = m == "bbb" ? -1 : int(strtol(m.c_str(), nullptr, 2));
        continue;
      }
      bool hexb = t.size() >= 2 && isxdigit((unsigned char)t[0]) && isxdigit((unsigned char)t[1]) && (t.size() == 2 || (t.size() == 4 && t[2] == '+' && (t[3] == 'r' || t[3] == 'i')));
      if (hexb) {
        int v = int(strtol(t.substr(0, 2).c_str(), nullptr, 16));
        if (legacy && !seen_opcode && t.size() == 2 && (v == 0x66 || v == 0xF2 || v == 0xF3 || v == 0x9B) && ti + 1 < G.optokens.size()) {
          // a leading 66/F2/F3/9B followed by more opcode bytes is a mandatory prefix
          bool more = false;
          for (size_t k = ti + 1; k < G.optokens.size(); k++) { const std::string& u = G.optokens[k]; if (u.size() >= 2 && isxdigit((unsigned char)u[0]) && isxdigit((unsigned char)u[1]) && u != "NP") { more = true; break; } if (u == "REX.W") continue; }
          if (more) { if (v == 0x66) need66 = true; else if (v == 0xF2) needF2 = true; else if (v == 0xF3) needF3 = true; else need9B = true; continue; }
        }
        if (legacy && t.size() == 2 && v == 0x67 && !seen_opcode && G._67h) continue;
        seen_opcode = true;
        lit.push_back(v);
        if (t.size() == 4) lit_plus_r = true;
        continue;
      }
      XT_UNDEC("opcode token " + t);
    }
  }
  if (lit.empty()) XT_UNDEC("no opcode byte");
  if (!have_modrm && memop && !is_moff && dmem->memSegment.empty()) {
    // VSIB forms are written without "/r" in the database; they necessarily have a ModRM+SIB
    if (!dmem->vsibReg.empty()) { have_modrm = true; modSpec = 2; regSpec = -1; rmSpec = -1; }
    else XT_UNDEC("memory operand but no ModRM in opcode string");
  }
  int suffix3dnow = -1;
  if (G.prefix == "3DNOW") { suffix3dnow = lit.back(); lit.pop_back(); }

  if (legacy) {
    if (G.groupPattern == "rv" && G.groupIndex == 0) need66 = true;
    if (G.w == "W1") needW = true;
    if (!needW && G.w.empty() && ((G.groupPattern == "rv" && G.groupIndex == 2) || (G.groupPattern == "ry" && G.groupIndex == 1))) needW = true;
  }
  bool need67 = G._67h;
  int needSeg = 0;
  const xi::Mem* M = memop ? &memop->mem : nullptr;
  if (M) {
    needSeg = M->seg;
    if ((mode == 64 && M->addr_bits == 32) || (mode == 32 && M->addr_bits == 16)) need67 = true;
  }
  bool needF0 = (x.options & xi::kOptLock) != 0;
  if (x.options & (xi::kOptRep | xi::kOptXrelease)) needF3 = true;
  if (x.options & (xi::kOptRepne | xi::kOptXacquire)) needF2 = true;

  // ---- parse legacy prefixes ----
  Cursor c{bytes, n};
  bool p66 = false, p67 = false, pF0 = false, pF2 = false, pF3 = false; int seg = 0; bool p9B = false;
  for (;;) {
    int b = c.peek();
    bool* flag = nullptr; int sg = 0;
    switch (b) {
      case 0x66: flag = &p66; break; case 0x67: flag = &p67; break; case 0xF0: flag = &pF0; break; case 0xF2: flag = &pF2; break; case 0xF3: flag = &pF3; break;
      case 0x26: sg = 1; break; case 0x2E: sg = 2; break; case 0x36: sg = 3; break; case 0x3E: sg = 4; break; case 0x64: sg = 5; break; case 0x65: sg = 6; break;
      case 0x9B: if (need9B && !p9B) { flag = &p9B; } break;
      default: break;
    }
    if (!flag && !sg) break;
    if (flag) { if (*flag) XT_FAIL("duplicate prefix %02X", b); *flag = true; }
    else { if (seg) XT_FAIL("two segment prefixes"); seg = sg; }
    c.get();
    if (flag == &p9B) break;      // FWAIT ends the first group: what follows belongs to the x87 instruction (parsed below)
  }
  if (need9B) {
    // FWAIT is an instruction of its own: every prefix of the x87 instruction must come AFTER it
    if (!p9B) XT_FAIL("expected FWAIT (9B)");
    if (p66 || p67 || seg || pF0 || pF2 || pF3) XT_FAIL("prefix placed before FWAIT (9B): it does not apply to the x87 instruction that follows");
    // prefixes after 9B
    for (;;) {
      int b = c.peek(); bool* flag = nullptr; int sg = 0;
      switch (b) { case 0x66: flag = &p66; break; case 0x67: flag = &p67; break;
        case 0x26: sg = 1; break; case 0x2E: sg = 2; break; case 0x36: sg = 3; break; case 0x3E: sg = 4; break; case 0x64: sg = 5; break; case 0x65: sg = 6; break; default: break; }
      if (!flag && !sg) break;
      if (flag) *flag = true; else seg = sg;
      c.get();
    }
  }
  if (seg != needSeg) XT_FAIL("segment prefix %d, expected %d", seg, needSeg);
  bool abs_u32_fix = false;
  if (p67 != need67) {
    // 64-bit mode: an absolute address in [2^31, 2^32) is reachable only zero-extended, i.e. with an address-size prefix
    if (p67 && M && mode == 64 && M->abs && M->base.rc == RC::None && M->index.rc == RC::None && !is_moff && M->disp > 0x7fffffffLL && M->disp <= 0xffffffffLL) abs_u32_fix = true;
    else if (!(is_moff && p67)) XT_FAIL("address-size prefix %d, expected %d", int(p67), int(need67));
  }
  if (pF0 != needF0) XT_FAIL("lock prefix %d, expected %d", int(pF0), int(needF0));

  // ---- REX / VEX / XOP / EVEX ----
  bool rex = false; int W = 0, R = 0, X = 0, B = 0, R2 = 0, vvvv = 0, V2 = 0, L = 0, pp = 0, mapc = 0, z = 0, bb = 0, aaa = 0;
  int vexkind = 0;
  if (legacy) {
    if (p66 != need66) XT_FAIL("operand-size prefix %d, expected %d", int(p66), int(need66));
    if (pF2 != needF2) XT_FAIL("F2 prefix %d, expected %d", int(pF2), int(needF2));
    if (pF3 != needF3) XT_FAIL("F3 prefix %d, expected %d", int(pF3), int(needF3));
    if (mode == 64 && c.peek() >= 0x40 && c.peek() <= 0x4F) { int b = c.get(); rex = true; W = (b >> 3) & 1; R = (b >> 2) & 1; X = (b >> 1) & 1; B = b & 1; }
  } else {
    if (p66 || pF2 || pF3 || pF0) XT_FAIL("legacy 66/F2/F3/F0 prefix before VEX/EVEX");
    int b0 = c.get();
    if (vex && G.prefix == "VEX" && b0 == 0xC5) {
      if (!c.have(1)) XT_FAIL("truncated VEX2");
      int b1 = c.get(); vexkind = 2;
      R = ((b1 >> 7) & 1) ^ 1; vvvv = ((b1 >> 3) & 15) ^ 15; L = (b1 >> 2) & 1; pp = b1 & 3; mapc = 1; W = 0;
    } else if (vex && ((G.prefix == "VEX" && b0 == 0xC4) || (G.prefix == "XOP" && b0 == 0x8F))) {
      if (!c.have(2)) XT_FAIL("truncated VEX3");
      int b1 = c.get(), b2 = c.get(); vexkind = 3;
      R = ((b1 >> 7) & 1) ^ 1; X = ((b1 >> 6) & 1) ^ 1; B = ((b1 >> 5) & 1) ^ 1; mapc = b1 & 31;
      W = (b2 >> 7) & 1; vvvv = ((b2 >> 3) & 15) ^ 15; L = (b2 >> 2) & 1; pp = b2 & 3;
    } else if (evex && b0 == 0x62) {
      if (!c.have(3)) XT_FAIL("truncated EVEX");
      int b1 = c.get(), b2 = c.get(), b3 = c.get(); vexkind = 62;
      R = ((b1 >> 7) & 1) ^ 1; X = ((b1 >> 6) & 1) ^ 1; B = ((b1 >> 5) & 1) ^ 1; R2 = ((b1 >> 4) & 1) ^ 1; mapc = b1 & 7;
      if (b1 & 0x08) XT_FAIL("EVEX P0 bit3 set");
      W = (b2 >> 7) & 1; vvvv = ((b2 >> 3) & 15) ^ 15; if (!(b2 & 4)) XT_FAIL("EVEX P1 bit2 must be 1"); pp = b2 & 3;
      z = (b3 >> 7) & 1; L = (b3 >> 5) & 3; bb = (b3 >> 4) & 1; V2 = ((b3 >> 3) & 1) ^ 1; aaa = b3 & 7;
    } else XT_FAIL("expected %s prefix byte, found %02X", G.prefix.c_str(), b0);
    if (mode == 32 && (R || X || B || R2 || V2 || (vvvv & 8))) XT_FAIL("register extension bits set in 32-bit mode");
    int ppe = G.pp == "66" ? 1 : G.pp == "F3" ? 2 : G.pp == "F2" ? 3 : 0;
    if (pp != ppe) XT_FAIL("pp %d, expected %d (%s)", pp, ppe, G.pp.c_str());
    int me = map_code(G.mm);
    if (me < 0) XT_UNDEC("unknown map " + G.mm);
    if (mapc != me) XT_FAIL("opcode map %d, expected %d (%s)", mapc, me, G.mm.c_str());
    if ((x.options & xi::kOptVex3) && vexkind == 2) XT_FAIL("vex3 option but 2-byte VEX emitted");
  }
  if (legacy) { if (W != int(needW)) XT_FAIL("REX.W %d, expected %d", W, int(needW)); }
  else if (G.w == "W0" || G.w == "W1") { if (W != int(G.w == "W1")) XT_FAIL("VEX/EVEX.W %d, expected %s", W, G.w.c_str()); }
  if (!legacy) {
    int Le = -1;
    const std::string& l = G.l;
    if (l == "128") Le = 0; else if (l == "256") Le = 1; else if (l == "512") Le = 2;
    else if (l == "xy" || l == "xyz") Le = G.groupIndex;
    if (evex && (x.er >= 0)) { if (!bb) XT_FAIL("EVEX.b not set for {er}"); if (L != x.er) XT_FAIL("EVEX.L'L (rounding) %d, expected %d", L, x.er); }
    else if (evex && x.sae) { if (!bb) XT_FAIL("EVEX.b not set for {sae}"); }
    else if (Le >= 0 && L != Le) XT_FAIL("vector length field %d, expected %d (%s)", L, Le, G.l.c_str());
    if (evex) {
      bool want_b = x.er >= 0 || x.sae || (M && M->bcst > 0);
      if (bool(bb) != want_b) XT_FAIL("EVEX.b %d, expected %d", bb, int(want_b));
      if (aaa != x.k) XT_FAIL("EVEX.aaa %d, expected k%d", aaa, x.k);
      if (bool(z) != x.z) XT_FAIL("EVEX.z %d, expected %d", z, int(x.z));
    }
  }

  // ---- opcode bytes ----
  for (size_t li = 0; li < lit.size(); li++) {
    int b = c.get();
    if (b < 0) XT_FAIL("truncated before opcode");
    int expect = lit[li];
    if (li + 1 == lit.size() && lit_plus_r) {
      if (!opO || opO->kind != Opnd::kReg) XT_UNDEC("+r form without O operand");
      int code = reg_code(opO->reg);
      expect += (code & 7);
      if (((code >> 3) & 1) != B) XT_FAIL("REX.B %d for +r register code %d", B, code);
    }
    if (b != expect) XT_FAIL("opcode byte %02X, expected %02X", b, expect);
  }

  // ---- ModRM ----
  bool rex_needed = false, rex_forbidden = false;
  for (const Opnd& o : x.ops) if (o.kind == Opnd::kReg) {
    if (o.reg.rc == RC::Gp8Hi) rex_forbidden = true;
    if (o.reg.rc == RC::Gp8Lo && o.reg.id >= 4 && o.reg.id < 8 && mode == 64) rex_needed = true;
  }
  int expR = 0, expR2 = 0;
  if (have_modrm) {
    int modrm = c.get();
    if (modrm < 0) XT_FAIL("truncated before ModRM");
    int mod = modrm >> 6, reg = (modrm >> 3) & 7, rm = modrm & 7;
    if (regSpec == -1) {
      if (!opR) XT_UNDEC("modrm.reg=r without R operand");
      int code = reg_code(opR->reg);
      if (reg != (code & 7)) XT_FAIL("ModRM.reg %d, expected %d", reg, code & 7);
      expR = (code >> 3) & 1; expR2 = (code >> 4) & 1;
    } else if (regSpec >= 0) {
      if (reg != regSpec) XT_FAIL("ModRM.reg %d, expected /%d", reg, regSpec);
    }
    if (modSpec == 1 && mod != 3) XT_FAIL("ModRM.mod %d, expected 3", mod);
    if (modSpec == 2 && mod == 3) XT_FAIL("ModRM.mod 3 not allowed");
    if (opM && opM->kind == Opnd::kReg) {
      int code = reg_code(opM->reg);
      if (mod != 3) XT_FAIL("register operand but ModRM.mod %d", mod);
      if (rm != (code & 7)) XT_FAIL("ModRM.rm %d, expected %d", rm, code & 7);
      if (rmSpec >= 0 && rm != rmSpec) XT_FAIL("ModRM.rm %d, expected %d", rm, rmSpec);
      if (B != ((code >> 3) & 1)) XT_FAIL("B extension %d, expected %d", B, (code >> 3) & 1);
      if (evex) { if (X != ((code >> 4) & 1)) XT_FAIL("EVEX.X %d, expected %d", X, (code >> 4) & 1); }
      else if (X) XT_FAIL("X extension set without index");
    } else if (opM && opM->kind == Opnd::kMem) {
      const xi::Mem& m = opM->mem;
      if (mod == 3) XT_FAIL("memory operand but ModRM.mod 3");
      if (rmSpec >= 0 && rm != rmSpec) XT_FAIL("ModRM.rm %d, expected %d", rm, rmSpec);
      int abits = p67 ? (mode == 64 ? 32 : 16) : mode;
      int dbase = -1, dindex = -1, dscale = 1; bool drip = false; int64_t ddisp = 0; int dispsz = 0;
      if (abits == 16) {
        static const int b16[] = {3, 3, 5, 5, 6, 7, 5, 3};
        static const int i16[] = {6, 7, 6, 7, -1, -1, -1, -1};
        if (mod == 0 && rm == 6) { dispsz = 2; }
        else { dbase = b16[rm]; dindex = i16[rm]; dispsz = mod == 1 ? 1 : mod == 2 ? 2 : 0; }
      } else {
        if (rm == 4) {
          int sib = c.get();
          if (sib < 0) XT_FAIL("truncated before SIB");
          int ss = sib >> 6, idx = (sib >> 3) & 7, bs = sib & 7;
          dscale = 1 << ss;
          dindex = idx | (X << 3);
          if (is_vec(m.index.rc)) { dindex |= (V2 << 4); }
          else if (dindex == 4) dindex = -1;
          if (bs == 5 && mod == 0) { dbase = -1; dispsz = 4; if (B) XT_FAIL("B extension set without base"); }
          else { dbase = bs | (B << 3); dispsz = mod == 1 ? 1 : mod == 2 ? 4 : 0; }
        } else if (rm == 5 && mod == 0) {
          dispsz = 4;
          if (mode == 64) drip = true;
          if (X || B) XT_FAIL("X/B extension set for disp32-only addressing");
        } else { dbase = rm | (B << 3); dispsz = mod == 1 ? 1 : mod == 2 ? 4 : 0; if (X) XT_FAIL("X extension set without SIB"); }
      }
      if (!c.have(size_t(dispsz))) XT_FAIL("truncated displacement");
      int N = 1;
      if (evex && dispsz == 1) {      // disp8*N applies to 16-bit addressing as well (SDM 2.7.5; LLVM and libopcodes both decode it scaled)
        int sz = m.bcst > 0 ? dM->bcstSize : dM->memSize;
        if (is_vec(m.index.rc)) sz = G.elementSize;
        if (G.tupleType == "t1s" && m.bcst == 0) {
          // tuple1-scalar: N is the element size (compress/expand use it with full-vector memory operands)
          if (G.elementSize > 0) sz = G.elementSize;
          else if (dM->memSize > 64 || dM->memSize <= 0) {
            // element size from the mnemonic suffix is not in the DB: W selects 4/8 for d/q forms, b/w forms use 1/2
            const std::string& nm = G.name;
            char last = nm.empty() ? ' ' : nm.back();
            sz = last == 'b' ? 8 : last == 'w' ? 16 : (G.w == "W1" ? 64 : 32);
          }
        }
        if (G.tupleType.empty() || G.tupleType == "none") N = 1;
        else if (sz > 0) N = sz / 8;
        else XT_UNDEC("disp8*N unknown for tuple " + G.tupleType);
      }
      if (dispsz == 1) ddisp = int64_t(int8_t(c.p[c.pos])) * N;
      else if (dispsz == 2) ddisp = int16_t(uint16_t(c.p[c.pos] | (c.p[c.pos + 1] << 8)));
      else if (dispsz == 4) ddisp = int32_t(uint32_t(c.p[c.pos]) | (uint32_t(c.p[c.pos + 1]) << 8) | (uint32_t(c.p[c.pos + 2]) << 16) | (uint32_t(c.p[c.pos + 3]) << 24));
      c.pos += size_t(dispsz);
      bool want_rip = m.base.rc == RC::Rip;
      if (want_rip != drip) XT_FAIL("rip-relative %d, expected %d", int(drip), int(want_rip));
      if (!want_rip) {
        int wb = m.base.rc == RC::None ? -1 : m.base.id, wi = m.index.rc == RC::None ? -1 : m.index.id, ws = m.index.rc == RC::None ? 1 : m.scale;
        if (dindex == -1) dscale = 1;
        if (wb != dbase || wi != dindex || ws != dscale) XT_FAIL("base/index/scale (%d,%d,%d), expected (%d,%d,%d)", dbase, dindex, dscale, wb, wi, ws);
        int need_abits = m.addr_bits ? m.addr_bits : mode;
        if (abs_u32_fix) need_abits = 32;
        if (abits != need_abits) XT_FAIL("address size %d, expected %d", abits, need_abits);
      }
      uint64_t mask = abits == 64 ? ~uint64_t(0) : abits == 32 ? 0xffffffffull : 0xffffull;
      if (want_rip) mask = ~uint64_t(0);
      if ((uint64_t(ddisp) & mask) != (uint64_t(m.disp) & mask)) XT_FAIL("displacement %lld (size %d, N=%d), expected %lld", (long long)ddisp, dispsz, N, (long long)m.disp);
    } else {
      // no operand in ModRM.rm: the database fixes it (or it is a register-only form with fixed bits)
      if (rmSpec >= 0) { if (rm != rmSpec) XT_FAIL("ModRM.rm %d, expected %d", rm, rmSpec); if (mod != 3 && modSpec != 2) XT_FAIL("ModRM.mod %d, expected 3", mod); }
      else XT_UNDEC("ModRM.rm operand not resolved");
      if (B || X) XT_FAIL("B/X extension set without rm operand");
    }
    if (R != expR) XT_FAIL("R extension %d, expected %d", R, expR);
    if (evex && R2 != expR2) XT_FAIL("EVEX.R' %d, expected %d", R2, expR2);
  } else {
    if (R || X || (B && !lit_plus_r)) XT_FAIL("REX/VEX extension bits set without ModRM");
  }

  if (!legacy) {
    int ev = 0, ev2 = 0;
    if (opV) { int code = reg_code(opV->reg); ev = code & 15; ev2 = (code >> 4) & 1; }
    if (vvvv != ev) XT_FAIL("vvvv %d, expected %d", vvvv, ev);
    if (evex && !(M && is_vec(M->index.rc))) { if (V2 != ev2) XT_FAIL("EVEX.V' %d, expected %d", V2, ev2); }
  }
  if (legacy && mode == 64) {
    if (rex_forbidden && rex) XT_FAIL("REX prefix with AH/BH/CH/DH operand");
    if (rex_needed && !rex) XT_FAIL("SPL/BPL/SIL/DIL operand without REX");
    if ((x.options & xi::kOptRex) && !rex) XT_FAIL("rex option but no REX prefix");
  }

  // ---- moffs ----
  if (is_moff) {
    if (!M) XT_UNDEC("moff without memory operand");
    int asz = p67 ? (mode == 64 ? 4 : 2) : (mode == 64 ? 8 : 4);
    if (!c.have(size_t(asz))) XT_FAIL("truncated moffs");
    uint64_t v = 0; for (int i = 0; i < asz; i++) v |= uint64_t(c.p[c.pos + size_t(i)]) << (8 * i);
    c.pos += size_t(asz);
    uint64_t mask = asz == 8 ? ~uint64_t(0) : asz == 4 ? 0xffffffffull : 0xffffull;
    uint64_t want = uint64_t(M->disp);
    if (mode == 32) want &= 0xffffffffull;
    if (v != (want & mask) || (want & ~mask)) XT_FAIL("moffs address %llx, expected %llx", (unsigned long long)v, (unsigned long long)want);
  }

  // ---- immediates ----
  size_t ii = 0;
  for (int sz : G.immBytes) {
    if (sz == -1) {
      int b = c.get();
      if (b < 0) XT_FAIL("truncated before is4");
      if (!opS) XT_UNDEC("is4 without S operand");
      int code = reg_code(opS->reg);
      int msk = mode == 64 ? 15 : 7;
      if (((b >> 4) & msk) != (code & msk)) XT_FAIL("is4 register %d, expected %d", (b >> 4) & msk, code);
      if (ii < imms.size()) { if ((b & 15) != (imms[ii]->imm & 15)) XT_FAIL("imm4 %d, expected %lld", b & 15, (long long)imms[ii]->imm); ii++; }
      continue;
    }
    if (!c.have(size_t(sz))) XT_FAIL("truncated immediate");
    uint64_t v = 0; for (int i = 0; i < sz; i++) v |= uint64_t(c.p[c.pos + size_t(i)]) << (8 * i);
    c.pos += size_t(sz);
    if (ii >= imms.size()) XT_UNDEC("more immediate fields than immediate operands");
    uint64_t mask = sz >= 8 ? ~uint64_t(0) : ((uint64_t(1) << (8 * sz)) - 1);
    if (v != (uint64_t(imms[ii]->imm) & mask)) XT_FAIL("immediate %llx, expected %llx", (unsigned long long)v, (unsigned long long)(uint64_t(imms[ii]->imm) & mask));
    ii++;
  }
  if (ii != imms.size()) XT_UNDEC("immediate operands without immediate fields");
  if (suffix3dnow >= 0) { int b = c.get(); if (b != suffix3dnow) XT_FAIL("3DNow! suffix opcode %02X, expected %02X", b, suffix3dnow); }
  if (c.pos != n) XT_FAIL("%zu trailing bytes after the instruction", n - c.pos);
  return std::string();
#undef XT_FAIL
#undef XT_UNDEC
}

inline Verdict judge(const xdb::DB& db, const XInst& x, const uint8_t* bytes, size_t n) {
  Verdict v;
  auto it = db.by_name.find(x.form->name);
  if (it == db.by_name.end()) { v.detail = "no forms"; return v; }
  bool any_admit = false, any_undecided = false;
  std::string first_reason;
  for (int gi : it->second) {
    const xdb::Form& G = db.forms[size_t(gi)];
    if (!G.mode_ok(x.mode) || G.is_apx()) continue;
    if (!admits(G, x)) continue;
    any_admit = true;
    if (!G.tmplSupported) { any_undecided = true; continue; }
    bool und = false;
    std::string r = match_form(G, x, bytes, n, und);
    if (r.empty() && !und) { v.status = kMatch; v.form = gi; return v; }
    if (und) any_undecided = true;
    else if (first_reason.empty() || gi == x.form->idx) first_reason = "form#" + std::to_string(G.idx) + " '" + G.opcodeString + "': " + r;
  }
  if (!any_admit) { v.status = kUndecided; v.detail = "no DB form admits the operands"; return v; }
  if (any_undecided) { v.status = kUndecided; v.detail = "judge lacks a rule for an admitting form"; return v; }
  v.status = kMismatch;
  v.detail = first_reason;
  return v;
}

} // namespace xt
