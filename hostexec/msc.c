#define _GNU_SOURCE
#include "msc.h"
#include <setjmp.h>
#include <signal.h>
#include <sys/time.h>
#include <string.h>
#include <sys/mman.h>
#include <ucontext.h>
#include <stdlib.h>

extern uint64_t msc_saved_rsp;

#define ALT_SIZE (1u << 20)   /* 1 MiB private stack */
static uint8_t* g_alt = 0;      /* mapping base (guard page below and above) */
static uint8_t* g_top = 0;
static uint8_t* g_sigstk = 0;
static sigjmp_buf g_jmp;
static volatile int g_armed = 0;
static volatile uint64_t g_fault_addr = 0, g_fault_rip = 0;

static void handler(int sig, siginfo_t* si, void* uctx) {
  ucontext_t* uc = (ucontext_t*)uctx;
  g_fault_addr = (uint64_t)si->si_addr;
  g_fault_rip = (uint64_t)uc->uc_mcontext.gregs[REG_RIP];
  if (g_armed) { g_armed = 0; siglongjmp(g_jmp, sig); }
  signal(sig, SIG_DFL);
  raise(sig);
}

static void init(void) {
  if (g_alt) return;
  size_t pg = 4096;
  g_alt = (uint8_t*)mmap(0, ALT_SIZE + 2 * pg, PROT_READ | PROT_WRITE, MAP_PRIVATE | MAP_ANONYMOUS, -1, 0);
  if (g_alt == MAP_FAILED) abort();
  mprotect(g_alt, pg, PROT_NONE);
  mprotect(g_alt + pg + ALT_SIZE, pg, PROT_NONE);
  g_top = g_alt + pg + ALT_SIZE;           /* 4096-aligned, hence 64-aligned */
  g_sigstk = (uint8_t*)mmap(0, 1u << 16, PROT_READ | PROT_WRITE, MAP_PRIVATE | MAP_ANONYMOUS, -1, 0);
  stack_t ss; ss.ss_sp = g_sigstk; ss.ss_size = 1u << 16; ss.ss_flags = 0;
  sigaltstack(&ss, 0);
}

void msc_stack_bounds(uint8_t** lo, uint8_t** hi, uint8_t** entry_rsp) {
  init();
  if (lo) *lo = g_alt + 4096;
  if (hi) *hi = g_top;
  if (entry_rsp) *entry_rsp = g_top - (MSC_STACK_WORDS * 8 + 256) - 8;
}

void msc_stack_fill(uint8_t pattern) {
  init();
  memset(g_alt + 4096, pattern, ALT_SIZE);
}

uint64_t msc_fault_addr(void) { return g_fault_addr; }
uint64_t msc_fault_rip(void) { return g_fault_rip; }

static int g_cpu_limit_ms = 20000;
void msc_set_cpu_limit_ms(int ms) { g_cpu_limit_ms = ms; }

int msc_run(void (*fn)(void), MState* st) {
  init();
  /* SIGVTALRM: generated code that does not terminate (a miscompiled loop) ends after g_cpu_limit_ms of CPU time and is reported
     like a fault (return value SIGVTALRM); CPU time, not wall clock, so machine load does not matter. */
  struct sigaction sa, old[6];
  static const int sigs[6] = {SIGSEGV, SIGBUS, SIGILL, SIGFPE, SIGTRAP, SIGVTALRM};
  struct itimerval tv, tv_old, tv_zero;
  memset(&tv, 0, sizeof tv); memset(&tv_zero, 0, sizeof tv_zero);
  tv.it_value.tv_sec = g_cpu_limit_ms / 1000; tv.it_value.tv_usec = (g_cpu_limit_ms % 1000) * 1000;
  memset(&sa, 0, sizeof sa);
  sa.sa_sigaction = handler;
  sa.sa_flags = SA_SIGINFO | SA_ONSTACK | SA_NODEFER;
  sigemptyset(&sa.sa_mask);
  for (int i = 0; i < 6; i++) sigaction(sigs[i], &sa, &old[i]);
  getitimer(ITIMER_VIRTUAL, &tv_old);
  int sig = sigsetjmp(g_jmp, 1);
  if (sig == 0) {
    g_armed = 1;
    if (g_cpu_limit_ms > 0) setitimer(ITIMER_VIRTUAL, &tv, 0);
    msc_call_raw(fn, st, g_top);
    g_armed = 0;
  }
  setitimer(ITIMER_VIRTUAL, &tv_zero, 0);
  for (int i = 0; i < 6; i++) sigaction(sigs[i], &old[i], 0);
  if (tv_old.it_value.tv_sec || tv_old.it_value.tv_usec) setitimer(ITIMER_VIRTUAL, &tv_old, 0);
  return sig;
}
