// machine_state_call: run a code fragment on the host CPU (x86-64, System V) with a fully specified register state and
// capture the complete state afterwards. The CPU is the oracle; faults are data (returned as a signal number), not crashes.
#pragma once
#include <stdint.h>
#include <stddef.h>
#ifdef __cplusplus
extern "C" {
#endif

#define MSC_STACK_WORDS 64

typedef struct MState {
  uint64_t gpr[16];                 // 0x000 rax rcx rdx rbx rsp rbp rsi rdi r8..r15  (gpr[4]=rsp: ignored on entry, value after return on exit)
  uint64_t rflags;                  // 0x080 entry: value loaded with popfq (harness masks it to status flags + DF); exit: value after return
  uint64_t k[8];                    // 0x088 k0..k7
  uint64_t rsp_entry;               // 0x0C8 out: rsp at the callee's first instruction (points to the return address)
  uint64_t rsp_exit;                // 0x0D0 out: rsp right after the callee returned
  uint64_t mxcsr;                   // 0x0D8 in/out (low 32 bits)
  uint64_t pad[4];                  // 0x0E0
  uint8_t  zmm[32][64];             // 0x100 zmm0..zmm31 (ymm/xmm are the low parts)
  uint64_t stack[MSC_STACK_WORDS];  // 0x900 in: words placed above the return address ([rsp+8], [rsp+16], ...); out: the same words after return
} MState;

// Low-level trampoline (msc.S). `alt_top` = 64-byte aligned top of a private stack with >= 64 KiB below it and
// MSC_STACK_WORDS*8 + 256 bytes above the entry rsp reserved for the argument words.
void msc_call_raw(void (*fn)(void), MState* st, void* alt_top);

// Safe wrapper: private stack with guard pages, signal handlers for SIGSEGV/SIGBUS/SIGILL/SIGFPE/SIGTRAP on an alternate signal stack.
// Returns 0 when fn returned, otherwise the signal number (state is then unspecified except msc_fault_addr()).
/* CPU-time limit for one msc_run (default 20000 ms; 0 = none): on expiry msc_run returns SIGVTALRM. */
void msc_set_cpu_limit_ms(int ms);
int msc_run(void (*fn)(void), MState* st);
uint64_t msc_fault_addr(void);
uint64_t msc_fault_rip(void);
// Bounds of the private stack, so that harnesses can place canaries / check scribbles: [lo, hi)
void msc_stack_bounds(uint8_t** lo, uint8_t** hi, uint8_t** entry_rsp);
// Fill the private stack (below and above the entry rsp, except the argument words) with a byte pattern before a run.
void msc_stack_fill(uint8_t pattern);

#ifdef __cplusplus
}
#endif
