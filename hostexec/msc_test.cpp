#include "msc.h"
#include <cstdio>
#include <cstring>
#include <sys/mman.h>
int main() {
  // code: add rax, rcx ; vpaddd zmm1, zmm2, zmm3 ; kaddq k1,k2,k3 ; mov r9, [rsp+8] ; stc ; ret
  static const unsigned char code[] = {0x48,0x01,0xC8, 0x62,0xF1,0x6D,0x48,0xFE,0xCB, 0xC4,0xE1,0xEC,0x4A,0xCB, 0x4C,0x8B,0x4C,0x24,0x08, 0xF9, 0xC3};
  void* p = mmap(0, 4096, PROT_READ|PROT_WRITE|PROT_EXEC, MAP_PRIVATE|MAP_ANONYMOUS, -1, 0);
  memcpy(p, code, sizeof code);
  static MState st; memset(&st, 0, sizeof st);
  st.gpr[0] = 5; st.gpr[1] = 7; st.rflags = 0x202; st.mxcsr = 0x1F80;
  for (int i = 0; i < 16; i++) { ((unsigned*)st.zmm[2])[i] = i; ((unsigned*)st.zmm[3])[i] = 100; }
  st.k[2] = 3; st.k[3] = 4; st.stack[0] = 0xABCDEF;
  int sig = msc_run((void(*)())p, &st);
  printf("sig=%d rax=%llu r9=%llx k1=%llu zmm1[5]=%u CF=%llu rsp_entry=%llx rsp_exit=%llx diff=%lld\n", sig, (unsigned long long)st.gpr[0], (unsigned long long)st.gpr[9], (unsigned long long)st.k[1],
    ((unsigned*)st.zmm[1])[5], (unsigned long long)(st.rflags & 1), (unsigned long long)st.rsp_entry, (unsigned long long)st.rsp_exit, (long long)(st.rsp_exit - st.rsp_entry));
  // faulting code: mov rax, [0] ; ret
  static const unsigned char bad[] = {0x48,0x8B,0x04,0x25,0,0,0,0,0xC3};
  memcpy(p, bad, sizeof bad);
  sig = msc_run((void(*)())p, &st);
  printf("fault sig=%d addr=%llx\n", sig, (unsigned long long)msc_fault_addr());
  static const unsigned char ud[] = {0x0F,0x0B};
  memcpy(p, ud, sizeof ud);
  sig = msc_run((void(*)())p, &st);
  printf("ud sig=%d\n", sig);
  return 0;
}
