// LLVM 14 MC based assembler/disassembler oracle (no AsmJit code involved).
#include "llvm_mc.h"

#include "llvm/ADT/SmallString.h"
#include "llvm/ADT/SmallVector.h"
#include "llvm/MC/MCAsmBackend.h"
#include "llvm/MC/MCAsmInfo.h"
#include "llvm/MC/MCCodeEmitter.h"
#include "llvm/MC/MCContext.h"
#include "llvm/MC/MCDisassembler/MCDisassembler.h"
#include "llvm/MC/MCFixup.h"
#include "llvm/MC/MCInst.h"
#include "llvm/MC/MCInstPrinter.h"
#include "llvm/MC/MCInstrInfo.h"
#include "llvm/MC/MCObjectFileInfo.h"
#include "llvm/MC/MCParser/MCAsmParser.h"
#include "llvm/MC/MCParser/MCTargetAsmParser.h"
#include "llvm/MC/MCRegisterInfo.h"
#include "llvm/MC/MCStreamer.h"
#include "llvm/MC/MCSubtargetInfo.h"
#include "llvm/MC/MCTargetOptions.h"
#include "llvm/MC/TargetRegistry.h"
#include "llvm/Support/MemoryBuffer.h"
#include "llvm/Support/SourceMgr.h"
#include "llvm/Support/TargetSelect.h"
#include "llvm/Support/raw_ostream.h"

#include <cctype>
#include <memory>

extern "C" {
void LLVMInitializeX86TargetInfo();
void LLVMInitializeX86TargetMC();
void LLVMInitializeX86AsmParser();
void LLVMInitializeX86Disassembler();
void LLVMInitializeAArch64TargetInfo();
void LLVMInitializeAArch64TargetMC();
void LLVMInitializeAArch64AsmParser();
void LLVMInitializeAArch64Disassembler();
}

using namespace llvm;

namespace oracle {

namespace {

class CollectStreamer : public MCStreamer {
public:
  MCCodeEmitter* CE;
  std::vector<uint8_t>* out;
  unsigned nfix = 0;
  CollectStreamer(MCContext& ctx, MCCodeEmitter* ce, std::vector<uint8_t>* o) : MCStreamer(ctx), CE(ce), out(o) {}
  bool emitSymbolAttribute(MCSymbol*, MCSymbolAttr) override { return true; }
  void emitCommonSymbol(MCSymbol*, uint64_t, unsigned) override {}
  void emitZerofill(MCSection*, MCSymbol*, uint64_t, unsigned, SMLoc) override {}
  void emitInstruction(const MCInst& I, const MCSubtargetInfo& STI) override {
    SmallString<64> code;
    SmallVector<MCFixup, 4> fix;
    raw_svector_ostream os(code);
    CE->encodeInstruction(I, os, fix, STI);
    out->insert(out->end(), code.begin(), code.end());
    nfix += unsigned(fix.size());
  }
  void emitBytes(StringRef Data) override { out->insert(out->end(), Data.begin(), Data.end()); }
};

static void diag_handler(const SMDiagnostic& d, void* ctx) {
  std::string* s = static_cast<std::string*>(ctx);
  if (s->size() < 400) { *s += d.getMessage().str(); *s += "; "; }
}

} // namespace

struct LlvmMc::Impl {
  Target target;
  std::string triple_name;
  Triple triple;
  const llvm::Target* T = nullptr;
  std::unique_ptr<MCRegisterInfo> MRI;
  std::unique_ptr<MCAsmInfo> MAI;
  std::unique_ptr<MCInstrInfo> MCII;
  std::unique_ptr<MCSubtargetInfo> STI;
  MCTargetOptions MCOptions;
  // disassembler side
  std::unique_ptr<MCContext> DCtx;
  std::unique_ptr<MCDisassembler> Dis;
  std::unique_ptr<MCInstPrinter> IP;
};

LlvmMc::LlvmMc(Target t) : impl(new Impl) {
  static bool inited = false;
  if (!inited) {
    LLVMInitializeX86TargetInfo(); LLVMInitializeX86TargetMC(); LLVMInitializeX86AsmParser(); LLVMInitializeX86Disassembler();
    LLVMInitializeAArch64TargetInfo(); LLVMInitializeAArch64TargetMC(); LLVMInitializeAArch64AsmParser(); LLVMInitializeAArch64Disassembler();
    inited = true;
  }
  Impl& m = *impl;
  m.target = t;
  std::string features;
  switch (t) {
    case Target::X86_32: m.triple_name = "i386-unknown-linux-gnu"; break;
    case Target::X86_64: m.triple_name = "x86_64-unknown-linux-gnu"; break;
    case Target::A64:
      m.triple_name = "aarch64-unknown-linux-gnu";
      features = "+v8.7a,+neon,+fp-armv8,+crypto,+aes,+sha2,+sha3,+sm4,+fullfp16,+fp16fml,+bf16,+i8mm,+f32mm,+f64mm,+dotprod,+rdm,+lse,+rcpc,"
                 "+rcpc-immo,+crc,+ras,+mte,+rand,+sb,+ssbs,+predres,+ccdp,+ccpp,+altnzcv,+fptoint,+jsconv,+complxnum,+pauth,+flagm,+tme,"
                 "+ls64,+spe,+sve,+sve2,+xs,+wfxt,+hbc,+mops,+brbe,+pan,+pan-rwv,+lor,+vh,+uaops,+dit,+bti,+sel2,+tlb-rmi,+nv,+am,+mpam,"
                 "+tracev8.4,+trbe,+ete,+perfmon";
      break;
  }
  std::string err;
  m.T = TargetRegistry::lookupTarget(m.triple_name, err);
  if (!m.T) { fprintf(stderr, "llvm target lookup failed: %s\n", err.c_str()); abort(); }
  m.triple = Triple(m.triple_name);
  m.MRI.reset(m.T->createMCRegInfo(m.triple_name));
  m.MAI.reset(m.T->createMCAsmInfo(*m.MRI, m.triple_name, m.MCOptions));
  m.MCII.reset(m.T->createMCInstrInfo());
  m.STI.reset(m.T->createMCSubtargetInfo(m.triple_name, "", features));
  m.DCtx.reset(new MCContext(m.triple, m.MAI.get(), m.MRI.get(), m.STI.get()));
  m.Dis.reset(m.T->createMCDisassembler(*m.STI, *m.DCtx));
  unsigned variant = (t == Target::A64) ? 0 : 1;  // x86: Intel syntax
  m.IP.reset(m.T->createMCInstPrinter(m.triple, variant, *m.MAI, *m.MCII, *m.MRI));
  m.IP->setPrintImmHex(true);
}

LlvmMc::~LlvmMc() { delete impl; }

bool LlvmMc::assemble(const std::string& text, std::vector<uint8_t>& out, std::string& err, unsigned* fixups) {
  Impl& m = *impl;
  out.clear();
  err.clear();
  std::string src;
  if (m.target != Target::A64) src = ".intel_syntax noprefix\n";
  src += text;
  src += "\n";

  SourceMgr SrcMgr;
  SrcMgr.AddNewSourceBuffer(MemoryBuffer::getMemBufferCopy(src), SMLoc());
  SrcMgr.setDiagHandler(diag_handler, &err);
  MCContext Ctx(m.triple, m.MAI.get(), m.MRI.get(), m.STI.get(), &SrcMgr, &m.MCOptions);
  Ctx.setDiagnosticHandler([&](const SMDiagnostic& d, bool, const SourceMgr&, std::vector<const MDNode*>&) { diag_handler(d, &err); });
  std::unique_ptr<MCObjectFileInfo> MOFI(m.T->createMCObjectFileInfo(Ctx, false));
  Ctx.setObjectFileInfo(MOFI.get());
  std::unique_ptr<MCCodeEmitter> CE(m.T->createMCCodeEmitter(*m.MCII, *m.MRI, Ctx));
  CollectStreamer Str(Ctx, CE.get(), &out);
  std::unique_ptr<MCAsmParser> Parser(createMCAsmParser(SrcMgr, Ctx, Str, *m.MAI));
  std::unique_ptr<MCTargetAsmParser> TAP(m.T->createMCAsmParser(*m.STI, *Parser, *m.MCII, m.MCOptions));
  if (!TAP) { err = "no target asm parser"; return false; }
  if (m.target != Target::A64) Parser->setAssemblerDialect(1);
  Parser->setTargetParser(*TAP);
  Str.SwitchSection(MOFI->getTextSection());
  int r = Parser->Run(true);
  if (fixups) *fixups = Str.nfix;
  if (r != 0 || !err.empty()) { if (err.empty()) err = "parse error"; return false; }
  return true;
}

static std::string normalise(const std::string& s) {
  std::string o;
  bool sp = true;
  for (char c : s) {
    if (c == '\t' || c == ' ' || c == '\n') { if (!sp) { o += ' '; sp = true; } }
    else { o += char(tolower((unsigned char)c)); sp = false; }
  }
  while (!o.empty() && o.back() == ' ') o.pop_back();
  return o;
}

Decoded LlvmMc::decode(const uint8_t* p, size_t n, uint64_t pc) {
  Impl& m = *impl;
  Decoded d;
  MCInst inst;
  uint64_t size = 0;
  ArrayRef<uint8_t> bytes(p, n);
  MCDisassembler::DecodeStatus st = m.Dis->getInstruction(inst, size, bytes, pc, nulls());
  if (st != MCDisassembler::Success) return d;
  d.length = size_t(size);
  std::string txt;
  raw_string_ostream os(txt);
  m.IP->printInst(&inst, pc, "", *m.STI, os);
  os.flush();
  d.text = normalise(txt);
  d.opcode = inst.getOpcode();
  d.opcode_name = m.MCII->getName(inst.getOpcode()).str();
  for (unsigned i = 0; i < inst.getNumOperands(); i++) {
    const MCOperand& o = inst.getOperand(i);
    DecodedOperand x{DecodedOperand::kOther, 0, 0};
    if (o.isReg()) { x.kind = DecodedOperand::kReg; x.reg = o.getReg(); }
    else if (o.isImm()) { x.kind = DecodedOperand::kImm; x.imm = o.getImm(); }
    d.ops.push_back(x);
  }
  return d;
}

std::string LlvmMc::reg_name(unsigned reg) const {
  if (reg == 0) return "";
  return impl->MRI->getName(reg);
}

} // namespace oracle
