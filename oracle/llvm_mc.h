// Independent assembler / disassembler: LLVM 14 MC layer, in-process. No AsmJit involved.
#pragma once
#include <cstdint>
#include <string>
#include <vector>

namespace oracle {

enum class Target { X86_32, X86_64, A64 };

struct DecodedOperand {
  enum Kind { kReg, kImm, kOther } kind;
  unsigned reg;       // LLVM register number (kReg)
  int64_t imm;        // kImm
};

struct Decoded {
  size_t length = 0;            // 0 = undecodable
  std::string text;             // printed instruction (Intel syntax for x86), normalised whitespace
  unsigned opcode = 0;          // LLVM opcode number
  std::string opcode_name;      // e.g. "ADD64rr"
  std::vector<DecodedOperand> ops;
};

class LlvmMc {
public:
  explicit LlvmMc(Target t);
  ~LlvmMc();
  LlvmMc(const LlvmMc&) = delete;

  // Assembles one or more lines of assembly (x86: Intel syntax without prefixes). Returns false + err when refused.
  // `fixups` receives the number of unresolved fixups (symbolic operands) — callers normally require 0.
  bool assemble(const std::string& text, std::vector<uint8_t>& out, std::string& err, unsigned* fixups = nullptr);

  // Decodes one instruction at `p` (at most n bytes) assuming address `pc`.
  Decoded decode(const uint8_t* p, size_t n, uint64_t pc = 0);

  // Name of an LLVM register number ("RAX", "XMM3", ...).
  std::string reg_name(unsigned reg) const;

private:
  struct Impl;
  Impl* impl;
};

} // namespace oracle
