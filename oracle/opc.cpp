#define PACKAGE "verif"
#define PACKAGE_VERSION "1"
#include <bfd.h>
#include <dis-asm.h>
#include <cstdarg>
#include <cstring>
#include <cctype>
#include "opc.h"

namespace oracle {
namespace {
struct Sink { std::string s; };
static int sink_printf(void* stream, const char* fmt, ...) {
  char buf[512];
  va_list ap; va_start(ap, fmt);
  int n = vsnprintf(buf, sizeof buf, fmt, ap);
  va_end(ap);
  static_cast<Sink*>(stream)->s += buf;
  return n;
}
static int sink_styled(void* stream, enum disassembler_style, const char* fmt, ...) {
  char buf[512];
  va_list ap; va_start(ap, fmt);
  int n = vsnprintf(buf, sizeof buf, fmt, ap);
  va_end(ap);
  static_cast<Sink*>(stream)->s += buf;
  return n;
}
static int read_mem(bfd_vma memaddr, bfd_byte* myaddr, unsigned int length, struct disassemble_info* info) {
  bfd_vma start = info->buffer_vma;
  if (memaddr < start || memaddr + length > start + info->buffer_length) return 1;
  memcpy(myaddr, info->buffer + (memaddr - start), length);
  return 0;
}
static void mem_err(int, bfd_vma, struct disassemble_info*) {}
static void print_addr(bfd_vma addr, struct disassemble_info* info) { info->fprintf_func(info->stream, "0x%llx", (unsigned long long)addr); }
}

OpcDecoded opc_decode(int mode, const uint8_t* p, size_t n, uint64_t pc) {
  OpcDecoded d;
  Sink sink;
  disassemble_info info;
  init_disassemble_info(&info, &sink, sink_printf, sink_styled);
  info.arch = bfd_arch_i386;
  info.mach = mode == 64 ? bfd_mach_x86_64 : bfd_mach_i386_i386;
  info.disassembler_options = mode == 64 ? "intel,x86-64" : "intel,i386";
  info.buffer = const_cast<bfd_byte*>(p);
  info.buffer_length = unsigned(n);
  info.buffer_vma = pc;
  info.read_memory_func = read_mem;
  info.memory_error_func = mem_err;
  info.print_address_func = print_addr;
  disassemble_init_for_target(&info);
  disassembler_ftype fn = disassembler(bfd_arch_i386, false, info.mach, nullptr);
  if (!fn) return d;
  int len = fn(pc, &info);
  if (len <= 0) return d;
  std::string o; bool sp = true;
  for (char c : sink.s) { if (c == ' ' || c == '\t') { if (!sp) { o += ' '; sp = true; } } else { o += char(tolower((unsigned char)c)); sp = false; } }
  while (!o.empty() && o.back() == ' ') o.pop_back();
  if (o.find("(bad)") != std::string::npos) return d;
  d.length = size_t(len);
  d.text = o;
  return d;
}
}
