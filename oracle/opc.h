// Second independent x86 decoder: binutils libopcodes (print_insn_i386, Intel syntax).
#pragma once
#include <cstdint>
#include <string>
namespace oracle {
struct OpcDecoded { size_t length = 0; std::string text; };
// mode: 32 or 64
OpcDecoded opc_decode(int mode, const uint8_t* p, size_t n, uint64_t pc = 0);
}
