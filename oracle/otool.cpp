// tiny CLI: otool asm32|asm64|asma64 "text"   |  otool dis32|dis64|disa64 hexbytes
#include "llvm_mc.h"
#include "opc.h"
#include <cstdio>
#include <cstring>
using namespace oracle;
int main(int argc, char** argv) {
  if (argc < 3) return 2;
  std::string cmd = argv[1];
  Target t = cmd.find("a64") != std::string::npos ? Target::A64 : cmd.find("32") != std::string::npos ? Target::X86_32 : Target::X86_64;
  LlvmMc mc(t);
  if (cmd.rfind("asm", 0) == 0) {
    for (int i = 2; i < argc; i++) {
      std::vector<uint8_t> out; std::string err; unsigned fx = 0;
      bool ok = mc.assemble(argv[i], out, err, &fx);
      printf("%s => %s fix=%u :", argv[i], ok ? "ok" : ("REFUSED " + err).c_str(), fx);
      for (auto b : out) printf(" %02x", b);
      if (ok && !out.empty()) { Decoded d = mc.decode(out.data(), out.size()); printf("  | %s [%s] len=%zu", d.text.c_str(), d.opcode_name.c_str(), d.length);
        if (t != Target::A64) { OpcDecoded o = opc_decode(t == Target::X86_64 ? 64 : 32, out.data(), out.size()); printf(" | opc: %s len=%zu", o.text.c_str(), o.length); } }
      printf("\n");
    }
  } else {
    for (int i = 2; i < argc; i++) {
      std::vector<uint8_t> b; const char* s = argv[i];
      while (s[0] && s[1]) { unsigned v; sscanf(s, "%2x", &v); b.push_back(uint8_t(v)); s += 2; }
      Decoded d = mc.decode(b.data(), b.size());
      printf("%s => %s [%s] len=%zu", argv[i], d.text.c_str(), d.opcode_name.c_str(), d.length);
      if (t != Target::A64) { OpcDecoded o = opc_decode(t == Target::X86_64 ? 64 : 32, b.data(), b.size()); printf(" | opc: %s len=%zu", o.text.c_str(), o.length); }
      printf("\n");
    }
  }
}
