// Shared helpers: decoder-text normalisation and sequence decoding (used by C01, C20).
#pragma once
#include "oracle/llvm_mc.h"
#include "oracle/opc.h"
#include <algorithm>
#include <string>
#include <vector>

// ---- decoder-text normalisation --------------------------------------------------------------------------------------
// Decoders print the same instruction differently depending on the encoding chosen (imm8 sign-extended vs imm16, prefix
// order, operand order of symmetric instructions). Normalise: numbers are reduced modulo the operand size (outside
// brackets) / address size (inside brackets), leading prefix words are sorted, xchg/test operands are sorted.
static bool is_prefix_word(const std::string& w) {
  static const char* k[] = {"lock", "rep", "repe", "repz", "repne", "repnz", "xacquire", "xrelease", "data16", "data32", "addr16", "addr32", "es", "cs", "ss",
                            "ds", "fs", "gs", "wait", "fwait", "notrack", "bnd", ";"};
  for (const char* x : k) if (w == x) return true;
  return w.rfind("rex", 0) == 0;
}

static std::string norm_text(const std::string& t, int opsize, int addrbits) {
  // 1. numbers
  std::string o;
  int depth = 0;
  size_t i = 0, n = t.size();
  auto mask = [](uint64_t v, int bits) { return bits >= 64 || bits <= 0 ? v : (v & ((uint64_t(1) << bits) - 1)); };
  while (i < n) {
    char ch = t[i];
    if (ch == '[') depth++;
    if (ch == ']') depth--;
    bool numstart = isdigit((unsigned char)ch) && (i == 0 || !(isalnum((unsigned char)t[i - 1]) || t[i - 1] == '_' || t[i - 1] == '.'));
    if (numstart) {
      size_t j = i;
      uint64_t v = 0;
      if (t.compare(i, 2, "0x") == 0) { j = i + 2; while (j < n && isxdigit((unsigned char)t[j])) { v = v * 16 + uint64_t(isdigit((unsigned char)t[j]) ? t[j] - '0' : (tolower(t[j]) - 'a' + 10)); j++; } }
      else { while (j < n && isdigit((unsigned char)t[j])) { v = v * 10 + uint64_t(t[j] - '0'); j++; } if (j < n && t[j] == 'h') j++; }
      // scale factor like "4*rcx" or "rcx*4": keep literally
      bool is_scale = (j < n && t[j] == '*') || (i > 0 && t[i - 1] == '*');
      if (is_scale) { o.append(t, i, j - i); i = j; continue; }
      // sign: "-0x2" attached, or "- 0x2" / "+ 0x2" inside brackets
      bool neg = false;
      size_t k = o.size();
      while (k > 0 && o[k - 1] == ' ') k--;
      if (k > 0 && (o[k - 1] == '-' || o[k - 1] == '+')) { neg = o[k - 1] == '-'; o.resize(k - 1); while (!o.empty() && o.back() == ' ') o.pop_back(); o += depth > 0 ? "+" : " "; }
      if (neg) v = uint64_t(0) - v;
      v = mask(v, depth > 0 ? addrbits : opsize);
      char b[32]; snprintf(b, sizeof b, "0x%llx", (unsigned long long)v);
      o += b;
      i = j;
      continue;
    }
    o += ch;
    i++;
  }
  // 2. split words, sort leading prefixes
  std::vector<std::string> words; std::string w;
  for (char ch : o) { if (ch == ' ') { if (!w.empty()) words.push_back(w); w.clear(); } else w += ch; }
  if (!w.empty()) words.push_back(w);
  std::vector<std::string> pre, rest;
  size_t wi = 0;
  // F3 is printed as rep / repe / repz / xrelease and F2 as repne / repnz / xacquire depending on the decoder and on the prefix order
  auto canon = [](const std::string& p) -> std::string {
    if (p == "rep" || p == "repe" || p == "repz" || p == "xrelease") return "<f3>";
    if (p == "repne" || p == "repnz" || p == "xacquire") return "<f2>";
    return p;
  };
  for (; wi < words.size() && is_prefix_word(words[wi]); wi++) if (words[wi] != ";") pre.push_back(canon(words[wi]));
  for (; wi < words.size(); wi++) rest.push_back(words[wi]);
  std::sort(pre.begin(), pre.end());
  std::string r;
  for (auto& x : pre) { r += x; r += ' '; }
  std::string body;
  for (auto& x : rest) { body += x; body += ' '; }
  // 3. symmetric instructions
  if (!rest.empty() && (rest[0] == "xchg" || rest[0] == "test")) {
    size_t sp = body.find(' ');
    std::string ops = body.substr(sp + 1);
    size_t comma = std::string::npos; int d = 0;
    for (size_t q = 0; q < ops.size(); q++) { if (ops[q] == '[') d++; if (ops[q] == ']') d--; if (ops[q] == ',' && d == 0) { comma = q; break; } }
    if (comma != std::string::npos) {
      std::string a = ops.substr(0, comma), b = ops.substr(comma + 1);
      auto trim = [](std::string& z) { while (!z.empty() && z.back() == ' ') z.pop_back(); while (!z.empty() && z[0] == ' ') z.erase(0, 1); };
      trim(a); trim(b);
      if (b < a) std::swap(a, b);
      body = rest[0] + " " + a + "," + b + " ";
    }
  }
  return r + body;
}

struct SeqText { size_t consumed = 0; std::string text; int count = 0; };

static SeqText llvm_seq(oracle::LlvmMc& mc, const uint8_t* p, size_t n) {
  SeqText s;
  while (s.consumed < n && s.count < 6) {
    oracle::Decoded d = mc.decode(p + s.consumed, n - s.consumed, s.consumed);
    if (!d.length) break;
    if (s.count) s.text += " ; ";
    s.text += d.text; s.consumed += d.length; s.count++;
  }
  return s;
}
static SeqText opc_seq(int mode, const uint8_t* p, size_t n) {
  SeqText s;
  while (s.consumed < n && s.count < 6) {
    oracle::OpcDecoded d = oracle::opc_decode(mode, p + s.consumed, n - s.consumed, s.consumed);
    if (!d.length) break;
    if (s.count) s.text += " ; ";
    s.text += d.text; s.consumed += d.length; s.count++;
  }
  return s;
}

