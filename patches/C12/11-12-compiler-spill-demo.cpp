// Compiler-level demonstration of the kRegMem defects (spilled USE operand gets patched to memory).
#include <asmjit/x86.h>
#include <stdio.h>
#include <string.h>
using namespace asmjit;

struct Err : ErrorHandler { Error last = Error::kOk; void handle_error(Error e, const char* m, BaseEmitter*) override { last = e; printf("    error: %s\n", m); } };

template<typename F> static void run(const char* name, F&& body) {
  JitRuntime rt; CodeHolder code; code.init(rt.environment(), rt.cpu_features());
  Err eh; code.set_error_handler(&eh);
  StringLogger lg; code.set_logger(&lg);
  x86::Compiler cc(&code);
  body(cc);
  Error e = cc.finalize();
  printf("%s: finalize=%u\n", name, unsigned(e));
  // print the lines of interest
  const char* p = lg.data();
  while (p && *p) { const char* nl = strchr(p, '\n'); size_t n = nl ? size_t(nl - p) : strlen(p); if (memmem(p, n, "vpermilpd", 9) || memmem(p, n, "bt ", 3) || memmem(p, n, "and ", 4) || memmem(p, n, "vpsllw", 6) || memmem(p, n, "movss", 5) || memmem(p, n, "insertps", 8) || memmem(p, n, "gather", 6) || memmem(p, n, "kmov", 4)) printf("    %.*s\n", int(n), p); p = nl ? nl + 1 : nullptr; }
}

// forces `victim` out of registers: uses 16 (vec) or 15 (gp) other live registers
static void pressure_vec(x86::Compiler& cc, x86::Gp p) {
  x86::Vec t[16];
  for (int i = 0; i < 16; i++) { t[i] = cc.new_xmm("t%d", i); cc.movups(t[i], x86::ptr(p, i * 16)); }
  for (int i = 1; i < 16; i++) cc.paddd(t[0], t[i]);
  cc.movups(x86::ptr(p), t[0]);
}
static void pressure_gp(x86::Compiler& cc, x86::Gp p) {
  x86::Gp t[15];
  for (int i = 0; i < 15; i++) { t[i] = cc.new_gp64("g%d", i); cc.mov(t[i], x86::ptr(p, i * 8)); }
  for (int i = 1; i < 15; i++) cc.add(t[0], t[i]);
  cc.mov(x86::ptr(p), t[0]);
}

int main() {
  run("vpermilpd v, v(spilled), v", [](x86::Compiler& cc) {
    FuncNode* f = cc.add_func(FuncSignature::build<void, void*>()); x86::Gp p = cc.new_gp_ptr("p"); f->set_arg(0, p);
    x86::Vec a = cc.new_xmm("a"), b = cc.new_xmm("b"), d = cc.new_xmm("d");
    cc.movups(a, x86::ptr(p)); cc.movups(b, x86::ptr(p, 16));
    pressure_vec(cc, p);
    cc.vpermilpd(d, a, b); cc.movups(x86::ptr(p), d); cc.end_func(); });
  run("vpsllw v, v(spilled), xmm", [](x86::Compiler& cc) {
    FuncNode* f = cc.add_func(FuncSignature::build<void, void*>()); x86::Gp p = cc.new_gp_ptr("p"); f->set_arg(0, p);
    x86::Vec a = cc.new_xmm("a"), b = cc.new_xmm("b"), d = cc.new_xmm("d");
    cc.movups(a, x86::ptr(p)); cc.movups(b, x86::ptr(p, 16));
    pressure_vec(cc, p);
    cc.vpsllw(d, a, b); cc.movups(x86::ptr(p), d); cc.end_func(); });
  run("and r64(spilled), 0xFFFFFFFF", [](x86::Compiler& cc) {
    FuncNode* f = cc.add_func(FuncSignature::build<void, void*>()); x86::Gp p = cc.new_gp_ptr("p"); f->set_arg(0, p);
    x86::Gp a = cc.new_gp64("a"); cc.mov(a, x86::ptr(p, 128));
    pressure_gp(cc, p);
    cc.and_(a, Imm(0xFFFFFFFFu)); cc.mov(x86::ptr(p, 8), a); cc.end_func(); });
  run("bt r32(spilled), r32", [](x86::Compiler& cc) {
    FuncNode* f = cc.add_func(FuncSignature::build<void, void*>()); x86::Gp p = cc.new_gp_ptr("p"); f->set_arg(0, p);
    x86::Gp a = cc.new_gp32("a"), b = cc.new_gp32("b"); cc.mov(a, x86::ptr(p, 128)); cc.mov(b, x86::ptr(p, 132));
    pressure_gp(cc, p);
    cc.bt(a, b); cc.setc(x86::byte_ptr(p, 8)); cc.end_func(); });
  run("movss v128, v128(spilled)", [](x86::Compiler& cc) {
    FuncNode* f = cc.add_func(FuncSignature::build<void, void*>()); x86::Gp p = cc.new_gp_ptr("p"); f->set_arg(0, p);
    x86::Vec a = cc.new_xmm("a"), d = cc.new_xmm("d");
    cc.movups(a, x86::ptr(p)); cc.movups(d, x86::ptr(p, 16));
    pressure_vec(cc, p);
    cc.movss(d, a); cc.movups(x86::ptr(p), d); cc.end_func(); });
  run("insertps v, v(spilled), 0x40", [](x86::Compiler& cc) {
    FuncNode* f = cc.add_func(FuncSignature::build<void, void*>()); x86::Gp p = cc.new_gp_ptr("p"); f->set_arg(0, p);
    x86::Vec a = cc.new_xmm("a"), d = cc.new_xmm("d");
    cc.movups(a, x86::ptr(p)); cc.movups(d, x86::ptr(p, 16));
    pressure_vec(cc, p);
    cc.insertps(d, a, Imm(0x40)); cc.movups(x86::ptr(p), d); cc.end_func(); });
  return 0;
}
