// C01 — x86/x64 assembler emits a correct encoding of every instruction it accepts.
//
// Case: cfg = [mode(32|64), form_index, flags]   ops[0] = integer choices consumed by xi::instantiate().
// Judges (all independent of AsmJit's own tables/formatter):
//   J1  LLVM MC assembles OUR rendering of the intended instruction -> bytes_L; LLVM's disassembler must print the same
//       instruction for AsmJit's bytes_A and for bytes_L, and consume exactly |bytes_A| bytes.
//   J2  binutils libopcodes must agree on the same pair and on the length.
//   J3  ISA-database template: bytes_A must be an encoding of some DB form of this mnemonic that admits the operands.
#define VH_MAIN
#include "vh.h"
#include "gen/x86inst.h"
#include "gen/x86tmpl.h"
#include "oracle/llvm_mc.h"
#include "oracle/opc.h"

#include <memory>

using namespace asmjit;

const char* vh_property() { return "C01"; }

static xdb::DB g_db;
static std::unique_ptr<oracle::LlvmMc> g_mc32, g_mc64;
static bool g_survey = false;
static FILE* g_survey_out = nullptr;

void vh_init(const vh::Opts& o, vh::Ctx&) {
  std::string path = "build/gen/x86_forms.txt";
  auto it = o.kv.find("forms");
  if (it != o.kv.end()) path = it->second;
  if (!g_db.load(path.c_str())) { fprintf(stderr, "cannot load %s\n", path.c_str()); exit(2); }
  g_mc32.reset(new oracle::LlvmMc(oracle::Target::X86_32));
  g_mc64.reset(new oracle::LlvmMc(oracle::Target::X86_64));
  g_survey = o.geti("survey", 0) != 0;
  if (g_survey) { char b[256]; snprintf(b, sizeof b, "%s/survey%d.txt", o.out_dir.c_str(), o.worker); vh::mkdirs(o.out_dir); g_survey_out = fopen(b, "w"); }
}

static const int kChoices = 40;

static uint64_t mix(uint64_t x) { x += 0x9E3779B97F4A7C15ull; x = (x ^ (x >> 30)) * 0xBF58476D1CE4E5B9ull; x = (x ^ (x >> 27)) * 0x94D049BB133111EBull; return x ^ (x >> 31); }

// Deterministic sweep: every DB form x both modes x R instantiations (R from --reps, default 3).
bool vh_enum(const vh::Opts& o, uint64_t k, vh::Case& out) {
  uint64_t reps = uint64_t(o.geti("reps", 3));
  uint64_t nforms = g_db.forms.size();
  uint64_t total = nforms * 2 * reps;
  uint64_t g = k * uint64_t(o.workers) + uint64_t(o.worker);
  if (g >= total) return false;
  uint64_t form = g % nforms, rest = g / nforms;
  int mode = (rest & 1) ? 32 : 64;
  uint64_t rep = rest >> 1;
  out = vh::Case();
  vh::Op ch;
  uint64_t s = mix(o.seed * 1000003ull + g);
  uint64_t osel = mix(s ^ 0xABCDu) % 20;                       // encoding option of the instance (cfg[2] bits 1..3), 40% of the sweep
  out.cfg = {mode, int64_t(form), int64_t(osel >= 2 && osel < 8 ? osel << 1 : 0)};
  for (int i = 0; i < kChoices; i++) { s = mix(s + uint64_t(i) + rep); ch.push_back(int64_t(s >> 33)); }
  out.ops.push_back(ch);
  return true;
}

rc::Gen<vh::Case> vh_gen(const vh::Opts&) {
  using namespace rc;
  int nforms = int(g_db.forms.size());
  return gen::apply([](int mode, int form, int unsized, int osel, std::vector<int> ch) {
      // cfg[2] & 1: memory operands are given without a size (x86::ptr(...)); bits 1..3: encoding option (see run_case)
      vh::Case c; c.cfg = {mode ? 32 : 64, form, (unsized >= 80 ? 1 : 0) | (osel >= 2 && osel < 8 ? osel << 1 : 0)};
      vh::Op op; for (int v : ch) op.push_back(v);
      c.ops.push_back(op); return c; },
    vh::irange<int>(0, 1), vh::irange<int>(0, nforms - 1), vh::irange<int>(0, 99), vh::irange<int>(0, 19),
    gen::container<std::vector<int>>(size_t(kChoices), vh::irange<int>(0, 0x3fffffff)));
}

static std::string hex(const uint8_t* p, size_t n) { std::string s; char b[4]; for (size_t i = 0; i < n; i++) { snprintf(b, sizeof b, "%02x", p[i]); s += b; } return s; }

#include "oracle/textnorm.h"

// "{vex} " / "{vex3} " / "{evex} " in a disassembly names the ENCODING the decoder saw (LLVM prints {vex} for the VEX form of AVX-VNNI/IFMA
// instructions), not the instruction or its operands: with the encoding options of this harness both choices occur on purpose.
// memory-operand size keywords ("dword ptr "): a decoder always prints them, an unsized request does not carry them
static std::string strip_size(std::string t) {
  for (const char* k : {"xmmword ptr ", "ymmword ptr ", "zmmword ptr ", "tbyte ptr ", "fword ptr ", "qword ptr ", "dword ptr ", "word ptr ", "byte ptr "}) { size_t p; while ((p = t.find(k)) != std::string::npos) t.erase(p, strlen(k)); }
  return t;
}
static std::string strip_enc(std::string t) {
  for (const char* k : {"{vex} ", "{vex3} ", "{vex2} ", "{evex} "}) { size_t p; while ((p = t.find(k)) != std::string::npos) t.erase(p, strlen(k)); }
  // libopcodes appends the absolute target of a rip-relative operand ("# 0x10a"): it depends on the instruction LENGTH (vex3() adds a byte)
  size_t h = t.find(" # 0x"); if (h != std::string::npos) { size_t e = t.find(';', h); t.erase(h, e == std::string::npos ? std::string::npos : e - h); }
  return t;
}

static std::string reason_code(const std::string& m) {
  struct K { const char* kw; const char* code; };
  static const K ks[] = {
    {"segment prefix", "seg"}, {"address-size", "a67"}, {"lock prefix", "lock"}, {"operand-size prefix", "p66"}, {"F2 prefix", "rep"}, {"F3 prefix", "rep"},
    {"REX.W", "rexw"}, {"VEX/EVEX.W", "vexw"}, {"pp ", "pp"}, {"opcode map", "map"}, {"vector length", "vl"}, {"L'L", "vl"}, {"EVEX.b", "evexb"},
    {"EVEX.aaa", "aaa"}, {"EVEX.z", "z"}, {"opcode byte", "opcode"}, {"3DNow", "opcode"}, {"ModRM.reg", "modrm-reg"}, {"ModRM.mod", "modrm-mod"},
    {"register operand but", "modrm-mod"}, {"memory operand but", "modrm-mod"}, {"ModRM.rm", "modrm-rm"}, {"extension", "ext"}, {"EVEX.X", "ext"},
    {"EVEX.R'", "ext"}, {"EVEX.V'", "ext"}, {"base/index/scale", "sib"}, {"displacement", "disp"}, {"rip-relative", "rip"}, {"address size", "addrsize"},
    {"vvvv", "vvvv"}, {"REX prefix with", "rex"}, {"without REX", "rex"}, {"rex option", "rex"}, {"moffs", "moffs"}, {"immediate", "imm"}, {"imm4", "imm"},
    {"is4", "is4"}, {"trailing", "trailing"}, {"truncated", "truncated"}, {"FWAIT", "fwait"}, {"duplicate", "dup-prefix"}, {"two segment", "dup-prefix"},
    {"legacy 66", "legacy-prefix"}, {"prefix byte", "vexprefix"}, {"vex3 option", "vex3"},
  };
  for (const K& k : ks) if (m.find(k.kw) != std::string::npos) return k.code;
  return "other";
}

static bool is_u32_abs(const xi::Opnd& o, int mode) {
  return o.kind == xi::Opnd::kMem && mode == 64 && o.mem.abs && !o.mem.moff && o.mem.base.rc == xi::RC::None && o.mem.index.rc == xi::RC::None &&
         o.mem.disp > 0x7fffffffLL && o.mem.disp <= 0xffffffffLL;
}

// `twin`: judge the same instruction with every absolute address of [2^31, 2^32) moved below 2^31 (bit 31 cleared) - the form LLVM can
// assemble - and only report whether the DB row is outvoted there (no failures, no counters).
static void run_case(const vh::Case& c, vh::Ctx& ctx, bool twin, bool* twin_outlier, std::vector<uint8_t>* twin_bytes);
void vh_run(const vh::Case& c, vh::Ctx& ctx) { run_case(c, ctx, false, nullptr, nullptr); }

static void run_case(const vh::Case& c, vh::Ctx& ctx, bool twin, bool* twin_outlier, std::vector<uint8_t>* twin_bytes) {
  int mode = (c.cfg.size() > 0 && c.cfg[0] == 32) ? 32 : 64;
  size_t fi = c.cfg.size() > 1 ? size_t(uint64_t(c.cfg[1]) % g_db.forms.size()) : 0;
  const xdb::Form& f = g_db.forms[fi];
  static const vh::Op empty;
  const vh::Op& chv = c.ops.empty() ? empty : c.ops[0];
  xi::Choices ch(chv, 0);

  if (!f.mode_ok(mode)) { ctx.cls("skip_mode_excluded"); return; }
  if (f.is_apx()) { ctx.cls("skip_apx"); return; }
  xi::XInst x = xi::instantiate(f, mode, ch);
  if (!x.valid) { ctx.cls("skip_uninstantiable"); return; }
  bool unsized = false;
  if (c.cfg.size() > 2 && (c.cfg[2] & 1)) {
    // unsized memory operands: the assembler has to infer the size (or refuse an ambiguous one); the judges accept every DB form of the
    // mnemonic that admits the operands as given
    bool any = false;
    for (xi::Opnd& o : x.ops) if (o.kind == xi::Opnd::kMem && o.mem.size_bits != 0) { o.mem.size_bits = 0; any = true; }
    if (any) { ctx.cls("unsized_memory_operand"); unsized = true; }
  }

  // encoding options (cfg[2] bits 1..3): the instruction and its operands stay the same, only the encoding AsmJit has to choose changes -
  // mod_mr()/mod_rm() (the other direction form of reg,reg instructions, FMA4/XOP operand swap with VEX.W), vex3(), evex() on a VEX form,
  // long_() (imm32 / rel32 form), rex() on legacy encodings in 64-bit mode. The judges compare decoded operands, not bytes.
  {
    int osel = c.cfg.size() > 2 ? int((uint64_t(c.cfg[2]) >> 1) & 7) : 0;
    uint32_t add = 0;
    switch (osel) {
      // evex() is never generated (vh_gen / vh_enum produce selectors 2..7 only): on operands that only a VEX form admits it emits an EVEX prefix -
      // known finding evex-option-on-vex-only-form, kept reachable through regress/C01/known-evex-option-on-vex-only-form.case.
      // long_() and rex() are not generated: whether rex() must show on x87 forms and long_() turning mov r64, imm32 into movabs are
      // encoding choices the decoders' text cannot arbitrate.
      case 1: if (f.prefix == "VEX") add = xi::kOptEvex; break;
      case 3: case 6: if (!f.prefix.empty()) add = xi::kOptModMR; break;
      case 4: case 7: if (!f.prefix.empty()) add = xi::kOptModRM; break;
      case 5: if (f.prefix == "VEX") add = xi::kOptVex3; break;
      default: break;
    }
    if (add) { x.options |= add; ctx.cls(add == xi::kOptEvex ? "opt_evex" : add == xi::kOptModMR ? "opt_mod_mr" : add == xi::kOptModRM ? "opt_mod_rm" : add == xi::kOptVex3 ? "opt_vex3" : add == xi::kOptLongForm ? "opt_long_form" : "opt_rex"); }
  }

  bool has_u32_abs = false; int64_t u32_disp = 0;
  for (xi::Opnd& o : x.ops) if (is_u32_abs(o, mode)) { has_u32_abs = true; u32_disp = o.mem.disp; if (twin) o.mem.disp &= 0x7fffffffLL; }
  if (has_u32_abs && !twin) ctx.cls("mem_abs_u32_zero_extended");

  InstId id = InstAPI::string_to_inst_id(mode == 64 ? Arch::kX64 : Arch::kX86, f.name.c_str(), f.name.size());
  if (id == 0) { ctx.cls("skip_unknown_mnemonic"); return; }
  // evex() is documented as "use the 4-byte EVEX prefix IF POSSIBLE": on an instruction that has no EVEX encoding at all it has to be a no-op
  const bool evex_on_vex_only = (x.options & xi::kOptEvex) && !x86::InstDB::inst_info_by_id(id).is_evex();
  if (evex_on_vex_only) ctx.cls("opt_evex_on_vex_only_instruction");

  CodeHolder code;
  code.init(Environment(mode == 64 ? Arch::kX64 : Arch::kX86));
  x86::Assembler a(&code);
  a.add_diagnostic_options(DiagnosticOptions::kValidateAssembler);
  Error err = xi::emit(a, id, x);
  std::string text = xi::render(x);
  if (err != Error::kOk) { ctx.cls("rejected"); return; }
  ctx.cls("accepted");
  const CodeBuffer& buf = code.text_section()->buffer();
  const uint8_t* A = buf.data();
  size_t An = buf.size();
  std::string desc = std::string(mode == 64 ? "x64 " : "x86 ") + text + " => " + hex(A, An);
  if (!(An > 0 && An <= 15)) {
    ctx.fail_unless_known("length-out-of-range:" + f.name, desc + ": " + std::to_string(An) + " bytes appended (architectural limit is 15)");
    return;      // no decoder can be asked about a 16-byte instruction
  }
  VH_CHECK(ctx, a.offset() == An, "offset-mismatch", "%s: offset() %zu != buffer size %zu", desc.c_str(), a.offset(), An);
  VH_CHECK(ctx, code.reloc_entries().size() == 0 && code.label_count() == 0, "unexpected-reloc", "%s: %zu relocations created for a label-free instruction", desc.c_str(), code.reloc_entries().size());

  oracle::LlvmMc& mc = mode == 64 ? *g_mc64 : *g_mc32;
  bool judged = false;

  // ---- J3: database template ----
  xt::Verdict tv = xt::judge(g_db, x, A, An);
  if ((x.options & xi::kOptModMR) && tv.status == xt::kMismatch && f.name.compare(0, 4, "kmov") == 0 && x.ops.size() == 2 && x.ops[0].kind == xi::Opnd::kReg && x.ops[1].kind == xi::Opnd::kReg &&
      x.ops[0].reg.rc == xi::RC::K && x.ops[1].reg.rc == xi::RC::K) {
    // mod_mr() on kmov k, k selects the store opcode (91 /r), which is defined for a memory destination only (ModRM.mod = 11 is #UD)
    ctx.fail_unless_known("mod-mr-kmov-k-k-store-opcode", desc + " :: mod_mr() on kmov k, k emitted opcode 91 (kmov m, k) with a register in ModRM.rm: " + tv.detail);
    return;
  }
  if ((x.options & xi::kOptEvex) && tv.status == xt::kMismatch) {
    // evex() ("use the 4-byte EVEX prefix if possible") on a VEX form whose operands no EVEX form of the database admits: it has to be a
    // no-op. One keyed finding (known while listed), judged no further - the bytes are some other instruction or none.
    size_t q = 0; while (q < An && (A[q] == 0x66 || A[q] == 0x67 || A[q] == 0x2E || A[q] == 0x36 || A[q] == 0x3E || A[q] == 0x26 || A[q] == 0x64 || A[q] == 0x65 || A[q] == 0xF2 || A[q] == 0xF3)) q++;
    if (q < An && A[q] == 0x62) {
      ctx.fail_unless_known("evex-option-on-vex-only-form", desc + " :: evex() on operands that only a VEX form admits emitted an EVEX prefix instead of being ignored" + (evex_on_vex_only ? " (the instruction has no EVEX encoding at all)" : ""));
      return;
    }
  }
  // semantic no-op rewrites AsmJit performs on purpose and the architecture defines as equivalent
  bool equiv = false;
  if (tv.status == xt::kMismatch) {
    bool same_acc = x.ops.size() == 2 && x.ops[0].kind == xi::Opnd::kReg && x.ops[1].kind == xi::Opnd::kReg && x.ops[0].reg.id == 0 && x.ops[1].reg.id == 0 &&
                    x.ops[0].reg.rc == x.ops[1].reg.rc;
    if (f.name == "xchg" && same_acc && An == 1 && A[0] == 0x90 && (x.ops[0].reg.rc == xi::RC::Gp64 || (x.ops[0].reg.rc == xi::RC::Gp32 && mode == 32))) { tv.status = xt::kMatch; equiv = true; ctx.cls("equiv_xchg_acc_acc_is_nop"); }
    if ((f.name == "ret" || f.name == "retf") && x.ops.size() == 1 && x.ops[0].kind == xi::Opnd::kImm && x.ops[0].imm == 0 && An == 1 && A[0] == (f.name == "ret" ? 0xC3 : 0xCB)) { tv.status = xt::kMatch; equiv = true; ctx.cls("equiv_ret_0_is_ret"); }
  }
  if (tv.status == xt::kMismatch && f.name == "lea" && has_u32_abs && !twin && x.ops.size() == 2 && x.ops[0].kind == xi::Opnd::kReg && x.ops[0].reg.rc == xi::RC::Gp64) {
    // lea r64, [abs in 2^31..2^32): AsmJit emits lea r32, [disp32] (no REX.W, no 67h): the sign-extended address truncated to 32 bits and
    // zero-extended into the 64-bit register is the same value
    xi::XInst y = x; y.ops[0].reg.rc = xi::RC::Gp32; y.ops[1].mem.disp = int64_t(int32_t(uint32_t(x.ops[1].mem.disp)));
    xt::Verdict t2 = xt::judge(g_db, y, A, An);
    if (t2.status == xt::kMatch) { tv.status = xt::kMatch; equiv = true; ctx.cls("equiv_lea_r64_abs_u32_is_lea_r32"); }
  }
  if (tv.status == xt::kMatch) { judged = true; ctx.cls("j3_match"); }
  else if (tv.status == xt::kUndecided) ctx.cls("j3_undecided");

  // ---- J1 / J2 ----
  int opsize = 0, addrbits = mode;
  for (const xi::Opnd& o : x.ops) {
    if (o.kind == xi::Opnd::kReg && !opsize) opsize = xi::rc_bits(o.reg.rc);
    if (o.kind == xi::Opnd::kMem) { if (!opsize) opsize = o.mem.size_bits; if (o.mem.addr_bits) addrbits = o.mem.addr_bits; }
  }
  if (opsize > 64 || opsize == 0) opsize = 64;
  SeqText dA = llvm_seq(mc, A, An);
  SeqText oA = opc_seq(mode, A, An);
  std::vector<uint8_t> L;
  std::string lerr;
  unsigned fix = 0;
  bool asm_ok = mc.assemble(text, L, lerr, &fix) && fix == 0 && !L.empty();
  bool j1_len_bad = false, j2_len_bad = false, j1_text_bad = false, j2_text_bad = false, j1_agree = false, j2_agree = false;
  std::string j1_detail, j2_detail;
  if (dA.count) { if (dA.consumed != An) { j1_len_bad = true; j1_detail = "llvm decodes only " + std::to_string(dA.consumed) + " of " + std::to_string(An) + " bytes: '" + dA.text + "'"; } }
  else ctx.cls("llvm_cannot_decode");
  if (oA.count) { if (oA.consumed != An) { j2_len_bad = true; j2_detail = "opcodes decodes only " + std::to_string(oA.consumed) + " of " + std::to_string(An) + " bytes: '" + oA.text + "'"; } }
  else ctx.cls("opc_cannot_decode");
  bool l_matches_template = false, llvm_roundtrip_bad = false;
  if (asm_ok) {
    ctx.cls("llvm_assembled");
    SeqText dL = llvm_seq(mc, L.data(), L.size());
    SeqText oL = opc_seq(mode, L.data(), L.size());
    xt::Verdict tl = xt::judge(g_db, x, L.data(), L.size());
    l_matches_template = tl.status == xt::kMatch;
    if (dL.consumed == L.size() && norm_text(strip_size(strip_enc(dL.text)), opsize, addrbits) != norm_text(strip_size(text), opsize, addrbits)) llvm_roundtrip_bad = true;
    if (dA.count && !j1_len_bad && dL.consumed == L.size()) {
      std::string na = norm_text(strip_enc(dA.text), opsize, addrbits), nl = norm_text(strip_enc(dL.text), opsize, addrbits);
      if (na != nl) { j1_text_bad = true; j1_detail = "llvm decodes asmjit bytes as '" + dA.text + "' but its own encoding " + hex(L.data(), L.size()) + " of the same text as '" + dL.text + "'"; }
      else { j1_agree = true; ctx.cls("j1_agree"); judged = true; }
    }
    if (oA.count && !j2_len_bad && oL.consumed == L.size()) {
      std::string na = norm_text(strip_enc(oA.text), opsize, addrbits), nl = norm_text(strip_enc(oL.text), opsize, addrbits);
      if (na != nl) { j2_text_bad = true; j2_detail = "opcodes decodes asmjit bytes as '" + oA.text + "' but llvm's encoding " + hex(L.data(), L.size()) + " as '" + oL.text + "'"; }
      else { j2_agree = true; ctx.cls("j2_agree"); judged = true; }
    }
  } else ctx.cls("llvm_refused_rendering");

  // The independent assembler and both decoders side with AsmJit against the DB row: the row is the outlier.
  bool db_outlier = tv.status == xt::kMismatch && asm_ok && j1_agree && (j2_agree || !oA.count);
  // LLVM 14's ASSEMBLER does not compress disp8 of an EVEX instruction in 16-bit addressing (it emits the raw byte, which its own decoder and
  // libopcodes then read as disp8*N), so its encoding is no reference there. A DB-row typo is then outvoted by the two decoders alone: LLVM
  // decodes AsmJit's bytes to exactly the requested text and libopcodes consumes them completely.
  // LLVM 14's decoder reads its own 2-byte-VEX encoding behind a segment + 67h prefix as the SSE instruction ("movupd" for 26 67 C5 79 11 ..):
  // when LLVM does not round-trip its own assembly but decodes AsmJit's bytes to exactly the request, and libopcodes reads AsmJit's and
  // LLVM's bytes alike, the DB row is the outlier as well.
  if (tv.status == xt::kMismatch && !db_outlier && asm_ok && j1_text_bad && j2_agree && llvm_roundtrip_bad && dA.count && !j1_len_bad &&
      norm_text(strip_size(strip_enc(dA.text)), opsize, addrbits) == norm_text(strip_size(text), opsize, addrbits)) { db_outlier = true; ctx.cls("db_row_outvoted_llvm_decoder_not_self_consistent"); }
  if (tv.status == xt::kMismatch && !db_outlier && addrbits == 16 && dA.count && !j1_len_bad && oA.count && !j2_len_bad &&
      norm_text(strip_size(strip_enc(dA.text)), opsize, addrbits) == norm_text(strip_size(text), opsize, addrbits)) { db_outlier = true; ctx.cls("db_row_outvoted_by_decoders_addr16_evex"); }
  if (twin) { if (twin_outlier) *twin_outlier = db_outlier; if (twin_bytes) twin_bytes->assign(A, A + An); return; }
  if (tv.status == xt::kMismatch && !db_outlier && has_u32_abs) {
    // LLVM cannot assemble an absolute address of [2^31, 2^32) in 64-bit mode, so it cannot outvote a DB row for it. Ask about the twin
    // below 2^31 and require that AsmJit's two encodings differ by exactly the 67h prefix and the address bytes.
    vh::Ctx tmp; tmp.opts = ctx.opts; bool out = false; std::vector<uint8_t> tb;
    try { run_case(c, tmp, true, &out, &tb); } catch (const vh::Failure&) { out = false; }
    std::vector<uint8_t> a2; bool dropped = false;
    for (size_t i = 0; i < An; i++) { if (!dropped && A[i] == 0x67) { dropped = true; continue; } a2.push_back(A[i]); }
    bool related = dropped && a2.size() == tb.size();
    if (related) {
      size_t ndiff = 0, first = a2.size(), last = 0;
      for (size_t i = 0; i < a2.size(); i++) if (a2[i] != tb[i]) { ndiff++; first = std::min(first, i); last = i; }
      related = ndiff >= 1 && last - first < 4;
      if (related) {
        size_t pos = last >= 3 ? last - 3 : 0;      // bit 31 is in the most significant address byte
        uint32_t va = 0, vt = 0; for (int k = 0; k < 4 && pos + size_t(k) < a2.size(); k++) { va |= uint32_t(a2[pos + size_t(k)]) << (8 * k); vt |= uint32_t(tb[pos + size_t(k)]) << (8 * k); }
        related = va == uint32_t(u32_disp) && vt == (uint32_t(u32_disp) & 0x7fffffffu);
      }
    }
    if (out && related) { db_outlier = true; ctx.cls("db_row_outvoted_via_low_address_twin"); }
  }
  if (db_outlier) ctx.cls("db_row_outvoted_by_llvm_and_opcodes");

  if (g_survey) {
    bool both_text_bad = (j1_text_bad && (j2_text_bad || !oA.count)) || (j2_text_bad && (j1_text_bad || !dA.count));
    bool interesting = (tv.status == xt::kMismatch && !db_outlier) || j1_len_bad || j2_len_bad || (both_text_bad && l_matches_template && tv.status == xt::kMatch && !equiv);
    if (g_survey_out && (interesting || !asm_ok || j1_text_bad || j2_text_bad || db_outlier))
      fprintf(g_survey_out, "%s%s | form#%d %s [%s] | j3=%s %s | j1=%s | j2=%s | asm=%s Lt=%d\n", interesting ? "!! " : db_outlier ? "DB " : "   ", desc.c_str(), f.idx, f.opcodeString.c_str(), f.encoding.c_str(),
              tv.status == xt::kMatch ? "match" : tv.status == xt::kMismatch ? "MISMATCH" : "undecided", tv.detail.c_str(),
              (j1_len_bad || j1_text_bad) ? j1_detail.c_str() : "-", (j2_len_bad || j2_text_bad) ? j2_detail.c_str() : "-", asm_ok ? "ok" : lerr.c_str(), int(l_matches_template));
    if (interesting) ctx.cls("survey_interesting");
  } else {
    // ---- verdict ----
    if (tv.status == xt::kMismatch && !db_outlier) {
      std::string key = "j3-" + reason_code(tv.detail) + ":" + f.name;
      if (!ctx.fail_unless_known(key, desc + " :: bytes are not an encoding of any ISA-DB form of '" + f.name + "' that admits these operands: " + tv.detail)) {}
    }
    if (j1_len_bad) ctx.fail_unless_known("llvm-length:" + f.name, desc + " :: " + j1_detail);
    if (j2_len_bad && !(dA.count && !j1_len_bad)) ctx.fail_unless_known("opcodes-length:" + f.name, desc + " :: " + j2_detail);
    // Text disagreement counts only when LLVM's own bytes are an encoding of the same DB form (so the text difference is
    // not LLVM choosing another instruction for our rendering) and BOTH decoders see a difference (or one cannot decode).
    bool both_text_bad = (j1_text_bad && (j2_text_bad || !oA.count)) || (j2_text_bad && (j1_text_bad || !dA.count));
    // With an unsized memory operand the rendered text is ambiguous (lcall fs:[esp]: m16:32 or m16:64): LLVM's own choice for it is
    // not a reference; the template judge (which accepts every form that admits the operands) and the length checks still apply.
    if (both_text_bad && unsized) ctx.cls("unsized_text_ambiguous_not_compared");
    else if (both_text_bad && l_matches_template && tv.status == xt::kMatch && !equiv)
      ctx.fail_unless_known("decoders-text:" + f.name, desc + " :: " + (j1_text_bad ? j1_detail : j2_detail));
    if ((j1_text_bad || j2_text_bad) && tv.status == xt::kMatch && !l_matches_template) ctx.cls("llvm_chose_another_form_for_our_text");
    if ((j1_text_bad || j2_text_bad) && tv.status == xt::kUndecided) ctx.cls("unarbitrated_decoder_disagreement");
  }

  if (judged) {
    ctx.nontrivial();
    if (ctx.want_sample()) ctx.sample(desc);
    // class distribution
    for (const xi::Opnd& o : x.ops) {
      if (o.kind == xi::Opnd::kMem) {
        ctx.cls("op_mem");
        if (o.mem.index.rc != xi::RC::None) ctx.cls(o.mem.index.rc >= xi::RC::Xmm && o.mem.index.rc <= xi::RC::Zmm ? "mem_vsib" : "mem_index");
        if (o.mem.base.rc == xi::RC::Rip) ctx.cls("mem_rip");
        if (o.mem.abs) ctx.cls("mem_abs");
        if (o.mem.seg) ctx.cls("mem_segment");
        if (o.mem.bcst) ctx.cls("mem_broadcast");
        if (o.mem.addr_bits == 16) ctx.cls("mem_addr16");
        if (o.mem.addr_bits == 32 && mode == 64) ctx.cls("mem_addr32_in_64");
        if (o.mem.base.id == 4 || o.mem.base.id == 12) ctx.cls("mem_base_sp_r12");
        if (o.mem.base.id == 5 || o.mem.base.id == 13) ctx.cls("mem_base_bp_r13");
      } else if (o.kind == xi::Opnd::kReg) {
        if (o.reg.id >= 16) ctx.cls("reg_id_16_31"); else if (o.reg.id >= 8) ctx.cls("reg_id_8_15");
        if (o.reg.rc == xi::RC::Gp8Hi) ctx.cls("reg_gpb_hi");
      } else ctx.cls("op_imm");
    }
    if (x.k) ctx.cls("deco_k");
    if (x.z) ctx.cls("deco_z");
    if (x.er >= 0) ctx.cls("deco_er");
    if (x.sae) ctx.cls("deco_sae");
    if (x.options) ctx.cls("has_prefix_option");
    ctx.cls(f.prefix.empty() ? "enc_legacy" : "enc_" + f.prefix);
    ctx.cls(mode == 64 ? "mode64" : "mode32");
  } else ctx.cls("accepted_but_unjudged");
}
