// C01 — x86/x64 assembler emits a correct encoding of every instruction it accepts.
//
// Case: cfg = [mode(32|64), form_index, flags]   ops[0] = integer choices consumed by xi::instantiate().
// Judges (all independent of AsmJit's own tables/formatter):
//   J1  LLVM MC assembles OUR rendering of the intended instruction -> bytes_L; LLVM's disassembler must print the same
//       instruction for AsmJit's bytes_A and for bytes_L, and consume exactly |bytes_A| bytes.
//   J2  binutils libopcodes must agree on the same pair and on the length.
//   J3  ISA-database template: bytes_A must be an encoding of some DB form of this mnemonic that admits the operands.
#define VH_MAIN
#include "vh.h"
#include "gen/x86inst.h"
#include "gen/x86tmpl.h"
#include "oracle/llvm_mc.h"
#include "oracle/opc.h"

#include <memory>

using namespace asmjit;

const char* vh_property() { return "C01"; }

static xdb::DB g_db;
static std::unique_ptr<oracle::LlvmMc> g_mc32, g_mc64;
static bool g_survey = false;
static FILE* g_survey_out = nullptr;

void vh_init(const vh::Opts& o, vh::Ctx&) {
  std::string path = "build/gen/x86_forms.txt";
  auto it = o.kv.find("forms");
  if (it != o.kv.end()) path = it->second;
  if (!g_db.load(path.c_str())) { fprintf(stderr, "cannot load %s\n", path.c_str()); exit(2); }
  g_mc32.reset(new oracle::LlvmMc(oracle::Target::X86_32));
  g_mc64.reset(new oracle::LlvmMc(oracle::Target::X86_64));
  g_survey = o.geti("survey", 0) != 0;
  if (g_survey) { char b[256]; snprintf(b, sizeof b, "%s/survey%d.txt", o.out_dir.c_str(), o.worker); vh::mkdirs(o.out_dir); g_survey_out = fopen(b, "w"); }
}

static const int kChoices = 40;

static uint64_t mix(uint64_t x) { x += 0x9E3779B97F4A7C15ull; x = (x ^ (x >> 30)) * 0xBF58476D1CE4E5B9ull; x = (x ^ (x >> 27)) * 0x94D049BB133111EBull; return x ^ (x >> 31); }

// Deterministic sweep: every DB form x both modes x R instantiations (R from --reps, default 3).
bool vh_enum(const vh::Opts& o, uint64_t k, vh::Case& out) {
  uint64_t reps = uint64_t(o.geti("reps", 3));
  uint64_t nforms = g_db.forms.size();
  uint64_t total = nforms * 2 * reps;
  uint64_t g = k * uint64_t(o.workers) + uint64_t(o.worker);
  if (g >= total) return false;
  uint64_t form = g % nforms, rest = g / nforms;
  int mode = (rest & 1) ? 32 : 64;
  uint64_t rep = rest >> 1;
  out = vh::Case();
  out.cfg = {mode, int64_t(form), 0};
  vh::Op ch;
  uint64_t s = mix(o.seed * 1000003ull + g);
  for (int i = 0; i < kChoices; i++) { s = mix(s + uint64_t(i) + rep); ch.push_back(int64_t(s >> 33)); }
  out.ops.push_back(ch);
  return true;
}

rc::Gen<vh::Case> vh_gen(const vh::Opts&) {
  using namespace rc;
  int nforms = int(g_db.forms.size());
  return gen::apply([](int mode, int form, std::vector<int> ch) {
      vh::Case c; c.cfg = {mode ? 32 : 64, form, 0};
      vh::Op op; for (int v : ch) op.push_back(v);
      c.ops.push_back(op); return c; },
    vh::irange<int>(0, 1), vh::irange<int>(0, nforms - 1),
    gen::container<std::vector<int>>(size_t(kChoices), vh::irange<int>(0, 0x3fffffff)));
}

static std::string hex(const uint8_t* p, size_t n) { std::string s; char b[4]; for (size_t i = 0; i < n; i++) { snprintf(b, sizeof b, "%02x", p[i]); s += b; } return s; }

void vh_run(const vh::Case& c, vh::Ctx& ctx) {
  int mode = (c.cfg.size() > 0 && c.cfg[0] == 32) ? 32 : 64;
  size_t fi = c.cfg.size() > 1 ? size_t(uint64_t(c.cfg[1]) % g_db.forms.size()) : 0;
  const xdb::Form& f = g_db.forms[fi];
  static const vh::Op empty;
  const vh::Op& chv = c.ops.empty() ? empty : c.ops[0];
  xi::Choices ch(chv, 0);

  if (!f.mode_ok(mode)) { ctx.cls("skip_mode_excluded"); return; }
  if (f.is_apx()) { ctx.cls("skip_apx"); return; }
  xi::XInst x = xi::instantiate(f, mode, ch);
  if (!x.valid) { ctx.cls("skip_uninstantiable"); return; }

  InstId id = InstAPI::string_to_inst_id(mode == 64 ? Arch::kX64 : Arch::kX86, f.name.c_str(), f.name.size());
  if (id == 0) { ctx.cls("skip_unknown_mnemonic"); return; }

  CodeHolder code;
  code.init(Environment(mode == 64 ? Arch::kX64 : Arch::kX86));
  x86::Assembler a(&code);
  a.add_diagnostic_options(DiagnosticOptions::kValidateAssembler);
  Error err = xi::emit(a, id, x);
  std::string text = xi::render(x);
  if (err != Error::kOk) { ctx.cls("rejected"); return; }
  ctx.cls("accepted");
  const CodeBuffer& buf = code.text_section()->buffer();
  const uint8_t* A = buf.data();
  size_t An = buf.size();
  std::string desc = std::string(mode == 64 ? "x64 " : "x86 ") + text + " => " + hex(A, An);
  VH_CHECK(ctx, An > 0 && An <= 15, "length-out-of-range", "%s: %zu bytes appended", desc.c_str(), An);
  VH_CHECK(ctx, a.offset() == An, "offset-mismatch", "%s: offset() %zu != buffer size %zu", desc.c_str(), a.offset(), An);

  oracle::LlvmMc& mc = mode == 64 ? *g_mc64 : *g_mc32;
  bool judged = false;
  std::string j;

  // ---- J3: database template ----
  xt::Verdict tv = xt::judge(g_db, x, A, An);
  if (tv.status == xt::kMatch) { judged = true; ctx.cls("j3_match"); }
  else if (tv.status == xt::kUndecided) ctx.cls("j3_undecided");

  // ---- J1 / J2 ----
  oracle::Decoded dA = mc.decode(A, An);
  oracle::OpcDecoded oA = oracle::opc_decode(mode, A, An);
  std::vector<uint8_t> L;
  std::string lerr;
  unsigned fix = 0;
  bool asm_ok = mc.assemble(text, L, lerr, &fix) && fix == 0 && !L.empty();
  bool j1_mismatch = false, j2_mismatch = false;
  std::string j1_detail, j2_detail;
  if (dA.length) {
    if (dA.length != An) { j1_mismatch = true; j1_detail = "llvm decodes " + std::to_string(dA.length) + " of " + std::to_string(An) + " bytes as '" + dA.text + "'"; }
  } else ctx.cls("llvm_cannot_decode");
  if (oA.length) {
    if (oA.length != An) { j2_mismatch = true; j2_detail = "opcodes decodes " + std::to_string(oA.length) + " of " + std::to_string(An) + " bytes as '" + oA.text + "'"; }
  } else ctx.cls("opc_cannot_decode");
  bool l_matches_template = false;
  if (asm_ok) {
    ctx.cls("llvm_assembled");
    oracle::Decoded dL = mc.decode(L.data(), L.size());
    oracle::OpcDecoded oL = oracle::opc_decode(mode, L.data(), L.size());
    xt::Verdict tl = xt::judge(g_db, x, L.data(), L.size());
    l_matches_template = tl.status == xt::kMatch;
    if (dA.length && dL.length == L.size() && !j1_mismatch) {
      if (dA.text != dL.text) { j1_mismatch = true; j1_detail = "llvm decodes asmjit bytes as '" + dA.text + "' but its own encoding " + hex(L.data(), L.size()) + " as '" + dL.text + "'"; }
      else { ctx.cls("j1_agree"); judged = true; }
    }
    if (oA.length && oL.length == L.size() && !j2_mismatch) {
      if (oA.text != oL.text) { j2_mismatch = true; j2_detail = "opcodes decodes asmjit bytes as '" + oA.text + "' but llvm's encoding " + hex(L.data(), L.size()) + " as '" + oL.text + "'"; }
      else { ctx.cls("j2_agree"); judged = true; }
    }
  } else ctx.cls("llvm_refused_rendering");

  if (g_survey) {
    if (g_survey_out && (tv.status == xt::kMismatch || j1_mismatch || j2_mismatch || !asm_ok))
      fprintf(g_survey_out, "%s | form#%d %s [%s] | j3=%s %s | j1=%s | j2=%s | asm=%s Lt=%d\n", desc.c_str(), f.idx, f.opcodeString.c_str(), f.encoding.c_str(),
              tv.status == xt::kMatch ? "match" : tv.status == xt::kMismatch ? "MISMATCH" : "undecided", tv.detail.c_str(),
              j1_mismatch ? j1_detail.c_str() : "-", j2_mismatch ? j2_detail.c_str() : "-", asm_ok ? "ok" : lerr.c_str(), int(l_matches_template));
    if (tv.status == xt::kMismatch) ctx.cls("survey_j3_mismatch");
    if (j1_mismatch) ctx.cls("survey_j1_mismatch");
    if (j2_mismatch) ctx.cls("survey_j2_mismatch");
  } else {
    // Verdict. The DB template is the arbiter between "AsmJit is wrong" and "LLVM chose another form for our text".
    if (tv.status == xt::kMismatch)
      ctx.fail("db-template-mismatch", desc + " :: bytes are not an encoding of any matching ISA-DB form: " + tv.detail);
    if (j1_mismatch && (dA.length != An || l_matches_template || tv.status != xt::kMatch))
      ctx.fail("llvm-decode-mismatch", desc + " :: " + j1_detail);
    if (j2_mismatch && (oA.length != An || l_matches_template || tv.status != xt::kMatch))
      ctx.fail("opcodes-decode-mismatch", desc + " :: " + j2_detail);
    if (j1_mismatch || j2_mismatch) ctx.cls("decoder_text_differs_but_llvm_used_other_form");
  }

  if (judged) {
    ctx.nontrivial();
    if (ctx.want_sample()) ctx.sample(desc);
    // class distribution
    for (const xi::Opnd& o : x.ops) {
      if (o.kind == xi::Opnd::kMem) {
        ctx.cls("op_mem");
        if (o.mem.index.rc != xi::RC::None) ctx.cls(o.mem.index.rc >= xi::RC::Xmm && o.mem.index.rc <= xi::RC::Zmm ? "mem_vsib" : "mem_index");
        if (o.mem.base.rc == xi::RC::Rip) ctx.cls("mem_rip");
        if (o.mem.abs) ctx.cls("mem_abs");
        if (o.mem.seg) ctx.cls("mem_segment");
        if (o.mem.bcst) ctx.cls("mem_broadcast");
        if (o.mem.addr_bits == 16) ctx.cls("mem_addr16");
        if (o.mem.addr_bits == 32 && mode == 64) ctx.cls("mem_addr32_in_64");
        if (o.mem.base.id == 4 || o.mem.base.id == 12) ctx.cls("mem_base_sp_r12");
        if (o.mem.base.id == 5 || o.mem.base.id == 13) ctx.cls("mem_base_bp_r13");
      } else if (o.kind == xi::Opnd::kReg) {
        if (o.reg.id >= 16) ctx.cls("reg_id_16_31"); else if (o.reg.id >= 8) ctx.cls("reg_id_8_15");
        if (o.reg.rc == xi::RC::Gp8Hi) ctx.cls("reg_gpb_hi");
      } else ctx.cls("op_imm");
    }
    if (x.k) ctx.cls("deco_k");
    if (x.z) ctx.cls("deco_z");
    if (x.er >= 0) ctx.cls("deco_er");
    if (x.sae) ctx.cls("deco_sae");
    if (x.options) ctx.cls("has_prefix_option");
    ctx.cls(f.prefix.empty() ? "enc_legacy" : "enc_" + f.prefix);
    ctx.cls(mode == 64 ? "mode64" : "mode32");
  } else ctx.cls("accepted_but_unjudged");
}
