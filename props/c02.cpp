// C02 — AArch64 assembler emits a correct encoding of every instruction it accepts.
//
// Case: cfg = [template_index, variant]   ops[0] = integer choices.
//   variant 0: the template's own example instance (calibration: LLVM must produce the same word)
//   variant 1: generated instance (ids, lanes, offsets, immediates, shift/extend kinds, cond codes incl. just-out-of-range values)
// Judges: J1 LLVM-14 MC assembles OUR rendering of the instance; the word(s) must be equal. J2 the emitted word matches the fixed
// bits of some ISA-DB form of that mnemonic. Accept/reject disagreement: AsmJit accepting what LLVM refuses is a violation when LLVM's
// decoding of AsmJit's word does not show the requested values (encoded as something else).
#define VH_MAIN
#include "vh.h"
#include "gen/a64inst.h"
#include "oracle/llvm_mc.h"

#include <memory>

using namespace asmjit;

const char* vh_property() { return "C02"; }

struct DbForm { uint32_t mask, value; std::string syntax; };
static std::vector<ai::Template> g_t;
static std::map<std::string, std::vector<DbForm>> g_db;
static std::map<std::string, std::vector<InstId>> g_ids;
static std::unique_ptr<oracle::LlvmMc> g_mc;
static bool g_survey = false;
static FILE* g_survey_out = nullptr;
static const int kChoices = 32;

void vh_init(const vh::Opts& o, vh::Ctx&) {
  if (!ai::load_templates("build/gen/a64_templates.txt", g_t)) { fprintf(stderr, "cannot load build/gen/a64_templates.txt\n"); exit(2); }
  std::string text;
  if (!vh::read_file("build/gen/a64_forms.txt", text)) { fprintf(stderr, "cannot load build/gen/a64_forms.txt\n"); exit(2); }
  size_t p = 0;
  while (p < text.size()) {
    size_t e = text.find('\n', p); if (e == std::string::npos) e = text.size();
    std::vector<std::string> t = ai::split(text.substr(p, e - p), '|');
    if (t.size() >= 6) g_db[t[0]].push_back(DbForm{uint32_t(strtoul(t[1].c_str(), nullptr, 16)), uint32_t(strtoul(t[2].c_str(), nullptr, 16)), t[5]});
    p = e + 1;
  }
  // name -> ids from the id -> name direction (string_to_inst_id is not used: see C13's known finding)
  for (uint32_t id = 1; id < a64::Inst::_kIdCount; id++) {
    String s; InstAPI::inst_id_to_string(Arch::kAArch64, id, InstStringifyOptions::kNone, s);
    g_ids[std::string(s.data(), s.size())].push_back(id);
  }
  g_mc.reset(new oracle::LlvmMc(oracle::Target::A64));
  g_survey = o.geti("survey", 0) != 0;
  if (g_survey) { char b[256]; snprintf(b, sizeof b, "%s/survey%d.txt", o.out_dir.c_str(), o.worker); vh::mkdirs(o.out_dir); g_survey_out = fopen(b, "w"); }
}

static uint64_t mix(uint64_t x) { x += 0x9E3779B97F4A7C15ull; x = (x ^ (x >> 30)) * 0xBF58476D1CE4E5B9ull; x = (x ^ (x >> 27)) * 0x94D049BB133111EBull; return x ^ (x >> 31); }

bool vh_enum(const vh::Opts& o, uint64_t k, vh::Case& out) {
  uint64_t reps = uint64_t(o.geti("reps", 6));
  uint64_t n = g_t.size(), total = n * (reps + 1);
  uint64_t g = k * uint64_t(o.workers) + uint64_t(o.worker);
  if (g >= total) return false;
  uint64_t ti = g % n, rep = g / n;
  out = vh::Case();
  out.cfg = {int64_t(ti), rep == 0 ? 0 : 1};
  vh::Op ch; uint64_t s = mix(o.seed * 7919 + g);
  for (int i = 0; i < kChoices; i++) { s = mix(s + uint64_t(i)); ch.push_back(int64_t(s >> 33)); }
  out.ops.push_back(ch);
  return true;
}

rc::Gen<vh::Case> vh_gen(const vh::Opts&) {
  using namespace rc;
  int n = int(g_t.size());
  return gen::apply([](int ti, std::vector<int> ch) { vh::Case c; c.cfg = {ti, 1}; vh::Op op; for (int v : ch) op.push_back(v); c.ops.push_back(op); return c; },
    vh::irange<int>(0, n - 1), gen::container<std::vector<int>>(size_t(kChoices), vh::irange<int>(0, 0x3fffffff)));
}

static std::string hex(const uint8_t* p, size_t n) { std::string s; char b[4]; for (size_t i = 0; i < n; i++) { snprintf(b, sizeof b, "%02x", p[i]); s += b; } return s; }

struct Emit { Error err = Error::kOk; std::vector<uint8_t> bytes; size_t relocs = 0; };

static Emit emit_asmjit(const ai::Inst& in) {
  Emit best; best.err = Error::kInvalidInstruction;
  auto it = g_ids.find(in.t->name);
  if (it == g_ids.end()) return best;
  bool any_vec = false;
  for (const ai::Opnd& o : in.ops) if (o.kind == ai::K::Scalar || o.kind == ai::K::VecArr || o.kind == ai::K::VecElem) any_vec = true;
  // one mnemonic may name a general-purpose id and an ASIMD id (the latter comes second): pick by operand kinds, never mix
  std::vector<InstId> ids;
  if (it->second.size() >= 2) ids.push_back(any_vec ? it->second.back() : it->second.front()); else ids = it->second;
  for (InstId id : ids) {
    CodeHolder code; code.init(Environment(Arch::kAArch64));
    a64::Assembler a(&code);
    Operand_ ops[8]; size_t n = 0;
    for (const ai::Opnd& o : in.ops) { if (n >= 6) break; Operand op = ai::to_asmjit(o); ops[n++] = op; }
    Emit r; r.err = a.emit_op_array(id, ops, n);
    const CodeBuffer& buf = code.text_section()->buffer();
    r.bytes.assign(buf.data(), buf.data() + buf.size());
    r.relocs = code.reloc_entries().size();
    if (r.err == Error::kOk) return r;
    best = r;
  }
  return best;
}

// numbers (decimal or hex, optional sign) appearing in a text
static std::vector<int64_t> numbers_of(const std::string& t) {
  std::vector<int64_t> v;
  for (size_t i = 0; i < t.size(); i++) {
    if (t[i] == '#') {
      size_t j = i + 1; bool neg = false;
      if (j < t.size() && t[j] == '-') { neg = true; j++; }
      char* end = nullptr;
      unsigned long long x = strtoull(t.c_str() + j, &end, 0);
      if (end != t.c_str() + j) {
        int64_t val = neg ? -int64_t(x) : int64_t(x);
        v.push_back(val);
        // "#A, lsl #S" / "#A, msl #S" also denotes the shifted value
        size_t q = size_t(end - t.c_str());
        if (t.compare(q, 7, ", lsl #") == 0 || t.compare(q, 7, ", msl #") == 0) {
          unsigned long sh = strtoul(t.c_str() + q + 7, nullptr, 0);
          if (sh < 64) { v.push_back(int64_t(uint64_t(val) << sh)); if (t[q + 2] == 'm') v.push_back(int64_t((uint64_t(val) << sh) | ((uint64_t(1) << sh) - 1))); }
        }
      }
    }
  }
  return v;
}

// AdvSIMDExpandImm (ARM ARM, shared pseudo-code): value replicated into each 64-bit half by MOVI/MVNI/ORR/BIC (vector, immediate).
// Returns false for encodings that are not MOVI/MVNI.
static bool simd_modimm_value(uint32_t w, uint64_t& out, bool& q) {
  if ((w & 0x9FF80C00u) != 0x0F000400u) return false;          // 0 Q op 0111100000 a b c cmode 0 1 d e f g h Rd
  q = (w >> 30) & 1;
  uint32_t op = (w >> 29) & 1, cmode = (w >> 12) & 15;
  uint64_t imm8 = ((w >> 16) & 7) << 5 | ((w >> 5) & 31);
  uint64_t imm64 = 0;
  switch (cmode >> 1) {
    case 0: imm64 = imm8 * 0x0000000100000001ull; break;
    case 1: imm64 = (imm8 << 8) * 0x0000000100000001ull; break;
    case 2: imm64 = (imm8 << 16) * 0x0000000100000001ull; break;
    case 3: imm64 = (imm8 << 24) * 0x0000000100000001ull; break;
    case 4: imm64 = imm8 * 0x0001000100010001ull; break;
    case 5: imm64 = (imm8 << 8) * 0x0001000100010001ull; break;
    case 6: imm64 = ((cmode & 1) ? ((imm8 << 16) | 0xFFFF) : ((imm8 << 8) | 0xFF)) * 0x0000000100000001ull; break;
    case 7:
      if (!(cmode & 1) && !op) imm64 = imm8 * 0x0101010101010101ull;
      else if (!(cmode & 1) && op) { imm64 = 0; for (int i = 0; i < 8; i++) if (imm8 & (1u << i)) imm64 |= uint64_t(0xFF) << (8 * i); return out = imm64, true; }
      else return false;   // FMOV (vector, immediate)
      break;
  }
  // cmode 0xx0/10x0/110x: op=0 MOVI, op=1 MVNI; cmode 0xx1/10x1: ORR/BIC (not handled)
  bool is_orr_bic = ((cmode & 9) == 1) || ((cmode & 13) == 9);
  if (is_orr_bic) return false;
  if (op && (cmode >> 1) != 7) imm64 = ~imm64;
  out = imm64;
  return true;
}

// AsmJit expands `mov reg, #imm` into up to 4 words; evaluate the movz/movn/movk sequence from LLVM's decoding of each word.
static void judge_mov_sequence(vh::Ctx& ctx, const ai::Inst& in, const Emit& a, const std::string& desc) {
  bool req_w = !in.ops.empty() && (in.ops[0].kind == ai::K::GpW || in.ops[0].kind == ai::K::Wzr || in.ops[0].kind == ai::K::Wsp);
  uint64_t val = 0; bool ok = true; bool enc_w = false;
  for (size_t off = 0; off + 4 <= a.bytes.size() && ok; off += 4) {
    oracle::Decoded d = g_mc->decode(a.bytes.data() + off, 4);
    std::vector<int64_t> nums = numbers_of(d.text);
    if (!d.length || nums.empty()) { ok = false; break; }
    size_t sp = d.text.find(' ');
    bool w = sp != std::string::npos && sp + 1 < d.text.size() && d.text[sp + 1] == 'w';
    unsigned sh = 0; size_t q = d.text.find("lsl #"); if (q != std::string::npos) sh = unsigned(strtoul(d.text.c_str() + q + 5, nullptr, 0));
    uint64_t first = uint64_t(nums.front());
    if (d.text.rfind("movk", 0) == 0) { val = (val & ~(uint64_t(0xFFFF) << sh)) | ((first & 0xFFFF) << sh); }
    else if (off == 0 && d.text.rfind("movn", 0) == 0) { val = ~((first & 0xFFFF) << sh); enc_w = w; }
    else if (off == 0 && d.text.rfind("movz", 0) == 0) { val = (first & 0xFFFF) << sh; enc_w = w; }
    else if (off == 0 && d.text.rfind("mov ", 0) == 0) { val = first; enc_w = w; }          // alias of movz / movn / orr-immediate: LLVM prints the value
    else ok = false;
    if (enc_w) val &= 0xFFFFFFFFull;       // a write to Wd zero-extends into Xd
  }
  uint64_t want = uint64_t(in.ops.size() > 1 ? in.ops[1].imm : 0);
  if (req_w) { want &= 0xFFFFFFFFull; val &= 0xFFFFFFFFull; }
  if (ok && val == want) { ctx.cls(a.bytes.size() > 4 ? "mov_multiword_evaluates_to_imm" : "mov_equivalent_single_word"); ctx.nontrivial(); }
  else if (ok) ctx.fail_unless_known("mov-sequence-wrong-value", desc + " :: the emitted sequence evaluates to " + std::to_string(val) + ", requested " + std::to_string(want));
  else ctx.cls("mov_sequence_unjudged");
}

void vh_run(const vh::Case& c, vh::Ctx& ctx) {
  if (c.cfg.size() < 2 || g_t.empty()) return;
  const ai::Template& t = g_t[size_t(uint64_t(c.cfg[0]) % g_t.size())];
  bool example = c.cfg[1] == 0;
  static const vh::Op empty;
  const vh::Op& chv = c.ops.empty() ? empty : c.ops[0];
  ai::Choices ch(chv, 0);
  ai::Inst in = ai::instantiate(t, ch, example, true);
  std::string text = ai::render(in);
  Emit a = emit_asmjit(in);
  std::vector<uint8_t> L; std::string lerr; unsigned fix = 0;
  bool l_ok = g_mc->assemble(text, L, lerr, &fix) && fix == 0 && !L.empty();
  bool a_ok = a.err == Error::kOk;
  std::string desc = "a64 " + text + " => " + (a_ok ? hex(a.bytes.data(), a.bytes.size()) : std::string("error ") + DebugUtils::error_as_string(a.err));
  ctx.cls(example ? "example_instances" : "generated_instances");
  if (a.relocs) { ctx.cls("absolute_target_relocation_skipped"); return; }    // adr/adrp/b/bl #imm = absolute address (C04)

  if (a_ok) {
    if (!(a.bytes.size() >= 4 && a.bytes.size() <= 16 && a.bytes.size() % 4 == 0))
      ctx.fail_unless_known("length:" + t.name, desc + ": " + std::to_string(a.bytes.size()) + " bytes appended");
  } else if (!a.bytes.empty()) ctx.fail_unless_known("bytes-on-failure", desc + ": failed call appended bytes");

  if (a_ok && l_ok) {
    ctx.cls("both_accept");
    if (a.bytes == L) {
      ctx.cls("j1_equal"); ctx.nontrivial();
      if (ctx.want_sample()) ctx.sample(desc);
    } else {
      // AsmJit's multi-word `mov reg, #imm` expansion has no single LLVM counterpart (LLVM emits one instruction or refuses)
      bool multi = t.name == "mov" && in.ops.size() == 2 && in.ops[1].kind == ai::K::Imm;
      oracle::Decoded dA = g_mc->decode(a.bytes.data(), 4), dL = g_mc->decode(L.data(), L.size() >= 4 ? 4 : L.size());
      std::string detail = desc + " :: LLVM MC encodes the same text as " + hex(L.data(), L.size()) + " ('" + dL.text + "'), AsmJit's word decodes as '" + dA.text + "'";
      uint32_t wa = uint32_t(a.bytes[0]) | (uint32_t(a.bytes[1]) << 8) | (uint32_t(a.bytes[2]) << 16) | (uint32_t(a.bytes[3]) << 24);
      uint32_t wl = L.size() >= 4 ? (uint32_t(L[0]) | (uint32_t(L[1]) << 8) | (uint32_t(L[2]) << 16) | (uint32_t(L[3]) << 24)) : 0;
      uint64_t va = 0, vl = 0; bool qa = false, ql = false;
      if (multi) judge_mov_sequence(ctx, in, a, desc);
      else if ((t.name == "movi" || t.name == "mvni") && simd_modimm_value(wa, va, qa) && simd_modimm_value(wl, vl, ql) && va == vl && qa == ql && ((wa ^ wl) & 31) == 0) {
        ctx.cls("simd_modimm_equivalent_encoding"); ctx.nontrivial();      // another cmode/arrangement producing the identical vector value
      }
      else if (g_survey) { ctx.cls("survey_j1_mismatch"); if (g_survey_out) fprintf(g_survey_out, "MISMATCH %s\n", detail.c_str()); }
      else ctx.fail_unless_known("llvm-word-differs:" + t.name, detail);
    }
    // J2: fixed bits of some DB form
    auto it = g_db.find(t.name);
    if (it != g_db.end() && a.bytes.size() == 4) {
      uint32_t w = uint32_t(a.bytes[0]) | (uint32_t(a.bytes[1]) << 8) | (uint32_t(a.bytes[2]) << 16) | (uint32_t(a.bytes[3]) << 24);
      bool any = false;
      for (const DbForm& f : it->second) if ((w & f.mask) == f.value) { any = true; break; }
      if (any) ctx.cls("j2_db_fixed_bits_match");
      else if (a.bytes == L) ctx.cls("db_has_no_matching_form_but_llvm_agrees");
      else ctx.cls("j2_no_db_form");
    } else if (it == g_db.end()) ctx.cls("mnemonic_not_in_db");
  } else if (a_ok && !l_ok) {
    // AsmJit accepts, LLVM refuses: either our rendering is not LLVM's syntax (then the example instance is refused too — unjudged),
    // or the operands are not encodable and AsmJit encoded something else.
    ctx.cls("asmjit_accepts_llvm_refuses");
    if (t.name == "mov" && in.ops.size() == 2 && in.ops[1].kind == ai::K::Imm) { judge_mov_sequence(ctx, in, a, desc); return; }
    if (example) { ctx.cls("example_unrenderable_for_llvm"); if (g_survey_out) fprintf(g_survey_out, "UNRENDERABLE %s :: %s\n", desc.c_str(), lerr.c_str()); return; }
    if (lerr.find("unpredictable") != std::string::npos) { ctx.cls("constrained_unpredictable_unjudged"); return; }   // encodable, architecturally UNPREDICTABLE: not an encoding question
    if ((t.name == "movi" || t.name == "mvni") ) { ctx.cls("simd_modified_immediate_smart_encoding_unjudged"); return; }   // AsmJit picks an equivalent cmode/arrangement for wide immediates
    // calibrate with the example instance of the same template
    ai::Choices ch2(chv, 0);
    ai::Inst ex = ai::instantiate(t, ch2, true, false);
    std::string etext = ai::render(ex);
    Emit ea = emit_asmjit(ex);
    std::vector<uint8_t> EL; std::string eerr; unsigned efix = 0;
    bool el_ok = g_mc->assemble(etext, EL, eerr, &efix) && efix == 0;
    if (!(ea.err == Error::kOk && el_ok && ea.bytes == EL)) { ctx.cls("uncalibrated_template_unjudged"); return; }
    // calibrated: the refusal is about the values. Does AsmJit's word denote the requested values?
    bool all_ok = true; std::string dtext;
    for (size_t off = 0; off + 4 <= a.bytes.size(); off += 4) { oracle::Decoded d = g_mc->decode(a.bytes.data() + off, 4); if (!d.length) all_ok = false; dtext += d.text + " ; "; }
    std::vector<int64_t> want = numbers_of(text), have = numbers_of(dtext);
    bool missing = false;
    for (int64_t w : want) { bool f = false; for (int64_t h : have) if (h == w) f = true; if (!f) missing = true; }
    // register names: every register token of the request must appear in the decoding
    auto has_tok = [&](const std::string& tok) { return dtext.find(tok) != std::string::npos; };
    bool reg_missing = false;
    for (const ai::Opnd& o : in.ops) {
      if (o.kind == ai::K::GpW || o.kind == ai::K::GpX || o.kind == ai::K::Wzr || o.kind == ai::K::Xzr || o.kind == ai::K::Wsp || o.kind == ai::K::Sp) { if (!has_tok(ai::reg_text(o))) reg_missing = true; }
    }
    // lanes: every requested "[i]" must appear in the decoding
    for (const ai::Opnd& o : in.ops) if (o.kind == ai::K::VecElem) { std::string tok = "[" + std::to_string(o.lane) + "]"; if (!has_tok(tok)) reg_missing = true; }
    // vector registers of the request must appear (a non-sequential list is silently renumbered otherwise)
    for (const ai::Opnd& o : in.ops) if (o.kind == ai::K::VecArr || o.kind == ai::K::VecElem || o.kind == ai::K::Scalar) {
      std::string tok = o.kind == ai::K::Scalar ? ai::reg_text(o) : "v" + std::to_string(o.id) + ".";
      if (!has_tok(tok)) reg_missing = true;
    }
    std::string detail = desc + " :: LLVM MC refuses the text (" + lerr + ") although the template's example assembles identically; AsmJit's word decodes as '" + dtext + "'";
    if (g_survey) { ctx.cls(missing || reg_missing || !all_ok ? "survey_accepts_unencodable" : "survey_accepts_but_decodes_to_request"); if (g_survey_out) fprintf(g_survey_out, "%s %s\n", missing || reg_missing || !all_ok ? "ACCEPT-WRONG" : "ACCEPT-OK?", detail.c_str()); return; }
    if (missing || reg_missing || !all_ok) ctx.fail_unless_known("accepts-unencodable:" + t.name, detail);
    else ctx.cls("accepted_fallback_denotes_request");
    ctx.nontrivial();
  } else if (!a_ok && l_ok) {
    ctx.cls("asmjit_refuses_llvm_accepts");
    if (example) { ctx.cls("example_refused_by_asmjit"); if (g_survey_out) fprintf(g_survey_out, "EXAMPLE-REFUSED %s\n", desc.c_str()); }
  } else {
    ctx.cls("both_refuse");
    if (example) { ctx.cls("example_refused_by_both"); if (g_survey_out) fprintf(g_survey_out, "EXAMPLE-BOTH-REFUSE %s :: %s\n", desc.c_str(), lerr.c_str()); }
    else ctx.nontrivial();   // a near miss refused by both
  }
}
