// C03 — Every label reference resolves to the position where the label was bound.
// C04 — Relocated code addresses its absolute targets correctly at any base address.   (same harness, --mode=c04)
//
// Case: cfg = [arch(0 x64,1 x86,2 a64), nsections, nlabels, base_sel, base_mode, flags, spread (user-defined section offsets)]   ops = program steps (see decode below).
// Oracle: a reference layout model owned by the harness (where each item and each label lies, from offset() before/after every call and
// the section offsets after flatten()) + independent field decoders written from the architecture manuals. For every reference site the
// decoded displacement / address must designate exactly label position + addend (C03) or the requested absolute target (C04); a
// reference that cannot be represented must have produced an error or stay counted as unresolved.
#define VH_MAIN
#include "vh.h"

#include <asmjit/core.h>
#include <asmjit/x86.h>
#include <asmjit/a64.h>

using namespace asmjit;

static bool g_c04 = false;
const char* vh_property() { return g_c04 ? "C04" : "C03"; }
void vh_init(const vh::Opts& o, vh::Ctx&) { auto it = o.kv.find("mode"); g_c04 = it != o.kv.end() && it->second == "c04"; }

enum Arch3 { A_X64 = 0, A_X86 = 1, A_A64 = 2 };

// reference kinds
enum RK {
  // x86 pc-relative
  X_JMP, X_JMP_SHORT, X_JCC, X_JCC_SHORT, X_CALL, X_JECXZ, X_LOOP, X_LEA, X_MEM_IMM8, X_MEM_IMM32,
  // a64 pc-relative
  R_B, R_BL, R_BCOND, R_CBZ, R_TBZ, R_ADR, R_LDR_LIT,
  // data
  D_EMBED_LABEL, D_DELTA,
  X_XBEGIN,         // x86: xbegin rel32 (C7 F8 rel32) - the only relative branch with a ModRM byte, one byte longer than jmp/call rel32
  // absolute (C04)
  X_ABS_MEM,        // x86: mov eax, [abs]   (32-bit: disp32; 64-bit: abs addressing or rip-relative chosen by AsmJit)
  X_ABS_JMP, X_ABS_CALL,    // jmp/call imm64 absolute target (rel32 or address table)
  X_MOVABS,         // mov rax, [abs64] (moffs)
  R_ABS_B, R_ABS_BL, // a64 b/bl to an absolute address
  X_ABS_MEM_IMM8, X_ABS_MEM_IMM32   // x86: add dword [abs], imm8 / imm32 - the immediate follows the address field (RIP = end of the instruction)
};

struct LabelM { bool bound = false; uint32_t sec = 0; uint64_t off = 0; };

struct Ref {
  RK kind; uint32_t sec; size_t off0, off1;  // site = [off0, off1) in section `sec`
  int label = -1, label2 = -1; int64_t addend = 0; int size = 0;
  uint64_t abs_target = 0; int seg = 0; bool delta_immediate = false;
  std::string what;
};

static const int64_t kPads[] = {0, 1, 2, 3, 5, 8, 16, 100, 118, 119, 120, 121, 122, 123, 124, 125, 126, 127, 128, 129, 130, 131, 200, 250, 256, 1000,
                                32740, 32752, 32756, 32760, 32764, 32768, 32772, 40000, 1048560, 1048568, 1048572, 1048576, 1048580, 1100000};
// gaps for user-defined section layouts (cfg[6]); the x86-32 address space only admits the small ones
static const uint64_t kGaps[] = {0x7FFFFFC0ull, 0x7FFFFFF8ull, 0x80000000ull, 0x80000010ull, 0xFFFFFFE0ull, 0x100000000ull, 0x100000040ull, 0x200000000ull,
                                 0x7FFFFE0ull, 0x8000000ull, 0x8000020ull, 0xFFFF0ull, 0x100000ull, 0x100010ull, 0x7FF8ull, 0x8000ull};
static const int kNPads = int(sizeof(kPads) / sizeof(kPads[0]));
static const uint64_t kBases[] = {0x1000, 0x10000, 0x7FFF0000ull, 0x80000000ull, 0xFFFF0000ull, 0x100000000ull, 0x7FFFFFFF0000ull, 0x00007FFFFFFE0000ull,
                                  0x7FFFFFFFFFFF0000ull, 0x8000000000000000ull, 0xFFFFFFFFFFFE0000ull, 0x12345000};
static const uint64_t kAbsTargets[] = {0x0, 0x1000, 0x7FFFFFFF, 0x80000000ull, 0xFFFFFFF0ull, 0x100000000ull, 0x123456789000ull, 0x7FFFFFFFFFFFull,
                                       0xFFFFFFFF80000000ull, 0xFFFFFFFFFFFFFFF0ull, 0x40000000, 0x12345678};

rc::Gen<vh::Case> vh_gen(const vh::Opts&) {
  using namespace rc;
  auto opGen = gen::exec([]() -> vh::Op {
    int sel = *vh::irange<int>(0, 99);
    vh::Op op;
    if (sel < 26) { op = {0, *vh::irange<int>(0, 99) < 85 ? *vh::irange<int>(0, 25) : *vh::irange<int>(0, kNPads - 1)}; }
    else if (sel < 40) op = {1, *vh::irange<int>(0, 7)};
    else if (sel < 82) op = {2, *vh::irange<int>(0, 31), *vh::irange<int>(0, 7), *vh::irange<int>(0, 5), *vh::irange<int>(0, 3)};
    else if (sel < 88) op = {3, *vh::irange<int>(0, 2)};
    else if (sel < 92) op = {4, *vh::irange<int>(0, 6)};
    else if (sel < 96) op = {5, *vh::irange<int>(0, 7), *vh::irange<int>(0, 7), *vh::irange<int>(0, 3)};
    else op = {6, *vh::irange<int>(0, 7), *vh::irange<int>(0, 35), *vh::irange<int>(0, 20)};
    return op;
  });
  // cfg[6]: 0 = layout by flatten() (75%), otherwise the user lays the sections out with Section::set_offset(): gaps around the range
  // limits of the wide formats (rel32 +-2 GiB, 4 GiB, b/bl +-128 MiB, b.cond/adr +-1 MiB, tbz +-32 KiB) between consecutive sections.
  auto spreadGen = gen::exec([]() -> int { return *vh::irange<int>(0, 99) < 75 ? 0 : *vh::irange<int>(1, 4095); });
  return gen::apply([](int arch, int nsec, int nlab, int bsel, int bmode, int flags, int spread, std::vector<vh::Op> ops) {
      vh::Case c; c.cfg = {arch, nsec, nlab, bsel, bmode, flags, spread}; c.ops = std::move(ops); return c; },
    vh::irange<int>(0, 2), vh::irange<int>(1, 3), vh::irange<int>(1, 8), vh::irange<int>(0, 11), vh::irange<int>(0, 1), vh::irange<int>(0, 7), spreadGen,
    gen::container<std::vector<vh::Op>>(opGen));
}

static std::string hexs(const uint8_t* p, size_t n) { std::string s; char b[4]; for (size_t i = 0; i < n && i < 16; i++) { snprintf(b, sizeof b, "%02x", p[i]); s += b; } return s; }
static int64_t rd_le(const uint8_t* p, int n, bool sign) { uint64_t v = 0; for (int i = 0; i < n; i++) v |= uint64_t(p[i]) << (8 * i); if (sign && n < 8 && (v >> (8 * n - 1)) & 1) v |= ~uint64_t(0) << (8 * n); return int64_t(v); }

// ---- independent mini decoders (SDM / ARM ARM) -----------------------------------------------------------------------------
struct XDec { bool ok = false; size_t len = 0; int disp_size = 0; int64_t disp = 0; size_t disp_pos = 0; const char* form = ""; bool abs32 = false; bool rip = false; int trailing = 0; bool moffs = false; uint64_t abs64 = 0; bool indirect_rip = false; };

// Decodes the reference instruction at p according to the kind the harness emitted (opcode classes only).
static XDec xdecode(RK kind, const uint8_t* p, size_t n, int mode) {
  XDec d; size_t i = 0;
  bool p67 = false, p66 = false; int seg = 0;
  for (;;) { if (i >= n) return d; uint8_t b = p[i]; if (b == 0x67) p67 = true; else if (b == 0x66) p66 = true; else if (b == 0x64 || b == 0x65 || b == 0x2E || b == 0x3E || b == 0x26 || b == 0x36) seg = b; else break; i++; }
  (void)p66; (void)seg;
  bool rexw = false;
  if (mode == 64 && i < n && (p[i] & 0xF0) == 0x40) { rexw = (p[i] & 8) != 0; i++; }
  if (i >= n) return d;
  uint8_t op = p[i++];
  auto rel = [&](int sz, const char* form) { if (i + size_t(sz) > n) return; d.disp_pos = i; d.disp = rd_le(p + i, sz, true); d.disp_size = sz; i += size_t(sz); d.len = i; d.form = form; d.ok = true; };
  switch (kind) {
    case X_JMP: case X_JMP_SHORT: case X_ABS_JMP:
      if (op == 0xEB) rel(1, "jmp rel8"); else if (op == 0xE9) rel(4, "jmp rel32");
      else if (op == 0xFF && i < n && p[i] == 0x25) { i++; if (mode == 64) { d.indirect_rip = true; rel(4, "jmp [rip+slot]"); } }
      break;
    case X_CALL: case X_ABS_CALL:
      if (op == 0xE8) rel(4, "call rel32");
      else if (op == 0xFF && i < n && p[i] == 0x15) { i++; if (mode == 64) { d.indirect_rip = true; rel(4, "call [rip+slot]"); } }
      break;
    case X_JCC: case X_JCC_SHORT:
      if ((op & 0xF0) == 0x70) rel(1, "jcc rel8"); else if (op == 0x0F && i < n && (p[i] & 0xF0) == 0x80) { i++; rel(4, "jcc rel32"); }
      break;
    case X_XBEGIN: if (op == 0xC7 && i < n && p[i] == 0xF8) { i++; rel(4, "xbegin rel32"); } break;
    case X_JECXZ: if (op == 0xE3) rel(1, "jecxz rel8"); break;
    case X_LOOP: if (op == 0xE2) rel(1, "loop rel8"); break;
    case X_LEA: case X_MEM_IMM8: case X_MEM_IMM32: case X_ABS_MEM: case X_ABS_MEM_IMM8: case X_ABS_MEM_IMM32: {
      // opcode then ModRM with mod=00 rm=101 (disp32: rip-relative in 64-bit mode, absolute in 32-bit mode) or SIB absolute (rm=100, base=101, index=100)
      bool okop = (kind == X_LEA && op == 0x8D) || (kind == X_MEM_IMM8 && op == 0x83) || (kind == X_MEM_IMM32 && op == 0x81) || (kind == X_ABS_MEM && (op == 0x8B || op == 0xA1)) ||
                  (kind == X_ABS_MEM_IMM8 && op == 0x83) || (kind == X_ABS_MEM_IMM32 && op == 0x81);
      if (!okop || i >= n) break;
      if (kind == X_ABS_MEM && op == 0xA1) { int asz = mode == 64 ? (p67 ? 4 : 8) : (p67 ? 2 : 4); if (i + size_t(asz) > n) break; d.moffs = true; d.abs64 = uint64_t(rd_le(p + i, asz, false)); d.disp_pos = i; d.disp_size = asz; i += size_t(asz); d.len = i; d.form = "moffs"; d.ok = true; break; }
      uint8_t modrm = p[i++];
      if ((modrm & 0xC7) == 0x05) { d.rip = mode == 64; d.abs32 = mode == 32; }
      else if ((modrm & 0xC7) == 0x04 && i < n && p[i] == 0x25) { i++; d.abs32 = true; }
      else break;
      d.trailing = (kind == X_MEM_IMM8 || kind == X_ABS_MEM_IMM8) ? 1 : (kind == X_MEM_IMM32 || kind == X_ABS_MEM_IMM32) ? 4 : 0;
      if (i + 4 + size_t(d.trailing) > n) break;
      d.disp_pos = i; d.disp = rd_le(p + i, 4, true); d.disp_size = 4; i += 4 + size_t(d.trailing); d.len = i; d.form = d.rip ? "[rip+disp32]" : "[abs32]"; d.ok = true;
      if (d.abs32 && p67 && mode == 64) d.disp = int64_t(uint32_t(d.disp));   // address-size prefix: zero-extended 32-bit address
      (void)rexw;
      break;
    }
    case X_MOVABS:
      if (op == 0xA1 || op == 0x8B) { return xdecode(X_ABS_MEM, p, n, mode); }
      break;
    default: break;
  }
  return d;
}

struct ADec { bool ok = false; int64_t off = 0; const char* form = ""; int bits = 0; };
static ADec adecode(RK kind, uint32_t w) {
  ADec d;
  auto sx = [](uint64_t v, int bits) { return int64_t(v << (64 - bits)) >> (64 - bits); };
  switch (kind) {
    case R_B: case R_ABS_B: if ((w & 0xFC000000u) == 0x14000000u) { d.ok = true; d.off = sx(w & 0x3FFFFFF, 26) * 4; d.form = "b imm26"; d.bits = 26; } break;
    case R_BL: case R_ABS_BL: if ((w & 0xFC000000u) == 0x94000000u) { d.ok = true; d.off = sx(w & 0x3FFFFFF, 26) * 4; d.form = "bl imm26"; d.bits = 26; } break;
    case R_BCOND: if ((w & 0xFF000010u) == 0x54000000u) { d.ok = true; d.off = sx((w >> 5) & 0x7FFFF, 19) * 4; d.form = "b.cond imm19"; d.bits = 19; } break;
    case R_CBZ: if ((w & 0x7E000000u) == 0x34000000u) { d.ok = true; d.off = sx((w >> 5) & 0x7FFFF, 19) * 4; d.form = "cbz imm19"; d.bits = 19; } break;
    case R_TBZ: if ((w & 0x7E000000u) == 0x36000000u) { d.ok = true; d.off = sx((w >> 5) & 0x3FFF, 14) * 4; d.form = "tbz imm14"; d.bits = 14; } break;
    case R_ADR: if ((w & 0x9F000000u) == 0x10000000u) { d.ok = true; d.off = sx((((w >> 5) & 0x7FFFF) << 2) | ((w >> 29) & 3), 21); d.form = "adr imm21"; d.bits = 21; } break;
    case R_LDR_LIT: if ((w & 0x3B000000u) == 0x18000000u) { d.ok = true; d.off = sx((w >> 5) & 0x7FFFF, 19) * 4; d.form = "ldr literal imm19"; d.bits = 19; } break;
    default: break;
  }
  return d;
}

static const char* rk_name(RK k) {
  static const char* n[] = {"jmp", "jmp short", "jcc", "jcc short", "call", "jecxz", "loop", "lea", "mem+imm8", "mem+imm32", "b", "bl", "b.cond", "cbz", "tbz", "adr", "ldr-literal",
                            "embed_label", "embed_label_delta", "xbegin", "abs-mem", "abs-jmp", "abs-call", "movabs", "abs-b", "abs-bl", "abs-mem+imm8", "abs-mem+imm32"};
  return n[int(k)];
}

void vh_run(const vh::Case& c, vh::Ctx& ctx) {
  if (c.cfg.size() < 6) return;
  int arch = int(uint64_t(c.cfg[0]) % 3);
  int nsec = 1 + int(uint64_t(c.cfg[1] - 1) % 3);
  int nlab = 1 + int(uint64_t(c.cfg[2] - 1) % 8);
  uint64_t base = kBases[uint64_t(c.cfg[3]) % (sizeof(kBases) / sizeof(kBases[0]))];
  bool base_at_init = (c.cfg[4] & 1) != 0;
  int flags = int(c.cfg[5]);
  bool leave_unbound = (flags & 1) != 0 && !g_c04;
  int mode = arch == A_X86 ? 32 : 64;
  if (arch == A_X86) base &= 0xFFFFFFFFull;
  if (arch == A_A64) base &= ~uint64_t(3);
  const char* an = arch == A_X64 ? "x64" : arch == A_X86 ? "x86" : "a64";

  Environment env(arch == A_X64 ? Arch::kX64 : arch == A_X86 ? Arch::kX86 : Arch::kAArch64);
  CodeHolder code;
  if (base_at_init && g_c04) code.init(env, base); else code.init(env);
  x86::Assembler xa; a64::Assembler ra;
  BaseAssembler* as = arch == A_A64 ? static_cast<BaseAssembler*>(&ra) : static_cast<BaseAssembler*>(&xa);
  code.attach(as);

  std::vector<Section*> secs; secs.push_back(code.text_section());
  for (int i = 1; i < nsec; i++) { Section* s = nullptr; char nm[16]; snprintf(nm, sizeof nm, ".s%d", i); code.new_section(Out(s), nm, SIZE_MAX, SectionFlags::kNone, 8, i); secs.push_back(s); }
  std::vector<Label> labels; std::vector<LabelM> lm; lm.resize(size_t(nlab));
  for (int i = 0; i < nlab; i++) labels.push_back(as->new_label());
  std::vector<Ref> refs;
  uint32_t cur = 0;
  std::string trace;
  size_t failed_calls = 0;
  size_t expected_pending_min = 0; (void)expected_pending_min;

  auto off = [&]() { return as->offset(); };
  auto note = [&](const std::string& s) { if (trace.size() < 1500) { trace += s; trace += "; "; } };
  auto pad = [&](int64_t n) {
    if (arch == A_A64) n &= ~int64_t(3);
    if (n <= 0) return;
    uint8_t z = 0; as->embed_data_array(TypeId::kUInt8, &z, 1, size_t(n));
    note("pad " + std::to_string(n));
  };
  auto bind = [&](int l) {
    if (lm[size_t(l)].bound) return;
    Error e = as->bind(labels[size_t(l)]);
    // bind may report kInvalidDisplacement when a pending short reference does not reach: the label is bound nevertheless
    lm[size_t(l)].bound = code.is_label_bound(labels[size_t(l)]);
    if (lm[size_t(l)].bound) { lm[size_t(l)].sec = cur; lm[size_t(l)].off = off(); }
    if (e != Error::kOk) { failed_calls++; ctx.cls("bind_reported_error"); }
    note("bind L" + std::to_string(l));
  };

  for (const vh::Op& op : c.ops) {
    if (op.empty()) continue;
    int k = int(op[0]);
    auto arg = [&](size_t i) -> int64_t { return i < op.size() ? op[i] : 0; };
    if (k == 0) pad(kPads[uint64_t(arg(1)) % uint64_t(kNPads)]);
    else if (k == 1) bind(int(uint64_t(arg(1)) % uint64_t(nlab)));
    else if (k == 3) { cur = uint32_t(uint64_t(arg(1)) % uint64_t(nsec)); as->section(secs[cur]); note("section " + std::to_string(cur)); }
    else if (k == 4) { if (arch != A_A64 || arg(1) >= 2) as->align(AlignMode::kCode, 1u << (uint64_t(arg(1)) % 7)); note("align"); }
    else if (k == 2 || k == 5) {
      Ref r; r.sec = cur; r.off0 = off();
      r.label = int(uint64_t(arg(2)) % uint64_t(nlab));
      static const int64_t addends[] = {0, 1, 4, -4, 100, -1};
      r.addend = addends[uint64_t(arg(3)) % 6];
      Error e = Error::kOk;
      // Known finding (excluded by construction while listed): a reference to a label that is already bound in ANOTHER section reaches
      // CodeHolder::new_fixup(), which asserts !le.is_bound() (release builds overwrite the label's offset with the fixup pointer).
      auto bound_elsewhere = [&](int l) { return lm[size_t(l)].bound && lm[size_t(l)].sec != cur; };
      bool hits_known = k == 5 ? false : bound_elsewhere(r.label);
      if (hits_known && ctx.is_known("reference-to-label-bound-in-other-section")) { ctx.known_excluded("reference-to-label-bound-in-other-section"); continue; }
      const Label& L = labels[size_t(r.label)];
      if (k == 5) {
        r.kind = D_DELTA; r.label = int(uint64_t(arg(1)) % uint64_t(nlab)); r.label2 = int(uint64_t(arg(2)) % uint64_t(nlab)); r.size = 1 << (uint64_t(arg(3)) % 4); r.addend = 0;
        if (arch == A_A64 && r.size < 4) r.size = 4;
        r.delta_immediate = lm[size_t(r.label)].bound && lm[size_t(r.label2)].bound && lm[size_t(r.label)].sec == lm[size_t(r.label2)].sec;
        e = as->embed_label_delta(labels[size_t(r.label)], labels[size_t(r.label2)], size_t(r.size));
      } else if (arch != A_A64) {
        static const RK xk[] = {X_JMP, X_JMP_SHORT, X_JCC, X_JCC_SHORT, X_CALL, X_JECXZ, X_LOOP, X_LEA, X_MEM_IMM8, X_MEM_IMM32, D_EMBED_LABEL, X_JMP, X_JCC, X_LEA};
        r.kind = xk[uint64_t(arg(1)) % 14];
        // prefixed variants (arg 4 == 3): a prefix byte is emitted before the opcode, so the displacement of a reference to an already
        // bound label must still be relative to the END of the whole instruction: 67h (jecxz/loop with the other counter width),
        // REX (rex().jmp/call in 64-bit mode), 3E/2E branch hints (taken()/not_taken() with EncodingOptions::kPredictedJumps)
        bool prefixed = (uint64_t(arg(4)) % 4) == 3;
        // xbegin takes the place of a third of the calls (selected by arg 4 so that stored cases of the other kinds keep their meaning)
        if (r.kind == X_CALL && (uint64_t(arg(4)) % 4) == 2) r.kind = X_XBEGIN;
        if (prefixed && (r.kind == X_JCC || r.kind == X_JCC_SHORT)) xa.add_encoding_options(EncodingOptions::kPredictedJumps);
        if (prefixed) ctx.cls("x86_branch_with_prefix_byte");
        switch (r.kind) {
          case X_JMP: if (prefixed && mode == 64) { r.addend = 0; e = xa.rex().jmp(L); break; }
                      r.addend = 0; e = xa.jmp(L); break;
          case X_JMP_SHORT: r.addend = 0; e = xa.short_().jmp(L); break;
          case X_JCC: r.addend = 0; e = prefixed ? xa.taken().jnz(L) : xa.jnz(L); break;
          case X_JCC_SHORT: r.addend = 0; e = prefixed ? xa.not_taken().short_().jb(L) : xa.short_().jb(L); break;
          case X_CALL: r.addend = 0; e = (prefixed && mode == 64) ? xa.rex().call(L) : xa.call(L); break;
          case X_XBEGIN: r.addend = 0; ctx.cls("x86_xbegin_reference"); e = xa.xbegin(L); break;
          case X_JECXZ: r.addend = 0; e = prefixed ? (mode == 64 ? xa.jecxz(x86::ecx, L) : xa.jecxz(x86::cx, L)) : (mode == 64 ? xa.jecxz(x86::rcx, L) : xa.jecxz(x86::ecx, L)); break;
          case X_LOOP: r.addend = 0; e = prefixed ? (mode == 64 ? xa.loop(x86::ecx, L) : xa.loop(x86::cx, L)) : (mode == 64 ? xa.loop(x86::rcx, L) : xa.loop(x86::ecx, L)); break;
          case X_LEA: e = mode == 64 ? xa.lea(x86::rax, x86::ptr(L, int32_t(r.addend))) : xa.lea(x86::eax, x86::ptr(L, int32_t(r.addend))); break;
          case X_MEM_IMM8: e = xa.add(x86::dword_ptr(L, int32_t(r.addend)), 5); break;
          case X_MEM_IMM32: e = xa.add(x86::dword_ptr(L, int32_t(r.addend)), 0x12345678); break;
          default: r.kind = D_EMBED_LABEL; r.addend = 0; r.size = mode == 64 ? 8 : 4; e = as->embed_label(L, size_t(r.size)); break;
        }
      } else {
        static const RK ak[] = {R_B, R_BL, R_BCOND, R_CBZ, R_TBZ, R_ADR, R_LDR_LIT, D_EMBED_LABEL, R_B, R_BCOND, R_TBZ};
        r.kind = ak[uint64_t(arg(1)) % 11]; r.addend = 0;
        switch (r.kind) {
          case R_B: e = ra.b(L); break;
          case R_BL: e = ra.bl(L); break;
          case R_BCOND: e = ra.b_ne(L); break;
          case R_CBZ: e = ra.cbz(a64::x3, L); break;
          case R_TBZ: e = ra.tbz(a64::w3, 5, L); break;
          case R_ADR: e = ra.adr(a64::x1, L); break;
          case R_LDR_LIT: e = ra.ldr(a64::x2, a64::ptr(L)); break;
          default: r.kind = D_EMBED_LABEL; r.size = 8; e = as->embed_label(L, 8); break;
        }
      }
      r.off1 = off();
      r.what = std::string(rk_name(r.kind)) + " L" + std::to_string(r.label) + (r.kind == D_DELTA ? "-L" + std::to_string(r.label2) + "/" + std::to_string(r.size) : r.addend ? (r.addend > 0 ? "+" : "") + std::to_string(r.addend) : "");
      note(r.what + (e != Error::kOk ? std::string(" =>ERR ") + DebugUtils::error_as_string(e) : ""));
      if (e != Error::kOk) {
        failed_calls++;
        ctx.cls(std::string("emit_error_") + rk_name(r.kind));
        VH_CHECK(ctx, r.off1 == r.off0, "bytes-on-failed-reference", "%s: %s failed (%s) but appended %zu bytes", an, r.what.c_str(), DebugUtils::error_as_string(e), r.off1 - r.off0);
        // an error is only acceptable when the reference is not representable: backward rel8 out of range, or an unsupported size
        bool bound_same = lm[size_t(r.label)].bound && lm[size_t(r.label)].sec == cur;
        bool short_kind = r.kind == X_JMP_SHORT || r.kind == X_JCC_SHORT || r.kind == X_JECXZ || r.kind == X_LOOP;
        bool excusable = false;
        if (short_kind && bound_same) { int64_t d = int64_t(lm[size_t(r.label)].off) - int64_t(r.off0); excusable = d < -118; }     // beyond rel8 for sure (instruction is 2..4 bytes)
        if (short_kind && lm[size_t(r.label)].bound && lm[size_t(r.label)].sec != cur) excusable = true;                             // rel8 across sections cannot be promised
        if (arch == A_A64 && bound_same) {
          int64_t d = int64_t(lm[size_t(r.label)].off) - int64_t(r.off0);
          int64_t lim = r.kind == R_TBZ ? 32768 : (r.kind == R_B || r.kind == R_BL) ? (int64_t(1) << 27) : (int64_t(1) << 20);
          excusable = d < -lim;
        }
        if (r.kind == D_DELTA) {
          const LabelM& a = lm[size_t(r.label)]; const LabelM& b = lm[size_t(r.label2)];
          if (a.bound && b.bound && a.sec == b.sec && r.size < 8) { int64_t d = int64_t(a.off) - int64_t(b.off); int64_t lim = int64_t(1) << (8 * r.size - 1); excusable = d >= lim || d < -lim; }
        }
        if (!excusable) ctx.fail_unless_known(std::string("spurious-error:") + an + ":" + rk_name(r.kind), std::string(an) + ": " + r.what + " returned " + DebugUtils::error_as_string(e) + " although the reference is representable; program: " + trace);
      } else {
        VH_CHECK(ctx, r.off1 > r.off0, "no-bytes-on-success", "%s: %s succeeded but appended nothing", an, r.what.c_str());
        refs.push_back(r);
      }
    }
    else if (k == 6 && g_c04) {
      Ref r; r.sec = cur; r.off0 = off();
      {
        // targets 0..11: fixed addresses; 12..35: addresses at the edge of the rel32 range seen from this very site (exact for sites in
        // .text, whose offset in the image is 0; near the edge for other sections): site -+ 2 GiB with deltas -2..+9 around it
        uint64_t ti = uint64_t(arg(2)) % 36;
        if (ti < 12 || arch == A_A64 || mode == 32) r.abs_target = kAbsTargets[ti % 12];
        else { uint64_t k2 = ti - 12; int64_t delta = int64_t(k2 % 12) - 2; bool neg = k2 >= 12; r.abs_target = base + uint64_t(off()) + uint64_t(neg ? -(int64_t(1) << 31) + delta : (int64_t(1) << 31) + delta); ctx.cls("abs_target_at_rel32_edge"); }
      }
      int sel = int(uint64_t(arg(1)) % 8);
      Error e = Error::kOk;
      if (arch == A_A64) {
        r.abs_target &= ~uint64_t(3);
        r.kind = (sel & 1) ? R_ABS_BL : R_ABS_B;
        e = r.kind == R_ABS_B ? ra.b(Imm(r.abs_target)) : ra.bl(Imm(r.abs_target));
      } else {
        if (mode == 32) r.abs_target &= 0xFFFFFFFFull;
        switch (sel) {
          case 0: case 1: r.kind = X_ABS_JMP; e = xa.jmp(Imm(r.abs_target)); break;
          case 2: case 3: r.kind = X_ABS_CALL; e = xa.call(Imm(r.abs_target)); break;
          case 4: r.kind = X_MOVABS; if (mode == 64) { x86::Mem m = x86::ptr_abs(r.abs_target); m.set_size(8); e = xa.mov(x86::rax, m); } else { x86::Mem m = x86::ptr_abs(r.abs_target); m.set_size(4); e = xa.mov(x86::eax, m); } break;
          default: {
            r.kind = X_ABS_MEM;
            x86::Mem m = x86::ptr(r.abs_target); m.set_size(4);
            int at = int(uint64_t(arg(3)) % 7);
            if (at == 1) m.set_addr_abs(); else if (at == 2 && mode == 64) m.set_addr_rel();
            if (at == 3) { m.set_segment(x86::fs); r.seg = 5; } else if (at == 4) { m.set_segment(x86::gs); r.seg = 6; }
            int immk = int(uint64_t(arg(3)) / 7 % 3);
            if (immk == 1) { r.kind = X_ABS_MEM_IMM8; e = xa.add(m, 5); }
            else if (immk == 2) { r.kind = X_ABS_MEM_IMM32; e = xa.add(m, 0x12345678); }
            else e = xa.mov(x86::ecx, m);
            break;
          }
        }
      }
      r.off1 = off();
      char tb[64]; snprintf(tb, sizeof tb, "%s 0x%llx", rk_name(r.kind), (unsigned long long)r.abs_target); r.what = tb;
      note(r.what + (e != Error::kOk ? std::string(" =>ERR ") + DebugUtils::error_as_string(e) : ""));
      if (e != Error::kOk) { failed_calls++; ctx.cls(std::string("emit_error_") + rk_name(r.kind)); VH_CHECK(ctx, r.off1 == r.off0, "bytes-on-failed-reference", "%s: %s failed but appended bytes", an, r.what.c_str()); }
      else refs.push_back(r);
    }
  }
  if (!leave_unbound) for (int l = 0; l < nlab; l++) bind(l);

  // ---- layout, resolution, relocation ----
  Error ef = code.flatten();
  VH_CHECK(ctx, ef == Error::kOk, "flatten-failed", "%s: flatten() -> %s", an, DebugUtils::error_as_string(ef));
  // user-defined layout: keep the order, open large gaps between consecutive sections (all sections, incl. a generated .addrtab)
  int spread = (c.cfg.size() > 6 && !g_c04 && nsec >= 2) ? int(uint64_t(c.cfg[6]) % 4096) : 0;
  bool has_abs_ref = false;
  for (const Ref& r : refs) if (r.kind >= X_ABS_MEM) has_abs_ref = true;
  if (has_abs_ref) spread = 0;
  if (spread) {
    uint64_t pos = 0; int i = 0;
    for (Section* s : code.sections_by_order()) {
      if (i > 0 && i < nsec) {
        int sel = (spread >> (4 * (i - 1))) & 15;
        uint64_t gap = kGaps[sel];
        if (arch == A_X86 && gap >= 0x10000000ull) gap = kGaps[8 + (sel & 7)] & 0xFFFFFFull;
        pos += gap;
      }
      uint64_t al = s->alignment() ? s->alignment() : 1;
      pos = (pos + al - 1) / al * al;
      s->set_offset(pos);
      pos += s->real_size();
      i++;
    }
    ctx.cls("layout_user_defined_spread");
  }
  Error er = code.resolve_cross_section_fixups();
  if (er != Error::kOk) ctx.cls("resolve_reported_error");
  size_t unresolved = code.unresolved_fixup_count();
  Error el = Error::kOk;
  bool relocated = false;
  if (unresolved == 0 || g_c04) { CodeHolder::RelocationSummary sum; el = code.relocate_to_base(base, &sum); relocated = el == Error::kOk; if (el != Error::kOk) ctx.cls("relocate_reported_error"); }
  size_t csz = spread ? 0 : code.code_size();
  std::vector<uint8_t> img(csz + 16, 0xCC);
  if (!spread) {
    Error ec = code.copy_flattened_data(img.data(), csz, CopySectionFlags::kPadSectionBuffer);
    VH_CHECK(ctx, ec == Error::kOk, "copy-failed", "%s: copy_flattened_data -> %s", an, DebugUtils::error_as_string(ec));
  }
  auto sec_off = [&](uint32_t s) { return secs[s]->offset(); };
  auto label_addr = [&](int l) -> uint64_t { return sec_off(lm[size_t(l)].sec) + lm[size_t(l)].off; };

  // ---- judge every reference ----
  size_t expect_unresolved = 0, judged = 0, fwd = 0, bwd = 0, cross = 0, near_limit = 0, reloc_judged = 0;
  bool reloc_may_fail = false;
  bool reloc_should_fail = false;       // phase 0 finds out whether some reference cannot be represented at relocation time
  for (int phase = 0; phase < 2; phase++) {
  if (phase == 1) {
    expect_unresolved = 0; judged = 0; fwd = bwd = cross = near_limit = reloc_judged = 0;
    if (g_c04 && el != Error::kOk && !reloc_should_fail && !reloc_may_fail && unresolved == 0)
      ctx.fail_unless_known(std::string("relocate-failed-without-cause:") + an, std::string(an) + ": relocate_to_base(base=" + std::to_string(base) + ") -> " + DebugUtils::error_as_string(el) + " although every reference is representable; program: " + trace);
  }
  auto FAIL = [&](const std::string& key, const std::string& msg) { if (phase == 1) ctx.fail_unless_known(key, msg); };
  auto CLS = [&](const char* name) { if (phase == 1) ctx.cls(name); };
  for (const Ref& r : refs) {
    uint64_t site = sec_off(r.sec) + r.off0;
    const uint8_t* p = spread ? secs[r.sec]->buffer().data() + r.off0 : img.data() + site;      // a spread image is too large to materialise
    size_t plen = r.off1 - r.off0;
    std::string where = std::string(an) + ": " + r.what + " at " + std::to_string(site) + " [" + hexs(p, plen) + "]";
    bool is_abs_kind = r.kind >= X_ABS_MEM;
    if (!is_abs_kind && r.kind != D_DELTA && !lm[size_t(r.label)].bound) { expect_unresolved++; CLS("ref_to_unbound_label"); continue; }
    if (r.kind == D_DELTA) {
      if (!lm[size_t(r.label)].bound || !lm[size_t(r.label2)].bound) { CLS("delta_with_unbound_label"); continue; }
      int64_t want = int64_t(label_addr(r.label)) - int64_t(label_addr(r.label2));
      int64_t lim = r.size >= 8 ? INT64_MAX : (int64_t(1) << (8 * r.size - 1));
      bool fits = r.size >= 8 || (want < lim && want >= -lim);
      if (!fits && !r.delta_immediate) reloc_should_fail = true;
      if (!relocated && !r.delta_immediate) { CLS("delta_not_relocated"); continue; }      // deferred (expression) deltas are written by relocate_to_base()
      int64_t got = rd_le(p, r.size, true);
      if (fits) { if (got != want && (relocated || true)) FAIL(std::string("delta-wrong-value:") + an, where + " :: stored " + std::to_string(got) + ", labels are " + std::to_string(want) + " apart; program: " + trace); judged++; }
      else {
        if (!r.delta_immediate) reloc_should_fail = true;
        // not representable: some call must have reported it (relocate_to_base for expression relocations); silent truncation is the violation
        if (failed_calls == 0 && el == Error::kOk && er == Error::kOk)
          FAIL(std::string("delta-silently-truncated:") + an, where + " :: labels are " + std::to_string(want) + " apart, which does not fit " + std::to_string(r.size) + " byte(s); stored " + std::to_string(got) + " and every call returned kOk; program: " + trace);
        CLS("delta_unrepresentable_reported");
      }
      continue;
    }
    if (r.kind == D_EMBED_LABEL) {
      if (r.size == 4 && (base + label_addr(r.label)) > 0xFFFFFFFFull) reloc_may_fail = true;      // wraps around the 32-bit address space
      if (!relocated) { CLS("embed_label_not_relocated"); continue; }
      uint64_t want = base + label_addr(r.label);
      if (r.size == 4) want &= 0xFFFFFFFFull;
      uint64_t got = uint64_t(rd_le(p, r.size, false));
      if (got != want) FAIL(std::string("embed-label-wrong-address:") + an, where + " :: stored 0x" + std::to_string(got) + ", label is at base+" + std::to_string(label_addr(r.label)) + " = " + std::to_string(want) + "; program: " + trace);
      judged++; reloc_judged++;
      continue;
    }
    uint64_t target = is_abs_kind ? r.abs_target : label_addr(r.label) + uint64_t(r.addend);
    if (!is_abs_kind) { if (lm[size_t(r.label)].sec != r.sec) cross++; else if (label_addr(r.label) > site) fwd++; else bwd++; }
    if (arch == A_A64) {
      uint32_t w = uint32_t(rd_le(p, 4, false));
      ADec d = adecode(r.kind, w);
      if (!d.ok) { FAIL(std::string("site-not-decodable:") + an + ":" + rk_name(r.kind), where + " :: not the expected instruction class; program: " + trace); continue; }
      int64_t need = is_abs_kind ? int64_t(target - (base + site)) : int64_t(target) - int64_t(site);
      int64_t lim = int64_t(1) << (d.bits + 1);    // field counts words: range = +-2^(bits-1)*4
      bool fits = (need % 4 == 0 || r.kind == R_ADR) && need < lim && need >= -lim;
      if (r.kind == R_ADR) { lim = int64_t(1) << 20; fits = need < lim && need >= -lim; }
      if (llabs(need) > lim - 64 && llabs(need) < lim + 64) near_limit++;
      if (is_abs_kind && !fits) reloc_should_fail = true;
      if (is_abs_kind && !relocated) { CLS("abs_not_relocated"); continue; }
      if (fits) { if (d.off != need) FAIL(std::string("wrong-displacement:") + an + ":" + rk_name(r.kind), where + " :: " + d.form + " encodes " + std::to_string(d.off) + ", target is " + std::to_string(need) + " away; program: " + trace); judged++; }
      else { if (!is_abs_kind) expect_unresolved++; else if (el == Error::kOk) FAIL(std::string("unreachable-absolute-target-accepted:") + an, where + " :: target is " + std::to_string(need) + " bytes away (out of range) but relocate_to_base returned kOk"); CLS("unrepresentable_reference"); }
      continue;
    }
    XDec d = xdecode(r.kind, p, plen, mode);
    if (!d.ok || d.len != plen) { FAIL(std::string("site-not-decodable:") + an + ":" + rk_name(r.kind), where + " :: not the expected instruction (decoded length " + std::to_string(d.len) + " of " + std::to_string(plen) + "); program: " + trace); continue; }
    if (d.moffs) {
      if (d.abs64 != target) FAIL(std::string("wrong-absolute-address:") + an, where + " :: moffs address " + std::to_string(d.abs64) + " != " + std::to_string(target));
      judged++; continue;
    }
    if (d.abs32 && !is_abs_kind && mode == 32 && (base + target) > 0xFFFFFFFFull) reloc_may_fail = true;
    if (d.abs32) {
      // absolute disp32: designates the address itself (sign-extended in 64-bit mode unless an address-size prefix zero-extends it)
      uint64_t want = is_abs_kind ? target : base + target;
      if (!is_abs_kind && !relocated) { CLS("abs32_not_relocated"); continue; }
      uint64_t got = mode == 64 ? uint64_t(d.disp) : (uint64_t(d.disp) & 0xFFFFFFFFull);
      if (mode == 32) want &= 0xFFFFFFFFull;
      if (got != want) FAIL(std::string("wrong-absolute-address:") + an + ":" + rk_name(r.kind), where + " :: disp32 designates 0x" + std::to_string(got) + ", expected " + std::to_string(want) + "; program: " + trace);
      judged++; reloc_judged++; continue;
    }
    // pc-relative (rel8/rel32/rip)
    uint64_t ip_end = site + d.len;
    if (d.indirect_rip) {
      // jmp/call [rip+slot]: the 8 bytes at the slot must hold the absolute target
      if (!relocated) { CLS("abs_not_relocated"); continue; }
      uint64_t slot = ip_end + uint64_t(d.disp);
      if (slot + 8 > csz) { FAIL(std::string("address-table-slot-outside-image:") + an, where + " :: slot at " + std::to_string(slot) + " beyond code size " + std::to_string(csz)); continue; }
      uint64_t got = uint64_t(rd_le(img.data() + slot, 8, false));
      if (got != target) FAIL(std::string("address-table-slot-wrong:") + an, where + " :: slot at " + std::to_string(slot) + " holds " + std::to_string(got) + ", target " + std::to_string(target) + "; program: " + trace);
      CLS("address_table_slot_used"); judged++; reloc_judged++; continue;
    }
    int64_t need = is_abs_kind ? int64_t(target - (base + ip_end)) : int64_t(target) - int64_t(ip_end);
    if (mode == 32) need = int64_t(int32_t(uint32_t(need)));      // 32-bit address space wraps
    int64_t lim = d.disp_size == 1 ? 128 : (int64_t(1) << 31);
    bool fits = need < lim && need >= -lim;
    if (llabs(need) > 120 && llabs(need) < 136) near_limit++;
    if (d.disp_size != 1 && llabs(need) > (int64_t(1) << 31) - 4096 && llabs(need) < (int64_t(1) << 31) + 4096) { near_limit++; CLS("rel32_near_2gib_limit"); }
    if (d.disp_size != 1 && !fits) CLS("rel32_out_of_range");
    if (is_abs_kind && !fits) reloc_should_fail = true;
    if (is_abs_kind && !relocated) { CLS("abs_not_relocated"); continue; }
    if (fits) {
      if (d.disp != need) FAIL(std::string("wrong-displacement:") + an + ":" + rk_name(r.kind), where + " :: " + d.form + " encodes " + std::to_string(d.disp) + ", target is " + std::to_string(need) + " from the end of the instruction; program: " + trace);
      judged++; if (is_abs_kind) reloc_judged++;
    } else {
      if (!is_abs_kind) expect_unresolved++;
      // an absolute target that is NOT reachable with rel32 must not be encoded as a direct rel32 branch (the address table exists for it)
      else if (relocated && (r.kind == X_ABS_JMP || r.kind == X_ABS_CALL) && mode == 64)
        FAIL(std::string("abs-target-out-of-rel32-range-encoded-directly:") + an, where + " :: " + d.form + " with displacement " + std::to_string(d.disp) + " but the target is " + std::to_string(need) + " away; program: " + trace);
      CLS("unrepresentable_reference");
    }
  }
  }  // phase
  // the number of unresolved references is zero exactly when none remain
  if (!g_c04) {
    if ((unresolved == 0) != (expect_unresolved == 0))
      ctx.fail_unless_known(std::string("unresolved-count-zeroness:") + an, std::string(an) + ": unresolved_fixup_count() = " + std::to_string(unresolved) + " but the model has " + std::to_string(expect_unresolved) + " pending/unrepresentable references; program: " + trace);
    else if (unresolved != expect_unresolved) ctx.cls("unresolved_count_differs_from_model_nonzero");
  }
  ctx.cls(std::string("arch_") + an);
  ctx.cls("refs_judged", judged); ctx.cls("refs_forward", fwd); ctx.cls("refs_backward", bwd); ctx.cls("refs_cross_section", cross); ctx.cls("refs_near_limit", near_limit); ctx.cls("relocations_judged", reloc_judged);
  bool nontrivial = g_c04 ? reloc_judged >= 1 : ((fwd >= 1 && bwd >= 1) || cross >= 1 || near_limit >= 1);
  if (nontrivial && judged) { ctx.nontrivial(); if (ctx.want_sample()) ctx.sample(std::string(an) + (g_c04 ? " base=" + std::to_string(base) + (base_at_init ? " (at init)" : " (relocated)") : "") + ": " + trace.substr(0, 500)); }
}
