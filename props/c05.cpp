// C05 — Register allocation preserves the meaning of Compiler programs.
//
// Case: cfg = [ng, tysel, nv, nk, vmode, nargs, foldfrac, foldsel, pressure, nslots, inseed, initsel]
//       ops = [kind, f1, f2, ...]  (every field is reduced modulo its range: any integer vector decodes to a valid program)
// The harness owns a small IR: a tree of structured control flow (if / counted loop / two-entry cycle / annotated jump
// table / early return) whose leaves are micro-ops (MOp) with exact x86 semantics. The same tree is
//   (1) interpreted over unbounded virtual values  -> expected return value, memory image, call log
//   (2) compiled by x86::Compiler for x86-64, executed through the hostexec trampoline on >=32 inputs
//   (3) compiled again without the pressure dummies (metamorphic)
//   (4) compiled for x86-32 and (mapped to an a64 vocabulary) AArch64; post-RA node list checked structurally.
#define VH_MAIN
#include "vh.h"

#include <asmjit/core.h>
#include <asmjit/x86.h>
#include <asmjit/a64.h>

#include <immintrin.h>
#include <setjmp.h>
#include <signal.h>

#include "msc.h"

using namespace asmjit;

const char* vh_property() { return "C05"; }

namespace {

// ------------------------------------------------------------------------------------------------
// Buffer layout (one scratch buffer argument; every offset fits a disp32)
// ------------------------------------------------------------------------------------------------
constexpr int kMaxG = 200, kMaxV = 40, kMaxK = 10, kMaxP = 200, kMaxArgs = 11, kMaxSlots = 4;
constexpr int OFF_GIN = 0;       // 256 * 8
constexpr int OFF_VIN = 2048;    // 48 * 16
constexpr int OFF_KIN = 2816;    // 16 * 8
constexpr int OFF_PIN = 2944;    // 200 * 8 (pressure dummies, GP) ; vector dummies reuse OFF_VIN cyclically
constexpr int OFF_SCR = 4608;    // 256 bytes scratch window for generated loads/stores
constexpr int SCR_SIZE = 256;
constexpr int OFF_GOUT = 4864;   // 256 * 8
constexpr int OFF_VOUT = 6912;   // 48 * 16
constexpr int OFF_KOUT = 7680;   // 16 * 8
constexpr int OFF_RES2 = 7808;   // pressure accumulator (ignored by the metamorphic comparison)
constexpr int BUF_SIZE = 7872;
constexpr int BUF_GUARD = 64;

inline uint64_t mix64(uint64_t x) {
  x += 0x9E3779B97F4A7C15ull; x = (x ^ (x >> 30)) * 0xBF58476D1CE4E5B9ull; x = (x ^ (x >> 27)) * 0x94D049BB133111EBull; return x ^ (x >> 31);
}
inline uint64_t wmask(int w) { return w >= 64 ? ~0ull : ((1ull << w) - 1); }
inline int64_t sx(uint64_t v, int w) { if (w >= 64) return int64_t(v); uint64_t m = 1ull << (w - 1); v &= wmask(w); return int64_t((v ^ m) - m); }
inline int64_t fld(const vh::Op& op, size_t i) { return i < op.size() ? op[i] : 0; }
inline int umod(int64_t v, int n) { if (n <= 0) return 0; v %= n; if (v < 0) v += n; return int(v); }

// ------------------------------------------------------------------------------------------------
// IR
// ------------------------------------------------------------------------------------------------
enum { T_NONE, T_REG, T_IMM, T_MEM, T_VEC, T_MSK };
enum { MS_BUF, MS_SLOT, MS_CONSTL, MS_CONSTG };
struct MemRef { int space = MS_BUF; int off = 0; int idx = -1; int shift = 0; int slot = 0; };
struct Opnd {
  int t = T_NONE; int r = -1; int64_t imm = 0; MemRef m;
  static Opnd R(int r) { Opnd o; o.t = T_REG; o.r = r; return o; }
  static Opnd V(int r) { Opnd o; o.t = T_VEC; o.r = r; return o; }
  static Opnd K(int r) { Opnd o; o.t = T_MSK; o.r = r; return o; }
  static Opnd I(int64_t v) { Opnd o; o.t = T_IMM; o.imm = v; return o; }
  static Opnd M(const MemRef& m) { Opnd o; o.t = T_MEM; o.m = m; return o; }
};

enum MK { M_ALU, M_UN, M_IMUL3, M_LEA, M_MOVX, M_SHIFT, M_MULDIV, M_CDQ, M_CMPXCHG, M_SETCC, M_CMOV, M_BT, M_CNT,
          M_VGX, M_VMOV, M_VALU, M_VTERN, M_KOP, M_KCMP, M_CALL, M_COUNT_ };
enum { A_ADD, A_SUB, A_AND, A_OR, A_XOR, A_MOV, A_CMP, A_TEST, A_IMUL, A_XCHG, A_XADD };
enum { U_NOT, U_NEG, U_INC, U_DEC };
enum { S_SHL, S_SHR, S_SAR, S_ROL, S_ROR };
enum { D_MUL, D_IMUL, D_DIV, D_IDIV };
enum { X_ZX, X_SX };
enum { B_BT, B_BTS, B_BTR, B_BTC };
enum { C_POPCNT, C_LZCNT, C_TZCNT };
enum { G_MOVD_XG, G_MOVD_GX, G_MOVQ_XG, G_MOVQ_GX, G_PINSRD, G_PEXTRD };
enum { V_PADDD, V_PSUBD, V_PXOR, V_PAND, V_POR, V_PANDN, V_PCMPEQD, V_PCMPGTD, V_PSHUFD, V_COUNT_ };
enum { KO_KG, KO_GK, KO_AND, KO_OR, KO_XOR, KO_XNOR, KO_NOT, KO_KK, KO_KM, KO_MK };

struct MOp {
  int k = M_ALU; int sub = 0; int w = 32; int w2 = 0;
  Opnd o[4];
  int cc = 0; int64_t imm = 0; int kmask = -1;
  int nargs = 0; Opnd args[10];      // M_CALL (sub = callee id, o[0] = return destination)
  int alt = 0;                       // encoding alternative (e.g. vpxor vs vpxord, inc vs add 1)
};

enum NK { N_OP, N_IF, N_LOOP, N_IRR, N_SWITCH, N_RETIF };
struct Node {
  int kind = N_OP;
  std::vector<MOp> ops;   // N_OP: the lowered micro-ops; N_IF/N_IRR/N_RETIF: the flag-producing micro-ops of the condition
  int cc = 0;             // condition code (x86 encoding 0..15)
  int n = 1;              // loop trip count / irreducible cycle count
  int sel = -1;           // switch selector value / early-return value
  int flag = 0;           // switch: cases fall through into the next case
  int ntab = 4;           // switch: table entries
  int hl = 0;             // high-level kind (class counters)
  std::vector<std::vector<Node>> parts;
};

struct Prog {
  int ng = 1, nv = 0, nk = 0, vmode = 0, nargs = 0, foldfrac = 8, foldsel = 0, pressure = 0, nslots = 0, tysel = 0, initsel = 0;
  uint64_t inseed = 0;
  std::vector<uint8_t> gty;          // width in bits (32/64) of every GP value; temps are appended after ng
  int ntemps = 0;
  std::vector<int> idx64;            // indices of 64-bit typed base values
  std::vector<Node> body;
  // statistics
  int n_static_ops = 0, n_calls = 0, n_switch = 0, n_loops = 0, n_irr = 0, n_if = 0, n_retif = 0, n_fixed = 0, n_partial = 0, n_idiom = 0,
      n_vec = 0, n_mask = 0, n_mem = 0, max_depth = 0, n_excluded = 0;
  bool folded(int i) const { return ((i * 5 + foldsel) & 7) < foldfrac; }
};

// Callee signatures: 'q' u64, 'd' u32, 'x' 128-bit vector by value. First char = return type.
const char* const kCallees[] = { "q", "qq", "qdq", "qqdq", "qdddd", "qqdqdqd", "qqdqdqdqd", "qqqqqqqqqqq", "qxqx", "xxd", "qdxdxq" };
constexpr int kNumCallees = int(sizeof(kCallees) / sizeof(kCallees[0]));

struct CallRec { int id; uint64_t a[10][2]; uint64_t ret[2];
  bool operator==(const CallRec& o) const { return id == o.id && memcmp(a, o.a, sizeof a) == 0; } };

// The pure model of every callee: return value from (id, args).
inline void callee_model(CallRec& r) {
  uint64_t h = mix64(0xC05 + uint64_t(r.id));
  const char* sig = kCallees[r.id];
  for (int i = 0; sig[1 + i]; i++) { h = mix64(h ^ r.a[i][0]); if (sig[1 + i] == 'x') h = mix64(h + r.a[i][1]); }
  r.ret[0] = h; r.ret[1] = mix64(h);
}

std::vector<CallRec> g_log_actual;

#define C05_NOSAN __attribute__((no_sanitize("address", "undefined"), noinline))
inline void C05_NOSAN log_call(CallRec& r) { callee_model(r); if (g_log_actual.size() < 4096) g_log_actual.push_back(r); }
inline void put_x(CallRec& r, int i, __m128i v) { uint64_t t[2]; memcpy(t, &v, 16); r.a[i][0] = t[0]; r.a[i][1] = t[1]; }

extern "C" {
C05_NOSAN uint64_t c05_cal0() { CallRec r{}; r.id = 0; log_call(r); return r.ret[0]; }
C05_NOSAN uint64_t c05_cal1(uint64_t a) { CallRec r{}; r.id = 1; r.a[0][0] = a; log_call(r); return r.ret[0]; }
C05_NOSAN uint64_t c05_cal2(uint32_t a, uint64_t b) { CallRec r{}; r.id = 2; r.a[0][0] = a; r.a[1][0] = b; log_call(r); return r.ret[0]; }
C05_NOSAN uint64_t c05_cal3(uint64_t a, uint32_t b, uint64_t c) { CallRec r{}; r.id = 3; r.a[0][0] = a; r.a[1][0] = b; r.a[2][0] = c; log_call(r); return r.ret[0]; }
C05_NOSAN uint64_t c05_cal4(uint32_t a, uint32_t b, uint32_t c, uint32_t d) { CallRec r{}; r.id = 4; r.a[0][0] = a; r.a[1][0] = b; r.a[2][0] = c; r.a[3][0] = d; log_call(r); return r.ret[0]; }
C05_NOSAN uint64_t c05_cal5(uint64_t a, uint32_t b, uint64_t c, uint32_t d, uint64_t e, uint32_t f) {
  CallRec r{}; r.id = 5; r.a[0][0] = a; r.a[1][0] = b; r.a[2][0] = c; r.a[3][0] = d; r.a[4][0] = e; r.a[5][0] = f; log_call(r); return r.ret[0]; }
C05_NOSAN uint64_t c05_cal6(uint64_t a, uint32_t b, uint64_t c, uint32_t d, uint64_t e, uint32_t f, uint64_t g, uint32_t h) {
  CallRec r{}; r.id = 6; r.a[0][0] = a; r.a[1][0] = b; r.a[2][0] = c; r.a[3][0] = d; r.a[4][0] = e; r.a[5][0] = f; r.a[6][0] = g; r.a[7][0] = h; log_call(r); return r.ret[0]; }
C05_NOSAN uint64_t c05_cal7(uint64_t a, uint64_t b, uint64_t c, uint64_t d, uint64_t e, uint64_t f, uint64_t g, uint64_t h, uint64_t i, uint64_t j) {
  CallRec r{}; r.id = 7; r.a[0][0] = a; r.a[1][0] = b; r.a[2][0] = c; r.a[3][0] = d; r.a[4][0] = e; r.a[5][0] = f; r.a[6][0] = g; r.a[7][0] = h; r.a[8][0] = i; r.a[9][0] = j;
  log_call(r); return r.ret[0]; }
C05_NOSAN uint64_t c05_cal8(__m128i a, uint64_t b, __m128i c) { CallRec r{}; r.id = 8; put_x(r, 0, a); r.a[1][0] = b; put_x(r, 2, c); log_call(r); return r.ret[0]; }
C05_NOSAN __m128i c05_cal9(__m128i a, uint32_t b) { CallRec r{}; r.id = 9; put_x(r, 0, a); r.a[1][0] = b; log_call(r); __m128i v; memcpy(&v, r.ret, 16); return v; }
C05_NOSAN uint64_t c05_cal10(uint32_t a, __m128i b, uint32_t c, __m128i d, uint64_t e) {
  CallRec r{}; r.id = 10; r.a[0][0] = a; put_x(r, 1, b); r.a[2][0] = c; put_x(r, 3, d); r.a[4][0] = e; log_call(r); return r.ret[0]; }
}
void* const kCalleePtr[] = { (void*)c05_cal0, (void*)c05_cal1, (void*)c05_cal2, (void*)c05_cal3, (void*)c05_cal4, (void*)c05_cal5,
                             (void*)c05_cal6, (void*)c05_cal7, (void*)c05_cal8, (void*)c05_cal9, (void*)c05_cal10 };

// High-level op kinds (ops[i][0]).
enum HK { H_ALU, H_UNARY, H_IMUL, H_LEA, H_MOVX, H_SHIFT_I, H_SHIFT_CL, H_MULDIV, H_CMPXCHG, H_XCHG, H_SETCC, H_CMOV, H_BT, H_CNT,
          H_IDIOM, H_TEMP, H_VGX, H_VLDST, H_VALU, H_KOP, H_CALL,
          H_IF, H_LOOP, H_IRR, H_SWITCH, H_NEXT, H_END, H_RETIF, H_COUNT_ };
const char* const kHName[] = { "alu", "unary", "imul", "lea", "movx", "shift_imm", "shift_cl", "muldiv", "cmpxchg", "xchg_xadd", "setcc", "cmov", "bt", "cnt",
          "idiom", "temp", "vec_gp_move", "vec_ldst", "vec_alu", "mask_op", "call",
          "if", "loop", "irreducible", "switch", "next", "end", "retif" };

struct Excl { bool and0 = false, shift0p = false, xorpart = false, andsame32 = false, other[8] = {}; };

#include "c05_parts.inc"

} // namespace
