// C05 — Register allocation preserves the meaning of Compiler programs.
//
// Case: cfg = [ng, tysel, nv, nk, vmode, nargs, foldfrac, foldsel, pressure, nslots, inseed, initsel, nw, wsel]
//       ops = [kind, f1, f2, ...]  (every field is reduced modulo its range: any integer vector decodes to a valid program)
// (nw/wsel and the op kinds after `retif` were appended later: older case files decode exactly as before.)
// The harness owns a small IR: a tree of structured control flow (if / counted loop / two-entry cycle / annotated jump
// table / multi-entry dispatch = several annotated jumps over one target set / early return) whose leaves are micro-ops
// (MOp) with exact x86 semantics. The same tree is
// Wide values (nw > 0, AVX/AVX-512 mode): ymm or zmm virtual registers with lane-wise, cross-lane and xmm-view ops; callees of
// three conventions (SysV, Win64 and vectorcall = ms_abi C functions) that really destroy everything their convention allows.
//   (1) interpreted over unbounded virtual values  -> expected return value, memory image, call log
//   (2) compiled by x86::Compiler for x86-64, executed through the hostexec trampoline on >=32 inputs
//   (3) compiled again without the pressure dummies (metamorphic)
//   (4) compiled for x86-32 and (mapped to an a64 vocabulary) AArch64; post-RA node list checked structurally.
#define VH_MAIN
#include "vh.h"

#include <asmjit/core.h>
#include <asmjit/x86.h>
#include <asmjit/a64.h>

#include <immintrin.h>
#include <setjmp.h>
#include <signal.h>
#include <sys/time.h>

#include "msc.h"

using namespace asmjit;

const char* vh_property() { return "C05"; }

namespace {

// ------------------------------------------------------------------------------------------------
// Buffer layout (one scratch buffer argument; every offset fits a disp32)
// ------------------------------------------------------------------------------------------------
constexpr int kMaxG = 200, kMaxV = 40, kMaxK = 10, kMaxP = 200, kMaxArgs = 11, kMaxSlots = 4, kMaxW = 24;
constexpr int OFF_GIN = 0;       // 256 * 8
constexpr int OFF_VIN = 2048;    // 48 * 16
constexpr int OFF_KIN = 2816;    // 16 * 8
constexpr int OFF_PIN = 2944;    // 200 * 8 (pressure dummies, GP) ; vector dummies reuse OFF_VIN cyclically
constexpr int OFF_SCR = 4608;    // 256 bytes scratch window for generated loads/stores
constexpr int SCR_SIZE = 256;
constexpr int OFF_GOUT = 4864;   // 256 * 8
constexpr int OFF_VOUT = 6912;   // 48 * 16
constexpr int OFF_KOUT = 7680;   // 16 * 8
constexpr int OFF_RES2 = 7808;   // pressure accumulator (ignored by the metamorphic comparison)
constexpr int OFF_WIN = 7872;    // 24 * 64  wide (ymm/zmm) inputs  (appended: the older regions keep their offsets)
constexpr int OFF_WOUT = 9408;   // 24 * 64  wide outputs
constexpr int BUF_SIZE = 10944;
constexpr int BUF_GUARD = 64;

inline uint64_t mix64(uint64_t x) {
  x += 0x9E3779B97F4A7C15ull; x = (x ^ (x >> 30)) * 0xBF58476D1CE4E5B9ull; x = (x ^ (x >> 27)) * 0x94D049BB133111EBull; return x ^ (x >> 31);
}
inline uint64_t wmask(int w) { return w >= 64 ? ~0ull : ((1ull << w) - 1); }
inline int64_t sx(uint64_t v, int w) { if (w >= 64) return int64_t(v); uint64_t m = 1ull << (w - 1); v &= wmask(w); return int64_t((v ^ m) - m); }
inline int64_t fld(const vh::Op& op, size_t i) { return i < op.size() ? op[i] : 0; }
inline int umod(int64_t v, int n) { if (n <= 0) return 0; v %= n; if (v < 0) v += n; return int(v); }

// ------------------------------------------------------------------------------------------------
// IR
// ------------------------------------------------------------------------------------------------
enum { T_NONE, T_REG, T_IMM, T_MEM, T_VEC, T_MSK, T_WID };
enum { MS_BUF, MS_SLOT, MS_CONSTL, MS_CONSTG };
struct MemRef { int space = MS_BUF; int off = 0; int idx = -1; int shift = 0; int slot = 0; };
struct Opnd {
  int t = T_NONE; int r = -1; int64_t imm = 0; MemRef m;
  static Opnd R(int r) { Opnd o; o.t = T_REG; o.r = r; return o; }
  static Opnd V(int r) { Opnd o; o.t = T_VEC; o.r = r; return o; }
  static Opnd K(int r) { Opnd o; o.t = T_MSK; o.r = r; return o; }
  static Opnd W(int r) { Opnd o; o.t = T_WID; o.r = r; return o; }
  static Opnd I(int64_t v) { Opnd o; o.t = T_IMM; o.imm = v; return o; }
  static Opnd M(const MemRef& m) { Opnd o; o.t = T_MEM; o.m = m; return o; }
};

enum MK { M_ALU, M_UN, M_IMUL3, M_LEA, M_MOVX, M_SHIFT, M_MULDIV, M_CDQ, M_CMPXCHG, M_SETCC, M_CMOV, M_BT, M_CNT,
          M_VGX, M_VMOV, M_VALU, M_VTERN, M_KOP, M_KCMP, M_CALL, M_WMOV, M_WALU, M_WTERN, M_WX, M_COUNT_ };
enum { A_ADD, A_SUB, A_AND, A_OR, A_XOR, A_MOV, A_CMP, A_TEST, A_IMUL, A_XCHG, A_XADD };
enum { U_NOT, U_NEG, U_INC, U_DEC };
enum { S_SHL, S_SHR, S_SAR, S_ROL, S_ROR };
enum { D_MUL, D_IMUL, D_DIV, D_IDIV };
enum { X_ZX, X_SX };
enum { B_BT, B_BTS, B_BTR, B_BTC };
enum { C_POPCNT, C_LZCNT, C_TZCNT };
enum { G_MOVD_XG, G_MOVD_GX, G_MOVQ_XG, G_MOVQ_GX, G_PINSRD, G_PEXTRD };
enum { V_PADDD, V_PSUBD, V_PXOR, V_PAND, V_POR, V_PANDN, V_PCMPEQD, V_PCMPGTD, V_PSHUFD, V_COUNT_ };
enum { KO_KG, KO_GK, KO_AND, KO_OR, KO_XOR, KO_XNOR, KO_NOT, KO_KK, KO_KM, KO_MK };
// wide (ymm/zmm) <-> xmm / cross-lane ops: the upper 128-bit lanes matter
enum { WX_EXTRACT, WX_INSERT, WX_PERM2, WX_BCAST, WX_LOWREAD, WX_LOWWRITE, WX_PERMQ, WX_EXTRACT_MEM, WX_COUNT_ };

struct MOp {
  int k = M_ALU; int sub = 0; int w = 32; int w2 = 0;
  Opnd o[4];
  int cc = 0; int64_t imm = 0; int kmask = -1;
  int nargs = 0; Opnd args[10];      // M_CALL (sub = callee id, o[0] = return destination)
  int alt = 0;                       // encoding alternative (e.g. vpxor vs vpxord, inc vs add 1)
};

enum NK { N_OP, N_IF, N_LOOP, N_IRR, N_SWITCH, N_RETIF, N_DISPATCH };
struct Node {
  int kind = N_OP;
  std::vector<MOp> ops;   // N_OP: the lowered micro-ops; N_IF/N_IRR/N_RETIF: the flag-producing micro-ops of the condition
  int cc = 0;             // condition code (x86 encoding 0..15)
  int n = 1;              // loop trip count / irreducible cycle count
  int sel = -1;           // switch selector value / early-return value
  int flag = 0;           // switch: cases fall through into the next case
  int ntab = 4;           // switch: table entries
  int pad = 0;            // switch: every case starts with a nop (exclusion of a known defect)
  int hl = 0;             // high-level kind (class counters)
  // N_DISPATCH: parts[0] / parts[1] = the two entry arms (chosen by cc), parts[2..2+n-1] = the n cases. Every arm ends with its
  // own annotated indirect jump into the case set (selectors sel / sel2); a case whose bit is set in `redisp` ends with another
  // one (selector sel3) as long as the budget `n2` lasts. All these jumps list the same labels (in the orders perm[0..2]).
  int sel2 = -1, sel3 = -1, n2 = 1, redisp = 0, sameann = 0, rot = 0; int perm[3] = {0, 0, 0};
  std::vector<std::vector<Node>> parts;
};

struct Prog {
  int ng = 1, nv = 0, nk = 0, vmode = 0, nargs = 0, foldfrac = 8, foldsel = 0, pressure = 0, nslots = 0, tysel = 0, initsel = 0;
  int nw = 0, wbits = 256;           // wide vector values: ymm (256) or zmm (512, AVX-512 mode on an AVX-512 host)
  uint64_t inseed = 0;
  std::vector<uint8_t> gty;          // width in bits (32/64) of every GP value; temps are appended after ng
  int ntemps = 0;
  std::vector<int> idx64;            // indices of 64-bit typed base values
  std::vector<Node> body;
  // statistics
  int n_static_ops = 0, n_calls = 0, n_switch = 0, n_loops = 0, n_irr = 0, n_if = 0, n_retif = 0, n_fixed = 0, n_partial = 0, n_idiom = 0,
      n_vec = 0, n_mask = 0, n_mem = 0, max_depth = 0, n_excluded = 0,
      n_dispatch = 0, n_disp_jumps = 0, n_disp_sameann = 0, n_disp_unalloc_first = 0, n_disp_redisp = 0, n_disp_after_call = 0, n_disp_call_inside = 0, n_disp_write_in_arm = 0,
      n_wide = 0, n_wide_xlane = 0, n_wide_lowview = 0, n_wide_mem = 0, n_calls_win = 0, n_calls_vcall = 0, n_calls_widearg = 0, n_u32imm_args = 0;
  int n_excl[16] = {};
  bool folded(int i) const { return ((i * 5 + foldsel) & 7) < foldfrac; }
};

// Callee signatures: 'q' u64, 'd' u32, 'x' 128-bit vector by value, 'y' 256-bit vector by value. First char = return type.
// Callees 0..10 (H_CALL) use the host (SysV) convention. Callees 11.. (H_CALL2, appended later) are C functions compiled with
// __attribute__((ms_abi)) and invoked through CallConvId::kX64Windows / kVectorCall (integer arguments only: both conventions
// pass them in rcx, rdx, r8, r9 + stack and preserve rbx, rbp, rsi, rdi, r12-r15 and the LOW 128 bits of xmm6-15), and SysV
// callees that take / return 256-bit vectors.
enum { CV_SYSV, CV_WIN64, CV_VECTORCALL };
const char* const kCallees[] = { "q", "qq", "qdq", "qqdq", "qdddd", "qqdqdqd", "qqdqdqdqd", "qqqqqqqqqqq", "qxqx", "xxd", "qdxdxq",
                                 "q", "qq", "qdq", "qqdqdqd", "qddddq", "qqd", "qqqqdq", "yyq", "qyqy" };
const int kCalleeConv[] = { CV_SYSV, CV_SYSV, CV_SYSV, CV_SYSV, CV_SYSV, CV_SYSV, CV_SYSV, CV_SYSV, CV_SYSV, CV_SYSV, CV_SYSV,
                            CV_WIN64, CV_WIN64, CV_WIN64, CV_WIN64, CV_WIN64, CV_VECTORCALL, CV_VECTORCALL, CV_SYSV, CV_SYSV };
constexpr int kNumCallees1 = 11;     // H_CALL decodes modulo this (must never change: older case files)
constexpr int kNumCallees = int(sizeof(kCallees) / sizeof(kCallees[0]));
constexpr int kNumCallees2NoWide = 7;   // H_CALL2 callees that need no 256-bit value
static_assert(sizeof(kCalleeConv) / sizeof(kCalleeConv[0]) == kNumCallees, "callee tables");

struct CallRec { int id; uint64_t a[10][4]; uint64_t ret[4];
  bool operator==(const CallRec& o) const { return id == o.id && memcmp(a, o.a, sizeof a) == 0; } };

// The pure model of every callee: return value from (id, args).
inline void callee_model(CallRec& r) {
  uint64_t h = mix64(0xC05 + uint64_t(r.id));
  const char* sig = kCallees[r.id];
  for (int i = 0; sig[1 + i]; i++) {
    h = mix64(h ^ r.a[i][0]); if (sig[1 + i] == 'x' || sig[1 + i] == 'y') h = mix64(h + r.a[i][1]);
    if (sig[1 + i] == 'y') { h = mix64(h + r.a[i][2]); h = mix64(h ^ r.a[i][3]); }
  }
  r.ret[0] = h; r.ret[1] = mix64(h); r.ret[2] = mix64(r.ret[1]); r.ret[3] = mix64(r.ret[2]);
}

std::vector<CallRec> g_log_actual;
int g_host_avx512 = 0;     // set in vh_init from CpuInfo

#define C05_NOSAN __attribute__((no_sanitize("address", "undefined"), noinline))
inline void C05_NOSAN log_call(CallRec& r) { callee_model(r); if (g_log_actual.size() < 4096) g_log_actual.push_back(r); }
inline void put_x(CallRec& r, int i, __m128i v) { uint64_t t[2]; memcpy(t, &v, 16); r.a[i][0] = t[0]; r.a[i][1] = t[1]; }
inline void put_y(CallRec& r, int i, __m256i v) { memcpy(r.a[i], &v, 32); }

// Every callee really destroys every register its convention lets it destroy (the interpreter treats a callee as a pure function
// of its arguments, so every live value of the caller must survive): all volatile GP registers, all vector registers completely
// (zmm0-31 / k0-7 on an AVX-512 host) followed by vzeroupper. In the ms_abi functions xmm6-15 are in the clobber list, so the C
// compiler saves and restores exactly their low 128 bits, as a real Win64 callee does: the upper parts of ymm/zmm6-15 are lost.
#define C05_GARBAGE_VEC16 \
    "vpcmpeqd %%ymm0,%%ymm0,%%ymm0\n vpcmpeqd %%ymm1,%%ymm1,%%ymm1\n vpcmpeqd %%ymm2,%%ymm2,%%ymm2\n vpcmpeqd %%ymm3,%%ymm3,%%ymm3\n" \
    "vpcmpeqd %%ymm4,%%ymm4,%%ymm4\n vpcmpeqd %%ymm5,%%ymm5,%%ymm5\n vpcmpeqd %%ymm6,%%ymm6,%%ymm6\n vpcmpeqd %%ymm7,%%ymm7,%%ymm7\n" \
    "vpcmpeqd %%ymm8,%%ymm8,%%ymm8\n vpcmpeqd %%ymm9,%%ymm9,%%ymm9\n vpcmpeqd %%ymm10,%%ymm10,%%ymm10\n vpcmpeqd %%ymm11,%%ymm11,%%ymm11\n" \
    "vpcmpeqd %%ymm12,%%ymm12,%%ymm12\n vpcmpeqd %%ymm13,%%ymm13,%%ymm13\n vpcmpeqd %%ymm14,%%ymm14,%%ymm14\n vpcmpeqd %%ymm15,%%ymm15,%%ymm15\n"
#define C05_CLOBBER_VEC16 "xmm0", "xmm1", "xmm2", "xmm3", "xmm4", "xmm5", "xmm6", "xmm7", "xmm8", "xmm9", "xmm10", "xmm11", "xmm12", "xmm13", "xmm14", "xmm15"
static inline __attribute__((always_inline)) void c05_clobber_avx512() {
  if (!g_host_avx512) return;
  asm volatile(
    "vpternlogd $0xFF,%%zmm0,%%zmm0,%%zmm0\n vpternlogd $0xFF,%%zmm1,%%zmm1,%%zmm1\n vpternlogd $0xFF,%%zmm2,%%zmm2,%%zmm2\n vpternlogd $0xFF,%%zmm3,%%zmm3,%%zmm3\n"
    "vpternlogd $0xFF,%%zmm4,%%zmm4,%%zmm4\n vpternlogd $0xFF,%%zmm5,%%zmm5,%%zmm5\n vpternlogd $0xFF,%%zmm6,%%zmm6,%%zmm6\n vpternlogd $0xFF,%%zmm7,%%zmm7,%%zmm7\n"
    "vpternlogd $0xFF,%%zmm8,%%zmm8,%%zmm8\n vpternlogd $0xFF,%%zmm9,%%zmm9,%%zmm9\n vpternlogd $0xFF,%%zmm10,%%zmm10,%%zmm10\n vpternlogd $0xFF,%%zmm11,%%zmm11,%%zmm11\n"
    "vpternlogd $0xFF,%%zmm12,%%zmm12,%%zmm12\n vpternlogd $0xFF,%%zmm13,%%zmm13,%%zmm13\n vpternlogd $0xFF,%%zmm14,%%zmm14,%%zmm14\n vpternlogd $0xFF,%%zmm15,%%zmm15,%%zmm15\n"
    "vpternlogd $0xFF,%%zmm16,%%zmm16,%%zmm16\n vpternlogd $0xFF,%%zmm17,%%zmm17,%%zmm17\n vpternlogd $0xFF,%%zmm18,%%zmm18,%%zmm18\n vpternlogd $0xFF,%%zmm19,%%zmm19,%%zmm19\n"
    "vpternlogd $0xFF,%%zmm20,%%zmm20,%%zmm20\n vpternlogd $0xFF,%%zmm21,%%zmm21,%%zmm21\n vpternlogd $0xFF,%%zmm22,%%zmm22,%%zmm22\n vpternlogd $0xFF,%%zmm23,%%zmm23,%%zmm23\n"
    "vpternlogd $0xFF,%%zmm24,%%zmm24,%%zmm24\n vpternlogd $0xFF,%%zmm25,%%zmm25,%%zmm25\n vpternlogd $0xFF,%%zmm26,%%zmm26,%%zmm26\n vpternlogd $0xFF,%%zmm27,%%zmm27,%%zmm27\n"
    "vpternlogd $0xFF,%%zmm28,%%zmm28,%%zmm28\n vpternlogd $0xFF,%%zmm29,%%zmm29,%%zmm29\n vpternlogd $0xFF,%%zmm30,%%zmm30,%%zmm30\n vpternlogd $0xFF,%%zmm31,%%zmm31,%%zmm31\n"
    "kxnorw %%k0,%%k0,%%k0\n kxnorw %%k1,%%k1,%%k1\n kxnorw %%k2,%%k2,%%k2\n kxnorw %%k3,%%k3,%%k3\n kxnorw %%k4,%%k4,%%k4\n kxnorw %%k5,%%k5,%%k5\n kxnorw %%k6,%%k6,%%k6\n kxnorw %%k7,%%k7,%%k7\n"
    ::: C05_CLOBBER_VEC16, "xmm16", "xmm17", "xmm18", "xmm19", "xmm20", "xmm21", "xmm22", "xmm23", "xmm24", "xmm25", "xmm26", "xmm27", "xmm28", "xmm29", "xmm30", "xmm31",
        "k0", "k1", "k2", "k3", "k4", "k5", "k6", "k7", "memory");
}
static inline __attribute__((always_inline)) void c05_clobber_sysv() {
  uint64_t g = 0xBAD0C0DEBAD0C0DEull;
  c05_clobber_avx512();
  asm volatile("mov %0,%%rcx\n mov %0,%%rdx\n mov %0,%%rsi\n mov %0,%%rdi\n mov %0,%%r8\n mov %0,%%r9\n mov %0,%%r10\n mov %0,%%r11\n" C05_GARBAGE_VEC16 "vzeroupper\n"
               :: "r"(g) : "rcx", "rdx", "rsi", "rdi", "r8", "r9", "r10", "r11", C05_CLOBBER_VEC16, "cc", "memory");
}
static inline __attribute__((always_inline)) void c05_clobber_win() {
  uint64_t g = 0xBAD0C0DEBAD0C0DEull;
  c05_clobber_avx512();
  asm volatile("mov %0,%%rcx\n mov %0,%%rdx\n mov %0,%%r8\n mov %0,%%r9\n mov %0,%%r10\n mov %0,%%r11\n" C05_GARBAGE_VEC16 "vzeroupper\n"
               :: "r"(g) : "rcx", "rdx", "r8", "r9", "r10", "r11", C05_CLOBBER_VEC16, "cc", "memory");
}
#define C05_MSABI __attribute__((ms_abi))

#define C05_RET(clob) do { uint64_t v_ = r.ret[0]; clob(); return v_; } while (0)
extern "C" {
C05_NOSAN uint64_t c05_cal0() { CallRec r{}; r.id = 0; log_call(r); C05_RET(c05_clobber_sysv); }
C05_NOSAN uint64_t c05_cal1(uint64_t a) { CallRec r{}; r.id = 1; r.a[0][0] = a; log_call(r); C05_RET(c05_clobber_sysv); }
C05_NOSAN uint64_t c05_cal2(uint32_t a, uint64_t b) { CallRec r{}; r.id = 2; r.a[0][0] = a; r.a[1][0] = b; log_call(r); C05_RET(c05_clobber_sysv); }
C05_NOSAN uint64_t c05_cal3(uint64_t a, uint32_t b, uint64_t c) { CallRec r{}; r.id = 3; r.a[0][0] = a; r.a[1][0] = b; r.a[2][0] = c; log_call(r); C05_RET(c05_clobber_sysv); }
C05_NOSAN uint64_t c05_cal4(uint32_t a, uint32_t b, uint32_t c, uint32_t d) { CallRec r{}; r.id = 4; r.a[0][0] = a; r.a[1][0] = b; r.a[2][0] = c; r.a[3][0] = d; log_call(r); C05_RET(c05_clobber_sysv); }
C05_NOSAN uint64_t c05_cal5(uint64_t a, uint32_t b, uint64_t c, uint32_t d, uint64_t e, uint32_t f) {
  CallRec r{}; r.id = 5; r.a[0][0] = a; r.a[1][0] = b; r.a[2][0] = c; r.a[3][0] = d; r.a[4][0] = e; r.a[5][0] = f; log_call(r); C05_RET(c05_clobber_sysv); }
C05_NOSAN uint64_t c05_cal6(uint64_t a, uint32_t b, uint64_t c, uint32_t d, uint64_t e, uint32_t f, uint64_t g, uint32_t h) {
  CallRec r{}; r.id = 6; r.a[0][0] = a; r.a[1][0] = b; r.a[2][0] = c; r.a[3][0] = d; r.a[4][0] = e; r.a[5][0] = f; r.a[6][0] = g; r.a[7][0] = h; log_call(r); C05_RET(c05_clobber_sysv); }
C05_NOSAN uint64_t c05_cal7(uint64_t a, uint64_t b, uint64_t c, uint64_t d, uint64_t e, uint64_t f, uint64_t g, uint64_t h, uint64_t i, uint64_t j) {
  CallRec r{}; r.id = 7; r.a[0][0] = a; r.a[1][0] = b; r.a[2][0] = c; r.a[3][0] = d; r.a[4][0] = e; r.a[5][0] = f; r.a[6][0] = g; r.a[7][0] = h; r.a[8][0] = i; r.a[9][0] = j;
  log_call(r); C05_RET(c05_clobber_sysv); }
C05_NOSAN uint64_t c05_cal8(__m128i a, uint64_t b, __m128i c) { CallRec r{}; r.id = 8; put_x(r, 0, a); r.a[1][0] = b; put_x(r, 2, c); log_call(r); C05_RET(c05_clobber_sysv); }
C05_NOSAN __m128i c05_cal9(__m128i a, uint32_t b) { CallRec r{}; r.id = 9; put_x(r, 0, a); r.a[1][0] = b; log_call(r); uint64_t t[2] = {r.ret[0], r.ret[1]}; c05_clobber_sysv(); __m128i v; memcpy(&v, t, 16); return v; }
C05_NOSAN uint64_t c05_cal10(uint32_t a, __m128i b, uint32_t c, __m128i d, uint64_t e) {
  CallRec r{}; r.id = 10; r.a[0][0] = a; put_x(r, 1, b); r.a[2][0] = c; put_x(r, 3, d); r.a[4][0] = e; log_call(r); C05_RET(c05_clobber_sysv); }
// ---- ms_abi callees (Win64 / vectorcall with integer arguments) ----
C05_MSABI C05_NOSAN uint64_t c05_cal11() { CallRec r{}; r.id = 11; log_call(r); C05_RET(c05_clobber_win); }
C05_MSABI C05_NOSAN uint64_t c05_cal12(uint64_t a) { CallRec r{}; r.id = 12; r.a[0][0] = a; log_call(r); C05_RET(c05_clobber_win); }
C05_MSABI C05_NOSAN uint64_t c05_cal13(uint32_t a, uint64_t b) { CallRec r{}; r.id = 13; r.a[0][0] = a; r.a[1][0] = b; log_call(r); C05_RET(c05_clobber_win); }
C05_MSABI C05_NOSAN uint64_t c05_cal14(uint64_t a, uint32_t b, uint64_t c, uint32_t d, uint64_t e, uint32_t f) {
  CallRec r{}; r.id = 14; r.a[0][0] = a; r.a[1][0] = b; r.a[2][0] = c; r.a[3][0] = d; r.a[4][0] = e; r.a[5][0] = f; log_call(r); C05_RET(c05_clobber_win); }
C05_MSABI C05_NOSAN uint64_t c05_cal15(uint32_t a, uint32_t b, uint32_t c, uint32_t d, uint64_t e) {
  CallRec r{}; r.id = 15; r.a[0][0] = a; r.a[1][0] = b; r.a[2][0] = c; r.a[3][0] = d; r.a[4][0] = e; log_call(r); C05_RET(c05_clobber_win); }
C05_MSABI C05_NOSAN uint64_t c05_cal16(uint64_t a, uint32_t b) { CallRec r{}; r.id = 16; r.a[0][0] = a; r.a[1][0] = b; log_call(r); C05_RET(c05_clobber_win); }
C05_MSABI C05_NOSAN uint64_t c05_cal17(uint64_t a, uint64_t b, uint64_t c, uint32_t d, uint64_t e) {
  CallRec r{}; r.id = 17; r.a[0][0] = a; r.a[1][0] = b; r.a[2][0] = c; r.a[3][0] = d; r.a[4][0] = e; log_call(r); C05_RET(c05_clobber_win); }
// ---- SysV callees with 256-bit vectors by value ----
C05_NOSAN __m256i c05_cal18(__m256i a, uint64_t b) { CallRec r{}; r.id = 18; put_y(r, 0, a); r.a[1][0] = b; log_call(r); uint64_t t[4] = {r.ret[0], r.ret[1], r.ret[2], r.ret[3]}; c05_clobber_sysv(); __m256i v; memcpy(&v, t, 32); return v; }
C05_NOSAN uint64_t c05_cal19(__m256i a, uint64_t b, __m256i c) { CallRec r{}; r.id = 19; put_y(r, 0, a); r.a[1][0] = b; put_y(r, 2, c); log_call(r); C05_RET(c05_clobber_sysv); }
}
void* const kCalleePtr[] = { (void*)c05_cal0, (void*)c05_cal1, (void*)c05_cal2, (void*)c05_cal3, (void*)c05_cal4, (void*)c05_cal5,
                             (void*)c05_cal6, (void*)c05_cal7, (void*)c05_cal8, (void*)c05_cal9, (void*)c05_cal10,
                             (void*)c05_cal11, (void*)c05_cal12, (void*)c05_cal13, (void*)c05_cal14, (void*)c05_cal15, (void*)c05_cal16, (void*)c05_cal17,
                             (void*)c05_cal18, (void*)c05_cal19 };

// High-level op kinds (ops[i][0]).
enum HK { H_ALU, H_UNARY, H_IMUL, H_LEA, H_MOVX, H_SHIFT_I, H_SHIFT_CL, H_MULDIV, H_CMPXCHG, H_XCHG, H_SETCC, H_CMOV, H_BT, H_CNT,
          H_IDIOM, H_TEMP, H_VGX, H_VLDST, H_VALU, H_KOP, H_CALL,
          H_IF, H_LOOP, H_IRR, H_SWITCH, H_NEXT, H_END, H_RETIF,
          // appended later (older case files only contain the kinds above)
          H_DISPATCH, H_WLDST, H_WALU, H_WX, H_CALL2, H_COUNT_ };
constexpr int kLeafKinds[] = { H_ALU, H_UNARY, H_IMUL, H_LEA, H_MOVX, H_SHIFT_I, H_SHIFT_CL, H_MULDIV, H_CMPXCHG, H_XCHG, H_SETCC, H_CMOV, H_BT, H_CNT,
                               H_IDIOM, H_TEMP, H_VGX, H_VLDST, H_VALU, H_KOP, H_CALL, H_WLDST, H_WALU, H_WX, H_CALL2 };
constexpr int kNumLeafKinds = int(sizeof(kLeafKinds) / sizeof(kLeafKinds[0]));
const char* const kHName[] = { "alu", "unary", "imul", "lea", "movx", "shift_imm", "shift_cl", "muldiv", "cmpxchg", "xchg_xadd", "setcc", "cmov", "bt", "cnt",
          "idiom", "temp", "vec_gp_move", "vec_ldst", "vec_alu", "mask_op", "call",
          "if", "loop", "irreducible", "switch", "next", "end", "retif",
          "dispatch", "wide_ldst", "wide_alu", "wide_xlane", "call_conv" };

// Trigger shapes of defects found by this harness. A failing case is re-decoded with one class excluded at a time: when the
// failure disappears the failure key names the class ("miscompiled:<class>"); a class whose key is a listed known finding is
// excluded by construction (and counted) so that the search continues.
enum { EX_RMNARROW, EX_WOPART, EX_CMPXCHG, EX_BTMEM, EX_AND0, EX_RO32, EX_KMOVW, EX_JTCLOBBER, EX_ORMEM, EX_JTBRANCH, EX_COUNT_ };
const char* const kExName[EX_COUNT_] = { "rm-narrow-write", "same-reg-wo-partial", "cmpxchg-accumulator", "bt-mem-reg-offset", "and-zero-read-only", "same-reg-ro-zero-extend", "kmovw-gp-mem", "jump-table-target-clobbered", "or-mem-all-ones",
                                         "jump-table-target-is-branch-target" };
// EX_JTBRANCH: a jump-table target block that is also the target of a direct branch allocated earlier (an empty case whose label
// coincides with the label after the construct): BaseRAPass::set_shared_assignment() keeps registers in the shared map that
// are not live into any target; a later alloc_jump_table() -> switch_to_assignment() then trips ASMJIT_ASSERT(dst.equals(cur)).
inline std::string ex_key(int i) { return std::string(i == EX_JTBRANCH ? "ra-assert:" : "miscompiled:") + kExName[i]; }
struct Excl { bool on[EX_COUNT_] = {}; };
// the two jump-table classes share one exclusion (every case starts with a nop): the assertion belongs to EX_JTBRANCH, everything else to EX_JTCLOBBER
inline bool ex_applies(int i, const std::string& key0) { bool as = key0.rfind("asmjit-assert", 0) == 0; return i == EX_JTBRANCH ? as : i == EX_JTCLOBBER ? !as : true; }

// ------------------------------------------------------------------------------------------------
// Decoder: Case -> Prog (robust: every integer vector is a valid program)
// ------------------------------------------------------------------------------------------------
struct Dec {
  const Prog& P; const vh::Op& op; size_t pos = 1;
  Dec(const Prog& p, const vh::Op& o) : P(p), op(o) {}
  int64_t raw() { return pos < op.size() ? op[pos++] : 0; }
  int u(int n) { return umod(raw(), n); }
  int gp() { int64_t v = raw(); if (v < 0) v = -(v + 1); int hot = std::min(P.ng, 6); return (v & 1) ? int((v >> 1) % hot) : int((v >> 1) % P.ng); }
  int gp64() { if (P.idx64.empty()) { raw(); return -1; } return P.idx64[size_t(u(int(P.idx64.size())))]; }
  int vec() { return u(P.nv); }
  int msk() { return u(P.nk); }
  int wid() { return u(P.nw); }
  int width() { static const int t[4] = {32, 64, 8, 16}; return t[u(4)]; }
  int64_t imm() {
    static const int64_t tbl[] = {1, 0, -1, 2, 5, 0x7f, 0x80, 0xff, 0x100, 0x7fff, 0x8000, 0xffff, 0x10000, 0x7fffffff, -0x80000000LL, 0x55555555, -2, 31, 32, 63};
    // s == 23: 64-bit values that fit an unsigned but not a signed 32-bit immediate (a sign-extending `mov qword [mem], imm32` of a stack
    // argument or spill must not be used for them)
    static const int64_t tbl_u32[] = {0x80000000LL, 0xffffffffLL, 0x80000001LL, 0xfedcba98LL};
    int s = u(24); int64_t r = raw();
    return s < 20 ? tbl[s] : s == 23 ? tbl_u32[uint64_t(r) % 4] : r;
  }
};
inline int64_t fit_imm(int64_t v, int w) { return w == 8 ? int8_t(v) : w == 16 ? int16_t(v) : int32_t(v); }

struct Lower {
  Prog& P; const Excl& ex; Node* out = nullptr;
  Lower(Prog& p, const Excl& e) : P(p), ex(e) {}
  int ty(int r) const { return r >= 0 && size_t(r) < P.gty.size() ? P.gty[size_t(r)] : 64; }
  int effw(int w, int a = -1, int b = -1, int c = -1) const { for (int r : {a, b, c}) if (r >= 0) w = std::min(w, ty(r)); return w; }
  MOp& push(int k, int sub, int w) { out->ops.emplace_back(); MOp& m = out->ops.back(); m.k = k; m.sub = sub; m.w = w; P.n_static_ops++; return m; }
  int new_temp(int w) { P.gty.push_back(uint8_t(w)); P.ntemps++; return int(P.gty.size()) - 1; }

  // memory operand; emits the index guard (and idx, 7) when an index register is used
  MemRef mem(Dec& d, int wbytes, bool allow_const, bool allow_idx, int align = 1) {
    MemRef m; int s = d.u(8); int o = d.u(1 << 16); int ix = d.u(4); int sh = d.u(4);
    if (s >= 6 && allow_const) { m.space = s == 6 ? MS_CONSTL : MS_CONSTG; m.off = o % 8; return m; }
    if (s >= 4 && s < 6 && P.nslots > 0 && wbytes <= 32) { m.space = MS_SLOT; m.slot = o % P.nslots; m.off = ((o / 7) % (32 - wbytes + 1)) / align * align; return m; }
    m.space = MS_BUF;
    int span = SCR_SIZE - wbytes - 56;
    m.off = (o % (span + 1)) / align * align;
    if (allow_idx && ix == 0 && !P.idx64.empty()) {
      m.idx = P.idx64[size_t(o / 3) % P.idx64.size()]; m.shift = sh;
      MOp& g = push(M_ALU, A_AND, 64); g.o[0] = Opnd::R(m.idx); g.o[1] = Opnd::I(7);
    }
    P.n_mem++;
    return m;
  }
  // flag producer: cmp/test a, b|imm|mem
  void cond(Dec& d) {
    int form = d.u(6); int a = d.gp(), b = d.gp(); int w = d.width(); int64_t im = d.imm();
    bool test = form >= 4;
    if (form == 1 || form == 5) { w = effw(w, a); MOp& m = push(M_ALU, test ? A_TEST : A_CMP, w); m.o[0] = Opnd::R(a); m.o[1] = Opnd::I(fit_imm(im, w)); }
    else if (form == 2) { w = effw(w, a); MemRef mr = mem(d, w / 8, true, false); MOp& m = push(M_ALU, A_CMP, w); m.o[0] = Opnd::R(a); m.o[1] = Opnd::M(mr); }
    else { w = effw(w, a, b); MOp& m = push(M_ALU, test ? A_TEST : A_CMP, w); m.o[0] = Opnd::R(a); m.o[1] = Opnd::R(b); }
  }
  void alu(int sub, int w, Opnd a, Opnd b) { MOp& m = push(M_ALU, sub, w); m.o[0] = a; m.o[1] = b; }

  void lower(const vh::Op& op, int hk, Node& node);
  void fix(MOp& m);
};

void Lower::lower(const vh::Op& op, int hk, Node& node) {
  out = &node; node.kind = N_OP; node.hl = hk;
  Dec d(P, op);
  switch (hk) {
    case H_ALU: {
      static const int subs[6] = {A_ADD, A_SUB, A_AND, A_OR, A_XOR, A_MOV};
      int sub = subs[d.u(6)], form = d.u(8), w = d.width(), dd = d.gp(), s = d.gp(); int64_t im = d.imm();
      if (form <= 2) { w = effw(w, dd, s); alu(sub, w, Opnd::R(dd), Opnd::R(s)); }                                      // RR
      else if (form == 3) { w = effw(w, dd); int64_t v = (sub == A_MOV && w == 64 && d.u(2)) ? im : fit_imm(im, w); alu(sub, w, Opnd::R(dd), Opnd::I(v)); }
      else if (form <= 5) { w = effw(w, dd); MemRef m = mem(d, w / 8, true, sub == A_MOV); alu(sub, w, Opnd::R(dd), Opnd::M(m)); }   // RM
      else if (form == 6) { w = effw(w, s); MemRef m = mem(d, w / 8, false, sub == A_MOV); alu(sub, w, Opnd::M(m), Opnd::R(s)); }    // MR
      else { MemRef m = mem(d, w / 8, false, false); alu(sub, w, Opnd::M(m), Opnd::I(fit_imm(im, w))); }                 // MI
      if (w < 32) P.n_partial++;
      break;
    }
    case H_UNARY: {
      int sub = d.u(4), form = d.u(4), w = d.width(), dd = d.gp(); int alt = d.u(2);
      if (form == 3) { MemRef m = mem(d, w / 8, false, false); MOp& o = push(M_UN, sub, w); o.o[0] = Opnd::M(m); o.alt = alt; }
      else { w = effw(w, dd); MOp& o = push(M_UN, sub, w); o.o[0] = Opnd::R(dd); o.alt = alt; }
      if (w < 32) P.n_partial++;
      break;
    }
    case H_IMUL: {
      int form = d.u(4), w = d.width(), dd = d.gp(), s = d.gp(); int64_t im = d.imm();
      if (w == 8) w = 32;
      if (form == 0) { w = effw(w, dd, s); alu(A_IMUL, w, Opnd::R(dd), Opnd::R(s)); }
      else if (form == 1) { w = effw(w, dd); MemRef m = mem(d, w / 8, true, false); alu(A_IMUL, w, Opnd::R(dd), Opnd::M(m)); }
      else if (form == 2) { w = effw(w, dd, s); MOp& o = push(M_IMUL3, 0, w); o.o[0] = Opnd::R(dd); o.o[1] = Opnd::R(s); o.imm = fit_imm(im, w == 16 ? 16 : 32); }
      else { w = effw(w, dd); MemRef m = mem(d, w / 8, true, false); MOp& o = push(M_IMUL3, 0, w); o.o[0] = Opnd::R(dd); o.o[1] = Opnd::M(m); o.imm = fit_imm(im, w == 16 ? 16 : 32); }
      if (w < 32) P.n_partial++;
      break;
    }
    case H_LEA: {
      int form = d.u(3), w = d.u(2) ? 64 : 32, dd = d.gp(), a = d.gp(), b = d.gp(), sh = d.u(4); int64_t disp = int32_t(d.imm());
      MOp& o = push(M_LEA, form, 32); o.o[0] = Opnd::R(dd);
      if (form != 2) o.o[1] = Opnd::R(a);
      if (form != 0) { o.o[2] = Opnd::R(b); o.imm = sh; }
      o.cc = 0; o.w2 = (ty(form != 2 ? a : b) == 64 && ty(form != 0 ? b : a) == 64) ? 64 : 32;   // address size
      o.w = o.w2 == 64 ? effw(w, dd) : 32;
      o.o[3] = Opnd::I(disp);
      break;
    }
    case H_MOVX: {
      int sub = d.u(5), wd = d.u(3), dd = d.gp(), s = d.gp(), form = d.u(3);
      int ws = (sub & 1) ? 16 : 8; int sgn = sub >= 2 ? X_SX : X_ZX;
      int w = wd == 0 ? 32 : wd == 1 ? 64 : 16;
      if (sub == 4) { ws = 32; w = 64; sgn = X_SX; }
      w = effw(w, dd);
      if (w <= ws) { if (ws == 32) { ws = 16; } if (w <= ws) ws = 8; }
      Opnd src = Opnd::R(s);
      if (form == 2) src = Opnd::M(mem(d, ws / 8, true, true));
      MOp& o = push(M_MOVX, sgn, w); o.w2 = ws; o.o[0] = Opnd::R(dd); o.o[1] = src;
      if (w < 32) P.n_partial++;
      break;
    }
    case H_SHIFT_I: {
      int sub = d.u(5), w = d.width(), dd = d.gp(), cnt = d.u(68), form = d.u(6);
      if (cnt >= 64) cnt = cnt == 64 ? 0 : 1;
      if (form == 5) { MemRef m = mem(d, w / 8, false, false); MOp& o = push(M_SHIFT, sub, w); o.o[0] = Opnd::M(m); o.o[1] = Opnd::I(cnt); }
      else { w = effw(w, dd); MOp& o = push(M_SHIFT, sub, w); o.o[0] = Opnd::R(dd); o.o[1] = Opnd::I(cnt); }
      if (w < 32) P.n_partial++;
      break;
    }
    case H_SHIFT_CL: {
      int sub = d.u(5), w = d.width(), dd = d.gp(), c = d.gp(), form = d.u(6);
      P.n_fixed++;
      if (form == 5) { MemRef m = mem(d, w / 8, false, false); MOp& o = push(M_SHIFT, sub, w); o.o[0] = Opnd::M(m); o.o[1] = Opnd::R(c); }
      else { w = effw(w, dd); MOp& o = push(M_SHIFT, sub, w); o.o[0] = Opnd::R(dd); o.o[1] = Opnd::R(c); }
      if (w < 32) P.n_partial++;
      break;
    }
    case H_MULDIV: {
      int sub = d.u(4), wsel = d.u(3), hi = d.gp(), lo = d.gp(), s = d.gp(), form = d.u(3);
      if (P.ng < 3) { alu(A_ADD, effw(32, hi, lo), Opnd::R(hi), Opnd::R(lo)); break; }
      while (lo == hi) lo = (lo + 1) % P.ng;
      while (s == hi || s == lo) s = (s + 1) % P.ng;
      int w = effw(wsel == 0 ? 32 : wsel == 1 ? 64 : 16, hi, lo, s);
      P.n_fixed++;
      if (sub >= D_DIV) {
        // guarded divisor in a fresh temp: (s >> 1) | 1 is non-zero and positive at the operation width
        int tw = w == 64 ? 64 : 32; int t = new_temp(tw);
        if (w == 16) { MOp& z = push(M_MOVX, X_ZX, 32); z.w2 = 16; z.o[0] = Opnd::R(t); z.o[1] = Opnd::R(s); } else alu(A_MOV, tw, Opnd::R(t), Opnd::R(s));
        if (sub == D_IDIV) { MOp& sh = push(M_SHIFT, S_SHR, tw); sh.o[0] = Opnd::R(t); sh.o[1] = Opnd::I(1); }
        alu(A_OR, tw, Opnd::R(t), Opnd::I(1));
        if (sub == D_DIV) { if (w < 32) alu(A_MOV, w, Opnd::R(hi), Opnd::I(0)); else alu(A_XOR, w, Opnd::R(hi), Opnd::R(hi)); }
        else { MOp& c = push(M_CDQ, 0, w); c.o[0] = Opnd::R(hi); c.o[1] = Opnd::R(lo); }
        s = t;
      }
      MOp& o = push(M_MULDIV, sub, w); o.o[0] = Opnd::R(hi); o.o[1] = Opnd::R(lo); o.o[2] = Opnd::R(s);
      if (form == 2 && sub <= D_IMUL) { MemRef m = mem(d, w / 8, true, false); out->ops.back().o[2] = Opnd::M(m); }
      if (w < 32) P.n_partial++;
      break;
    }
    case H_CMPXCHG: {
      int w = d.width(), dd = d.gp(), s = d.gp(), acc = d.gp(), form = d.u(3);
      P.n_fixed++;
      if (form == 2) { w = effw(w, s, acc); MemRef m = mem(d, w / 8, false, false); MOp& o = push(M_CMPXCHG, 0, w); o.o[0] = Opnd::M(m); o.o[1] = Opnd::R(s); o.o[2] = Opnd::R(acc); }
      else {
        if (P.ng < 2) { alu(A_ADD, effw(32, dd), Opnd::R(dd), Opnd::R(dd)); break; }
        while (acc == dd) acc = (acc + 1) % P.ng;
        w = effw(w, dd, s, acc); MOp& o = push(M_CMPXCHG, 0, w); o.o[0] = Opnd::R(dd); o.o[1] = Opnd::R(s); o.o[2] = Opnd::R(acc);
      }
      if (w < 32) P.n_partial++;
      break;
    }
    case H_XCHG: {
      int sub = d.u(2) ? A_XADD : A_XCHG, w = d.width(), dd = d.gp(), s = d.gp(), form = d.u(3);
      if (form == 2) { w = effw(w, s); MemRef m = mem(d, w / 8, false, false); alu(sub, w, Opnd::M(m), Opnd::R(s)); }
      else {
        if (P.ng < 2) { alu(A_ADD, effw(32, dd), Opnd::R(dd), Opnd::R(dd)); break; }
        while (s == dd) s = (s + 1) % P.ng;
        w = effw(w, dd, s); alu(sub, w, Opnd::R(dd), Opnd::R(s));
      }
      if (w < 32) P.n_partial++;
      break;
    }
    case H_SETCC: {
      int cc = d.u(16), dd = d.gp(), form = d.u(3);
      size_t before = out->ops.size();
      Node tmp; Node* save = out; out = &tmp; cond(d); out = save;      // decode the condition first to know its registers
      bool uses_d = false;
      for (MOp& m : tmp.ops) for (Opnd& o : m.o) if ((o.t == T_REG && o.r == dd) || (o.t == T_MEM && o.m.idx == dd)) uses_d = true;
      if (form == 1 && !uses_d) alu(A_XOR, 32, Opnd::R(dd), Opnd::R(dd));
      for (MOp& m : tmp.ops) out->ops.push_back(m);
      MOp& o = push(M_SETCC, 0, 8); o.cc = cc; o.o[0] = Opnd::R(dd);
      if (form == 2) { MOp& z = push(M_MOVX, X_ZX, 32); z.w2 = 8; z.o[0] = Opnd::R(dd); z.o[1] = Opnd::R(dd); }
      P.n_partial++; (void)before;
      break;
    }
    case H_CMOV: {
      int cc = d.u(16), wsel = d.u(3), dd = d.gp(), s = d.gp(), form = d.u(3);
      cond(d);
      int w = wsel == 0 ? 32 : wsel == 1 ? 64 : 16;
      if (form == 2) { w = effw(w, dd); MemRef m = mem(d, w / 8, true, false); MOp& o = push(M_CMOV, 0, w); o.cc = cc; o.o[0] = Opnd::R(dd); o.o[1] = Opnd::M(m);
        // the index guard of mem() must not sit between cmp and cmov: and clobbers flags -> mem() is called with allow_idx=false
      } else { w = effw(w, dd, s); MOp& o = push(M_CMOV, 0, w); o.cc = cc; o.o[0] = Opnd::R(dd); o.o[1] = Opnd::R(s); }
      if (w < 32) P.n_partial++;
      break;
    }
    case H_BT: {
      int sub = d.u(4), wsel = d.u(3), a = d.gp(), b = d.gp(), dd = d.gp(), form = d.u(2), bit = d.u(64);
      int w = wsel == 0 ? 32 : wsel == 1 ? 64 : 16;
      w = form ? effw(w, a) : effw(w, a, b);
      MOp& o = push(M_BT, sub, w); o.o[0] = Opnd::R(a); o.o[1] = form ? Opnd::I(bit % w) : Opnd::R(b);
      if (sub == B_BT) { MOp& s = push(M_SETCC, 0, 8); s.cc = d.u(2) ? 2 : 3; s.o[0] = Opnd::R(dd); P.n_partial++; }
      break;
    }
    case H_CNT: {
      int sub = d.u(3), wsel = d.u(3), dd = d.gp(), s = d.gp(), form = d.u(3);
      int w = wsel == 0 ? 32 : wsel == 1 ? 64 : 16;
      if (form == 2) { w = effw(w, dd); MemRef m = mem(d, w / 8, true, false); MOp& o = push(M_CNT, sub, w); o.o[0] = Opnd::R(dd); o.o[1] = Opnd::M(m); }
      else { w = effw(w, dd, s); MOp& o = push(M_CNT, sub, w); o.o[0] = Opnd::R(dd); o.o[1] = Opnd::R(s); }
      break;
    }
    case H_IDIOM: {
      int which = d.u(22), w = d.width(), dd = d.gp();
      w = effw(w, dd); P.n_idiom++;
      // known-defect shapes are excluded by construction once their key is listed (counted)
      Opnd D = Opnd::R(dd);
      switch (which) {
        case 0: alu(A_XOR, w, D, D); break;
        case 1: alu(A_SUB, w, D, D); break;
        case 2: alu(A_OR, w, D, Opnd::I(-1)); break;
        case 3: alu(A_AND, w, D, Opnd::I(0)); break;
        case 4: alu(A_ADD, w, D, Opnd::I(0)); break;
        case 5: alu(A_OR, w, D, Opnd::I(0)); break;
        case 6: alu(A_XOR, w, D, Opnd::I(0)); break;
        case 7: alu(A_SUB, w, D, Opnd::I(0)); break;
        case 8: case 9: case 10: case 11: case 12: { MOp& o = push(M_SHIFT, which - 8, w); o.o[0] = D; o.o[1] = Opnd::I(0); break; }
        case 13: alu(A_AND, w, D, D); break;
        case 14: alu(A_OR, w, D, D); break;
        case 15: alu(A_MOV, w, D, D); break;
        case 16: alu(A_AND, w, D, Opnd::I(-1)); break;
        case 17: { alu(A_CMP, w, D, D); MOp& s = push(M_SETCC, 0, 8); s.cc = d.u(16); s.o[0] = D; break; }
        case 18: { alu(A_TEST, w, D, D); MOp& s = push(M_SETCC, 0, 8); s.cc = d.u(16); s.o[0] = D; break; }
        case 19: { MOp& o = push(M_IMUL3, 0, w == 8 ? 32 : w); o.w = effw(w == 8 ? 32 : w, dd); o.o[0] = D; o.o[1] = D; o.imm = 0; break; }
        case 20: alu(A_OR, w, D, Opnd::I(w == 64 ? -1 : int64_t(wmask(w)))); break;   // positive all-ones mask of the operand size
        default: alu(A_MOV, w, D, Opnd::I(0)); break;
      }
      if (w < 32) P.n_partial++;
      break;
    }
    case H_TEMP: {
      static const int subs[5] = {A_ADD, A_SUB, A_AND, A_OR, A_XOR};
      int tw = d.u(2) ? 64 : 32, a = d.gp(), b = d.gp(), dd = d.gp(), s1 = subs[d.u(5)], s2 = subs[d.u(5)];
      int t = new_temp(tw);
      int w1 = effw(tw, a);
      if (w1 < tw) { MOp& z = push(M_ALU, A_MOV, 32); z.o[0] = Opnd::R(t); z.o[1] = Opnd::R(a); }   // 32-bit write zero-extends the 64-bit temp
      else alu(A_MOV, tw, Opnd::R(t), Opnd::R(a));
      alu(s1, effw(tw, b), Opnd::R(t), Opnd::R(b));
      alu(s2, effw(tw, dd), Opnd::R(dd), Opnd::R(t));
      break;
    }
    case H_VGX: {
      if (P.nv == 0) { int a = d.gp(); alu(A_ADD, effw(32, a), Opnd::R(a), Opnd::I(1)); break; }
      int sub = d.u(6), x = d.vec(), g = d.gp(), lane = d.u(4); P.n_vec++;
      if ((sub == G_MOVQ_XG || sub == G_MOVQ_GX) && ty(g) != 64) { int g2 = d.gp64(); if (g2 < 0) sub -= 2; else g = g2; }
      MOp& o = push(M_VGX, sub, (sub == G_MOVQ_XG || sub == G_MOVQ_GX) ? 64 : 32); o.o[0] = Opnd::V(x); o.o[1] = Opnd::R(g); o.imm = lane;
      break;
    }
    case H_VLDST: {
      if (P.nv == 0) { int a = d.gp(); alu(A_SUB, effw(32, a), Opnd::R(a), Opnd::I(1)); break; }
      int form = d.u(4), x = d.vec(), y = d.vec(), alt = d.u(2); P.n_vec++;
      MOp& o = push(M_VMOV, form == 0 ? 0 : form == 1 ? 2 : 1, 128); o.alt = alt; o.o[0] = Opnd::V(x);
      if (form == 0) o.o[1] = Opnd::V(y);
      else { size_t me = out->ops.size() - 1; MemRef m = mem(d, 16, form >= 2, false, alt ? 16 : 1); out->ops[me].o[1] = Opnd::M(m); }
      break;
    }
    case H_VALU: {
      if (P.nv == 0) { int a = d.gp(); alu(A_XOR, effw(32, a), Opnd::R(a), Opnd::I(3)); break; }
      int sub = d.u(V_COUNT_ + 1), x = d.vec(), y = d.vec(), z = d.vec(), form = d.u(4), km = d.u(3), alt = d.u(2), im = d.u(256); P.n_vec++;
      if (sub == V_COUNT_) {   // vpternlogd (AVX-512 only) else pshufd
        if (P.vmode == 2) {
          int pi = d.u(4); MOp& o = push(M_VTERN, 0, 128); o.o[0] = Opnd::V(x); o.o[1] = Opnd::V(y); o.o[2] = Opnd::V(z);
          o.imm = pi == 0 ? 0x00 : pi == 1 ? 0xFF : im;
          if (km == 1 && P.nk > 0) { o.kmask = d.msk(); P.n_mask++; }
          break;
        }
        sub = V_PSHUFD;
      }
      MOp& o = push(M_VALU, sub, 128); o.alt = alt; o.imm = im;
      o.o[0] = Opnd::V(x); o.o[1] = Opnd::V(P.vmode == 0 ? x : y); o.o[2] = Opnd::V(z);
      if (sub == V_PSHUFD) o.o[1] = o.o[2];
      if (form == 3) { size_t me = out->ops.size() - 1; MemRef m = mem(d, 16, true, false, 16); out->ops[me].o[2] = Opnd::M(m); if (sub == V_PSHUFD) out->ops[me].o[1] = out->ops[me].o[2]; }
      if (P.vmode == 2 && km == 1 && P.nk > 0 && sub <= V_PANDN) { out->ops.back().kmask = d.msk(); P.n_mask++; }
      break;
    }
    case H_KOP: {
      if (P.nk == 0 || P.vmode != 2) { int a = d.gp(); alu(A_ADD, effw(32, a), Opnd::R(a), Opnd::I(7)); break; }
      int sub = d.u(12), k1 = d.msk(), k2 = d.msk(), k3 = d.msk(), g = d.gp(), x = P.nv ? d.vec() : 0, y = P.nv ? d.vec() : 0, km = d.u(3); P.n_mask++;
      if (sub >= 10) {
        if (P.nv == 0) sub = KO_XOR;
        else { MOp& o = push(M_KCMP, sub == 10 ? 0 : 1, 128); o.o[0] = Opnd::K(k1); o.o[1] = Opnd::V(x); o.o[2] = Opnd::V(y); if (km == 1) o.kmask = k2; break; }
      }
      MOp& o = push(M_KOP, sub, 16); o.o[0] = Opnd::K(k1);
      if (sub == KO_KG || sub == KO_GK) o.o[1] = Opnd::R(g);
      else if (sub == KO_NOT || sub == KO_KK) o.o[1] = Opnd::K(k2);
      else if (sub == KO_KM || sub == KO_MK) { size_t me = out->ops.size() - 1; MemRef m = mem(d, 2, false, false); out->ops[me].o[1] = Opnd::M(m); }
      else { o.o[1] = Opnd::K(k2); o.o[2] = Opnd::K(k3); }
      break;
    }
    case H_CALL: {
      int id = d.u(kNumCallees1), dd = d.gp();
      const char* sig = kCallees[id];
      bool needs_vec = strchr(sig, 'x') != nullptr;
      if (needs_vec && P.nv == 0) { id = id % 8; sig = kCallees[id]; }
      MOp& o = push(M_CALL, id, 64); P.n_calls++;
      o.o[0] = sig[0] == 'x' ? Opnd::V(d.vec()) : Opnd::R(dd);
      for (int i = 0; sig[1 + i]; i++) {
        int r = d.gp(); int64_t im = d.imm(); int isimm = d.u(5) == 0;
        // 64-bit arguments that may travel on the stack (5th+ on Win64, 7th+ on SysV): half of the immediates are values that fit uint32 but not
        // int32 - a single sign-extending `mov qword [rsp+off], imm32` must not be chosen for them
        if (isimm && sig[1 + i] == 'q' && i >= 4 && (r & 1)) { static const int64_t u32v[] = {0x80000000LL, 0xffffffffLL, 0x80000001LL, 0xfedcba98LL}; im = u32v[(uint64_t(im) >> 3) % 4]; P.n_u32imm_args++; }
        Opnd a;
        if (sig[1 + i] == 'x') a = Opnd::V(umod(int64_t((uint64_t(r) + uint64_t(im)) & 0xFFFF), P.nv));
        else if (isimm) a = Opnd::I(sig[1 + i] == 'd' ? int64_t(uint32_t(im)) : im);
        else if (sig[1 + i] == 'q' && ty(r) != 64) { if (P.idx64.empty()) a = Opnd::I(im); else a = Opnd::R(P.idx64[size_t(r) % P.idx64.size()]); }
        else a = Opnd::R(r);
        out->ops.back().args[i] = a; out->ops.back().nargs = i + 1;
      }
      break;
    }
    case H_WLDST: {
      if (P.nw == 0) { int a = d.gp(); alu(A_SUB, effw(32, a), Opnd::R(a), Opnd::I(2)); break; }
      int form = d.u(4), x = d.wid(), y = d.wid(), alt = d.u(2); int wb = P.wbits / 8; P.n_wide++;
      MOp& o = push(M_WMOV, form == 0 ? 0 : form == 1 ? 2 : 1, P.wbits); o.alt = alt; o.o[0] = Opnd::W(x);
      if (form == 0) o.o[1] = Opnd::W(y);
      else { size_t me = out->ops.size() - 1; MemRef m = mem(d, wb, form >= 2, false, alt ? wb : 1); if (m.space != MS_BUF) out->ops[me].alt = 0; out->ops[me].o[1] = Opnd::M(m); P.n_wide_mem++; }
      break;
    }
    case H_WALU: {
      if (P.nw == 0) { int a = d.gp(); alu(A_XOR, effw(32, a), Opnd::R(a), Opnd::I(5)); break; }
      int sub = d.u(V_COUNT_ + 1), x = d.wid(), y = d.wid(), z = d.wid(), form = d.u(4), km = d.u(3), alt = d.u(2), im = d.u(256); int wb = P.wbits / 8; P.n_wide++;
      if (sub == V_COUNT_) {   // vpternlogd (AVX-512 only) else vpshufd
        if (P.vmode == 2) {
          int pi = d.u(4); MOp& o = push(M_WTERN, 0, P.wbits); o.o[0] = Opnd::W(x); o.o[1] = Opnd::W(y); o.o[2] = Opnd::W(z);
          o.imm = pi == 0 ? 0x00 : pi == 1 ? 0xFF : im;
          if (km == 1 && P.nk > 0) { o.kmask = d.msk(); P.n_mask++; }
          break;
        }
        sub = V_PSHUFD;
      }
      if (P.wbits == 512 && (sub == V_PCMPEQD || sub == V_PCMPGTD)) sub = sub == V_PCMPEQD ? V_PADDD : V_PSUBD;   // no zmm compare with a vector destination
      MOp& o = push(M_WALU, sub, P.wbits); o.alt = alt; o.imm = im;
      o.o[0] = Opnd::W(x); o.o[1] = Opnd::W(y); o.o[2] = Opnd::W(z);
      if (sub == V_PSHUFD) o.o[1] = o.o[2];
      if (form == 3) { size_t me = out->ops.size() - 1; MemRef m = mem(d, wb, true, false, 1); out->ops[me].o[2] = Opnd::M(m); if (sub == V_PSHUFD) out->ops[me].o[1] = out->ops[me].o[2]; P.n_wide_mem++; }
      if (P.vmode == 2 && km == 1 && P.nk > 0 && sub <= V_PANDN) { out->ops.back().kmask = d.msk(); P.n_mask++; }
      break;
    }
    case H_WX: {
      if (P.nw == 0) { int a = d.gp(); alu(A_ADD, effw(32, a), Opnd::R(a), Opnd::I(9)); break; }
      int sub = d.u(WX_COUNT_), wd = d.wid(), wa = d.wid(), wbv = d.wid(), xa = d.vec(), xb = d.vec(), im = d.u(256); P.n_wide++;
      if (P.nv == 0 && sub != WX_PERM2 && sub != WX_PERMQ) sub = (sub & 1) ? WX_PERM2 : WX_PERMQ;
      int nl = P.wbits / 128;
      MOp& o = push(M_WX, sub, P.wbits); o.imm = im;
      switch (sub) {
        case WX_EXTRACT: o.o[0] = Opnd::V(xa); o.o[1] = Opnd::W(wa); o.imm = im % nl; P.n_wide_xlane++; break;
        case WX_EXTRACT_MEM: { o.o[1] = Opnd::W(wa); o.imm = im % nl; size_t me = out->ops.size() - 1; MemRef m = mem(d, 16, false, false, 1); out->ops[me].o[0] = Opnd::M(m); P.n_wide_xlane++; P.n_wide_mem++; break; }
        case WX_INSERT: o.o[0] = Opnd::W(wd); o.o[1] = Opnd::W(wa); o.o[2] = Opnd::V(xa); o.imm = im % nl; P.n_wide_xlane++; break;
        case WX_PERM2: o.o[0] = Opnd::W(wd); o.o[1] = Opnd::W(wa); o.o[2] = Opnd::W(wbv); P.n_wide_xlane++; break;
        case WX_PERMQ: o.o[0] = Opnd::W(wd); o.o[1] = Opnd::W(wa); P.n_wide_xlane++; break;
        case WX_BCAST: o.o[0] = Opnd::W(wd); o.o[1] = Opnd::V(xa); break;
        case WX_LOWREAD: o.o[0] = Opnd::V(xa); o.o[1] = Opnd::W(wa); P.n_wide_lowview++; break;
        default: o.o[0] = Opnd::W(wd); o.o[1] = Opnd::V(xa); o.o[2] = Opnd::V(xb); P.n_wide_lowview++; break;   // WX_LOWWRITE
      }
      break;
    }
    case H_CALL2: {
      int id = kNumCallees1 + d.u(kNumCallees - kNumCallees1), dd = d.gp();
      if (strchr(kCallees[id], 'y') && (P.nw == 0 || P.wbits != 256)) id = kNumCallees1 + (id - kNumCallees1) % kNumCallees2NoWide;
      const char* sig = kCallees[id];
      MOp& o = push(M_CALL, id, 64); P.n_calls++;
      if (kCalleeConv[id] == CV_WIN64) P.n_calls_win++; else if (kCalleeConv[id] == CV_VECTORCALL) P.n_calls_vcall++; else P.n_calls_widearg++;
      o.o[0] = sig[0] == 'y' ? Opnd::W(d.wid()) : Opnd::R(dd);
      for (int i = 0; sig[1 + i]; i++) {
        int r = d.gp(); int64_t im = d.imm(); int isimm = d.u(5) == 0;
        // 64-bit arguments that may travel on the stack (5th+ on Win64, 7th+ on SysV): half of the immediates are values that fit uint32 but not
        // int32 - a single sign-extending `mov qword [rsp+off], imm32` must not be chosen for them
        if (isimm && sig[1 + i] == 'q' && i >= 4 && (r & 1)) { static const int64_t u32v[] = {0x80000000LL, 0xffffffffLL, 0x80000001LL, 0xfedcba98LL}; im = u32v[(uint64_t(im) >> 3) % 4]; P.n_u32imm_args++; }
        Opnd a;
        if (sig[1 + i] == 'y') a = Opnd::W(umod(int64_t((uint64_t(r) + uint64_t(im)) & 0xFFFF), P.nw));
        else if (isimm) a = Opnd::I(sig[1 + i] == 'd' ? int64_t(uint32_t(im)) : im);
        else if (sig[1 + i] == 'q' && ty(r) != 64) { if (P.idx64.empty()) a = Opnd::I(im); else a = Opnd::R(P.idx64[size_t(r) % P.idx64.size()]); }
        else a = Opnd::R(r);
        out->ops.back().args[i] = a; out->ops.back().nargs = i + 1;
      }
      break;
    }
    default: alu(A_ADD, 32, Opnd::R(0), Opnd::R(0)); break;
  }
  for (MOp& m : node.ops) fix(m);
}

// Exclusion of known-defect trigger shapes (see Excl).
void Lower::fix(MOp& m) {
  auto is_reg = [](const Opnd& o) { return o.t == T_REG; };
  bool same01 = is_reg(m.o[0]) && is_reg(m.o[1]) && m.o[0].r == m.o[1].r;
  if (ex.on[EX_CMPXCHG] && m.k == M_CMPXCHG) { m.k = M_ALU; m.sub = A_ADD; m.o[2] = Opnd(); P.n_excl[EX_CMPXCHG]++, P.n_excluded++; }
  if (ex.on[EX_KMOVW] && m.k == M_KOP && m.sub == KO_GK) { m.sub = KO_KK; m.o[1] = m.o[0]; P.n_excl[EX_KMOVW]++, P.n_excluded++; }
  if (ex.on[EX_ORMEM] && m.k == M_ALU && m.sub == A_OR && m.o[0].t == T_MEM && m.o[1].t == T_IMM && (m.o[1].imm == -1 || uint64_t(m.o[1].imm) == wmask(m.w))) { m.sub = A_MOV; P.n_excl[EX_ORMEM]++, P.n_excluded++; }
  if (ex.on[EX_BTMEM] && m.k == M_BT && is_reg(m.o[1])) { m.o[1] = Opnd::I(7); P.n_excl[EX_BTMEM]++, P.n_excluded++; }
  if (ex.on[EX_AND0] && m.k == M_ALU && m.sub == A_AND && m.o[1].t == T_IMM && m.o[1].imm == 0 && is_reg(m.o[0])) { m.sub = A_MOV; P.n_excl[EX_AND0]++, P.n_excluded++; }
  if (ex.on[EX_WOPART] && m.k == M_ALU && (m.sub == A_XOR || m.sub == A_SUB) && same01 && m.w < 32) { m.sub = A_MOV; m.o[1] = Opnd::I(0); P.n_excl[EX_WOPART]++, P.n_excluded++; }
  if (ex.on[EX_RO32] && m.k == M_ALU && (m.sub == A_AND || m.sub == A_OR) && same01 && m.w == 32 && ty(m.o[0].r) == 64) { m.w = 64; P.n_excl[EX_RO32]++, P.n_excluded++; }
  // (an instruction whose operands are all the same virtual register is never reg->mem patched)
  if (ex.on[EX_RMNARROW] && m.w == 32 && is_reg(m.o[0]) && ty(m.o[0].r) == 64 && !(same01 && m.k == M_ALU)) {
    bool rw = (m.k == M_ALU && (m.sub <= A_XOR || m.sub == A_XCHG || m.sub == A_XADD)) || m.k == M_UN || m.k == M_SHIFT || (m.k == M_BT && m.sub != B_BT) || m.k == M_CMPXCHG;
    if (rw) {
      bool all64 = true;
      for (int i = 1; i < 3; i++) { if (is_reg(m.o[i]) && ty(m.o[i].r) != 64 && !(m.k == M_SHIFT && i == 1)) all64 = false; if (m.o[i].t == T_MEM) all64 = false; }
      if (all64) { m.w = 64; for (int i = 1; i < 3; i++) if (m.o[i].t == T_IMM && m.k == M_ALU) m.o[i].imm = int64_t(int32_t(m.o[i].imm)); }
      else { Opnd s = (m.k == M_ALU && m.o[1].t != T_NONE) ? m.o[1] : Opnd::I(1); m.k = M_ALU; m.sub = A_MOV; m.o[1] = s; m.o[2] = Opnd(); }
      P.n_excl[EX_RMNARROW]++, P.n_excluded++;
    }
  }
  // xchg with a memory/narrow register as second operand is symmetric
  if (ex.on[EX_RMNARROW] && m.k == M_ALU && m.sub == A_XCHG && m.w == 32 && is_reg(m.o[1]) && ty(m.o[1].r) == 64) { m.sub = A_MOV; P.n_excl[EX_RMNARROW]++, P.n_excluded++; }
}

// the p-th permutation (0..23) of {0,1,2,3}, restricted to the elements < n (in that order)
inline void perm_of(int p, int n, int* out) {
  int pool[4] = {0, 1, 2, 3}, full[4]; p = umod(p, 24);
  static const int f[4] = {6, 2, 1, 1};
  for (int i = 0; i < 4; i++) { int q = p / f[i]; p %= f[i]; full[i] = pool[q]; for (int j = q; j < 3 - i; j++) pool[j] = pool[j + 1]; }
  int c = 0; for (int i = 0; i < 4; i++) if (full[i] < n) out[c++] = full[i];
  for (; c < 4; c++) out[c] = 0;
}
inline int clampi(int64_t v, int lo, int hi) { return int(v < lo ? lo : v > hi ? hi : v); }

void count_depth(Prog& P, const std::vector<Node>& l, int depth) {
  P.max_depth = std::max(P.max_depth, depth);
  for (const Node& n : l) for (auto& p : n.parts) count_depth(P, p, depth + 1);
}

void decode_case(const vh::Case& c, const Excl& ex, Prog& P) {
  auto cf = [&](size_t i) -> int64_t { return i < c.cfg.size() ? c.cfg[i] : 0; };
  P.ng = clampi(cf(0) < 0 ? -cf(0) : cf(0), 1, kMaxG);
  P.tysel = umod(cf(1), 4);
  P.nv = umod(cf(2), kMaxV + 1);
  P.nk = umod(cf(3), kMaxK + 1);
  P.vmode = umod(cf(4), 3);
  if (P.vmode != 2) P.nk = 0;
  P.nargs = std::min(umod(cf(5), kMaxArgs + 1), P.ng);
  P.foldfrac = 8 - umod(cf(6), 9);            // 0 -> everything folded
  P.foldsel = umod(cf(7), 8);
  P.pressure = umod(cf(8), kMaxP + 1);
  P.nslots = umod(cf(9), kMaxSlots + 1);
  P.inseed = uint64_t(cf(10));
  P.initsel = umod(cf(11), 4);
  P.nw = P.vmode >= 1 ? umod(cf(12), kMaxW + 1) : 0;                          // wide values need VEX/EVEX code
  P.wbits = (umod(cf(13), 2) == 1 && P.vmode == 2 && g_host_avx512) ? 512 : 256;
  P.gty.resize(size_t(P.ng));
  for (int i = 0; i < P.ng; i++) {
    int t = P.tysel == 0 ? 64 : P.tysel == 1 ? 32 : P.tysel == 2 ? ((i & 1) ? 32 : 64) : ((mix64(uint64_t(i) * 77 + 5) & 1) ? 32 : 64);
    P.gty[size_t(i)] = uint8_t(t);
    if (t == 64) P.idx64.push_back(i);
  }
  Lower L(P, ex);
  std::vector<Node> st;
  st.emplace_back(); st.back().parts.emplace_back();
  auto close = [&]() {
    Node n = std::move(st.back()); st.pop_back();
    if (n.kind == N_IF || n.kind == N_IRR) while (n.parts.size() < 2) n.parts.emplace_back();
    if (n.kind == N_DISPATCH) {
      while (int(n.parts.size()) < 2 + n.n) n.parts.emplace_back();
      // statistics (the allocator walks the blocks in code order: arm A, arm B, case 0, case 1, ...)
      std::function<bool(const std::vector<Node>&, int)> has = [&](const std::vector<Node>& l, int what) {
        for (const Node& q : l) {
          for (const MOp& m : q.ops) { if (what == 0 && m.k == M_CALL) return true; if (what == 1 && m.k != M_CALL && m.o[0].t == T_REG && !(m.k == M_ALU && (m.sub == A_CMP || m.sub == A_TEST))) return true; }
          for (auto& pp : q.parts) if (has(pp, what)) return true;
        }
        return false;
      };
      int order[3][4]; for (int j = 0; j < 3; j++) perm_of(n.sameann ? n.perm[0] : n.perm[j], n.n, order[j]);
      P.n_dispatch++; P.n_disp_jumps += 2; if (n.sameann) P.n_disp_sameann++;
      P.n_disp_unalloc_first++;                                    // arm B: every case is still unallocated, the shared assignment is set
      for (int i = 0; i < n.n; i++) if ((n.redisp >> i) & 1) { P.n_disp_jumps++; P.n_disp_redisp++; if (order[2][0] > i) P.n_disp_unalloc_first++; }
      bool call_in = false; for (size_t i = 2; i < n.parts.size(); i++) if (has(n.parts[i], 0)) call_in = true;
      if (call_in) P.n_disp_call_inside++;
      bool wr = has(n.parts[1], 1); for (int i = 0; i < n.n; i++) if (((n.redisp >> i) & 1) && has(n.parts[size_t(2 + i)], 1)) wr = true;
      if (wr) P.n_disp_write_in_arm++;
    }
    st.back().parts.back().push_back(std::move(n));
  };
  size_t total = 0;
  for (const vh::Op& op : c.ops) {
    if (++total > 400) break;
    int hk = umod(fld(op, 0), H_COUNT_);
    if (hk == H_IF || hk == H_IRR || hk == H_LOOP || hk == H_SWITCH || hk == H_DISPATCH) {
      if (st.size() > 4) continue;
      Node n; n.hl = hk; Dec d(P, op);
      if (hk == H_DISPATCH) {
        n.kind = N_DISPATCH; n.sel = d.gp(); n.sel2 = d.gp(); n.sel3 = d.gp(); n.n = 1 + d.u(4); n.cc = d.u(16);
        n.perm[0] = d.u(24); n.perm[1] = d.u(24); n.perm[2] = d.u(24); n.redisp = d.u(16) & ((1 << n.n) - 1); n.n2 = 1 + d.u(3);
        n.flag = d.u(3) == 0; n.sameann = d.u(3) == 0; n.rot = d.u(4); n.ntab = 4;
        if (P.n_calls) P.n_disp_after_call++;
        if (ex.on[EX_JTCLOBBER]) { n.pad = 1; P.n_excl[EX_JTCLOBBER]++, P.n_excluded++; }
        if (ex.on[EX_JTBRANCH]) { n.pad = 1; P.n_excl[EX_JTBRANCH]++, P.n_excluded++; }
        L.out = &n; L.cond(d);
      }
      else if (hk == H_LOOP) { n.kind = N_LOOP; n.n = 1 + d.u(3); n.flag = d.u(2); P.n_loops++; }
      else if (hk == H_SWITCH) { n.kind = N_SWITCH; n.sel = d.gp(); n.n = 1 + d.u(4); n.flag = d.u(3) == 0; n.ntab = 4; P.n_switch++; if (ex.on[EX_JTCLOBBER]) { n.pad = 1; P.n_excl[EX_JTCLOBBER]++, P.n_excluded++; } if (ex.on[EX_JTBRANCH]) { n.pad = 1; P.n_excl[EX_JTBRANCH]++, P.n_excluded++; } }
      else { n.kind = hk == H_IF ? N_IF : N_IRR; n.cc = d.u(16); if (hk == H_IRR) { n.n = 1 + d.u(3); P.n_irr++; } else P.n_if++; L.out = &n; L.cond(d); }
      n.parts.emplace_back();
      st.push_back(std::move(n));
    } else if (hk == H_NEXT) {
      if (st.size() <= 1) continue;
      Node& t = st.back();
      if (((t.kind == N_IF || t.kind == N_IRR) && t.parts.size() < 2) || (t.kind == N_SWITCH && int(t.parts.size()) < t.n) || (t.kind == N_DISPATCH && int(t.parts.size()) < 2 + t.n)) t.parts.emplace_back();
    } else if (hk == H_END) {
      if (st.size() > 1) close();
    } else if (hk == H_RETIF) {
      Node n; n.kind = N_RETIF; n.hl = hk; Dec d(P, op); n.cc = d.u(16); n.sel = d.gp(); L.out = &n; L.cond(d); P.n_retif++;
      st.back().parts.back().push_back(std::move(n));
    } else {
      Node n; L.lower(op, hk, n);
      st.back().parts.back().push_back(std::move(n));
    }
  }
  while (st.size() > 1) close();
  P.body = std::move(st.back().parts.back());
  count_depth(P, P.body, 0);
}

// ------------------------------------------------------------------------------------------------
// Rendering of the IR (for failure reports)
// ------------------------------------------------------------------------------------------------
const char* const kCC[16] = {"o", "no", "b", "ae", "e", "ne", "be", "a", "s", "ns", "p", "np", "l", "ge", "le", "g"};
std::string show_opnd(const Prog& P, const Opnd& o, int w) {
  char b[96];
  switch (o.t) {
    case T_REG: snprintf(b, sizeof b, "%s%d:%d.%d", size_t(o.r) >= size_t(P.ng) ? "t" : "v", o.r, size_t(o.r) < P.gty.size() ? P.gty[size_t(o.r)] : 0, w); return b;
    case T_VEC: snprintf(b, sizeof b, "x%d", o.r); return b;
    case T_MSK: snprintf(b, sizeof b, "k%d", o.r); return b;
    case T_WID: snprintf(b, sizeof b, "%c%d", P.wbits == 512 ? 'z' : 'y', o.r); return b;
    case T_IMM: snprintf(b, sizeof b, "%lld", (long long)o.imm); return b;
    case T_MEM:
      if (o.m.space == MS_BUF) { if (o.m.idx >= 0) snprintf(b, sizeof b, "[scr+%d+v%d<<%d].%d", o.m.off, o.m.idx, o.m.shift, w); else snprintf(b, sizeof b, "[scr+%d].%d", o.m.off, w); }
      else if (o.m.space == MS_SLOT) snprintf(b, sizeof b, "[slot%d+%d].%d", o.m.slot, o.m.off, w);
      else snprintf(b, sizeof b, "[const%c%d].%d", o.m.space == MS_CONSTL ? 'L' : 'G', o.m.off, w);
      return b;
    default: return "-";
  }
}
std::string show_mop(const Prog& P, const MOp& m) {
  static const char* const kn[] = {"alu", "un", "imul3", "lea", "movx", "shift", "muldiv", "cdq", "cmpxchg", "set", "cmov", "bt", "cnt", "vgx", "vmov", "valu", "vtern", "kop", "kcmp", "call", "wmov", "walu", "wtern", "wx"};
  static const char* const wxn[] = {"extract128", "insert128", "perm2x128", "bcastd", "lowread", "lowwrite_paddd", "permq", "extract128_mem"};
  static const char* const an[] = {"add", "sub", "and", "or", "xor", "mov", "cmp", "test", "imul", "xchg", "xadd"};
  static const char* const un[] = {"not", "neg", "inc", "dec"};
  static const char* const sn[] = {"shl", "shr", "sar", "rol", "ror"};
  static const char* const dn[] = {"mul", "imul", "div", "idiv"};
  static const char* const bn[] = {"bt", "bts", "btr", "btc"};
  static const char* const cn[] = {"popcnt", "lzcnt", "tzcnt"};
  static const char* const gn[] = {"movd_xg", "movd_gx", "movq_xg", "movq_gx", "pinsrd", "pextrd"};
  static const char* const vn[] = {"paddd", "psubd", "pxor", "pand", "por", "pandn", "pcmpeqd", "pcmpgtd", "pshufd"};
  static const char* const kon[] = {"kmov_kg", "kmov_gk", "kand", "kor", "kxor", "kxnor", "knot", "kmov_kk", "kmov_km", "kmov_mk"};
  std::string s;
  const char* name = kn[m.k];
  switch (m.k) {
    case M_ALU: name = an[m.sub]; break; case M_UN: name = un[m.sub]; break; case M_SHIFT: name = sn[m.sub]; break;
    case M_MULDIV: name = dn[m.sub]; break; case M_BT: name = bn[m.sub]; break; case M_CNT: name = cn[m.sub]; break;
    case M_VGX: name = gn[m.sub]; break; case M_VALU: name = vn[m.sub]; break; case M_KOP: name = kon[m.sub]; break;
    case M_MOVX: name = m.sub == X_SX ? "movsx" : "movzx"; break;
    case M_VMOV: name = m.sub == 0 ? "vmov" : m.sub == 1 ? "vload" : "vstore"; break;
    case M_KCMP: name = m.sub ? "vpcmpgtd_k" : "vpcmpeqd_k"; break;
    case M_WMOV: name = m.sub == 0 ? "wmov" : m.sub == 1 ? "wload" : "wstore"; break;
    case M_WALU: name = vn[m.sub]; break; case M_WX: name = wxn[m.sub]; break;
    default: break;
  }
  s += name;
  if (m.k == M_SETCC || m.k == M_CMOV) s += kCC[m.cc & 15];
  if (m.k == M_CALL) { s += std::to_string(m.sub); s += kCalleeConv[m.sub] == CV_WIN64 ? "[win64]" : kCalleeConv[m.sub] == CV_VECTORCALL ? "[vectorcall]" : ""; s += "("; for (int i = 0; i < m.nargs; i++) { if (i) s += ", "; s += show_opnd(P, m.args[i], 64); } s += ") -> " + show_opnd(P, m.o[0], 64); return s; }
  for (int i = 0; i < 4; i++) if (m.o[i].t != T_NONE) { s += i ? ", " : " "; s += show_opnd(P, m.o[i], (m.k == M_MOVX && i == 1) ? m.w2 : (m.k == M_SETCC ? 8 : m.w)); }
  if (m.k == M_WALU || m.k == M_WTERN || m.k == M_WX || m.k == M_WMOV) s += m.w == 512 ? " (zmm)" : " (ymm)";
  if (m.k == M_IMUL3 || m.k == M_VGX || m.k == M_VTERN || m.k == M_WTERN || m.k == M_WX || ((m.k == M_VALU || m.k == M_WALU) && m.sub == V_PSHUFD) || (m.k == M_LEA)) s += " #" + std::to_string((long long)m.imm);
  if (m.k == M_LEA) s += " aw" + std::to_string(m.w2);
  if (m.kmask >= 0) s += " {k" + std::to_string(m.kmask) + "}";
  return s;
}
void show_nodes(const Prog& P, const std::vector<Node>& l, int ind, std::string& s) {
  auto pad = [&](int n) { s.append(size_t(n) * 2, ' '); };
  for (const Node& n : l) {
    if (n.kind == N_OP) { for (const MOp& m : n.ops) { pad(ind); s += show_mop(P, m); s += "\n"; } continue; }
    for (const MOp& m : n.ops) { pad(ind); s += show_mop(P, m); s += "\n"; }
    pad(ind);
    char b[256];
    switch (n.kind) {
      case N_DISPATCH: {
        int o[3][4]; for (int j = 0; j < 3; j++) perm_of(n.sameann ? n.perm[0] : n.perm[j], n.n, o[j]);
        auto ord = [&](int j) { std::string t; for (int i = 0; i < n.n; i++) t += char('0' + o[j][i]); return t; };
        snprintf(b, sizeof b, "dispatch if %s {A: ...; jmp case[table[v%d & 3]] (labels %s)} else {B: ...; jmp case[table[v%d & 3]] (labels %s)}; %d cases, table rot %d, re-dispatch mask %#x on v%d (labels %s) budget %d%s%s {  A:\n",
                 kCC[n.cc], n.sel, ord(0).c_str(), n.sel2, ord(1).c_str(), n.n, n.rot, n.redisp, n.sel3, ord(2).c_str(), n.n2, n.flag ? ", fallthrough" : "", n.sameann ? ", one JumpAnnotation object" : ", one JumpAnnotation per jump");
        break;
      }
      case N_IF: snprintf(b, sizeof b, "if %s {\n", kCC[n.cc]); break;
      case N_LOOP: snprintf(b, sizeof b, "loop %d {\n", n.n); break;
      case N_IRR: snprintf(b, sizeof b, "cycle %d, if %s enter at B {  A:\n", n.n, kCC[n.cc]); break;
      case N_SWITCH: snprintf(b, sizeof b, "switch v%d & 3 (table of 4 -> %d cases%s) {\n", n.sel, int(n.parts.size()), n.flag ? ", fallthrough" : ""); break;
      case N_RETIF: snprintf(b, sizeof b, "if %s return marker ^ v%d\n", kCC[n.cc], n.sel); break;
      default: b[0] = 0;
    }
    s += b;
    for (size_t p = 0; p < n.parts.size(); p++) {
      if (p) { pad(ind); s += n.kind == N_IF ? "} else {\n" : n.kind == N_IRR ? "  B:\n" : (n.kind == N_DISPATCH && p == 1) ? "  B:\n" : (n.kind == N_DISPATCH && p == 2) ? "  case {\n" : "} case {\n"; }
      show_nodes(P, n.parts[p], ind + 1, s);
    }
    if (n.kind != N_RETIF) { pad(ind); s += "}\n"; }
  }
}
std::string show_prog(const Prog& P) {
  char b[256];
  snprintf(b, sizeof b, "prog ng=%d (tysel %d) nv=%d nk=%d vmode=%d nargs=%d foldfrac=%d foldsel=%d pressure=%d nslots=%d temps=%d nw=%d (%s)\n",
           P.ng, P.tysel, P.nv, P.nk, P.vmode, P.nargs, P.foldfrac, P.foldsel, P.pressure, P.nslots, P.ntemps, P.nw, P.wbits == 512 ? "zmm" : "ymm");
  std::string s = b;
  show_nodes(P, P.body, 1, s);
  return s;
}

// ------------------------------------------------------------------------------------------------
// Reference interpreter (unbounded virtual values, exact x86 integer semantics)
// ------------------------------------------------------------------------------------------------
struct Flags { bool cf = false, zf = false, sf = false, of = false, pf = false; };
inline bool parity8(uint64_t v) { return (__builtin_popcountll(v & 0xff) & 1) == 0; }
inline Flags flags_sub(uint64_t a, uint64_t b, int w) {
  uint64_t m = wmask(w); a &= m; b &= m; uint64_t r = (a - b) & m; Flags f;
  f.cf = a < b; f.zf = r == 0; f.sf = (r >> (w - 1)) & 1; f.of = (((a ^ b) & (a ^ r)) >> (w - 1)) & 1; f.pf = parity8(r); return f;
}
inline Flags flags_logic(uint64_t r, int w) { Flags f; r &= wmask(w); f.zf = r == 0; f.sf = (r >> (w - 1)) & 1; f.pf = parity8(r); return f; }
inline bool eval_cc(int cc, const Flags& f) {
  bool r;
  switch (cc >> 1) {
    case 0: r = f.of; break; case 1: r = f.cf; break; case 2: r = f.zf; break; case 3: r = f.cf || f.zf; break;
    case 4: r = f.sf; break; case 5: r = f.pf; break; case 6: r = f.sf != f.of; break; default: r = f.zf || (f.sf != f.of); break;
  }
  return (cc & 1) ? !r : r;
}
inline uint64_t const_word(int space, int id, int half) { return mix64(uint64_t(space) * 1000 + uint64_t(id) * 2 + uint64_t(half) + 17); }
inline int64_t slot_init(int s, int j) { return int64_t(int32_t(mix64(uint64_t(s) * 8 + uint64_t(j) + 99))); }
inline uint64_t init_const(int i) { return mix64(uint64_t(i) + 4242); }
inline int init_kind(const Prog& P, int i) { int h = int(mix64(uint64_t(i) * 31 + uint64_t(P.initsel)) % 8); return P.initsel == 0 ? 2 : h == 0 ? 0 : h == 1 ? 1 : 2; }  // 0 const, 1 imm, 2 load
constexpr uint64_t kRetMarker = 0x5EED0000C0DEull;

struct VecVal { uint32_t l[4]; };
struct WVal { uint32_t l[16]; };     // ymm: lanes 0..7 (8..15 stay zero), zmm: 0..15

struct Interp {
  const Prog& P;
  std::vector<uint64_t> g; VecVal x[kMaxV + 1]; uint64_t k[kMaxK + 1]; WVal wd[kMaxW + 1];
  uint8_t* buf = nullptr;
  alignas(16) uint8_t slots[kMaxSlots][32];
  alignas(64) uint8_t cbuf[64];
  Flags fl;
  std::vector<CallRec> log;
  bool returned = false; uint64_t retval = 0;
  uint64_t steps = 0;
  explicit Interp(const Prog& p) : P(p) {}

  uint8_t* addr(const MemRef& m) {
    switch (m.space) {
      case MS_BUF: return buf + OFF_SCR + m.off + (m.idx >= 0 ? (g[size_t(m.idx)] << m.shift) : 0);
      case MS_SLOT: return slots[m.slot] + m.off;
      default: { uint64_t t[8]; for (int h = 0; h < 8; h++) t[h] = const_word(m.space, m.off, h); memcpy(cbuf, t, 64); return cbuf; }
    }
  }
  uint64_t rd(const Opnd& o, int w) {
    switch (o.t) {
      case T_REG: return g[size_t(o.r)] & wmask(w);
      case T_IMM: return uint64_t(o.imm) & wmask(w);
      case T_MEM: { uint64_t v = 0; memcpy(&v, addr(o.m), size_t(w / 8)); return v; }
      default: return 0;
    }
  }
  void wr(const Opnd& o, int w, uint64_t v) {
    v &= wmask(w);
    if (o.t == T_REG) { uint64_t& r = g[size_t(o.r)]; r = w >= 32 ? v : ((r & ~wmask(w)) | v); }
    else if (o.t == T_MEM) memcpy(addr(o.m), &v, size_t(w / 8));
  }
  VecVal rdv(const Opnd& o) { VecVal v; if (o.t == T_VEC) v = x[o.r]; else memcpy(&v, addr(o.m), 16); return v; }
  WVal rdw(const Opnd& o) { WVal v; memset(&v, 0, sizeof v); if (o.t == T_WID) v = wd[o.r]; else memcpy(&v, addr(o.m), size_t(P.wbits / 8)); return v; }

  void exec(const MOp& m) {
    int w = m.w; steps++;
    switch (m.k) {
      case M_ALU: {
        uint64_t a = rd(m.o[0], w), b = rd(m.o[1], w);
        switch (m.sub) {
          case A_ADD: wr(m.o[0], w, a + b); break; case A_SUB: wr(m.o[0], w, a - b); break; case A_AND: wr(m.o[0], w, a & b); break;
          case A_OR: wr(m.o[0], w, a | b); break; case A_XOR: wr(m.o[0], w, a ^ b); break; case A_MOV: wr(m.o[0], w, b); break;
          case A_CMP: fl = flags_sub(a, b, w); break; case A_TEST: fl = flags_logic(a & b, w); break;
          case A_IMUL: wr(m.o[0], w, a * b); break;
          case A_XCHG: wr(m.o[0], w, b); wr(m.o[1], w, a); break;
          case A_XADD: wr(m.o[1], w, a); wr(m.o[0], w, a + b); break;
        }
        break;
      }
      case M_UN: { uint64_t a = rd(m.o[0], w); wr(m.o[0], w, m.sub == U_NOT ? ~a : m.sub == U_NEG ? 0 - a : m.sub == U_INC ? a + 1 : a - 1); break; }
      case M_IMUL3: wr(m.o[0], w, rd(m.o[1], w) * uint64_t(m.imm)); break;
      case M_LEA: {
        int aw = m.w2; uint64_t v = uint64_t(m.o[3].imm);
        if (m.o[1].t == T_REG) v += rd(m.o[1], aw);
        if (m.o[2].t == T_REG) v += rd(m.o[2], aw) << m.imm;
        v &= wmask(aw); wr(m.o[0], w, v); break;
      }
      case M_MOVX: { uint64_t v = rd(m.o[1], m.w2); if (m.sub == X_SX) v = uint64_t(sx(v, m.w2)); wr(m.o[0], w, v); break; }
      case M_SHIFT: {
        uint64_t a = rd(m.o[0], w); unsigned c = unsigned(rd(m.o[1], 8)) & (w == 64 ? 63u : 31u); uint64_t r = a;
        if (c) switch (m.sub) {
          case S_SHL: r = c >= unsigned(w) ? 0 : a << c; break;
          case S_SHR: r = c >= unsigned(w) ? 0 : a >> c; break;
          case S_SAR: { int64_t s = sx(a, w); r = uint64_t(c >= unsigned(w) ? (s < 0 ? -1 : 0) : (s >> c)); break; }
          case S_ROL: { unsigned e = c % unsigned(w); r = e ? ((a << e) | (a >> (unsigned(w) - e))) : a; break; }
          case S_ROR: { unsigned e = c % unsigned(w); r = e ? ((a >> e) | (a << (unsigned(w) - e))) : a; break; }
        }
        wr(m.o[0], w, r);   // a masked count of 0 still writes the destination (a 32-bit destination is zero-extended)
        break;
      }
      case M_CDQ: { int64_t s = sx(rd(m.o[1], w), w); wr(m.o[0], w, s < 0 ? ~0ull : 0); break; }
      case M_MULDIV: {
        uint64_t lo = rd(m.o[1], w), s = rd(m.o[2], w), hi = rd(m.o[0], w);
        if (m.sub == D_MUL) { unsigned __int128 p = (unsigned __int128)lo * s; wr(m.o[1], w, uint64_t(p)); wr(m.o[0], w, uint64_t(p >> w)); }
        else if (m.sub == D_IMUL) { __int128 p = (__int128)sx(lo, w) * sx(s, w); wr(m.o[1], w, uint64_t(p)); wr(m.o[0], w, uint64_t(p >> w)); }
        else if (m.sub == D_DIV) { unsigned __int128 n = ((unsigned __int128)hi << w) | lo; if (!s) s = 1; wr(m.o[1], w, uint64_t(n / s)); wr(m.o[0], w, uint64_t(n % s)); }
        else { __int128 n = (__int128)(((unsigned __int128)hi << w) | lo); if (w < 64) n = sx(uint64_t(n), 2 * w);
               int64_t dv = sx(s, w); if (!dv) dv = 1; wr(m.o[1], w, uint64_t(n / dv)); wr(m.o[0], w, uint64_t(n % dv)); }
        break;
      }
      case M_CMPXCHG: { uint64_t dv = rd(m.o[0], w), acc = rd(m.o[2], w), s = rd(m.o[1], w); if (acc == dv) wr(m.o[0], w, s); else wr(m.o[2], w, dv); break; }
      case M_SETCC: wr(m.o[0], 8, eval_cc(m.cc, fl) ? 1 : 0); break;
      case M_CMOV: { uint64_t v = eval_cc(m.cc, fl) ? rd(m.o[1], w) : rd(m.o[0], w); wr(m.o[0], w, v); break; }
      case M_BT: {
        uint64_t a = rd(m.o[0], w); unsigned bit = unsigned(rd(m.o[1], w)) % unsigned(w); fl = Flags(); fl.cf = (a >> bit) & 1;
        if (m.sub == B_BTS) wr(m.o[0], w, a | (1ull << bit)); else if (m.sub == B_BTR) wr(m.o[0], w, a & ~(1ull << bit)); else if (m.sub == B_BTC) wr(m.o[0], w, a ^ (1ull << bit));
        break;
      }
      case M_CNT: {
        uint64_t s = rd(m.o[1], w), r;
        if (m.sub == C_POPCNT) r = uint64_t(__builtin_popcountll(s));
        else if (m.sub == C_LZCNT) r = s ? uint64_t(__builtin_clzll(s) - (64 - w)) : uint64_t(w);
        else r = s ? uint64_t(__builtin_ctzll(s)) : uint64_t(w);
        wr(m.o[0], w, r); break;
      }
      case M_VGX: {
        VecVal& v = x[m.o[0].r]; uint64_t gv = g[size_t(m.o[1].r)];
        switch (m.sub) {
          case G_MOVD_XG: v = VecVal{{uint32_t(gv), 0, 0, 0}}; break;
          case G_MOVD_GX: wr(m.o[1], 32, v.l[0]); break;
          case G_MOVQ_XG: v = VecVal{{uint32_t(gv), uint32_t(gv >> 32), 0, 0}}; break;
          case G_MOVQ_GX: wr(m.o[1], 64, uint64_t(v.l[0]) | (uint64_t(v.l[1]) << 32)); break;
          case G_PINSRD: v.l[m.imm & 3] = uint32_t(gv); break;
          case G_PEXTRD: wr(m.o[1], 32, v.l[m.imm & 3]); break;
        }
        break;
      }
      case M_VMOV: { if (m.sub == 2) { VecVal v = x[m.o[0].r]; memcpy(addr(m.o[1].m), &v, 16); } else x[m.o[0].r] = rdv(m.o[1]); break; }
      case M_VALU: case M_VTERN: {
        VecVal a = rdv(m.o[1]), b = rdv(m.o[2]), old = x[m.o[0].r], r = old;
        for (int i = 0; i < 4; i++) {
          uint32_t p = a.l[i], q = b.l[i];
          if (m.k == M_VTERN) { uint32_t o = 0, A = old.l[i]; for (int bit = 0; bit < 32; bit++) { unsigned idx = (((A >> bit) & 1) << 2) | (((p >> bit) & 1) << 1) | ((q >> bit) & 1); o |= uint32_t((m.imm >> idx) & 1) << bit; } r.l[i] = o; continue; }
          switch (m.sub) {
            case V_PADDD: r.l[i] = p + q; break; case V_PSUBD: r.l[i] = p - q; break; case V_PXOR: r.l[i] = p ^ q; break;
            case V_PAND: r.l[i] = p & q; break; case V_POR: r.l[i] = p | q; break; case V_PANDN: r.l[i] = ~p & q; break;
            case V_PCMPEQD: r.l[i] = p == q ? ~0u : 0; break; case V_PCMPGTD: r.l[i] = int32_t(p) > int32_t(q) ? ~0u : 0; break;
            case V_PSHUFD: r.l[i] = b.l[(m.imm >> (2 * i)) & 3]; break;
          }
        }
        if (m.kmask >= 0) for (int i = 0; i < 4; i++) if (!((k[m.kmask] >> i) & 1)) r.l[i] = old.l[i];
        x[m.o[0].r] = r; break;
      }
      case M_KOP: {
        uint64_t& d = k[m.o[0].r];
        switch (m.sub) {
          case KO_KG: d = g[size_t(m.o[1].r)] & 0xFFFF; break;
          case KO_GK: wr(m.o[1], 32, d & 0xFFFF); break;
          case KO_AND: d = (k[m.o[1].r] & k[m.o[2].r]) & 0xFFFF; break; case KO_OR: d = (k[m.o[1].r] | k[m.o[2].r]) & 0xFFFF; break;
          case KO_XOR: d = (k[m.o[1].r] ^ k[m.o[2].r]) & 0xFFFF; break; case KO_XNOR: d = ~(k[m.o[1].r] ^ k[m.o[2].r]) & 0xFFFF; break;
          case KO_NOT: d = ~k[m.o[1].r] & 0xFFFF; break; case KO_KK: d = k[m.o[1].r] & 0xFFFF; break;
          case KO_KM: d = rd(m.o[1], 16); break; case KO_MK: wr(m.o[1], 16, d); break;
        }
        break;
      }
      case M_KCMP: {
        VecVal a = rdv(m.o[1]), b = rdv(m.o[2]); uint64_t r = 0;
        for (int i = 0; i < 4; i++) if (m.sub ? int32_t(a.l[i]) > int32_t(b.l[i]) : a.l[i] == b.l[i]) r |= 1ull << i;
        if (m.kmask >= 0) r &= k[m.kmask];
        k[m.o[0].r] = r; break;
      }
      case M_WMOV: { if (m.sub == 2) { WVal v = wd[m.o[0].r]; memcpy(addr(m.o[1].m), &v, size_t(P.wbits / 8)); } else wd[m.o[0].r] = rdw(m.o[1]); break; }
      case M_WALU: case M_WTERN: {
        int nl = P.wbits / 32;
        WVal a = rdw(m.o[1]), b = rdw(m.o[2]), old = wd[m.o[0].r], r = old;
        for (int i = 0; i < nl; i++) {
          uint32_t p = a.l[i], q = b.l[i];
          if (m.k == M_WTERN) { uint32_t o = 0, A = old.l[i]; for (int bit = 0; bit < 32; bit++) { unsigned idx = (((A >> bit) & 1) << 2) | (((p >> bit) & 1) << 1) | ((q >> bit) & 1); o |= uint32_t((m.imm >> idx) & 1) << bit; } r.l[i] = o; continue; }
          switch (m.sub) {
            case V_PADDD: r.l[i] = p + q; break; case V_PSUBD: r.l[i] = p - q; break; case V_PXOR: r.l[i] = p ^ q; break;
            case V_PAND: r.l[i] = p & q; break; case V_POR: r.l[i] = p | q; break; case V_PANDN: r.l[i] = ~p & q; break;
            case V_PCMPEQD: r.l[i] = p == q ? ~0u : 0; break; case V_PCMPGTD: r.l[i] = int32_t(p) > int32_t(q) ? ~0u : 0; break;
            case V_PSHUFD: r.l[i] = b.l[(i & ~3) + ((m.imm >> (2 * (i & 3))) & 3)]; break;
          }
        }
        if (m.kmask >= 0) for (int i = 0; i < nl; i++) if (!((k[m.kmask] >> i) & 1)) r.l[i] = old.l[i];
        wd[m.o[0].r] = r; break;
      }
      case M_WX: {
        int nl = P.wbits / 128;   // number of 128-bit lanes
        auto lane = [](const WVal& v, int i) { VecVal r; memcpy(&r, &v.l[4 * i], 16); return r; };
        auto setlane = [](WVal& v, int i, const VecVal& s) { memcpy(&v.l[4 * i], &s, 16); };
        switch (m.sub) {
          case WX_EXTRACT: x[m.o[0].r] = lane(wd[m.o[1].r], int(m.imm) % nl); break;
          case WX_EXTRACT_MEM: { VecVal v = lane(wd[m.o[1].r], int(m.imm) % nl); memcpy(addr(m.o[0].m), &v, 16); break; }
          case WX_INSERT: { WVal r = wd[m.o[1].r]; setlane(r, int(m.imm) % nl, x[m.o[2].r]); wd[m.o[0].r] = r; break; }
          case WX_PERM2: {
            WVal a = wd[m.o[1].r], b = wd[m.o[2].r], r; memset(&r, 0, sizeof r);
            if (nl == 2) {   // vperm2i128
              for (int h = 0; h < 2; h++) { int c = int(m.imm >> (4 * h)) & 15; VecVal v = lane((c & 2) ? b : a, c & 1); if (c & 8) memset(&v, 0, 16); setlane(r, h, v); }
            } else {         // vshufi32x4
              for (int h = 0; h < 4; h++) setlane(r, h, lane(h < 2 ? a : b, int(m.imm >> (2 * h)) & 3));
            }
            wd[m.o[0].r] = r; break;
          }
          case WX_PERMQ: {   // vpermq imm: every 256-bit half permutes its four qwords
            WVal a = wd[m.o[1].r], r; memset(&r, 0, sizeof r);
            for (int h = 0; h < P.wbits / 256; h++) for (int q = 0; q < 4; q++) { int sq = int(m.imm >> (2 * q)) & 3; memcpy(&r.l[8 * h + 2 * q], &a.l[8 * h + 2 * sq], 8); }
            wd[m.o[0].r] = r; break;
          }
          case WX_BCAST: { WVal r; memset(&r, 0, sizeof r); for (int i = 0; i < P.wbits / 32; i++) r.l[i] = x[m.o[1].r].l[0]; wd[m.o[0].r] = r; break; }
          case WX_LOWREAD: x[m.o[0].r] = lane(wd[m.o[1].r], 0); break;
          default: { WVal r; memset(&r, 0, sizeof r); for (int i = 0; i < 4; i++) r.l[i] = x[m.o[1].r].l[i] + x[m.o[2].r].l[i]; wd[m.o[0].r] = r; break; }   // WX_LOWWRITE: a VEX/EVEX.128 write zeroes the rest
        }
        break;
      }
      case M_CALL: {
        CallRec r{}; r.id = m.sub; const char* sig = kCallees[m.sub];
        for (int i = 0; i < m.nargs; i++) {
          const Opnd& a = m.args[i];
          if (sig[1 + i] == 'x') { memcpy(r.a[i], &x[a.r], 16); }
          else if (sig[1 + i] == 'y') { memcpy(r.a[i], &wd[a.r], 32); }
          else { uint64_t v = a.t == T_IMM ? uint64_t(a.imm) : g[size_t(a.r)]; r.a[i][0] = sig[1 + i] == 'd' ? uint32_t(v) : v; }
        }
        callee_model(r); if (log.size() < 4096) log.push_back(r);
        if (sig[0] == 'x') memcpy(&x[m.o[0].r], r.ret, 16);
        else if (sig[0] == 'y') { memset(&wd[m.o[0].r], 0, sizeof(WVal)); memcpy(&wd[m.o[0].r], r.ret, 32); }
        else { int t = size_t(m.o[0].r) < P.gty.size() ? P.gty[size_t(m.o[0].r)] : 64; wr(m.o[0], t, r.ret[0]); }
        break;
      }
    }
  }

  void run_list(const std::vector<Node>& l) {
    for (const Node& n : l) {
      if (returned) return;
      switch (n.kind) {
        case N_OP: for (const MOp& m : n.ops) exec(m); break;
        case N_IF: for (const MOp& m : n.ops) exec(m); run_list(eval_cc(n.cc, fl) ? n.parts[0] : n.parts[1]); break;
        case N_LOOP: for (int i = 0; i < n.n && !returned; i++) run_list(n.parts[0]); break;
        case N_IRR: {
          for (const MOp& m : n.ops) exec(m);
          bool atB = eval_cc(n.cc, fl);
          for (int c = n.n; c > 0 && !returned; c--) { if (!atB) run_list(n.parts[0]); atB = false; if (returned) break; run_list(n.parts[1]); }
          break;
        }
        case N_SWITCH: {
          size_t nc = n.parts.size(); size_t ci = size_t(g[size_t(n.sel)] & 3) % nc;
          if (n.flag) { for (size_t j = ci; j < nc && !returned; j++) run_list(n.parts[j]); } else run_list(n.parts[ci]);
          break;
        }
        case N_DISPATCH: {
          for (const MOp& m : n.ops) exec(m);
          bool armA = eval_cc(n.cc, fl);
          run_list(n.parts[armA ? 0 : 1]);
          if (returned) break;
          size_t nc = size_t(n.n); int cnt = n.n2;
          auto entry = [&](int sel) { return (size_t(g[size_t(sel)] & 3) + size_t(n.rot)) % nc; };
          size_t ci = entry(armA ? n.sel : n.sel2);
          for (;;) {
            run_list(n.parts[2 + ci]);
            if (returned) break;
            if ((n.redisp >> ci) & 1) { if (--cnt == 0) break; ci = entry(n.sel3); continue; }
            if (n.flag && ci + 1 < nc) { ci++; continue; }
            break;
          }
          break;
        }
        case N_RETIF:
          for (const MOp& m : n.ops) exec(m);
          if (eval_cc(n.cc, fl)) { returned = true; retval = kRetMarker ^ g[size_t(n.sel)]; }
          break;
      }
    }
  }

  // args: the scalar arguments as passed (upper halves of 32-bit arguments are garbage by design)
  uint64_t run(uint8_t* b, const uint64_t* args) {
    buf = b; g.assign(P.gty.size(), 0); log.clear(); returned = false; steps = 0;
    for (int i = 0; i < P.ng; i++) {
      uint64_t v;
      if (i < P.nargs) v = args[i];
      else { int ik = init_kind(P, i); if (ik == 0) v = init_const(i); else if (ik == 1) v = uint64_t(int64_t(int32_t(init_const(i)))); else memcpy(&v, b + OFF_GIN + 8 * i, 8); }
      g[size_t(i)] = v & wmask(P.gty[size_t(i)]);
    }
    for (int j = 0; j < P.nv; j++) memcpy(&x[j], b + OFF_VIN + 16 * j, 16);
    for (int j = 0; j < P.nk; j++) { uint16_t t; memcpy(&t, b + OFF_KIN + 8 * j, 2); k[j] = t; }
    for (int j = 0; j < P.nw; j++) { memset(&wd[j], 0, sizeof(WVal)); memcpy(&wd[j], b + OFF_WIN + 64 * j, size_t(P.wbits / 8)); }
    for (int s = 0; s < P.nslots; s++) for (int j = 0; j < 4; j++) { int64_t v = slot_init(s, j); memcpy(slots[s] + 8 * j, &v, 8); }
    uint64_t acc2 = 0;
    for (int i = 0; i < P.pressure; i++) { uint64_t v; memcpy(&v, b + OFF_PIN + 8 * i, 8); acc2 = ((acc2 << 3) | (acc2 >> 61)) ^ v; }
    int npv = P.nv ? std::min(P.pressure / 4, 40) : 0;
    for (int j = 0; j < npv; j++) { uint64_t v; memcpy(&v, b + OFF_VIN + 16 * (j % 48), 8); acc2 ^= v; }
    run_list(P.body);
    if (returned) return retval;
    uint64_t acc = 0;
    for (int i = 0; i < P.ng; i++) if (P.folded(i)) {
      uint64_t v = g[size_t(i)]; memcpy(b + OFF_GOUT + 8 * i, &v, size_t(P.gty[size_t(i)] / 8));
      acc = ((acc << 5) | (acc >> 59)) ^ v;
    }
    for (int j = 0; j < P.nv; j++) if (P.folded(j)) memcpy(b + OFF_VOUT + 16 * j, &x[j], 16);
    for (int j = 0; j < P.nk; j++) if (P.folded(j)) { uint16_t t = uint16_t(k[j]); memcpy(b + OFF_KOUT + 8 * j, &t, 2); }
    for (int j = 0; j < P.nw; j++) if (P.folded(j)) memcpy(b + OFF_WOUT + 64 * j, &wd[j], size_t(P.wbits / 8));
    if (P.pressure) memcpy(b + OFF_RES2, &acc2, 8);
    return acc;
  }
};

// ------------------------------------------------------------------------------------------------
// x86 / x86-64 emission through x86::Compiler
// ------------------------------------------------------------------------------------------------
class CaptureErrors : public ErrorHandler {
public:
  Error err = Error::kOk; std::string msg;
  void handle_error(Error e, const char* m, BaseEmitter*) override { if (err == Error::kOk) { err = e; msg = m ? m : ""; } }
};

struct X86Emit {
  x86::Compiler& cc; const Prog& P; bool is64; int pressure;
  Error first_err = Error::kOk;
  std::vector<x86::Gp> g; std::vector<x86::Vec> x; std::vector<x86::KReg> k; std::vector<x86::Vec> wv;
  std::vector<x86::Gp> pd; std::vector<x86::Vec> pv;
  std::vector<x86::Mem> slots;
  x86::Gp buf, acc, tmp;
  FuncNode* func = nullptr;
  struct Table { Label L; std::vector<Label> entries; };
  std::vector<Table> tables;

  X86Emit(x86::Compiler& c, const Prog& p, bool is64_, int pressure_) : cc(c), P(p), is64(is64_), pressure(pressure_) {}
  void E(Error e) { if (e != Error::kOk && first_err == Error::kOk) first_err = e; }
  int cw(int w) const { return (!is64 && w == 64) ? 32 : w; }
  x86::Gp gv(int r, int w) const {
    const x86::Gp& b = g[size_t(r)]; w = cw(w);
    return w == 8 ? b.r8() : w == 16 ? b.r16() : w == 32 ? b.r32() : b.r64();
  }
  x86::Mem mem(const MemRef& m, int wbytes) {
    if (!is64 && wbytes == 8) wbytes = 4;
    switch (m.space) {
      case MS_BUF:
        if (m.idx >= 0) return x86::ptr(buf, is64 ? g[size_t(m.idx)].r64() : g[size_t(m.idx)].r32(), uint32_t(m.shift), OFF_SCR + m.off, uint32_t(wbytes));
        return x86::ptr(buf, OFF_SCR + m.off, uint32_t(wbytes));
      case MS_SLOT: { x86::Mem s = slots[size_t(m.slot)]; s.add_offset(m.off); s.set_size(uint32_t(wbytes)); return s; }
      default: {
        uint64_t t[8]; for (int h = 0; h < 8; h++) t[h] = const_word(m.space, m.off, h);
        return cc.new_const(m.space == MS_CONSTL ? ConstPoolScope::kLocal : ConstPoolScope::kGlobal, t, size_t(wbytes));
      }
    }
  }
  Operand op(const Opnd& o, int w) {
    switch (o.t) {
      case T_REG: return gv(o.r, w);
      case T_VEC: return x[size_t(o.r)];
      case T_MSK: return k[size_t(o.r)];
      case T_WID: return wv[size_t(o.r)];
      case T_IMM: return Imm(is64 || w == 64 ? o.imm : int64_t(int32_t(o.imm)));
      case T_MEM: return mem(o.m, w / 8);
      default: return Operand();
    }
  }
  void emit_mop(const MOp& m);
  void emit_list(const std::vector<Node>& l);
  void emit_indirect(int sel, const Label& table, JumpAnnotation* ann);
  void prologue();
  void epilogue();
  void build() { prologue(); emit_list(P.body); epilogue(); }
};

void X86Emit::emit_mop(const MOp& m) {
  using namespace x86;
  int w = cw(m.w);
  bool avx = P.vmode >= 1;
  switch (m.k) {
    case M_ALU: {
      static const InstId ids[] = {Inst::kIdAdd, Inst::kIdSub, Inst::kIdAnd, Inst::kIdOr, Inst::kIdXor, Inst::kIdMov, Inst::kIdCmp, Inst::kIdTest, Inst::kIdImul, Inst::kIdXchg, Inst::kIdXadd};
      Operand a = op(m.o[0], m.w), b = op(m.o[1], m.w);
      if (m.o[1].t == T_IMM && !(m.sub == A_MOV && w == 64)) b = Imm(w == 64 ? int64_t(int32_t(m.o[1].imm)) : m.o[1].imm);
      E(cc.emit(ids[m.sub], a, b)); break;
    }
    case M_UN: {
      static const InstId ids[] = {Inst::kIdNot, Inst::kIdNeg, Inst::kIdInc, Inst::kIdDec};
      Operand a = op(m.o[0], m.w);
      if (m.alt && m.sub == U_INC) E(cc.emit(Inst::kIdAdd, a, Imm(1))); else if (m.alt && m.sub == U_DEC) E(cc.emit(Inst::kIdSub, a, Imm(1))); else E(cc.emit(ids[m.sub], a));
      break;
    }
    case M_IMUL3: E(cc.emit(Inst::kIdImul, op(m.o[0], m.w), op(m.o[1], m.w), Imm(m.imm))); break;
    case M_LEA: {
      int aw = cw(m.w2); Mem a;
      auto ar = [&](const Opnd& o) { return aw == 64 ? g[size_t(o.r)].r64() : g[size_t(o.r)].r32(); };
      int32_t disp = int32_t(m.o[3].imm);
      if (m.o[1].t == T_REG && m.o[2].t == T_REG) a = ptr(ar(m.o[1]), ar(m.o[2]), uint32_t(m.imm), disp);
      else if (m.o[1].t == T_REG) a = ptr(ar(m.o[1]), disp);
      else { a = Mem(); a.set_index(ar(m.o[2]), uint32_t(m.imm)); a.set_offset(disp); }
      E(cc.emit(Inst::kIdLea, gv(m.o[0].r, m.w), a)); break;
    }
    case M_MOVX: {
      Operand s = m.o[1].t == T_MEM ? Operand(mem(m.o[1].m, m.w2 / 8)) : Operand(gv(m.o[1].r, m.w2));
      InstId id = m.sub == X_SX ? (m.w2 == 32 ? (is64 ? Inst::kIdMovsxd : Inst::kIdMov) : Inst::kIdMovsx) : Inst::kIdMovzx;
      E(cc.emit(id, gv(m.o[0].r, m.w), s)); break;
    }
    case M_SHIFT: {
      static const InstId ids[] = {Inst::kIdShl, Inst::kIdShr, Inst::kIdSar, Inst::kIdRol, Inst::kIdRor};
      Operand a = op(m.o[0], m.w);
      if (m.o[1].t == T_IMM) E(cc.emit(ids[m.sub], a, Imm(m.o[1].imm))); else E(cc.emit(ids[m.sub], a, gv(m.o[1].r, 8)));
      break;
    }
    case M_CDQ: E(cc.emit(w == 64 ? Inst::kIdCqo : w == 32 ? Inst::kIdCdq : Inst::kIdCwd, gv(m.o[0].r, m.w), gv(m.o[1].r, m.w))); break;
    case M_MULDIV: {
      static const InstId ids[] = {Inst::kIdMul, Inst::kIdImul, Inst::kIdDiv, Inst::kIdIdiv};
      E(cc.emit(ids[m.sub], gv(m.o[0].r, m.w), gv(m.o[1].r, m.w), op(m.o[2], m.w))); break;
    }
    case M_CMPXCHG: E(cc.emit(Inst::kIdCmpxchg, op(m.o[0], m.w), gv(m.o[1].r, m.w), gv(m.o[2].r, m.w))); break;
    case M_SETCC: E(cc.emit(Inst::setcc_from_cond(CondCode(m.cc)), gv(m.o[0].r, 8))); break;
    case M_CMOV: E(cc.emit(Inst::cmovcc_from_cond(CondCode(m.cc)), gv(m.o[0].r, m.w), op(m.o[1], m.w))); break;
    case M_BT: {
      static const InstId ids[] = {Inst::kIdBt, Inst::kIdBts, Inst::kIdBtr, Inst::kIdBtc};
      E(cc.emit(ids[m.sub], gv(m.o[0].r, m.w), m.o[1].t == T_IMM ? Operand(Imm(m.o[1].imm)) : Operand(gv(m.o[1].r, m.w)))); break;
    }
    case M_CNT: {
      static const InstId ids[] = {Inst::kIdPopcnt, Inst::kIdLzcnt, Inst::kIdTzcnt};
      E(cc.emit(ids[m.sub], gv(m.o[0].r, m.w), op(m.o[1], m.w))); break;
    }
    case M_VGX: {
      const Vec& v = x[size_t(m.o[0].r)]; int sub = m.sub;
      if (!is64 && sub == G_MOVQ_XG) sub = G_MOVD_XG;
      if (!is64 && sub == G_MOVQ_GX) sub = G_MOVD_GX;
      switch (sub) {
        case G_MOVD_XG: E(cc.emit(avx ? Inst::kIdVmovd : Inst::kIdMovd, v, gv(m.o[1].r, 32))); break;
        case G_MOVD_GX: E(cc.emit(avx ? Inst::kIdVmovd : Inst::kIdMovd, gv(m.o[1].r, 32), v)); break;
        case G_MOVQ_XG: E(cc.emit(avx ? Inst::kIdVmovq : Inst::kIdMovq, v, gv(m.o[1].r, 64))); break;
        case G_MOVQ_GX: E(cc.emit(avx ? Inst::kIdVmovq : Inst::kIdMovq, gv(m.o[1].r, 64), v)); break;
        case G_PINSRD: if (avx) E(cc.emit(Inst::kIdVpinsrd, v, v, gv(m.o[1].r, 32), Imm(m.imm & 3))); else E(cc.emit(Inst::kIdPinsrd, v, gv(m.o[1].r, 32), Imm(m.imm & 3))); break;
        case G_PEXTRD: E(cc.emit(avx ? Inst::kIdVpextrd : Inst::kIdPextrd, gv(m.o[1].r, 32), v, Imm(m.imm & 3))); break;
      }
      break;
    }
    case M_VMOV: {
      const Vec& v = x[size_t(m.o[0].r)];
      InstId id = m.alt ? (avx ? Inst::kIdVmovdqa : Inst::kIdMovdqa) : (avx ? Inst::kIdVmovdqu : Inst::kIdMovdqu);
      if (P.vmode == 2 && (m.o[0].r & 1)) id = m.alt ? Inst::kIdVmovdqa32 : Inst::kIdVmovdqu32;
      if (m.sub == 0) E(cc.emit(id, v, x[size_t(m.o[1].r)]));
      else if (m.sub == 1) E(cc.emit(id, v, mem(m.o[1].m, 16)));
      else E(cc.emit(id, mem(m.o[1].m, 16), v));
      break;
    }
    case M_VALU: {
      static const InstId sse[] = {Inst::kIdPaddd, Inst::kIdPsubd, Inst::kIdPxor, Inst::kIdPand, Inst::kIdPor, Inst::kIdPandn, Inst::kIdPcmpeqd, Inst::kIdPcmpgtd, Inst::kIdPshufd};
      static const InstId vex[] = {Inst::kIdVpaddd, Inst::kIdVpsubd, Inst::kIdVpxor, Inst::kIdVpand, Inst::kIdVpor, Inst::kIdVpandn, Inst::kIdVpcmpeqd, Inst::kIdVpcmpgtd, Inst::kIdVpshufd};
      static const InstId evx[] = {Inst::kIdVpaddd, Inst::kIdVpsubd, Inst::kIdVpxord, Inst::kIdVpandd, Inst::kIdVpord, Inst::kIdVpandnd, Inst::kIdVpcmpeqd, Inst::kIdVpcmpgtd, Inst::kIdVpshufd};
      const Vec& d = x[size_t(m.o[0].r)];
      Operand b = m.o[2].t == T_MEM ? Operand(mem(m.o[2].m, 16)) : Operand(x[size_t(m.o[2].r)]);
      if (!avx) { if (m.sub == V_PSHUFD) E(cc.emit(sse[m.sub], d, b, Imm(m.imm))); else E(cc.emit(sse[m.sub], d, b)); break; }
      InstId id = (P.vmode == 2 && (m.kmask >= 0 || m.alt)) ? evx[m.sub] : vex[m.sub];
      if (m.kmask >= 0) cc.k(k[size_t(m.kmask)]);
      if (m.sub == V_PSHUFD) E(cc.emit(id, d, b, Imm(m.imm))); else E(cc.emit(id, d, x[size_t(m.o[1].r)], b));
      break;
    }
    case M_VTERN: {
      if (m.kmask >= 0) cc.k(k[size_t(m.kmask)]);
      E(cc.emit(Inst::kIdVpternlogd, x[size_t(m.o[0].r)], x[size_t(m.o[1].r)], x[size_t(m.o[2].r)], Imm(m.imm))); break;
    }
    case M_KOP: {
      const KReg& d = k[size_t(m.o[0].r)];
      switch (m.sub) {
        case KO_KG: E(cc.emit(Inst::kIdKmovw, d, gv(m.o[1].r, 32))); break;
        case KO_GK: E(cc.emit(Inst::kIdKmovw, gv(m.o[1].r, 32), d)); break;
        case KO_AND: E(cc.emit(Inst::kIdKandw, d, k[size_t(m.o[1].r)], k[size_t(m.o[2].r)])); break;
        case KO_OR: E(cc.emit(Inst::kIdKorw, d, k[size_t(m.o[1].r)], k[size_t(m.o[2].r)])); break;
        case KO_XOR: E(cc.emit(Inst::kIdKxorw, d, k[size_t(m.o[1].r)], k[size_t(m.o[2].r)])); break;
        case KO_XNOR: E(cc.emit(Inst::kIdKxnorw, d, k[size_t(m.o[1].r)], k[size_t(m.o[2].r)])); break;
        case KO_NOT: E(cc.emit(Inst::kIdKnotw, d, k[size_t(m.o[1].r)])); break;
        case KO_KK: E(cc.emit(Inst::kIdKmovw, d, k[size_t(m.o[1].r)])); break;
        case KO_KM: E(cc.emit(Inst::kIdKmovw, d, mem(m.o[1].m, 2))); break;
        case KO_MK: E(cc.emit(Inst::kIdKmovw, mem(m.o[1].m, 2), d)); break;
      }
      break;
    }
    case M_KCMP: {
      if (m.kmask >= 0) cc.k(k[size_t(m.kmask)]);
      E(cc.emit(m.sub ? Inst::kIdVpcmpgtd : Inst::kIdVpcmpeqd, k[size_t(m.o[0].r)], x[size_t(m.o[1].r)], x[size_t(m.o[2].r)])); break;
    }
    case M_CALL: {
      const char* sig = kCallees[m.sub];
      // x86-32 (compile only): stdcall / fastcall stand in for the two Windows x64 conventions
      CallConvId cv = kCalleeConv[m.sub] == CV_WIN64 ? (is64 ? CallConvId::kX64Windows : CallConvId::kStdCall)
                    : kCalleeConv[m.sub] == CV_VECTORCALL ? (is64 ? CallConvId::kVectorCall : CallConvId::kFastCall) : CallConvId::kCDecl;
      FuncSignature fs(cv);
      fs.set_ret(sig[0] == 'x' ? TypeId::kInt32x4 : sig[0] == 'y' ? TypeId::kInt32x8 : (is64 ? TypeId::kUInt64 : TypeId::kUInt32));
      for (int i = 0; sig[1 + i]; i++) fs.add_arg(sig[1 + i] == 'x' ? TypeId::kInt32x4 : sig[1 + i] == 'y' ? TypeId::kInt32x8 : (sig[1 + i] == 'q' && is64) ? TypeId::kUInt64 : TypeId::kUInt32);
      InvokeNode* inv = nullptr;
      E(cc.invoke(Out(inv), imm(is64 ? kCalleePtr[m.sub] : (void*)0x1000), fs));
      if (!inv) break;
      for (int i = 0; i < m.nargs; i++) {
        const Opnd& a = m.args[i];
        if (a.t == T_VEC) inv->set_arg(size_t(i), x[size_t(a.r)]);
        else if (a.t == T_WID) inv->set_arg(size_t(i), wv[size_t(a.r)]);
        else if (a.t == T_IMM) inv->set_arg(size_t(i), Imm(is64 ? a.imm : int64_t(int32_t(a.imm))));
        else inv->set_arg(size_t(i), g[size_t(a.r)]);
      }
      if (m.o[0].t == T_VEC) inv->set_ret(0, x[size_t(m.o[0].r)]); else if (m.o[0].t == T_WID) inv->set_ret(0, wv[size_t(m.o[0].r)]); else inv->set_ret(0, g[size_t(m.o[0].r)]);
      break;
    }
    case M_WMOV: {
      const Vec& v = wv[size_t(m.o[0].r)]; uint32_t wb = uint32_t(P.wbits / 8);
      InstId id = m.alt ? Inst::kIdVmovdqa : Inst::kIdVmovdqu;
      if (P.wbits == 512 || (P.vmode == 2 && (m.o[0].r & 1))) id = m.alt ? Inst::kIdVmovdqa32 : Inst::kIdVmovdqu32;
      if (m.sub == 0) E(cc.emit(id, v, wv[size_t(m.o[1].r)]));
      else if (m.sub == 1) E(cc.emit(id, v, mem(m.o[1].m, int(wb))));
      else E(cc.emit(id, mem(m.o[1].m, int(wb)), v));
      break;
    }
    case M_WALU: {
      static const InstId vex[] = {Inst::kIdVpaddd, Inst::kIdVpsubd, Inst::kIdVpxor, Inst::kIdVpand, Inst::kIdVpor, Inst::kIdVpandn, Inst::kIdVpcmpeqd, Inst::kIdVpcmpgtd, Inst::kIdVpshufd};
      static const InstId evx[] = {Inst::kIdVpaddd, Inst::kIdVpsubd, Inst::kIdVpxord, Inst::kIdVpandd, Inst::kIdVpord, Inst::kIdVpandnd, Inst::kIdVpcmpeqd, Inst::kIdVpcmpgtd, Inst::kIdVpshufd};
      const Vec& d = wv[size_t(m.o[0].r)];
      Operand b = m.o[2].t == T_MEM ? Operand(mem(m.o[2].m, P.wbits / 8)) : Operand(wv[size_t(m.o[2].r)]);
      InstId id = (P.wbits == 512 || (P.vmode == 2 && (m.kmask >= 0 || m.alt))) ? evx[m.sub] : vex[m.sub];
      if (m.kmask >= 0) cc.k(k[size_t(m.kmask)]);
      if (m.sub == V_PSHUFD) E(cc.emit(id, d, b, Imm(m.imm))); else E(cc.emit(id, d, wv[size_t(m.o[1].r)], b));
      break;
    }
    case M_WTERN: {
      if (m.kmask >= 0) cc.k(k[size_t(m.kmask)]);
      E(cc.emit(Inst::kIdVpternlogd, wv[size_t(m.o[0].r)], wv[size_t(m.o[1].r)], wv[size_t(m.o[2].r)], Imm(m.imm))); break;
    }
    case M_WX: {
      bool z = P.wbits == 512;
      switch (m.sub) {
        case WX_EXTRACT: E(cc.emit(z ? Inst::kIdVextracti32x4 : Inst::kIdVextracti128, x[size_t(m.o[0].r)], wv[size_t(m.o[1].r)], Imm(m.imm))); break;
        case WX_EXTRACT_MEM: E(cc.emit(z ? Inst::kIdVextracti32x4 : Inst::kIdVextracti128, mem(m.o[0].m, 16), wv[size_t(m.o[1].r)], Imm(m.imm))); break;
        case WX_INSERT: E(cc.emit(z ? Inst::kIdVinserti32x4 : Inst::kIdVinserti128, wv[size_t(m.o[0].r)], wv[size_t(m.o[1].r)], x[size_t(m.o[2].r)], Imm(m.imm))); break;
        case WX_PERM2: E(cc.emit(z ? Inst::kIdVshufi32x4 : Inst::kIdVperm2i128, wv[size_t(m.o[0].r)], wv[size_t(m.o[1].r)], wv[size_t(m.o[2].r)], Imm(m.imm))); break;
        case WX_PERMQ: E(cc.emit(Inst::kIdVpermq, wv[size_t(m.o[0].r)], wv[size_t(m.o[1].r)], Imm(m.imm))); break;
        case WX_BCAST: E(cc.emit(Inst::kIdVpbroadcastd, wv[size_t(m.o[0].r)], x[size_t(m.o[1].r)])); break;
        case WX_LOWREAD: E(cc.emit(Inst::kIdVmovdqa, x[size_t(m.o[0].r)], wv[size_t(m.o[1].r)].xmm())); break;
        default: E(cc.emit(Inst::kIdVpaddd, wv[size_t(m.o[0].r)].xmm(), x[size_t(m.o[1].r)], x[size_t(m.o[2].r)])); break;
      }
      break;
    }
  }
}

void X86Emit::emit_indirect(int sel, const Label& table, JumpAnnotation* ann) {
  using namespace x86;
  Gp idx = cc.new_gp_ptr("swidx"), tab = cc.new_gp_ptr("swtab"), tgt = cc.new_gp_ptr("swtgt");
  E(cc.mov(idx.r32(), gv(sel, 32))); E(cc.and_(idx.r32(), 3));
  E(cc.lea(tab, ptr(table)));
  if (is64) E(cc.movsxd(tgt, dword_ptr(tab, idx, 2))); else E(cc.mov(tgt, dword_ptr(tab, idx, 2)));
  E(cc.add(tgt, tab));
  E(cc.jmp(tgt, ann));
}

void X86Emit::emit_list(const std::vector<Node>& l) {
  using namespace x86;
  for (const Node& n : l) {
    switch (n.kind) {
      case N_OP: for (const MOp& m : n.ops) emit_mop(m); break;
      case N_IF: {
        Label Lelse = cc.new_label(), Lend = cc.new_label();
        for (const MOp& m : n.ops) emit_mop(m);
        E(cc.emit(Inst::jcc_from_cond(CondCode(n.cc ^ 1)), Lelse));
        emit_list(n.parts[0]);
        E(cc.jmp(Lend));
        E(cc.bind(Lelse));
        emit_list(n.parts[1]);
        E(cc.bind(Lend));
        break;
      }
      case N_LOOP: {
        Gp c = cc.new_gp32("loop"); Label L = cc.new_label();
        E(cc.mov(c, n.n)); E(cc.bind(L));
        emit_list(n.parts[0]);
        if (n.flag) E(cc.sub(c, 1)); else E(cc.dec(c));
        E(cc.jnz(L));
        break;
      }
      case N_IRR: {
        Gp c = cc.new_gp32("cyc"); Label LA = cc.new_label(), LB = cc.new_label();
        E(cc.mov(c, n.n));
        for (const MOp& m : n.ops) emit_mop(m);
        E(cc.emit(Inst::jcc_from_cond(CondCode(n.cc)), LB));
        E(cc.bind(LA)); emit_list(n.parts[0]);
        E(cc.bind(LB)); emit_list(n.parts[1]);
        E(cc.dec(c)); E(cc.jnz(LA));
        break;
      }
      case N_SWITCH: {
        size_t nc = n.parts.size();
        Table t; t.L = cc.new_label(); std::vector<Label> cl; for (size_t i = 0; i < nc; i++) cl.push_back(cc.new_label());
        Label Lend = cc.new_label();
        for (int i = 0; i < n.ntab; i++) t.entries.push_back(cl[size_t(i) % nc]);
        Gp idx = cc.new_gp_ptr("swidx"), tab = cc.new_gp_ptr("swtab"), tgt = cc.new_gp_ptr("swtgt");
        E(cc.mov(idx.r32(), gv(n.sel, 32))); E(cc.and_(idx.r32(), 3));
        E(cc.lea(tab, ptr(t.L)));
        if (is64) E(cc.movsxd(tgt, dword_ptr(tab, idx, 2))); else E(cc.mov(tgt, dword_ptr(tab, idx, 2)));
        E(cc.add(tgt, tab));
        JumpAnnotation* ann = cc.new_jump_annotation();
        if (ann) { for (size_t i = 0; i < nc; i++) ann->add_label(cl[i]); E(cc.jmp(tgt, ann)); }
        for (size_t i = 0; i < nc; i++) {
          E(cc.bind(cl[i])); if (n.pad) E(cc.nop()); emit_list(n.parts[i]);
          if (!n.flag && i + 1 < nc) E(cc.jmp(Lend));
        }
        E(cc.bind(Lend));
        tables.push_back(t);
        break;
      }
      case N_DISPATCH: {
        size_t nc = size_t(n.n);
        Table t; t.L = cc.new_label(); std::vector<Label> cl; for (size_t i = 0; i < nc; i++) cl.push_back(cc.new_label());
        Label LB = cc.new_label(), Lend = cc.new_label();
        for (int i = 0; i < n.ntab; i++) t.entries.push_back(cl[(size_t(i) + size_t(n.rot)) % nc]);
        // every indirect jump lists the same labels: through one shared JumpAnnotation object or through its own (other order)
        JumpAnnotation* shared = nullptr;
        auto annot = [&](int which) -> JumpAnnotation* {
          if (n.sameann && shared) return shared;
          JumpAnnotation* a = cc.new_jump_annotation(); if (!a) { E(Error::kOutOfMemory); return nullptr; }
          int order[4]; perm_of(n.sameann ? n.perm[0] : n.perm[which], n.n, order);
          for (size_t i = 0; i < nc; i++) a->add_label(cl[size_t(order[i])]);
          if (n.sameann) shared = a;
          return a;
        };
        Gp cnt;
        if (n.redisp) { cnt = cc.new_gp32("dcnt"); E(cc.mov(cnt, n.n2)); }
        for (const MOp& m : n.ops) emit_mop(m);
        E(cc.emit(Inst::jcc_from_cond(CondCode(n.cc ^ 1)), LB));
        emit_list(n.parts[0]);
        if (JumpAnnotation* a = annot(0)) emit_indirect(n.sel, t.L, a);
        E(cc.bind(LB));
        emit_list(n.parts[1]);
        if (JumpAnnotation* a = annot(1)) emit_indirect(n.sel2, t.L, a);
        for (size_t i = 0; i < nc; i++) {
          E(cc.bind(cl[i])); if (n.pad) E(cc.nop()); emit_list(n.parts[2 + i]);
          if ((n.redisp >> i) & 1) { E(cc.dec(cnt)); E(cc.jz(Lend)); if (JumpAnnotation* a = annot(2)) emit_indirect(n.sel3, t.L, a); }
          else if (!(n.flag && i + 1 < nc) && i + 1 < nc) E(cc.jmp(Lend));
        }
        E(cc.bind(Lend));
        tables.push_back(t);
        break;
      }
      case N_RETIF: {
        Label Lskip = cc.new_label();
        for (const MOp& m : n.ops) emit_mop(m);
        E(cc.emit(Inst::jcc_from_cond(CondCode(n.cc ^ 1)), Lskip));
        Gp r = is64 ? cc.new_gp64("retv") : cc.new_gp32("retv");
        if (is64) E(cc.mov(r, Imm(int64_t(kRetMarker)))); else E(cc.mov(r, Imm(int32_t(kRetMarker))));
        if (P.gty[size_t(n.sel)] == 64 || !is64) E(cc.xor_(r, gv(n.sel, 64)));
        else { Gp t2 = cc.new_gp64("retz"); E(cc.mov(t2.r32(), gv(n.sel, 32))); E(cc.xor_(r, t2)); }
        E(cc.ret(r));
        E(cc.bind(Lskip));
        break;
      }
    }
  }
}

void X86Emit::prologue() {
  using namespace x86;
  FuncSignature fs(CallConvId::kCDecl);
  fs.set_ret(is64 ? TypeId::kUInt64 : TypeId::kUInt32);
  fs.add_arg(TypeId::kUIntPtr);
  for (int j = 0; j < P.nargs; j++) fs.add_arg(P.gty[size_t(j)] == 64 && is64 ? TypeId::kUInt64 : TypeId::kUInt32);
  func = cc.add_func(fs);
  if (!func) { first_err = Error::kOutOfMemory; return; }
  if (P.vmode >= 1) func->frame().set_avx_enabled();
  if (P.vmode == 2) func->frame().set_avx512_enabled();
  bool avx = P.vmode >= 1;
  buf = cc.new_gp_ptr("buf"); func->set_arg(0, buf);
  for (size_t i = 0; i < P.gty.size(); i++) g.push_back(P.gty[i] == 64 && is64 ? cc.new_gp64("%c%u", i < size_t(P.ng) ? 'v' : 't', unsigned(i)) : cc.new_gp32("%c%u", i < size_t(P.ng) ? 'v' : 't', unsigned(i)));
  for (int j = 0; j < P.nv; j++) x.push_back(cc.new_xmm("x%d", j));
  for (int j = 0; j < P.nk; j++) k.push_back(cc.new_kw("k%d", j));
  for (int j = 0; j < P.nargs; j++) func->set_arg(size_t(1 + j), g[size_t(j)]);
  for (int s = 0; s < P.nslots; s++) {
    slots.push_back(cc.new_stack(32, 16, "slot"));
    for (int j = 0; j < 4; j++) {
      Mem q = slots.back(); q.add_offset(8 * j);
      if (is64) { q.set_size(8); E(cc.mov(q, Imm(slot_init(s, j)))); }
      else { q.set_size(4); E(cc.mov(q, Imm(int32_t(slot_init(s, j))))); Mem q2 = q; q2.add_offset(4); E(cc.mov(q2, Imm(slot_init(s, j) < 0 ? -1 : 0))); }
    }
  }
  for (int i = P.nargs; i < P.ng; i++) {
    int ik = init_kind(P, i); int w = P.gty[size_t(i)];
    if (ik == 0) { uint64_t v = init_const(i); E(cc.mov(gv(i, w), cc.new_const((i & 1) ? ConstPoolScope::kGlobal : ConstPoolScope::kLocal, &v, size_t(cw(w) / 8)))); }
    else if (ik == 1) E(cc.mov(gv(i, w), Imm(int64_t(int32_t(init_const(i))))));
    else E(cc.mov(gv(i, w), ptr(buf, OFF_GIN + 8 * i, uint32_t(cw(w) / 8))));
  }
  for (int j = 0; j < P.nv; j++) E(cc.emit(avx ? Inst::kIdVmovdqu : Inst::kIdMovdqu, x[size_t(j)], ptr(buf, OFF_VIN + 16 * j, 16)));
  for (int j = 0; j < P.nk; j++) E(cc.kmovw(k[size_t(j)], ptr(buf, OFF_KIN + 8 * j, 2)));
  for (int j = 0; j < P.nw; j++) {
    wv.push_back(P.wbits == 512 ? cc.new_zmm("z%d", j) : cc.new_ymm("y%d", j));
    E(cc.emit(P.wbits == 512 ? Inst::kIdVmovdqu32 : Inst::kIdVmovdqu, wv.back(), ptr(buf, OFF_WIN + 64 * j, uint32_t(P.wbits / 8))));
  }
  for (int i = 0; i < pressure; i++) { pd.push_back(is64 ? cc.new_gp64("p%d", i) : cc.new_gp32("p%d", i)); E(cc.mov(pd.back(), ptr(buf, OFF_PIN + 8 * i, is64 ? 8 : 4))); }
  int npv = P.nv ? std::min(pressure / 4, 40) : 0;
  for (int j = 0; j < npv; j++) { pv.push_back(cc.new_xmm("pv%d", j)); E(cc.emit(avx ? Inst::kIdVmovdqu : Inst::kIdMovdqu, pv.back(), ptr(buf, OFF_VIN + 16 * (j % 48), 16))); }
}

void X86Emit::epilogue() {
  using namespace x86;
  bool avx = P.vmode >= 1;
  acc = is64 ? cc.new_gp64("acc") : cc.new_gp32("acc");
  tmp = is64 ? cc.new_gp64("tmp") : cc.new_gp32("tmp");
  if (pressure) {
    Gp acc2 = is64 ? cc.new_gp64("acc2") : cc.new_gp32("acc2");
    E(cc.xor_(acc2.r32(), acc2.r32()));
    for (auto& p : pd) { E(cc.rol(acc2, 3)); E(cc.xor_(acc2, p)); }
    if (!pv.empty()) {
      for (size_t j = 1; j < pv.size(); j++) { if (avx) E(cc.vpxor(pv[0], pv[0], pv[j])); else E(cc.pxor(pv[0], pv[j])); }
      if (is64) E(cc.emit(avx ? Inst::kIdVmovq : Inst::kIdMovq, tmp, pv[0])); else E(cc.emit(avx ? Inst::kIdVmovd : Inst::kIdMovd, tmp, pv[0]));
      E(cc.xor_(acc2, tmp));
    }
    E(cc.mov(ptr(buf, OFF_RES2, is64 ? 8 : 4), acc2));
  }
  E(cc.xor_(acc.r32(), acc.r32()));
  for (int i = 0; i < P.ng; i++) if (P.folded(i)) {
    int w = P.gty[size_t(i)];
    E(cc.mov(ptr(buf, OFF_GOUT + 8 * i, uint32_t(cw(w) / 8)), gv(i, w)));
    E(cc.rol(acc, 5));
    if (w == 64 || !is64) E(cc.xor_(acc, gv(i, 64))); else { E(cc.mov(tmp.r32(), gv(i, 32))); E(cc.xor_(acc, tmp)); }
  }
  for (int j = 0; j < P.nv; j++) if (P.folded(j)) E(cc.emit(avx ? Inst::kIdVmovdqu : Inst::kIdMovdqu, ptr(buf, OFF_VOUT + 16 * j, 16), x[size_t(j)]));
  for (int j = 0; j < P.nk; j++) if (P.folded(j)) E(cc.kmovw(ptr(buf, OFF_KOUT + 8 * j, 2), k[size_t(j)]));
  for (int j = 0; j < P.nw; j++) if (P.folded(j)) E(cc.emit(P.wbits == 512 ? Inst::kIdVmovdqu32 : Inst::kIdVmovdqu, ptr(buf, OFF_WOUT + 64 * j, uint32_t(P.wbits / 8)), wv[size_t(j)]));
  E(cc.ret(acc));
  E(cc.end_func());
  for (Table& t : tables) {
    E(cc.bind(t.L));
    for (Label& e : t.entries) E(cc.embed_label_delta(e, t.L, 4));
  }
}

// ------------------------------------------------------------------------------------------------
// Compile driver (guards against ASMJIT_ASSERT aborts), post-RA inspection
// ------------------------------------------------------------------------------------------------
sigjmp_buf g_abort_jmp; volatile int g_abort_armed = 0;
int g_real_stderr = -1, g_cap_fd = -1;
std::string g_abort_text;     // stderr text captured while the last guarded section ran (assertion message)
void abort_handler(int sig) { if (g_abort_armed) { g_abort_armed = 0; siglongjmp(g_abort_jmp, sig); } signal(sig, SIG_DFL); raise(sig); }
extern "C" void __sanitizer_set_death_callback(void (*)(void));
void flush_captured() {
  if (g_cap_fd < 0 || g_real_stderr < 0) return;
  char b[4096]; off_t n = lseek(g_cap_fd, 0, SEEK_CUR); if (n <= 0) return;
  lseek(g_cap_fd, 0, SEEK_SET);
  for (;;) { ssize_t r = read(g_cap_fd, b, sizeof b); if (r <= 0) break; if (write(g_real_stderr, b, size_t(r)) < 0) break; }
}
// Runs f; an ASMJIT_ASSERT failure (abort) inside f is turned into a return value, with the message captured from stderr.
template<class F> int guarded(F&& f) {
  if (g_cap_fd < 0) {
    char name[64]; snprintf(name, sizeof name, "/tmp/c05-stderr-%d", int(getpid()));
    g_cap_fd = open(name, O_CREAT | O_RDWR | O_TRUNC, 0600); unlink(name);
    g_real_stderr = dup(2);
    __sanitizer_set_death_callback(flush_captured);
  }
  fflush(stderr);
  if (ftruncate(g_cap_fd, 0) < 0) {}
  lseek(g_cap_fd, 0, SEEK_SET);
  dup2(g_cap_fd, 2);
  struct sigaction sa, old; memset(&sa, 0, sizeof sa); sa.sa_handler = abort_handler; sa.sa_flags = SA_NODEFER; sigemptyset(&sa.sa_mask);
  struct sigaction old2; struct itimerval tv, tv0; memset(&tv, 0, sizeof tv); memset(&tv0, 0, sizeof tv0); tv.it_value.tv_sec = 4;
  sigaction(SIGABRT, &sa, &old); sigaction(SIGVTALRM, &sa, &old2);
  int sig = sigsetjmp(g_abort_jmp, 1);
  if (!sig) { g_abort_armed = 1; setitimer(ITIMER_VIRTUAL, &tv, nullptr); f(); g_abort_armed = 0; }
  setitimer(ITIMER_VIRTUAL, &tv0, nullptr);
  sigaction(SIGABRT, &old, nullptr); sigaction(SIGVTALRM, &old2, nullptr);
  fflush(stderr);
  dup2(g_real_stderr, 2);
  g_abort_text.clear();
  off_t n = lseek(g_cap_fd, 0, SEEK_CUR);
  if (n > 0) {
    g_abort_text.resize(size_t(std::min<off_t>(n, 2000)));
    if (pread(g_cap_fd, &g_abort_text[0], g_abort_text.size(), 0) < 0) g_abort_text.clear();
    if (!sig) { if (write(g_real_stderr, g_abort_text.data(), g_abort_text.size()) < 0) {} }
  }
  return sig;
}
// "file:line" of an ASMJIT_ASSERT message, for failure keys
std::string assert_site(const std::string& t);
std::string abort_key(const char* arch, int sig, const std::string& text) {
  if (sig == SIGVTALRM) return std::string("compiler-hang:") + arch;   // no termination within 4 s of CPU time
  return std::string("asmjit-assert:") + arch + ":" + assert_site(text);
}
std::string assert_site(const std::string& t) {
  size_t a = t.find("Assertion failed at "); if (a == std::string::npos) return "unknown";
  a += 20; size_t b = t.find(" (line ", a); if (b == std::string::npos) return "unknown";
  size_t c = t.find(')', b); std::string file = t.substr(a, b - a); size_t sl = file.rfind('/'); if (sl != std::string::npos) file = file.substr(sl + 1);
  return file + ":" + t.substr(b + 7, c - b - 7);
}

struct PostRA {
  int n_load = 0, n_save = 0, n_move = 0, n_swap = 0, n_rm = 0, n_inst = 0;
  std::string virt_left;        // first instruction that still has a virtual register
  std::string bad_list_inst, bad_list_text;
  int inserted() const { return n_load + n_save + n_move + n_swap + n_rm; }
};

std::string format_node(BaseBuilder* cb, BaseNode* node) {
  String sb; FormatOptions fo; Formatter::format_node(sb, fo, cb, node); return std::string(sb.data(), sb.size());
}
std::string format_all(BaseBuilder* cb, size_t limit = 60000) {
  String sb; FormatOptions fo; fo.add_flags(FormatFlags::kRegCasts);
  Formatter::format_node_list(sb, fo, cb);
  std::string s(sb.data(), sb.size());
  if (s.size() > limit) s = s.substr(0, limit) + "\n...[truncated]";
  return s;
}

inline bool opnd_has_virt(const Operand& o) {
  if (o.is_reg()) return o.as<Reg>().is_virt_reg();
  if (o.is_mem()) {
    const BaseMem& m = o.as<BaseMem>();
    if (m.is_reg_home()) return true;
    if (m.has_base_reg() && Operand::is_virt_id(m.base_id())) return true;
    if (m.has_index_reg() && Operand::is_virt_id(m.index_id())) return true;
  }
  return false;
}

// Walks the node list after the passes ran. `had_mem`: instruction nodes that had a memory operand before RA.
void inspect_common(BaseBuilder* cb, const std::unordered_set<const BaseNode*>& pre_nodes, const std::unordered_set<const BaseNode*>& had_mem, PostRA& r) {
  for (BaseNode* n = cb->first_node(); n; n = n->next()) {
    if (!n->is_inst()) continue;
    InstNode* in = n->as<InstNode>(); r.n_inst++;
    const char* c = n->inline_comment();
    if (c && c[0] == '<') {
      if (!strncmp(c, "<LOAD>", 6)) r.n_load++; else if (!strncmp(c, "<SAVE>", 6)) r.n_save++; else if (!strncmp(c, "<MOVE>", 6)) r.n_move++; else if (!strncmp(c, "<SWAP>", 6)) r.n_swap++;
    }
    bool has_mem_now = false;
    for (const Operand& o : in->operands()) {
      if (o.is_mem()) has_mem_now = true;
      if (r.virt_left.empty() && opnd_has_virt(o)) r.virt_left = format_node(cb, n);
    }
    if (in->has_extra_reg() && in->extra_reg().is_reg() && Operand::is_virt_id(in->extra_reg().id()) && r.virt_left.empty()) r.virt_left = format_node(cb, n);
    if (has_mem_now && pre_nodes.count(n) && !had_mem.count(n)) r.n_rm++;
  }
}
void snapshot_nodes(BaseBuilder* cb, std::unordered_set<const BaseNode*>& pre_nodes, std::unordered_set<const BaseNode*>& had_mem) {
  for (BaseNode* n = cb->first_node(); n; n = n->next()) {
    if (!n->is_inst()) continue;
    pre_nodes.insert(n);
    for (const Operand& o : n->as<InstNode>()->operands()) if (o.is_mem()) { had_mem.insert(n); break; }
  }
}

struct BuiltX86 {
  CodeHolder code; CaptureErrors eh; x86::Compiler cc; std::unique_ptr<X86Emit> em;
  Error err = Error::kOk; std::string stage, abort_text; int abort_sig = 0;
  PostRA post; void* fn = nullptr;
  std::string describe() const { char b[64]; snprintf(b, sizeof b, "error %u", unsigned(err)); return stage + ": " + (abort_sig ? "ASMJIT_ASSERT: " + abort_text : std::string(b) + " " + DebugUtils::error_as_string(err) + " " + eh.msg); }
};

void build_x86(BuiltX86& B, const Prog& P, Arch arch, const CpuFeatures& feat, int pressure, JitRuntime* rt) {
  Environment env(arch);
  if (rt) env = rt->environment();
  B.code.init(env, feat);
  B.code.set_error_handler(&B.eh);
  B.code.attach(&B.cc);
  B.cc.add_diagnostic_options(DiagnosticOptions::kRAAnnotate);
  B.em.reset(new X86Emit(B.cc, P, arch == Arch::kX64, pressure));
  std::unordered_set<const BaseNode*> pre, had_mem;
  B.abort_sig = guarded([&] {
    B.stage = "emit";
    B.em->build();
    B.err = B.em->first_err != Error::kOk ? B.em->first_err : B.eh.err;
    if (B.err != Error::kOk) return;
    snapshot_nodes(&B.cc, pre, had_mem);
    B.stage = "register-allocation";
    B.err = B.cc.run_passes();
    if (B.err != Error::kOk) return;
    inspect_common(&B.cc, pre, had_mem, B.post);
    B.stage = "serialize";
    x86::Assembler a(&B.code);
    B.err = B.cc.serialize_to(&a);
    if (B.err != Error::kOk) return;
    if (rt) { B.stage = "jit-add"; B.err = rt->add(&B.fn, &B.code); }
  });
  if (B.abort_sig) { B.err = Error::kInvalidState; B.abort_text = g_abort_text; }
}

// ------------------------------------------------------------------------------------------------
// Inputs and execution
// ------------------------------------------------------------------------------------------------
struct Input { alignas(64) uint8_t mem[BUF_GUARD + BUF_SIZE + BUF_GUARD]; uint64_t args[kMaxArgs]; };

void make_input(const Prog& P, int t, Input& in) {
  static const uint64_t sp[] = {0, 1, ~0ull, 0x80000000ull, 0x7fffffffull, 0xff, 0x8000000000000000ull, 0x7fffffffffffffffull, 0xffffffffull, 0x100000000ull, 2, 0x80, 0xffff, 0x8000};
  uint64_t s = mix64(P.inseed * 1000003ull + uint64_t(t) * 7919ull + 1);
  auto word = [&]() -> uint64_t {
    s = mix64(s); uint64_t r = s; int sel = int(r & 7); r >>= 3;
    if (t == 0) return 0;
    if (t == 1) return ~0ull;
    switch (sel) { case 0: return sp[r % (sizeof sp / sizeof sp[0])]; case 1: return r & 15; case 2: return r & 0xffffffffull; case 3: return uint64_t(int64_t(int32_t(r))); default: return mix64(r); }
  };
  memset(in.mem, 0xA5, sizeof in.mem);
  uint8_t* b = in.mem + BUF_GUARD;
  memset(b, 0, BUF_SIZE);
  for (int off = 0; off < OFF_GOUT; off += 8) { uint64_t v = word(); memcpy(b + off, &v, 8); }
  for (int j = 0; j < kMaxArgs; j++) {
    uint64_t v = word();
    if (j < P.nargs && P.gty[size_t(j)] == 32) v = (v & 0xffffffffull) | (mix64(s + uint64_t(j)) << 32);   // upper half of a 32-bit argument is garbage
    in.args[j] = v;
  }
  // (appended after everything else so that the older regions keep the values they always had)
  for (int off = OFF_WIN; off < OFF_WOUT; off += 8) { uint64_t v = word(); memcpy(b + off, &v, 8); }
}

struct RunResult { int sig = 0; uint64_t ret = 0; bool callee_saved_ok = true; bool rsp_ok = true; uint64_t fault_rip = 0, fault_addr = 0; };

RunResult run_compiled(void* fn, uint8_t* buf, const uint64_t* args, int t) {
  static MState st;
  uint64_t s = mix64(uint64_t(t) + 0xBADC0DE);
  for (int i = 0; i < 16; i++) st.gpr[i] = (s = mix64(s)) | 0x8000000000000000ull;
  for (int i = 0; i < 8; i++) st.k[i] = (s = mix64(s));
  for (int i = 0; i < 32; i++) for (int j = 0; j < 64; j += 8) { s = mix64(s); memcpy(&st.zmm[i][j], &s, 8); }
  for (int i = 0; i < MSC_STACK_WORDS; i++) st.stack[i] = (s = mix64(s));
  st.rflags = 0x202 | (s & 0x8D5); st.mxcsr = 0x1F80;
  static const int argreg[6] = {7, 6, 2, 1, 8, 9};
  st.gpr[argreg[0]] = uint64_t(uintptr_t(buf));
  for (int j = 0; j < kMaxArgs; j++) { int a = j + 1; if (a < 6) st.gpr[argreg[a]] = args[j]; else st.stack[a - 6] = args[j]; }
  uint64_t saved[6] = {st.gpr[3], st.gpr[5], st.gpr[12], st.gpr[13], st.gpr[14], st.gpr[15]};
  RunResult r;
  r.sig = msc_run((void (*)(void))fn, &st);
  if (r.sig) { r.fault_rip = msc_fault_rip(); r.fault_addr = msc_fault_addr(); return r; }
  r.ret = st.gpr[0];
  uint64_t now[6] = {st.gpr[3], st.gpr[5], st.gpr[12], st.gpr[13], st.gpr[14], st.gpr[15]};
  r.callee_saved_ok = memcmp(saved, now, sizeof saved) == 0;
  r.rsp_ok = st.rsp_exit == st.rsp_entry + 8;
  return r;
}

// ------------------------------------------------------------------------------------------------
// AArch64: the same tree mapped onto an a64 vocabulary (not executed: compile + structural checks only)
// ------------------------------------------------------------------------------------------------
struct A64Emit {
  a64::Compiler& cc; const Prog& P;
  Error first_err = Error::kOk;
  std::vector<a64::Gp> g; std::vector<a64::Vec> x; std::vector<a64::Gp> pd;
  a64::Gp buf;
  struct Table { Label L; std::vector<Label> entries; };
  std::vector<Table> tables;
  int n_lists = 0; bool no_imm_stack_arg = false, no_out_lists = false; int n_excluded = 0, n_excluded_lists = 0;
  A64Emit(a64::Compiler& c, const Prog& p) : cc(c), P(p) {}
  void E(Error e) { if (e != Error::kOk && first_err == Error::kOk) first_err = e; }
  a64::Gp gv(int r, int w) const { const a64::Gp& b = g[size_t(r)]; return (w == 64 && P.gty[size_t(r)] == 64) ? b.x() : b.w(); }
  a64::Gp tmp(int w) { return w == 64 ? cc.new_gp64("t") : cc.new_gp32("t"); }
  a64::Gp ptr_at(int off) { a64::Gp p = cc.new_gp64("p"); E(cc.mov(p, uint64_t(off))); E(cc.add(p, buf, p)); return p; }
  int opw(const MOp& m) const { int w = m.w < 32 ? 32 : m.w; for (const Opnd& o : m.o) if (o.t == T_REG && P.gty[size_t(o.r)] == 32) w = 32; return w; }
  a64::Vec vx(const Opnd& o) { return x[size_t(o.t == T_VEC ? o.r : o.t == T_WID ? P.nv + o.r : 0) % x.size()]; }   // wide values: extra q vectors after the xmm ones
  void emit_indirect(int sel, const Label& table, JumpAnnotation* ann);
  a64::Mem addr(const MemRef& m, int wbytes) {
    if (m.space == MS_BUF && m.idx >= 0) { a64::Gp p = ptr_at(OFF_SCR + (m.off & ~7)); return a64::ptr(p, g[size_t(m.idx)].x(), a64::lsl(uint32_t(wbytes == 8 ? 3 : wbytes == 4 ? 2 : wbytes == 2 ? 1 : 0))); }
    int al = wbytes >= 8 ? 8 : wbytes;
    if (m.space == MS_BUF) return a64::ptr(buf, (OFF_SCR + m.off) / al * al);
    return a64::ptr(buf, (OFF_GIN + 8 * (m.off + m.slot * 4)) / al * al);      // slots/constants: a location inside the buffer
  }
  // value of an operand in a register of width w (loads memory / materialises immediates)
  a64::Gp val(const Opnd& o, int w) {
    if (o.t == T_REG) return gv(o.r, w);
    a64::Gp t = tmp(w);
    if (o.t == T_IMM) E(cc.mov(t, uint64_t(o.imm) & 0xFFFF)); else if (o.t == T_MEM) E(cc.ldr(t, addr(o.m, w / 8))); else E(cc.mov(t, 1));
    return t;
  }
  void emit_mop(const MOp& m);
  void emit_list(const std::vector<Node>& l);
  void build();
  void list_op(const MOp& m);
};

void A64Emit::list_op(const MOp& m) {
  using namespace a64;
  if (x.empty()) return;
  // register-list instruction; members are distinct virtual registers (consecutive indices modulo nv, or a reversed/strided
  // run so that different instructions ask for conflicting physical orders of the same virtual registers)
  int n = 1 + int(m.imm & 3); int nv = int(x.size()); if (n > nv) n = nv;
  int base = m.o[0].t == T_VEC ? m.o[0].r : 0; int stride = ((m.imm >> 2) & 1) ? nv - 1 : 1;
  if (n > 1 && nv % 2 == 0 && stride != 1 && stride % nv == 0) stride = 1;
  Vec v[4]; std::set<int> used; bool ok = true;
  for (int i = 0; i < n; i++) { int id = umod(base + i * stride, nv); if (used.count(id)) ok = false; used.insert(id); v[i] = x[size_t(id)]; }
  if (!ok) { n = 1; }
  Gp p = ptr_at(OFF_SCR + ((m.o[1].t == T_MEM ? m.o[1].m.off : 0) & ~15) % 128);
  Mem mp = a64::ptr(p);
  int kind = int((m.imm >> 3) & 3);   // 0 ld1/st1 with n registers, 1 ldN/stN, 2 tbl, 3 tbx
  bool store = (m.k == M_VMOV && m.sub == 2);
  if (no_out_lists && !store && kind < 2 && x.size() >= 12) { store = true; n_excluded_lists++; }   // known defect: consecutive OUT registers under pressure
  n_lists++;
  if (kind >= 2) {
    Vec d = x[size_t(umod(base + 5, nv))], idx = x[size_t(umod(base + 7, nv))];
    InstId id = kind == 2 ? Inst::kIdTbl_v : Inst::kIdTbx_v;
    switch (n) {
      case 1: E(cc.emit(id, d.b16(), v[0].b16(), idx.b16())); break;
      case 2: E(cc.emit(id, d.b16(), v[0].b16(), v[1].b16(), idx.b16())); break;
      case 3: E(cc.emit(id, d.b16(), v[0].b16(), v[1].b16(), v[2].b16(), idx.b16())); break;
      default: E(cc.emit(id, d.b16(), v[0].b16(), v[1].b16(), v[2].b16(), v[3].b16(), idx.b16())); break;
    }
    return;
  }
  static const InstId ldn[4] = {Inst::kIdLd1_v, Inst::kIdLd2_v, Inst::kIdLd3_v, Inst::kIdLd4_v};
  static const InstId stn[4] = {Inst::kIdSt1_v, Inst::kIdSt2_v, Inst::kIdSt3_v, Inst::kIdSt4_v};
  InstId id = store ? (kind == 1 ? stn[n - 1] : Inst::kIdSt1_v) : (kind == 1 ? ldn[n - 1] : Inst::kIdLd1_v);
  switch (n) {
    case 1: E(cc.emit(id, v[0].s4(), mp)); break;
    case 2: E(cc.emit(id, v[0].s4(), v[1].s4(), mp)); break;
    case 3: E(cc.emit(id, v[0].s4(), v[1].s4(), v[2].s4(), mp)); break;
    default: E(cc.emit(id, v[0].s4(), v[1].s4(), v[2].s4(), v[3].s4(), mp)); break;
  }
}

void A64Emit::emit_mop(const MOp& m) {
  using namespace a64;
  int w = opw(m);
  switch (m.k) {
    case M_ALU: {
      if (m.sub == A_CMP || m.sub == A_TEST) { Gp a = val(m.o[0], w), b = val(m.o[1], w); if (m.sub == A_CMP) E(cc.cmp(a, b)); else E(cc.tst(a, b)); break; }
      if (m.sub == A_XCHG && m.o[0].t == T_REG && m.o[1].t == T_REG) { Gp t = tmp(w); E(cc.mov(t, gv(m.o[0].r, w))); E(cc.mov(gv(m.o[0].r, w), gv(m.o[1].r, w))); E(cc.mov(gv(m.o[1].r, w), t)); break; }
      bool dmem = m.o[0].t == T_MEM;
      Gp d = dmem ? tmp(w) : gv(m.o[0].r, w);
      Mem dm; if (dmem) { dm = addr(m.o[0].m, w / 8); if (m.sub != A_MOV) E(cc.ldr(d, dm)); }
      Gp s = val(m.o[1], w);
      switch (m.sub) {
        case A_ADD: case A_XADD: E(cc.add(d, d, s)); break; case A_SUB: E(cc.sub(d, d, s)); break; case A_AND: E(cc.and_(d, d, s)); break;
        case A_OR: E(cc.orr(d, d, s)); break; case A_XOR: case A_XCHG: E(cc.eor(d, d, s)); break; case A_MOV: E(cc.mov(d, s)); break;
        default: E(cc.mul(d, d, s)); break;
      }
      if (dmem) E(cc.str(d, dm));
      break;
    }
    case M_UN: {
      bool dmem = m.o[0].t == T_MEM; Gp d = dmem ? tmp(w) : gv(m.o[0].r, w); Mem dm; if (dmem) { dm = addr(m.o[0].m, w / 8); E(cc.ldr(d, dm)); }
      if (m.sub == U_NOT) E(cc.mvn(d, d)); else if (m.sub == U_NEG) E(cc.neg(d, d)); else if (m.sub == U_INC) E(cc.add(d, d, 1)); else E(cc.sub(d, d, 1));
      if (dmem) E(cc.str(d, dm));
      break;
    }
    case M_IMUL3: { Gp t = tmp(w); E(cc.mov(t, uint64_t(m.imm) & 0xFFFF)); E(cc.madd(gv(m.o[0].r, w), val(m.o[1], w), t, gv(m.o[0].r, w))); break; }
    case M_LEA: {
      Gp d = gv(m.o[0].r, w);
      if (m.o[1].t == T_REG && m.o[2].t == T_REG) E(cc.add(d, gv(m.o[1].r, w), gv(m.o[2].r, w), lsl(uint32_t(m.imm & 3))));
      else if (m.o[1].t == T_REG) E(cc.mov(d, gv(m.o[1].r, w))); else E(cc.lsl(d, gv(m.o[2].r, w), uint32_t(m.imm & 3)));
      E(cc.add(d, d, uint64_t(m.o[3].imm) & 0xFFF));
      break;
    }
    case M_MOVX: {
      Gp s = val(m.o[1], 32); Gp d = gv(m.o[0].r, w);
      if (m.sub == X_ZX) { if (m.w2 == 8) E(cc.uxtb(d.w(), s.w())); else E(cc.uxth(d.w(), s.w())); }
      else { if (m.w2 == 8) E(cc.sxtb(d, s.w())); else if (m.w2 == 16) E(cc.sxth(d, s.w())); else if (w == 64) E(cc.sxtw(d, s.w())); else E(cc.mov(d, s.w())); }
      break;
    }
    case M_SHIFT: {
      if (m.o[0].t != T_REG) { Gp t = val(m.o[0], w); E(cc.lsl(t, t, 1)); E(cc.str(t, addr(m.o[0].m, w / 8))); break; }
      Gp d = gv(m.o[0].r, w);
      if (m.o[1].t == T_IMM) {
        uint32_t c = uint32_t(m.o[1].imm) % uint32_t(w);
        if (m.sub == S_SHL) E(cc.lsl(d, d, c)); else if (m.sub == S_SHR) E(cc.lsr(d, d, c)); else if (m.sub == S_SAR) E(cc.asr(d, d, c)); else E(cc.ror(d, d, c));
      } else {
        Gp c = gv(m.o[1].r, w);
        if (m.sub == S_SHL) E(cc.lsl(d, d, c)); else if (m.sub == S_SHR) E(cc.lsr(d, d, c)); else if (m.sub == S_SAR) E(cc.asr(d, d, c)); else E(cc.ror(d, d, c));
      }
      break;
    }
    case M_CDQ: E(cc.asr(gv(m.o[0].r, w), gv(m.o[1].r, w), uint32_t(w - 1))); break;
    case M_MULDIV: {
      Gp hi = gv(m.o[0].r, w), lo = gv(m.o[1].r, w), s = val(m.o[2], w);
      if (m.sub <= D_IMUL) { if (w == 64) { if (m.sub == D_MUL) E(cc.umulh(hi, lo, s)); else E(cc.smulh(hi, lo, s)); } else E(cc.madd(hi, lo, s, hi)); E(cc.mul(lo, lo, s)); }
      else { Gp q = tmp(w); if (m.sub == D_DIV) E(cc.udiv(q, lo, s)); else E(cc.sdiv(q, lo, s)); E(cc.msub(hi, q, s, lo)); E(cc.mov(lo, q)); }
      break;
    }
    case M_CMPXCHG: {
      Gp acc = gv(m.o[2].r, w), s = gv(m.o[1].r, w);
      if (m.o[0].t == T_REG) { Gp d = gv(m.o[0].r, w); E(cc.cmp(acc, d)); Gp t = tmp(w); E(cc.mov(t, d)); E(cc.csel(d, s, d, arm::CondCode::kEQ)); E(cc.csel(acc, acc, t, arm::CondCode::kEQ)); }
      else { Gp d = tmp(w); Mem dm = addr(m.o[0].m, w / 8); E(cc.ldr(d, dm)); E(cc.cmp(acc, d)); E(cc.csel(acc, acc, d, arm::CondCode::kEQ)); E(cc.csel(d, s, d, arm::CondCode::kEQ)); E(cc.str(d, dm)); }
      break;
    }
    case M_SETCC: E(cc.cset(gv(m.o[0].r, 32), arm::CondCode(2 + m.cc % 14))); break;
    case M_CMOV: { Gp d = gv(m.o[0].r, w); E(cc.csel(d, val(m.o[1], w), d, arm::CondCode(2 + m.cc % 14))); break; }
    case M_BT: {
      Gp a = gv(m.o[0].r, w), t = tmp(w);
      if (m.o[1].t == T_IMM) E(cc.lsr(t, a, uint32_t(m.o[1].imm) % uint32_t(w))); else E(cc.lsr(t, a, gv(m.o[1].r, w)));
      if (m.sub == B_BT) E(cc.tst(t, 1)); else { Gp one = tmp(w); E(cc.mov(one, 1)); if (m.o[1].t == T_REG) E(cc.lsl(one, one, gv(m.o[1].r, w))); if (m.sub == B_BTS) E(cc.orr(a, a, one)); else if (m.sub == B_BTR) E(cc.bic(a, a, one)); else E(cc.eor(a, a, one)); }
      break;
    }
    case M_CNT: { Gp d = gv(m.o[0].r, w), s = val(m.o[1], w); if (m.sub == C_TZCNT) { E(cc.rbit(d, s)); E(cc.clz(d, d)); } else E(cc.clz(d, s)); break; }
    case M_VGX: {
      Vec v = vx(m.o[0]); Gp r = g[size_t(m.o[1].r)];
      switch (m.sub) {
        case G_MOVD_XG: E(cc.fmov(v.s(), r.w())); break; case G_MOVD_GX: E(cc.fmov(r.w(), v.s())); break;
        case G_MOVQ_XG: E(cc.fmov(v.d(), r.x())); break; case G_MOVQ_GX: E(cc.fmov(r.x(), v.d())); break;
        case G_PINSRD: E(cc.ins(v.s(uint32_t(m.imm & 3)), r.w())); break; default: E(cc.umov(r.w(), v.s(uint32_t(m.imm & 3)))); break;
      }
      break;
    }
    case M_VMOV: {
      if (m.sub == 0) { E(cc.mov(vx(m.o[0]).b16(), vx(m.o[1]).b16())); break; }
      if (m.alt) { list_op(m); break; }
      int off = (OFF_SCR + (m.o[1].m.off & ~15)) ;
      if (m.o[1].m.off & 16) { Vec b = x[size_t(m.o[0].r + 1) % x.size()]; if (b.id() != vx(m.o[0]).id()) { Gp pp = ptr_at(off); if (m.sub == 1) E(cc.ldp(vx(m.o[0]).q(), b.q(), a64::ptr(pp))); else E(cc.stp(vx(m.o[0]).q(), b.q(), a64::ptr(pp, 32))); break; } }
      if (m.sub == 1) E(cc.ldr(vx(m.o[0]).q(), a64::ptr(buf, off))); else E(cc.str(vx(m.o[0]).q(), a64::ptr(buf, off)));
      break;
    }
    case M_VALU: case M_VTERN: {
      if (m.k == M_VTERN || m.sub == V_PSHUFD) { list_op(m); break; }
      Vec d = vx(m.o[0]), a = vx(m.o[1]), b = m.o[2].t == T_VEC ? vx(m.o[2]) : d;
      switch (m.sub) {
        case V_PADDD: E(cc.add(d.s4(), a.s4(), b.s4())); break; case V_PSUBD: E(cc.sub(d.s4(), a.s4(), b.s4())); break;
        case V_PXOR: E(cc.eor(d.b16(), a.b16(), b.b16())); break; case V_PAND: E(cc.and_(d.b16(), a.b16(), b.b16())); break;
        case V_POR: E(cc.orr(d.b16(), a.b16(), b.b16())); break; case V_PANDN: E(cc.bic(d.b16(), a.b16(), b.b16())); break;
        case V_PCMPEQD: E(cc.cmeq(d.s4(), a.s4(), b.s4())); break; default: E(cc.cmgt(d.s4(), a.s4(), b.s4())); break;
      }
      break;
    }
    case M_KOP: case M_KCMP: { if (!g.empty()) E(cc.add(g[0], g[0], 1)); break; }
    case M_CALL: {
      const char* sig = kCallees[m.sub];
      FuncSignature fs(CallConvId::kCDecl);
      fs.set_ret(sig[0] == 'x' || sig[0] == 'y' ? TypeId::kInt32x4 : TypeId::kUInt64);
      for (int i = 0; sig[1 + i]; i++) fs.add_arg(sig[1 + i] == 'x' || sig[1 + i] == 'y' ? TypeId::kInt32x4 : sig[1 + i] == 'q' ? TypeId::kUInt64 : TypeId::kUInt32);
      Gp fn = cc.new_gp64("fn"); E(cc.mov(fn, uint64_t(0x12345678)));
      InvokeNode* inv = nullptr; E(cc.invoke(Out(inv), fn, fs));
      if (!inv) break;
      for (int i = 0; i < m.nargs; i++) {
        const Opnd& a = m.args[i];
        if (a.t == T_VEC || a.t == T_WID) inv->set_arg(size_t(i), vx(a));
        else if (a.t == T_IMM && !(no_imm_stack_arg && i >= 8 && ++n_excluded)) inv->set_arg(size_t(i), Imm(a.imm));
        else inv->set_arg(size_t(i), g[size_t(a.t == T_REG ? a.r : 0)]);
      }
      if (m.o[0].t == T_VEC || m.o[0].t == T_WID) inv->set_ret(0, vx(m.o[0])); else inv->set_ret(0, g[size_t(m.o[0].r)]);
      break;
    }
    case M_WMOV: {
      if (x.empty()) break;
      if (m.sub == 0) { E(cc.mov(vx(m.o[0]).b16(), vx(m.o[1]).b16())); break; }
      int off = OFF_SCR + (m.o[1].m.off & ~15);
      if (m.sub == 1) E(cc.ldr(vx(m.o[0]).q(), a64::ptr(buf, off))); else E(cc.str(vx(m.o[0]).q(), a64::ptr(buf, off)));
      break;
    }
    case M_WALU: case M_WTERN: {
      if (x.empty()) break;
      Vec d = vx(m.o[0]), a = vx(m.o[1]), b = m.o[2].t == T_WID ? vx(m.o[2]) : d;
      switch (m.k == M_WTERN ? int(V_PXOR) : m.sub) {
        case V_PADDD: E(cc.add(d.s4(), a.s4(), b.s4())); break; case V_PSUBD: E(cc.sub(d.s4(), a.s4(), b.s4())); break;
        case V_PAND: E(cc.and_(d.b16(), a.b16(), b.b16())); break; case V_POR: E(cc.orr(d.b16(), a.b16(), b.b16())); break;
        case V_PANDN: E(cc.bic(d.b16(), a.b16(), b.b16())); break; case V_PCMPEQD: E(cc.cmeq(d.s4(), a.s4(), b.s4())); break;
        case V_PCMPGTD: E(cc.cmgt(d.s4(), a.s4(), b.s4())); break; default: E(cc.eor(d.b16(), a.b16(), b.b16())); break;
      }
      break;
    }
    case M_WX: {
      if (x.empty()) break;
      switch (m.sub) {
        case WX_EXTRACT: case WX_LOWREAD: E(cc.mov(vx(m.o[0]).b16(), vx(m.o[1]).b16())); break;
        case WX_EXTRACT_MEM: E(cc.str(vx(m.o[1]).q(), a64::ptr(buf, OFF_SCR + (m.o[0].m.off & ~15)))); break;
        case WX_INSERT: E(cc.eor(vx(m.o[0]).b16(), vx(m.o[1]).b16(), vx(m.o[2]).b16())); break;
        case WX_PERM2: E(cc.ext(vx(m.o[0]).b16(), vx(m.o[1]).b16(), vx(m.o[2]).b16(), uint32_t(m.imm & 15))); break;
        case WX_PERMQ: E(cc.ext(vx(m.o[0]).b16(), vx(m.o[1]).b16(), vx(m.o[1]).b16(), 8)); break;
        case WX_BCAST: E(cc.dup(vx(m.o[0]).s4(), vx(m.o[1]).s(uint32_t(m.imm & 3)))); break;
        default: E(cc.add(vx(m.o[0]).s4(), vx(m.o[1]).s4(), vx(m.o[2]).s4())); break;
      }
      break;
    }
  }
}

void A64Emit::emit_indirect(int sel, const Label& table, JumpAnnotation* ann) {
  using namespace a64;
  Gp idx = cc.new_gp64("swidx"), tab = cc.new_gp64("swtab"), off = cc.new_gp64("swoff");
  E(cc.and_(idx.w(), gv(sel, 32), 3));
  E(cc.adr(tab, table));
  E(cc.ldrsw(off, a64::ptr(tab, idx, lsl(2))));
  E(cc.add(tab, tab, off));
  E(cc.br(tab, ann));
}

void A64Emit::emit_list(const std::vector<Node>& l) {
  using namespace a64;
  for (const Node& n : l) {
    switch (n.kind) {
      case N_OP: for (const MOp& m : n.ops) emit_mop(m); break;
      case N_IF: {
        Label Lelse = cc.new_label(), Lend = cc.new_label();
        for (const MOp& m : n.ops) emit_mop(m);
        if (n.cc == 4 && n.ops.size() && n.ops[0].o[0].t == T_REG) E(cc.cbz(gv(n.ops[0].o[0].r, 32), Lelse));
        else if (n.cc == 5 && n.ops.size() && n.ops[0].o[0].t == T_REG) E(cc.tbnz(gv(n.ops[0].o[0].r, 32), 3, Lelse));
        else E(cc.b(arm::CondCode(2 + n.cc % 14), Lelse));
        emit_list(n.parts[0]); E(cc.b(Lend)); E(cc.bind(Lelse)); emit_list(n.parts[1]); E(cc.bind(Lend));
        break;
      }
      case N_LOOP: {
        Gp c = cc.new_gp32("loop"); Label L = cc.new_label();
        E(cc.mov(c, n.n)); E(cc.bind(L)); emit_list(n.parts[0]);
        if (n.flag) { E(cc.sub(c, c, 1)); E(cc.cbnz(c, L)); } else { E(cc.subs(c, c, 1)); E(cc.b_ne(L)); }
        break;
      }
      case N_IRR: {
        Gp c = cc.new_gp32("cyc"); Label LA = cc.new_label(), LB = cc.new_label();
        E(cc.mov(c, n.n)); for (const MOp& m : n.ops) emit_mop(m);
        E(cc.b(arm::CondCode(2 + n.cc % 14), LB));
        E(cc.bind(LA)); emit_list(n.parts[0]); E(cc.bind(LB)); emit_list(n.parts[1]);
        E(cc.subs(c, c, 1)); E(cc.b_ne(LA));
        break;
      }
      case N_SWITCH: {
        size_t nc = n.parts.size();
        Table t; t.L = cc.new_label(); std::vector<Label> cl; for (size_t i = 0; i < nc; i++) cl.push_back(cc.new_label());
        Label Lend = cc.new_label();
        for (int i = 0; i < n.ntab; i++) t.entries.push_back(cl[size_t(i) % nc]);
        Gp idx = cc.new_gp64("swidx"), tab = cc.new_gp64("swtab"), off = cc.new_gp64("swoff");
        E(cc.and_(idx.w(), gv(n.sel, 32), 3));
        E(cc.adr(tab, t.L));
        E(cc.ldrsw(off, a64::ptr(tab, idx, lsl(2))));
        E(cc.add(tab, tab, off));
        JumpAnnotation* ann = cc.new_jump_annotation();
        if (ann) { for (size_t i = 0; i < nc; i++) ann->add_label(cl[i]); E(cc.br(tab, ann)); }
        for (size_t i = 0; i < nc; i++) { E(cc.bind(cl[i])); if (n.pad) E(cc.nop()); emit_list(n.parts[i]); if (!n.flag && i + 1 < nc) E(cc.b(Lend)); }
        E(cc.bind(Lend));
        tables.push_back(t);
        break;
      }
      case N_DISPATCH: {
        size_t nc = size_t(n.n);
        Table t; t.L = cc.new_label(); std::vector<Label> cl; for (size_t i = 0; i < nc; i++) cl.push_back(cc.new_label());
        Label LB = cc.new_label(), Lend = cc.new_label();
        for (int i = 0; i < n.ntab; i++) t.entries.push_back(cl[(size_t(i) + size_t(n.rot)) % nc]);
        JumpAnnotation* shared = nullptr;
        auto annot = [&](int which) -> JumpAnnotation* {
          if (n.sameann && shared) return shared;
          JumpAnnotation* a = cc.new_jump_annotation(); if (!a) { E(Error::kOutOfMemory); return nullptr; }
          int order[4]; perm_of(n.sameann ? n.perm[0] : n.perm[which], n.n, order);
          for (size_t i = 0; i < nc; i++) a->add_label(cl[size_t(order[i])]);
          if (n.sameann) shared = a;
          return a;
        };
        Gp cnt;
        if (n.redisp) { cnt = cc.new_gp32("dcnt"); E(cc.mov(cnt, n.n2)); }
        for (const MOp& m : n.ops) emit_mop(m);
        E(cc.b(arm::CondCode(2 + (n.cc ^ 1) % 14), LB));
        emit_list(n.parts[0]);
        if (JumpAnnotation* a = annot(0)) emit_indirect(n.sel, t.L, a);
        E(cc.bind(LB));
        emit_list(n.parts[1]);
        if (JumpAnnotation* a = annot(1)) emit_indirect(n.sel2, t.L, a);
        for (size_t i = 0; i < nc; i++) {
          E(cc.bind(cl[i])); if (n.pad) E(cc.nop()); emit_list(n.parts[2 + i]);
          if ((n.redisp >> i) & 1) { E(cc.subs(cnt, cnt, 1)); E(cc.b_eq(Lend)); if (JumpAnnotation* a = annot(2)) emit_indirect(n.sel3, t.L, a); }
          else if (!n.flag && i + 1 < nc) E(cc.b(Lend));
        }
        E(cc.bind(Lend));
        tables.push_back(t);
        break;
      }
      case N_RETIF: {
        Label Lskip = cc.new_label();
        for (const MOp& m : n.ops) emit_mop(m);
        E(cc.b(arm::CondCode(2 + (n.cc ^ 1) % 14), Lskip));
        Gp r = cc.new_gp64("retv"); E(cc.mov(r, 0xC0DE));
        if (P.gty[size_t(n.sel)] == 64) E(cc.eor(r, r, g[size_t(n.sel)].x())); else E(cc.eor(r.w(), r.w(), g[size_t(n.sel)].w()));
        E(cc.ret(r)); E(cc.bind(Lskip));
        break;
      }
    }
  }
}

void A64Emit::build() {
  using namespace a64;
  FuncSignature fs(CallConvId::kCDecl);
  fs.set_ret(TypeId::kUInt64); fs.add_arg(TypeId::kUIntPtr);
  for (int j = 0; j < P.nargs; j++) fs.add_arg(P.gty[size_t(j)] == 64 ? TypeId::kUInt64 : TypeId::kUInt32);
  FuncNode* func = cc.add_func(fs);
  if (!func) { first_err = Error::kOutOfMemory; return; }
  buf = cc.new_gp64("buf"); func->set_arg(0, buf);
  for (size_t i = 0; i < P.gty.size(); i++) g.push_back(P.gty[i] == 64 ? cc.new_gp64("v%u", unsigned(i)) : cc.new_gp32("v%u", unsigned(i)));
  for (int j = 0; j < P.nv; j++) x.push_back(cc.new_vec_q("x%d", j));
  for (int j = 0; j < P.nw; j++) x.push_back(cc.new_vec_q("w%d", j));
  for (int j = 0; j < P.nargs; j++) func->set_arg(size_t(1 + j), g[size_t(j)]);
  for (int i = P.nargs; i < P.ng; i++) {
    if (i + 1 < P.ng && (i & 3) == 0 && P.gty[size_t(i)] == P.gty[size_t(i + 1)]) { Gp pp = ptr_at(OFF_GIN + 8 * i); E(cc.ldp(g[size_t(i)], g[size_t(i + 1)], a64::ptr(pp))); i++; }
    else E(cc.ldr(g[size_t(i)], a64::ptr(buf, OFF_GIN + 8 * i)));
  }
  for (int j = 0; j < P.nv; j++) E(cc.ldr(x[size_t(j)].q(), a64::ptr(buf, OFF_VIN + 16 * j)));
  for (int j = 0; j < P.nw; j++) E(cc.ldr(x[size_t(P.nv + j)].q(), a64::ptr(buf, OFF_WIN + 64 * j)));
  for (int i = 0; i < P.pressure; i++) { pd.push_back(cc.new_gp64("p%d", i)); E(cc.ldr(pd.back(), a64::ptr(buf, OFF_PIN + 8 * i))); }
  emit_list(P.body);
  Gp acc = cc.new_gp64("acc"); E(cc.mov(acc, 0));
  for (auto& p : pd) E(cc.eor(acc, acc, p, ror(3)));
  for (int i = 0; i < P.ng; i++) if (P.folded(i)) {
    if (i + 1 < P.ng && (i & 7) == 0 && P.folded(i + 1) && P.gty[size_t(i)] == 64 && P.gty[size_t(i + 1)] == 64) { Gp pp = ptr_at(OFF_GOUT + 8 * i); E(cc.stp(g[size_t(i)], g[size_t(i + 1)], a64::ptr(pp, 8 * 0))); E(cc.str(g[size_t(i)], a64::ptr(buf, OFF_GOUT + 8 * i))); }
    else E(cc.str(g[size_t(i)], a64::ptr(buf, OFF_GOUT + 8 * i)));
    if (P.gty[size_t(i)] == 64) E(cc.eor(acc, acc, g[size_t(i)].x(), ror(5))); else E(cc.eor(acc.w(), acc.w(), g[size_t(i)].w(), ror(5)));
  }
  for (int j = 0; j < P.nv; j++) if (P.folded(j)) E(cc.str(x[size_t(j)].q(), a64::ptr(buf, OFF_VOUT + 16 * j)));
  for (int j = 0; j < P.nw; j++) if (P.folded(j)) E(cc.str(x[size_t(P.nv + j)].q(), a64::ptr(buf, OFF_WOUT + 64 * j)));
  E(cc.ret(acc));
  E(cc.end_func());
  for (Table& t : tables) { E(cc.bind(t.L)); for (Label& e : t.entries) E(cc.embed_label_delta(e, t.L, 4)); }
}

struct BuiltA64 {
  CodeHolder code; CaptureErrors eh; a64::Compiler cc; std::unique_ptr<A64Emit> em;
  Error err = Error::kOk; std::string stage, abort_text; int abort_sig = 0; PostRA post;
  std::string describe() const { char b[64]; snprintf(b, sizeof b, "error %u", unsigned(err)); return stage + ": " + (abort_sig ? "ASMJIT_ASSERT: " + abort_text : std::string(b) + " " + DebugUtils::error_as_string(err) + " " + eh.msg); }
};

// register-list operands of ld1-ld4/st1-st4/tbl/tbx must be consecutive modulo 32
void inspect_a64_lists(BaseBuilder* cb, PostRA& r) {
  for (BaseNode* n = cb->first_node(); n; n = n->next()) {
    if (!n->is_inst()) continue;
    InstNode* in = n->as<InstNode>();
    InstId id = in->real_id();
    const char* name = nullptr; size_t first = 0, last = 0; size_t oc = in->op_count();
    switch (id) {
      case a64::Inst::kIdLd1_v: name = "ld1"; break; case a64::Inst::kIdLd2_v: name = "ld2"; break; case a64::Inst::kIdLd3_v: name = "ld3"; break; case a64::Inst::kIdLd4_v: name = "ld4"; break;
      case a64::Inst::kIdSt1_v: name = "st1"; break; case a64::Inst::kIdSt2_v: name = "st2"; break; case a64::Inst::kIdSt3_v: name = "st3"; break; case a64::Inst::kIdSt4_v: name = "st4"; break;
      case a64::Inst::kIdTbl_v: name = "tbl"; break; case a64::Inst::kIdTbx_v: name = "tbx"; break;
      default: continue;
    }
    if (id == a64::Inst::kIdTbl_v || id == a64::Inst::kIdTbx_v) { first = 1; last = oc >= 2 ? oc - 2 : 0; } else { first = 0; last = oc >= 2 ? oc - 2 : 0; }
    for (size_t i = first; i < last; i++) {
      const Operand& a = in->op(i); const Operand& b = in->op(i + 1);
      if (!a.is_reg() || !b.is_reg() || a.as<Reg>().is_virt_reg() || b.as<Reg>().is_virt_reg()) continue;
      if (((a.as<Reg>().id() + 1) & 31) != b.as<Reg>().id() && r.bad_list_inst.empty()) { r.bad_list_inst = name; r.bad_list_text = format_node(cb, n); }
    }
  }
}

void build_a64(BuiltA64& B, const Prog& P, bool no_imm_stack_arg, bool no_out_lists) {
  Environment env(Arch::kAArch64);
  CpuFeatures feat; feat.add(CpuFeatures::ARM::kASIMD, CpuFeatures::ARM::kIDIVA);
  B.code.init(env, feat);
  B.code.set_error_handler(&B.eh);
  B.code.attach(&B.cc);
  B.cc.add_diagnostic_options(DiagnosticOptions::kRAAnnotate);
  B.em.reset(new A64Emit(B.cc, P)); B.em->no_imm_stack_arg = no_imm_stack_arg; B.em->no_out_lists = no_out_lists;
  std::unordered_set<const BaseNode*> pre, had_mem;
  B.abort_sig = guarded([&] {
    B.stage = "emit";
    B.em->build();
    B.err = B.em->first_err != Error::kOk ? B.em->first_err : B.eh.err;
    if (B.err != Error::kOk) return;
    snapshot_nodes(&B.cc, pre, had_mem);
    B.stage = "register-allocation";
    B.err = B.cc.run_passes();
    if (B.err != Error::kOk) return;
    inspect_common(&B.cc, pre, had_mem, B.post);
    inspect_a64_lists(&B.cc, B.post);
    B.stage = "serialize";
    a64::Assembler a(&B.code);
    B.err = B.cc.serialize_to(&a);
  });
  if (B.abort_sig) { B.err = Error::kInvalidState; B.abort_text = g_abort_text; }
}


// ------------------------------------------------------------------------------------------------
// The property
// ------------------------------------------------------------------------------------------------
std::string region_of(int off) {
  char b[64];
  if (off < 0 || off >= BUF_SIZE) snprintf(b, sizeof b, "guard area (offset %d)", off);
  else if (off < OFF_VIN) snprintf(b, sizeof b, "GP input v%d", off / 8);
  else if (off < OFF_KIN) snprintf(b, sizeof b, "vector input x%d", (off - OFF_VIN) / 16);
  else if (off < OFF_PIN) snprintf(b, sizeof b, "mask input k%d", (off - OFF_KIN) / 8);
  else if (off < OFF_SCR) snprintf(b, sizeof b, "pressure input p%d", (off - OFF_PIN) / 8);
  else if (off < OFF_GOUT) snprintf(b, sizeof b, "scratch+%d", off - OFF_SCR);
  else if (off < OFF_VOUT) snprintf(b, sizeof b, "final value of v%d (byte %d)", (off - OFF_GOUT) / 8, (off - OFF_GOUT) % 8);
  else if (off < OFF_KOUT) snprintf(b, sizeof b, "final value of x%d (byte %d)", (off - OFF_VOUT) / 16, (off - OFF_VOUT) % 16);
  else if (off < OFF_RES2) snprintf(b, sizeof b, "final value of k%d", (off - OFF_KOUT) / 8);
  else if (off >= OFF_WOUT) snprintf(b, sizeof b, "final value of wide value %d (byte %d)", (off - OFF_WOUT) / 64, (off - OFF_WOUT) % 64);
  else if (off >= OFF_WIN) snprintf(b, sizeof b, "wide input %d", (off - OFF_WIN) / 64);
  else snprintf(b, sizeof b, "pressure accumulator");
  return b;
}

std::string hex_bytes(const uint8_t* p, int n) { std::string s; char b[4]; for (int i = 0; i < n; i++) { snprintf(b, sizeof b, "%02x", p[i]); s += b; } return s; }

bool g_keyop = false;
bool report(vh::Ctx& ctx, const std::string& key0, const std::string& head, const Prog& P, BaseBuilder* cb) {
  std::string key = key0;
  if (g_keyop && !P.body.empty()) { key += std::string("@") + kHName[P.body[0].hl]; if (!P.body[0].ops.empty()) key += "/" + show_mop(P, P.body[0].ops.back()).substr(0, show_mop(P, P.body[0].ops.back()).find(' ')); }
  if (ctx.is_known(key)) return ctx.fail_unless_known(key, head);
  std::string msg = head + "\n--- IR ---\n" + show_prog(P);
  if (cb) msg += "--- node list after register allocation ---\n" + format_all(cb);
  return ctx.fail_unless_known(key, msg);
}

const char* pressure_bucket(int live) { return live <= 6 ? "live_001_006" : live <= 13 ? "live_007_013" : live <= 16 ? "live_014_016" : live <= 30 ? "live_017_030" : live <= 80 ? "live_031_080" : "live_081_400"; }

struct Globals { bool dump = false; int inputs = 32; bool no32 = false, noa64 = false, nometa = false; } G;

} // namespace

void vh_init(const vh::Opts& o, vh::Ctx&) {
  G.dump = o.geti("dump", 0) != 0; g_keyop = o.geti("keyop", 0) != 0; G.inputs = int(o.geti("inputs", 32));
  G.no32 = o.geti("no32", 0) != 0; G.noa64 = o.geti("noa64", 0) != 0; G.nometa = o.geti("nometa", 0) != 0;
  const CpuFeatures::X86& hf = CpuInfo::host().features().x86();
  g_host_avx512 = (hf.has_avx512_f() && hf.has_avx512_vl() && hf.has_avx512_bw() && hf.has_avx512_dq()) ? 1 : 0;
  if (o.geti("no512", 0)) g_host_avx512 = 0;
}

struct Outcome {
  bool fail = false; std::string key, head, listing;
  PostRA post; std::vector<uint64_t> rets;
};

// Compiles P for x86-64 (with `pressure` dummies), runs it on the inputs and compares with the interpreter.
static void check_x64(const Prog& P, JitRuntime& rt, const CpuFeatures& feat, int pressure, int ninputs, const std::vector<uint64_t>* ref_rets, Outcome& out) {
  std::unique_ptr<BuiltX86> Bp(new BuiltX86());
  BuiltX86& B = *Bp;
  build_x86(B, P, Arch::kX64, feat, pressure, &rt);
  if (G.dump) { printf("%s", show_prog(P).c_str()); printf("--- x64 (pressure %d) ---\n%s\n", pressure, format_all(&B.cc).c_str()); }
  auto fail = [&](const std::string& key, const std::string& head, bool listing) { out.fail = true; out.key = key; out.head = head; if (listing) out.listing = format_all(&B.cc); };
  if (B.err != Error::kOk) { fail(B.abort_sig ? abort_key("x64", B.abort_sig, B.abort_text) : std::string("compile-error-on-valid-program:x64:") + DebugUtils::error_as_string(B.err), B.describe(), B.stage != "emit" && !B.abort_sig); return; }
  out.post = B.post;
  if (!B.post.virt_left.empty()) { fail("virtual-reg-left:x64", "after RA: " + B.post.virt_left, true); return; }
  static Input in, exp, act;
  Interp I(P);
  out.rets.assign(size_t(ninputs), 0);
  char head[640];
  for (int t = 0; t < ninputs && !out.fail; t++) {
    make_input(P, t, in);
    memcpy(&exp, &in, sizeof in); memcpy(&act, &in, sizeof in);
    uint64_t want = ref_rets ? (*ref_rets)[size_t(t)] : I.run(exp.mem + BUF_GUARD, in.args);
    g_log_actual.clear();
    RunResult r = run_compiled(B.fn, act.mem + BUF_GUARD, in.args, t);
    out.rets[size_t(t)] = r.ret;
    if (r.sig) {
      if (r.sig == SIGVTALRM) { snprintf(head, sizeof head, "input %d: compiled code did not terminate within 20 s of CPU time (the reference interpreter terminates)", t); fail("compiled-code-does-not-terminate", head, true); break; }
      snprintf(head, sizeof head, "input %d: compiled code raised signal %d at code offset %lld (fault address %#llx)", t, r.sig, (long long)(r.fault_rip - uint64_t(uintptr_t(B.fn))), (unsigned long long)r.fault_addr);
      fail("compiled-code-faulted", head, true); break; }
    if (!r.callee_saved_ok || !r.rsp_ok) { snprintf(head, sizeof head, "input %d: callee-saved register or stack pointer not preserved (rsp_ok=%d)", t, int(r.rsp_ok)); fail("callee-saved-not-preserved", head, true); break; }
    if (ref_rets) {   // metamorphic run: only the return value (and absence of faults) is compared
      if (r.ret != want) { snprintf(head, sizeof head, "input %d: build with %d pressure values returns %#llx, the other build %#llx", t, pressure, (unsigned long long)r.ret, (unsigned long long)want); fail("pressure-changes-result", head, true); }
      continue;
    }
    if (r.ret != want) {
      snprintf(head, sizeof head, "input %d: return value %#llx, interpreter %#llx (xor %#llx)", t, (unsigned long long)r.ret, (unsigned long long)want, (unsigned long long)(r.ret ^ want));
      std::string h = head;
      for (int off = 0; off < BUF_SIZE; off++) if (exp.mem[BUF_GUARD + off] != act.mem[BUF_GUARD + off]) {
        int a0 = off & ~7; h += "; first differing memory: " + region_of(off) + " expected " + hex_bytes(exp.mem + BUF_GUARD + a0, 16) + " actual " + hex_bytes(act.mem + BUF_GUARD + a0, 16); break; }
      fail("wrong-return", h, true); break; }
    if (memcmp(exp.mem, act.mem, sizeof exp.mem) != 0) {
      int off = 0; while (exp.mem[off] == act.mem[off]) off++;
      off -= BUF_GUARD; int a0 = std::max(0, off & ~7);
      snprintf(head, sizeof head, "input %d: memory differs at buffer offset %d = %s: expected %s actual %s", t, off, region_of(off).c_str(),
               hex_bytes(exp.mem + BUF_GUARD + a0, 16).c_str(), hex_bytes(act.mem + BUF_GUARD + a0, 16).c_str());
      fail("wrong-memory", head, true); break; }
    if (!(I.log == g_log_actual)) {
      size_t i = 0; while (i < I.log.size() && i < g_log_actual.size() && I.log[i] == g_log_actual[i]) i++;
      std::string h = "input " + std::to_string(t) + ": call log differs at call #" + std::to_string(i) + " (expected " + std::to_string(I.log.size()) + " calls, actual " + std::to_string(g_log_actual.size()) + ")";
      auto show = [&](const std::vector<CallRec>& l) { std::string s2; if (i < l.size()) { s2 = " callee" + std::to_string(l[i].id) + "("; for (int a = 0; kCallees[l[i].id][1 + a]; a++) { char b[48]; snprintf(b, sizeof b, "%s%#llx", a ? ", " : "", (unsigned long long)l[i].a[a][0]); s2 += b; } s2 += ")"; } else s2 = " <none>"; return s2; };
      h += " expected:" + show(I.log) + " actual:" + show(g_log_actual);
      fail("wrong-call-log", h, true); break; }
  }
  if (B.fn) rt.release(B.fn);
}

static void check_all_x64(const Prog& P, JitRuntime& rt, const CpuFeatures& feat, int ninputs, Outcome& out) {
  check_x64(P, rt, feat, P.pressure, ninputs, nullptr, out);
  if (out.fail || P.pressure == 0 || G.nometa) return;
  Outcome m; check_x64(P, rt, feat, 0, std::min(ninputs, 8), &out.rets, m);
  if (m.fail) { out.fail = true; out.key = m.key == "wrong-return" ? "pressure-changes-result" : m.key; out.head = "unpressured variant: " + m.head; out.listing = m.listing; }
}

void vh_run(const vh::Case& c, vh::Ctx& ctx) {
  Excl ex;
  for (int i = 0; i < EX_COUNT_; i++) ex.on[i] = ctx.is_known(ex_key(i));
  std::unique_ptr<Prog> Pp(new Prog());
  Prog& P = *Pp;
  decode_case(c, ex, P);
  if (P.n_excluded) ctx.known_excluded("excluded-known-trigger-shapes");

  // ---- class counters ----
  {
    std::function<void(const std::vector<Node>&)> walk = [&](const std::vector<Node>& l) {
      for (const Node& n : l) { ctx.cls(std::string("op_") + kHName[n.hl]); for (auto& p : n.parts) walk(p); }
    };
    walk(P.body);
    int live_gp = 0; for (int i = 0; i < P.ng; i++) if (P.folded(i)) live_gp++;
    ctx.cls(std::string("gp_") + pressure_bucket(live_gp + P.pressure));
    if (P.nv) ctx.cls(std::string("vec_") + pressure_bucket(P.nv + (P.pressure / 4)));
    ctx.cls(P.vmode == 0 ? "vmode_sse" : P.vmode == 1 ? "vmode_avx" : "vmode_avx512");
    ctx.cls(P.body.empty() ? "shape_empty" : P.max_depth == 0 ? "shape_straight_line" : P.max_depth == 1 ? "shape_depth1" : "shape_nested");
    if (P.n_calls) ctx.cls("has_call"); if (P.n_switch || P.n_dispatch) ctx.cls("has_jump_table"); if (P.n_loops) ctx.cls("has_loop"); if (P.n_irr) ctx.cls("has_irreducible");
    if (P.n_if) ctx.cls("has_diamond"); if (P.n_retif) ctx.cls("has_early_return"); if (P.n_fixed) ctx.cls("has_fixed_reg_inst");
    if (P.n_partial) ctx.cls("has_partial_write"); if (P.n_idiom) ctx.cls("has_same_reg_idiom"); if (P.n_vec) ctx.cls("has_vector_op"); if (P.n_mask) ctx.cls("has_mask_op");
    if (P.n_mem) ctx.cls("has_mem_operand"); if (P.nargs > 5) ctx.cls("has_stack_args"); if (P.nslots) ctx.cls("has_stack_slots"); if (P.ntemps) ctx.cls("has_temps");
    if (P.tysel >= 2) ctx.cls("mixed_widths");
    // several annotated indirect jumps over one target set
    if (P.n_dispatch) {
      ctx.cls("jump_tables_shared_annotation", uint64_t(P.n_dispatch)); ctx.cls("has_dispatch");
      ctx.cls("dispatch_indirect_jumps", uint64_t(P.n_disp_jumps));
      if (P.n_disp_sameann) ctx.cls("dispatch_one_annotation_object", uint64_t(P.n_disp_sameann));
      if (P.n_dispatch > P.n_disp_sameann) ctx.cls("dispatch_annotation_per_jump_permuted", uint64_t(P.n_dispatch - P.n_disp_sameann));
      ctx.cls("second_jump_unallocated_target_first", uint64_t(P.n_disp_unalloc_first));
      if (P.n_disp_redisp) ctx.cls("dispatch_redispatch_from_case", uint64_t(P.n_disp_redisp));
      if (P.n_disp_after_call) ctx.cls("dispatch_after_call", uint64_t(P.n_disp_after_call));
      if (P.n_disp_call_inside) ctx.cls("dispatch_call_in_case", uint64_t(P.n_disp_call_inside));
      if (P.n_disp_write_in_arm) ctx.cls("dispatch_gp_write_before_later_jump", uint64_t(P.n_disp_write_in_arm));
      if (P.n_disp_after_call && P.n_disp_write_in_arm && P.n_calls >= 2) ctx.cls("dispatch_clean_then_dirty_candidate");
    }
    // wide vectors and callees of other conventions
    if (P.nw) {
      ctx.cls(P.wbits == 512 ? "wide_zmm" : "wide_ymm");
      ctx.cls(std::string("wide_") + pressure_bucket(P.nw));
      if (P.n_wide) ctx.cls("has_wide_op"); if (P.n_wide_xlane) ctx.cls("has_wide_cross_lane_op"); if (P.n_wide_lowview) ctx.cls("has_wide_xmm_view_op"); if (P.n_wide_mem) ctx.cls("has_wide_mem_operand");
      int live_w = 0; for (int j = 0; j < P.nw; j++) if (P.folded(j)) live_w++;
      if (live_w) {
        int ms = P.n_calls_win + P.n_calls_vcall;
        if (ms) ctx.cls(P.wbits == 512 ? "zmm_live_across_ms_abi_call" : "ymm_live_across_ms_abi_call", uint64_t(ms));
        if (ms >= 2 || (ms && P.n_loops + P.n_irr + P.n_disp_redisp > 0)) ctx.cls("wide_live_across_repeated_ms_abi_calls");
        if (P.n_calls - ms > 0) ctx.cls("wide_live_across_sysv_call", uint64_t(P.n_calls - ms));
        if (ms && live_w + P.nv >= 7) ctx.cls("wide_ms_abi_call_with_7plus_live_vectors");
      }
    }
    if (P.n_u32imm_args) ctx.cls("call_arg_imm_u32_only_at_stack_position", uint64_t(P.n_u32imm_args));
    if (P.n_calls_win) ctx.cls("call_win64", uint64_t(P.n_calls_win)); if (P.n_calls_vcall) ctx.cls("call_vectorcall", uint64_t(P.n_calls_vcall)); if (P.n_calls_widearg) ctx.cls("call_sysv_ymm_args", uint64_t(P.n_calls_widearg));
  }

  JitRuntime rt;
  CpuFeatures feat = rt.cpu_features();
  int ninputs = std::max(2, G.inputs);
  Outcome out;
  check_all_x64(P, rt, feat, ninputs, out);
  if (out.fail) {
    // attribution: does the failure disappear when one known trigger shape is excluded?
    std::string key = out.key;
    if (key != "compile-error-on-valid-program:x64" || true) {
      for (int i = 0; i < EX_COUNT_; i++) {
        if (ex.on[i] || !ex_applies(i, out.key)) continue;
        Excl ex2 = ex; ex2.on[i] = true;
        std::unique_ptr<Prog> P2(new Prog()); decode_case(c, ex2, *P2);
        if (P2->n_excl[i] == 0) continue;
        Outcome o2; check_all_x64(*P2, rt, feat, ninputs, o2);
        if (G.dump) printf("attribution: class %s -> %s %s\n", kExName[i], o2.fail ? o2.key.c_str() : "passes", o2.head.c_str());
        if (!o2.fail) { key = ex_key(i); out.head = "[" + out.key + "; disappears when the shape '" + kExName[i] + "' is excluded] " + out.head; break; }
      }
    }
    std::string msg = out.head;
    if (!ctx.is_known(key)) { msg += "\n--- IR ---\n" + show_prog(P); if (!out.listing.empty()) msg += "--- node list after register allocation ---\n" + out.listing; }
    if (g_keyop && !P.body.empty()) key += std::string("@") + kHName[P.body[0].hl];
    ctx.fail_unless_known(key, msg);
    return;
  }
  const PostRA& post = out.post;
  if (post.n_load) ctx.cls("ra_inserted_load"); if (post.n_save) ctx.cls("ra_inserted_save"); if (post.n_move) ctx.cls("ra_inserted_move");
  if (post.n_swap) ctx.cls("ra_inserted_swap"); if (post.n_rm) ctx.cls("ra_reg_to_mem_operand");
  ctx.cls("ra_inserted_nodes_total", uint64_t(post.inserted()));
  if (P.pressure && !G.nometa) ctx.cls("metamorphic_pairs");

  // ---- x86-32 and AArch64: not executed here. The analogous program must compile when the x86-64 build did, and the
  //      post-RA node list must be structurally valid (no virtual register left, register lists consecutive). ----
  // attribution for the compile-only targets: does the failure disappear when one trigger shape is excluded?
  auto attribute = [&](const std::string& key0, const std::function<bool(const Prog&)>& fails) -> std::string {
    for (int i = 0; i < EX_COUNT_; i++) {
      if (ex.on[i] || !ex_applies(i, key0)) continue;
      Excl ex2 = ex; ex2.on[i] = true;
      std::unique_ptr<Prog> P2(new Prog()); decode_case(c, ex2, *P2);
      if (P2->n_excl[i] == 0) continue;
      if (!fails(*P2)) return ex_key(i);
    }
    return key0;
  };
  if (!G.no32) {
    std::unique_ptr<BuiltX86> B32(new BuiltX86());
    build_x86(*B32, P, Arch::kX86, feat, P.pressure, nullptr);
    ctx.cls("x86_32_builds");
    if (B32->err != Error::kOk && B32->abort_sig) {
      std::string k0 = abort_key("x86", B32->abort_sig, B32->abort_text);
      std::string k = attribute(k0, [&](const Prog& Q) { std::unique_ptr<BuiltX86> b(new BuiltX86()); build_x86(*b, Q, Arch::kX86, feat, Q.pressure, nullptr); return b->err != Error::kOk; });
      if (!report(ctx, k, (k != k0 ? "[" + k0 + "; disappears when the shape is excluded] " : std::string()) + B32->describe(), P, nullptr)) return;
    }
    else if (B32->err != Error::kOk) { if (!report(ctx, B32->abort_sig ? abort_key("x86", B32->abort_sig, B32->abort_text) : std::string("compile-error-on-valid-program:x86:") + DebugUtils::error_as_string(B32->err), B32->describe(), P, (B32->stage == "emit" || B32->abort_sig) ? nullptr : &B32->cc)) return; }
    else if (!B32->post.virt_left.empty()) { if (!report(ctx, "virtual-reg-left:x86", "after RA: " + B32->post.virt_left, P, &B32->cc)) return; }
    else if (B32->post.inserted()) ctx.cls("x86_32_ra_inserted");
  }
  if (!G.noa64) {
    std::unique_ptr<BuiltA64> BA(new BuiltA64());
    build_a64(*BA, P, ctx.is_known("asmjit-assert:a64:a64rapass.cpp:528"), ctx.is_known("asmjit-assert:a64:ralocal.cpp:1038"));
    if (BA->em && BA->em->n_excluded_lists) ctx.known_excluded("excluded-a64-list-load-under-pressure");
    if (BA->em && BA->em->n_excluded) ctx.known_excluded("excluded-a64-immediate-stack-argument");
    ctx.cls("a64_builds"); if (BA->em && BA->em->n_lists) ctx.cls("a64_has_register_list", uint64_t(BA->em->n_lists));
    if (G.dump) printf("--- a64 ---\n%s\n", format_all(&BA->cc).c_str());
    if (BA->err != Error::kOk && BA->abort_sig) {
      std::string k0 = abort_key("a64", BA->abort_sig, BA->abort_text);
      bool k1 = ctx.is_known("asmjit-assert:a64:a64rapass.cpp:528"), k2 = ctx.is_known("asmjit-assert:a64:ralocal.cpp:1038");
      std::string k = ctx.is_known(k0) ? k0 : attribute(k0, [&](const Prog& Q) { std::unique_ptr<BuiltA64> b(new BuiltA64()); build_a64(*b, Q, k1, k2); return b->err != Error::kOk; });
      if (!report(ctx, k, (k != k0 ? "[" + k0 + "; disappears when the shape is excluded] " : std::string()) + BA->describe(), P, nullptr)) return;
    }
    else if (BA->err != Error::kOk) { if (!report(ctx, BA->abort_sig ? abort_key("a64", BA->abort_sig, BA->abort_text) : std::string("compile-error-on-valid-program:a64:") + DebugUtils::error_as_string(BA->err), BA->describe(), P, (BA->stage == "emit" || BA->abort_sig) ? nullptr : &BA->cc)) return; }
    else {
      if (!BA->post.virt_left.empty()) { if (!report(ctx, "virtual-reg-left:a64", "after RA: " + BA->post.virt_left, P, &BA->cc)) return; }
      if (!BA->post.bad_list_inst.empty()) { if (!report(ctx, "list-not-consecutive:a64:" + BA->post.bad_list_inst, "after RA: " + BA->post.bad_list_text, P, &BA->cc)) return; }
      if (BA->post.inserted()) ctx.cls("a64_ra_inserted");
    }
  }


  bool nontrivial = post.inserted() > 0 || P.n_calls || P.n_switch || P.n_dispatch || P.n_fixed;
  if (nontrivial) {
    ctx.nontrivial();
    if (ctx.want_sample()) {
      std::string s = show_prog(P); if (s.size() > 1500) s = s.substr(0, 1500) + "...";
      char b[160]; snprintf(b, sizeof b, "[RA inserted: %d loads %d saves %d moves %d swaps %d reg->mem; %d inputs]\n", post.n_load, post.n_save, post.n_move, post.n_swap, post.n_rm, ninputs);
      ctx.sample(b + s);
    }
  }
}

// ------------------------------------------------------------------------------------------------
// Generator
// ------------------------------------------------------------------------------------------------
static int pick_kind(int sel) {
  static const int w[H_COUNT_] = { /*alu*/ 150, /*unary*/ 35, /*imul*/ 35, /*lea*/ 35, /*movx*/ 40, /*shift_i*/ 40, /*shift_cl*/ 45, /*muldiv*/ 45, /*cmpxchg*/ 25, /*xchg*/ 30,
                                   /*setcc*/ 40, /*cmov*/ 35, /*bt*/ 20, /*cnt*/ 20, /*idiom*/ 90, /*temp*/ 40, /*vgx*/ 30, /*vldst*/ 30, /*valu*/ 50, /*kop*/ 25, /*call*/ 35,
                                   /*if*/ 30, /*loop*/ 22, /*irr*/ 14, /*switch*/ 16, /*next*/ 30, /*end*/ 45, /*retif*/ 8,
                                   /*dispatch*/ 10, /*wldst*/ 25, /*walu*/ 40, /*wx*/ 30, /*call2*/ 28 };
  int tot = 0; for (int x : w) tot += x;
  sel %= tot;
  for (int i = 0; i < H_COUNT_; i++) { if (sel < w[i]) return i; sel -= w[i]; }
  return 0;
}

// Draws the fields of one op (only valid inside a rapidcheck generator).
static vh::Op draw_op(int kind) {
  vh::Op op; op.push_back(kind);
  // a call consumes four values per argument (up to ten arguments): with 16 values every argument from the fifth on decoded as Imm(1)
  const int nvals = (kind == H_CALL || kind == H_CALL2) ? 48 : 16;
  for (int i = 0; i < nvals; i++) {
    int wide = *vh::irange<int>(0, 9);
    if (wide == 0) op.push_back(*rc::gen::resize(1000, rc::gen::arbitrary<int64_t>())); else op.push_back(*vh::irange<int64_t>(0, (1 << 20) - 1));
  }
  return op;
}
static int draw_from(std::initializer_list<int> kinds) { std::vector<int> v(kinds); return v[size_t(*vh::irange<int>(0, int(v.size()) - 1))]; }

rc::Gen<vh::Case> vh_gen(const vh::Opts&) {
  using namespace rc;
  // A chunk is one random op or a short scenario (a few ops of chosen kinds with random fields): the scenarios only bias
  // the mix towards shapes that need several ingredients at once, the fields (registers, forms, immediates) stay random.
  auto chunkGen = gen::exec([]() -> std::vector<vh::Op> {
    std::vector<vh::Op> v;
    int t = *vh::irange<int>(0, 999);
    if (t < 950) { v.push_back(draw_op(pick_kind(*vh::irange<int>(0, 99999)))); return v; }
    auto some = [&](int lo, int hi, std::initializer_list<int> kinds) { int n = *vh::irange<int>(lo, hi); for (int i = 0; i < n; i++) v.push_back(draw_op(draw_from(kinds))); };
    if (t < 975) {
      // values spilled by a call and read again, then a dispatch: two entry arms (the second one modifies values) and cases with calls
      if (*vh::irange<int>(0, 3)) v.push_back(draw_op(draw_from({H_CALL, H_CALL, H_CALL2})));
      some(1, 5, {H_LEA, H_LEA, H_ALU, H_TEMP, H_CMOV, H_SHIFT_CL, H_IMUL});
      v.push_back(draw_op(H_DISPATCH));
      some(0, 2, {H_ALU, H_LEA, H_UNARY, H_CALL, H_VALU, H_WALU});
      v.push_back({H_NEXT});
      some(1, 4, {H_ALU, H_ALU, H_UNARY, H_LEA, H_IMUL, H_SHIFT_I, H_XCHG, H_WALU});
      int nc = *vh::irange<int>(1, 4);
      for (int i = 0; i < nc; i++) { v.push_back({H_NEXT}); some(0, 3, {H_CALL, H_CALL, H_CALL2, H_ALU, H_ALU, H_LEA, H_UNARY, H_MULDIV, H_WALU, H_RETIF}); }
      v.push_back({H_END});
      if (*vh::irange<int>(0, 2)) v.push_back(draw_op(draw_from({H_CALL, H_CALL2})));
      some(0, 2, {H_LEA, H_ALU, H_TEMP});
    } else {
      // wide values kept live over repeated calls to callees of several conventions, only read in between
      some(0, 3, {H_WLDST, H_WALU, H_WX});
      bool loop = *vh::irange<int>(0, 2) == 0;
      if (loop) v.push_back(draw_op(H_LOOP));
      int nc = *vh::irange<int>(1, 3);
      for (int i = 0; i < nc; i++) { v.push_back(draw_op(draw_from({H_CALL2, H_CALL2, H_CALL2, H_CALL}))); some(0, 3, {H_WALU, H_WALU, H_WX, H_WLDST, H_VALU, H_ALU}); }
      if (loop) v.push_back({H_END});
    }
    return v;
  });
  auto cfgGen = gen::exec([]() -> std::vector<int64_t> {
    int b = *vh::irange<int>(0, 99);
    int ng = b < 25 ? *vh::irange<int>(1, 8) : b < 55 ? *vh::irange<int>(9, 20) : b < 85 ? *vh::irange<int>(21, 60) : *vh::irange<int>(61, 200);
    int nvb = *vh::irange<int>(0, 9);
    int nv = nvb < 3 ? 0 : nvb < 6 ? *vh::irange<int>(1, 8) : nvb < 8 ? *vh::irange<int>(9, 20) : *vh::irange<int>(21, 40);
    int pb = *vh::irange<int>(0, 9);
    int pressure = pb < 5 ? 0 : pb < 8 ? *vh::irange<int>(1, 24) : *vh::irange<int>(25, 200);
    int wb = *vh::irange<int>(0, 9);
    int nw = wb < 4 ? 0 : wb < 7 ? *vh::irange<int>(1, 6) : wb < 9 ? *vh::irange<int>(7, 16) : *vh::irange<int>(17, kMaxW);
    int vmode = *vh::irange<int>(0, 2);
    if (nw && vmode == 0) vmode = *vh::irange<int>(1, 2);
    return { ng, *vh::irange<int>(0, 3), nv, *vh::irange<int>(0, 10), vmode, *vh::irange<int>(0, 11), *vh::irange<int>(0, 8) % 5 == 4 ? *vh::irange<int>(0, 8) : 0,
             *vh::irange<int>(0, 7), pressure, *vh::irange<int>(0, 4), *vh::irange<int64_t>(0, 1 << 30), *vh::irange<int>(0, 3), nw, *vh::irange<int>(0, 1) };
  });
  return gen::apply([](std::vector<int64_t> cfg, std::vector<std::vector<vh::Op>> chunks) {
                      vh::Case c; c.cfg = std::move(cfg); for (auto& ch : chunks) for (auto& o : ch) c.ops.push_back(std::move(o)); return c; },
                    cfgGen, gen::container<std::vector<std::vector<vh::Op>>>(chunkGen));
}

// Deterministic enumeration run before the generated cases:
//  (a) self-test: every op kind alone, many field variants, no pressure (interpreter vs CPU, catches harness semantics errors)
//  (b) systematic shapes: every pair (outer construct, inner construct) x pressure levels around the register-file sizes.
static vh::Op enum_op(int kind, uint64_t seed) {
  vh::Op op; op.push_back(kind);
  for (int i = 0; i < 16; i++) { uint64_t h = mix64(seed * 131 + uint64_t(i)); op.push_back((h & 15) == 0 ? int64_t(mix64(h)) : int64_t((h >> 8) & 0xFFFFF)); }
  return op;
}
bool vh_enum(const vh::Opts& o, uint64_t k, vh::Case& out) {
  long variants = o.geti("enum_variants", o.is_thorough() ? 400 : 60);
  if (variants <= 0) return false;
  uint64_t idx = k * uint64_t(std::max(1, o.workers)) + uint64_t(o.worker);
  uint64_t nself = uint64_t(kNumLeafKinds) * uint64_t(variants);
  out = vh::Case();
  if (idx < nself) {
    int kind = kLeafKinds[idx % kNumLeafKinds]; int v = int(idx / kNumLeafKinds);
    bool wide = kind > H_RETIF;
    out.cfg = { 3 + v % 4, v % 4, 3, 2, wide ? 1 + (v / 4) % 2 : (v / 4) % 3, v % 5, 0, 0, 0, 2, v, (v / 3) % 4, wide ? 3 : 0, v % 2 };
    out.ops.push_back(enum_op(kind, uint64_t(idx) + 1));
    return true;
  }
  idx -= nself;
  static const int shapes[] = {H_IF, H_LOOP, H_IRR, H_SWITCH, H_DISPATCH};
  static const int pressures[] = {3, 12, 15, 18, 40};
  uint64_t nshape = 5 * 6 * 5 * 3 * uint64_t(std::max<long>(1, variants / 20));
  if (idx >= nshape) return false;
  int outer = int(idx % 5); idx /= 5; int inner = int(idx % 6); idx /= 6; int pr = int(idx % 5); idx /= 5; int vm = int(idx % 3); idx /= 3;
  uint64_t v = idx;
  out.cfg = { pressures[pr], int(v % 4), vm ? 4 : 0, 2, vm, int(v % 8), 0, 0, int((v % 3) * 9), 1, int64_t(v + 7), 1, vm ? int(v % 3) * 4 : 0, int(v / 3) % 2 };
  auto body = [&](int n, uint64_t s) { for (int i = 0; i < n; i++) { uint64_t h = mix64(s + uint64_t(i)); out.ops.push_back(enum_op(kLeafKinds[h % kNumLeafKinds], h)); } };
  out.ops.push_back(enum_op(shapes[outer], v * 3 + 1)); body(2, v * 11 + 1);
  if (inner < 5) { out.ops.push_back(enum_op(shapes[inner], v * 5 + 2)); body(2, v * 13 + 2); out.ops.push_back({H_NEXT}); body(1, v * 17 + 3); out.ops.push_back({H_END}); }
  if (inner == 5) out.ops.push_back(enum_op(H_RETIF, v * 7 + 3));
  out.ops.push_back({H_NEXT}); body(2, v * 19 + 4);
  if (shapes[outer] == H_DISPATCH) { out.ops.push_back({H_NEXT}); body(2, v * 29 + 6); out.ops.push_back({H_NEXT}); body(1, v * 31 + 7); }
  out.ops.push_back({H_END}); body(1, v * 23 + 5);
  return true;
}

namespace {


} // namespace
