// C06 part B — entry argument assignment (FuncArgsAssignment + emit_args_assignment) executed on the host CPU.
//
// Case:
//   cfg = [0] target 0 x86-64 host (executed) 1 x86-32 2 AArch64 (build only: must succeed or fail cleanly)
//         [1] calling convention selector (per target table)
//         [2] flag bits: 1 preserved FP, 2 AVX enabled, 4 AVX-512 enabled, 8 all GP dirty, 16 all vec dirty, 32 explicit SA register
//         [3] local stack alignment selector (0 none, 1 -> 16, 2 -> 32, 3 -> 64)      [4] value seed      [5] SA register selector
//   op  = one argument: [0] type selector  [1] destination kind (0 none, 1 register of the argument's group, 2 stack slot, 3 register
//         of the other group)  [2] destination selector (index into the candidate list: registers that carry arguments first, so
//         small values build permutations/cycles)  [3] destination view (GP: 0 64-bit 1 32-bit 2 16-bit 3 8-bit; vec: 0 same size
//         1 xmm 2 ymm 3 zmm)  [4] destination type selector (0 none/void, 1 same as the argument, 2.. an explicit type)
//
// Oracle: the CPU. Every source location named by FuncDetail gets a distinguishable value (msc_run loads the registers and the
// stack words), the emitted prolog + assignment runs, the harness dumps every register and every destination slot through
// RIP-relative stores into its own data block, then the epilog returns.
//
// Expected destination contents, per (argument TypeId S of size s, destination TypeId D of size d; D = RegUtils::type_id_of(reg type)
// when the caller gave none, as funcargscontext.cpp does):
//   int -> int, d <= s : the low d bytes are the low d bytes of the argument (truncation).
//   int -> int, d >  s : the low d bytes are the argument extended by ITS signedness (sign for kInt*, zero for kUInt*) — except
//                        signed -> wider unsigned, where "the argument's type" and "the destination's type" give different answers
//                        (x86emithelper.cpp sign-extends only signed->signed); there only the argument's own s bytes are compared.
//   float/vector -> same class register: the low min(s, d) bytes are the argument's bytes; kFloat32 -> kFloat64 destination: the
//                        low 8 bytes are the argument converted to double ("Argument conversion" in x86emithelper.cpp).
//   stack source -> register of the other group (movd/movq path), any -> stack slot: the low min(s, d) bytes are the argument's.
//   Bits above the compared ones are not judged (narrower-than-register destinations).
#define VH_MAIN
#include "vh.h"

#include <asmjit/core.h>
#include <asmjit/x86.h>
#include <asmjit/a64.h>

#include <sys/mman.h>
#include <sys/wait.h>
#include <sys/resource.h>
#include <sys/time.h>
#include <signal.h>
#include <cstdarg>
#include "msc.h"

using namespace asmjit;

const char* vh_property() { return "C06"; }

namespace {

static inline uint64_t mix(uint64_t x) {
  x += 0x9E3779B97F4A7C15ull; x = (x ^ (x >> 30)) * 0xBF58476D1CE4E5B9ull; x = (x ^ (x >> 27)) * 0x94D049BB133111EBull; return x ^ (x >> 31);
}
static std::string fmt(const char* f, ...) __attribute__((format(printf, 1, 2)));
static std::string fmt(const char* f, ...) { char b[2048]; va_list ap; va_start(ap, f); vsnprintf(b, sizeof b, f, ap); va_end(ap); return b; }
static int64_t cg(const vh::Case& c, size_t i) { return i < c.cfg.size() ? c.cfg[i] : 0; }
static int64_t og(const vh::Op& o, size_t i) { return i < o.size() ? o[i] : 0; }
static uint64_t um(int64_t v) { return v < 0 ? uint64_t(-(v + 1)) : uint64_t(v); }

enum { T_X64 = 0, T_X86 = 1, T_A64 = 2 };
enum : uint32_t { F_FP = 1, F_AVX = 2, F_AVX512 = 4, F_DIRTY_GP = 8, F_DIRTY_VEC = 16, F_SA = 32 };

struct CcEntry { CallConvId id; const char* name; };
static const CcEntry kCcX64[] = { {CallConvId::kX64SystemV, "sysv64"}, {CallConvId::kX64Windows, "win64"}, {CallConvId::kVectorCall, "vectorcall64"},
                                  {CallConvId::kLightCall2, "lightcall2"}, {CallConvId::kLightCall3, "lightcall3"}, {CallConvId::kLightCall4, "lightcall4"} };
static const CcEntry kCcX86[] = { {CallConvId::kCDecl, "x86-cdecl"}, {CallConvId::kStdCall, "x86-stdcall"}, {CallConvId::kFastCall, "x86-fastcall"},
                                  {CallConvId::kVectorCall, "x86-vectorcall"}, {CallConvId::kRegParm3, "x86-regparm3"}, {CallConvId::kLightCall2, "x86-lightcall2"} };
static const CcEntry kCcA64[] = { {CallConvId::kCDecl, "aapcs64"}, {CallConvId::kCDecl, "apple-arm64"}, {CallConvId::kLightCall2, "a64-lightcall2"} };

// argument types
static const TypeId kTypes[] = {
  TypeId::kInt8, TypeId::kUInt8, TypeId::kInt16, TypeId::kUInt16, TypeId::kInt32, TypeId::kUInt32, TypeId::kInt64, TypeId::kUInt64,   // 0..7
  TypeId::kFloat32, TypeId::kFloat64,                                                                                               // 8,9
  TypeId::kInt32x4, TypeId::kFloat32x4, TypeId::kFloat64x2, TypeId::kInt8x16,                                                       // 10..13
  TypeId::kInt32x8, TypeId::kFloat32x8, TypeId::kInt64x8, TypeId::kFloat32x16,                                                      // 14..17
  TypeId::kMmx64, TypeId::kMask16                                                                                                   // 18,19 (no location in most conventions)
};
static const int kNumTypes = int(sizeof(kTypes) / sizeof(kTypes[0]));
static const TypeId kIntTypes[8] = { TypeId::kInt8, TypeId::kUInt8, TypeId::kInt16, TypeId::kUInt16, TypeId::kInt32, TypeId::kUInt32, TypeId::kInt64, TypeId::kUInt64 };

static bool is_signed_int(TypeId t) { return t == TypeId::kInt8 || t == TypeId::kInt16 || t == TypeId::kInt32 || t == TypeId::kInt64; }
static const char* tname(TypeId t) {
  switch (t) {
    case TypeId::kVoid: return "void"; case TypeId::kInt8: return "i8"; case TypeId::kUInt8: return "u8"; case TypeId::kInt16: return "i16"; case TypeId::kUInt16: return "u16";
    case TypeId::kInt32: return "i32"; case TypeId::kUInt32: return "u32"; case TypeId::kInt64: return "i64"; case TypeId::kUInt64: return "u64";
    case TypeId::kFloat32: return "f32"; case TypeId::kFloat64: return "f64"; case TypeId::kInt32x4: return "i32x4"; case TypeId::kFloat32x4: return "f32x4";
    case TypeId::kFloat64x2: return "f64x2"; case TypeId::kInt8x16: return "i8x16"; case TypeId::kInt32x8: return "i32x8"; case TypeId::kFloat32x8: return "f32x8";
    case TypeId::kInt64x8: return "i64x8"; case TypeId::kFloat32x16: return "f32x16"; case TypeId::kMmx64: return "mmx64"; case TypeId::kMask16: return "mask16";
    case TypeId::kInt32x16: return "i32x16"; case TypeId::kFloat32x1: return "f32x1"; case TypeId::kFloat64x1: return "f64x1"; case TypeId::kInt32x2: return "i32x2"; case TypeId::kInt32x1: return "i32x1";
    default: return "?";
  }
}

struct Dst {
  int kind = 0;              // 0 none, 1 reg, 2 stack
  RegType reg_type = RegType::kNone;
  uint32_t reg_id = 0;
  int32_t stack_off = 0;
  uint32_t slot_size = 0;
  TypeId type = TypeId::kVoid;     // as passed to the API (kVoid = not given)
  bool cross = false;
  bool scalar_float_type = false;
};

struct Plan {
  int target = 0;
  const CcEntry* cc = nullptr;
  Environment env;
  uint32_t flags = 0;
  uint32_t local_align = 0;
  uint64_t seed = 0;
  int sa_reg = -1;
  std::vector<TypeId> types;
  FuncDetail fd;
  std::vector<Dst> dst;
  uint32_t local_size = 0;
};

static std::string describe(const Plan& p) {
  std::string s = fmt("%s flags=%s%s%s%s%s align=%u", p.cc->name, p.flags & F_FP ? "fp " : "", p.flags & F_AVX ? "avx " : "", p.flags & F_AVX512 ? "avx512 " : "",
                      p.flags & F_DIRTY_GP ? "dirtygp " : "", p.flags & F_DIRTY_VEC ? "dirtyvec " : "", p.local_align);
  if (p.sa_reg >= 0) s += fmt(" sa=gp%d", p.sa_reg);
  s += " args:";
  for (size_t i = 0; i < p.types.size(); i++) {
    const FuncValue& v = p.fd.arg(i);
    s += fmt(" [%zu %s ", i, tname(p.types[i]));
    if (v.is_reg()) s += fmt("%s%u", RegUtils::group_of(v.reg_type()) == RegGroup::kGp ? "gp" : RegUtils::group_of(v.reg_type()) == RegGroup::kVec ? "vec" : "r?", v.reg_id());
    else if (v.is_stack()) s += fmt("[sa+%d]", v.stack_offset());
    else s += "unassigned";
    if (v.is_indirect()) s += "(indirect)";
    const Dst& d = p.dst[i];
    if (d.kind == 1) s += fmt(" -> %s%u(rt%u) as %s", RegUtils::group_of(d.reg_type) == RegGroup::kGp ? "gp" : "vec", d.reg_id, unsigned(d.reg_type), tname(d.type));
    else if (d.kind == 2) s += fmt(" -> [sp+%d] as %s", d.stack_off, tname(d.type));
    s += "]";
  }
  return s;
}

// Cycles among register-to-register moves of one group: returns, for each cycle of length >= min_len, the index of one member.
static std::vector<std::pair<size_t, int>> find_cycles(const Plan& p, int grp) {
  std::vector<std::pair<size_t, int>> out;
  size_t n = p.types.size();
  std::map<uint32_t, size_t> src_of;
  for (size_t i = 0; i < n; i++) {
    const FuncValue& v = p.fd.arg(i);
    if (p.dst[i].kind != 0 && v.is_reg() && !v.is_indirect() && int(RegUtils::group_of(v.reg_type())) == grp) src_of[v.reg_id()] = i;
  }
  std::vector<char> seen(n, 0);
  for (size_t i = 0; i < n; i++) {
    const FuncValue& v = p.fd.arg(i);
    if (seen[i] || p.dst[i].kind != 1 || !v.is_reg() || int(RegUtils::group_of(v.reg_type())) != grp || int(RegUtils::group_of(p.dst[i].reg_type)) != grp) continue;
    size_t cur = i; int len = 0; bool cyc = false;
    std::vector<size_t> path;
    for (int step = 0; step < 40; step++) {
      const Dst& d = p.dst[cur];
      if (d.kind != 1 || int(RegUtils::group_of(d.reg_type)) != grp) break;
      auto it = src_of.find(d.reg_id);
      if (it == src_of.end()) break;
      len++; path.push_back(cur);
      cur = it->second;
      if (cur == i) { cyc = true; break; }
    }
    if (cyc) { for (size_t k : path) seen[k] = 1; out.push_back({i, len}); }
  }
  return out;
}

static bool make_plan(const vh::Case& c, Plan& p, vh::Ctx& ctx) {
  p.target = int(um(cg(c, 0)) % 3);
  if (p.target == T_X64) { p.cc = &kCcX64[um(cg(c, 1)) % 6]; p.env = Environment(Arch::kX64, SubArch::kUnknown, Vendor::kUnknown, Platform::kLinux, PlatformABI::kGNU); }
  else if (p.target == T_X86) { p.cc = &kCcX86[um(cg(c, 1)) % 6]; p.env = Environment(Arch::kX86, SubArch::kUnknown, Vendor::kUnknown, Platform::kLinux, PlatformABI::kGNU); }
  else {
    size_t k = um(cg(c, 1)) % 3; p.cc = &kCcA64[k];
    p.env = k == 1 ? Environment(Arch::kAArch64, SubArch::kUnknown, Vendor::kUnknown, Platform::kOSX, PlatformABI::kDarwin)
                   : Environment(Arch::kAArch64, SubArch::kUnknown, Vendor::kUnknown, Platform::kLinux, PlatformABI::kGNU);
  }
  p.flags = uint32_t(um(cg(c, 2))) & 63u;
  if (p.target == T_A64) p.flags &= (F_FP | F_DIRTY_GP | F_DIRTY_VEC | F_SA);
  if (p.flags & F_AVX512) p.flags |= F_AVX;
  static const uint32_t al[4] = {0, 16, 32, 64};
  p.local_align = al[um(cg(c, 3)) % 4];
  p.seed = um(cg(c, 4)) % 1000003;

  size_t n = std::min<size_t>(c.ops.size(), 32);
  FuncSignature sig(p.cc->id);
  for (size_t i = 0; i < n; i++) {
    TypeId t = kTypes[um(og(c.ops[i], 0)) % kNumTypes];
    if (p.target == T_A64 && TypeUtils::size_of(t) > 16 && TypeUtils::is_vec(t)) t = TypeId::kInt32x4;
    if (p.target == T_A64 && (TypeUtils::is_mmx(t) || TypeUtils::is_mask(t))) t = TypeId::kInt32;
    // wide vectors need AVX / AVX-512 moves: FuncFrame's documentation asks the user to say so
    if (TypeUtils::is_vec(t) && TypeUtils::size_of(t) == 32) p.flags |= F_AVX;
    if (TypeUtils::is_vec(t) && TypeUtils::size_of(t) == 64) p.flags |= F_AVX | F_AVX512;
    p.types.push_back(t);
    sig.add_arg(t);
  }
  // Win64 / vectorcall index CallConv::_passed_order out of bounds for vector arguments at index >= 16 (C06 part A finding
  // win64-passed-order-oob, UBSan abort): excluded here by construction
  if (p.target == T_X64 && (p.cc->id == CallConvId::kX64Windows || p.cc->id == CallConvId::kVectorCall)) {
    for (size_t i = 16; i < n; i++)
      if (TypeUtils::is_vec(p.types[i])) { p.types[i] = TypeId::kFloat64; sig.set_arg(uint32_t(i), TypeId::kFloat64); ctx.known_excluded("win64-passed-order-oob"); }
  }
  Error e = p.fd.init(sig, p.env);
  if (e != Error::kOk) { ctx.cls(fmt("funcdetail-init-error-%u", unsigned(e))); return false; }

  // ---- destinations ----
  uint32_t ngp = p.target == T_X64 ? 16 : p.target == T_X86 ? 8 : 31;
  uint32_t nvec = p.target == T_X64 ? 16 : p.target == T_X86 ? 8 : 32;
  uint32_t sp_id = p.target == T_A64 ? 31 : 4, fp_id = p.target == T_A64 ? 29 : 5;
  std::vector<uint32_t> cand_gp, cand_vec;
  uint32_t seen_gp = 0, seen_vec = 0;
  auto usable_gp = [&](uint32_t id) { return id < ngp && id != sp_id && !(id == fp_id && (p.flags & F_FP)) && !(p.target == T_A64 && (id == 18 || id == 30)); };
  for (size_t i = 0; i < n; i++) {
    const FuncValue& v = p.fd.arg(i);
    if (!v.is_reg() || v.is_indirect()) continue;
    RegGroup g = RegUtils::group_of(v.reg_type());
    if (g == RegGroup::kGp && usable_gp(v.reg_id()) && !(seen_gp >> v.reg_id() & 1)) { cand_gp.push_back(v.reg_id()); seen_gp |= 1u << v.reg_id(); }
    if (g == RegGroup::kVec && v.reg_id() < nvec && !(seen_vec >> v.reg_id() & 1)) { cand_vec.push_back(v.reg_id()); seen_vec |= 1u << v.reg_id(); }
  }
  for (uint32_t id = 0; id < ngp; id++) if (usable_gp(id) && !(seen_gp >> id & 1)) cand_gp.push_back(id);
  for (uint32_t id = 0; id < nvec; id++) if (!(seen_vec >> id & 1)) cand_vec.push_back(id);
  uint32_t taken_gp = 0, taken_vec = 0;
  if (p.flags & F_SA) {
    uint32_t k = uint32_t(um(cg(c, 5)) % cand_gp.size());
    p.sa_reg = int(cand_gp[cand_gp.size() - 1 - k % std::max<size_t>(1, cand_gp.size() / 2)]);   // prefer registers that do not carry arguments
    taken_gp |= 1u << p.sa_reg;
  }
  uint32_t stack_cursor = 0;
  p.dst.resize(n);
  for (size_t i = 0; i < n; i++) {
    const vh::Op& op = c.ops[i];
    const FuncValue& v = p.fd.arg(i);
    Dst& d = p.dst[i];
    TypeId st = p.types[i];
    int kind = int(um(og(op, 1)) % 4);
    if (!v.is_assigned()) { if (kind == 0) continue; }    // destinations for location-less arguments must be refused cleanly
    bool src_int = TypeUtils::is_int(st);
    bool src_vecgrp = TypeUtils::is_float(st) || TypeUtils::is_vec(st);
    if (kind == 0) continue;
    uint32_t ssize = TypeUtils::size_of(st);
    uint64_t dsel = um(og(op, 2)), view = um(og(op, 3)) % 4, tsel = um(og(op, 4));
    if (kind == 2) {
      uint32_t slot = std::max<uint32_t>(8, ssize);
      uint32_t alg = std::min<uint32_t>(slot, 64);
      stack_cursor = (stack_cursor + alg - 1) / alg * alg;
      d.kind = 2; d.stack_off = int32_t(stack_cursor); d.slot_size = slot; stack_cursor += slot;
      // destination type: none, same, or (integers) a wider/narrower integer type
      uint64_t ts = tsel % 8;
      if (ts == 0) d.type = TypeId::kVoid;
      else if (ts <= 5 || !src_int) d.type = st;
      else d.type = kIntTypes[(tsel / 8) % 8];
      continue;
    }
    bool want_gp = (kind == 1) ? !src_vecgrp : src_vecgrp;      // kind 3: the other group
    if (!src_int && !src_vecgrp) want_gp = (dsel & 1) != 0;     // mmx/mask arguments: any register
    d.cross = kind == 3;
    std::vector<uint32_t>& cand = want_gp ? cand_gp : cand_vec;
    uint32_t& taken = want_gp ? taken_gp : taken_vec;
    std::vector<uint32_t> free_regs;
    for (uint32_t id : cand) if (!(taken >> id & 1)) free_regs.push_back(id);
    if (free_regs.empty()) continue;
    d.kind = 1;
    d.reg_id = free_regs[dsel % free_regs.size()];
    taken |= 1u << d.reg_id;
    if (want_gp) {
      uint64_t ts = tsel % 8;
      if (ts == 0 || !src_int) {
        d.type = TypeId::kVoid;
        static const RegType rts[4] = {RegType::kGp64, RegType::kGp32, RegType::kGp16, RegType::kGp8Lo};
        d.reg_type = rts[view];
        if (p.target != T_X64 && d.reg_type == RegType::kGp64 && p.target == T_X86) d.reg_type = RegType::kGp32;
        if (p.target == T_A64 && (d.reg_type == RegType::kGp16 || d.reg_type == RegType::kGp8Lo)) d.reg_type = RegType::kGp32;
        if (p.target == T_X86 && d.reg_type == RegType::kGp8Lo && d.reg_id >= 4) d.reg_type = RegType::kGp32;
      } else {
        d.type = ts <= 3 ? st : kIntTypes[(tsel / 8) % 8];
        if (p.target == T_X86 && TypeUtils::size_of(d.type) == 8) d.type = TypeId::kInt32;
        d.reg_type = TypeUtils::size_of(d.type) == 8 ? RegType::kGp64 : RegType::kGp32;
      }
    } else {
      uint32_t sz = src_vecgrp ? std::max<uint32_t>(16, ssize) : 16;
      if (view == 1) sz = 16; else if (view == 2 && (p.flags & F_AVX)) sz = 32; else if (view == 3 && (p.flags & F_AVX512)) sz = 64;
      if (p.target == T_A64) sz = 16;
      d.reg_type = sz == 16 ? RegType::kVec128 : sz == 32 ? RegType::kVec256 : RegType::kVec512;
      // destination TypeId: none (deduced from the register: kInt32x4...), the argument's vector type, for scalar floats the one-lane
      // vector types the Compiler gives to xmm_ss/xmm_sd registers (kFloat32x1/kFloat64x1), the widening f32 -> f64 conversion, or
      // (rarely) the scalar kFloat32/kFloat64 themselves, which emit_arg_move refuses with kInvalidState (judged as a clean rejection)
      uint64_t ts = tsel % 8;
      if (ts == 0 || !src_vecgrp) d.type = TypeId::kVoid;
      else if (TypeUtils::is_float(st)) {
        if (ts == 7 && st == TypeId::kFloat32) d.type = TypeId::kFloat64x1;
        else if (ts == 6 && (tsel / 8) % 4 == 0) { d.type = st; d.scalar_float_type = true; }
        else d.type = st == TypeId::kFloat32 ? TypeId::kFloat32x1 : TypeId::kFloat64x1;
      }
      else d.type = st;
    }
  }
  // RegUtils::signature_of_vec_by_size() evaluates ctz(0) for every size >= 16 (finding argsassign-vec-move-ctz-zero; UBSan aborts the
  // process): once known, moves that reach it (16/32/64-byte value into a vector register, stack-to-stack of such a value) are
  // excluded by construction and counted; the dedicated probe case (cfg[0] == 99) keeps reporting the finding from a forked child.
  if (p.target != T_A64 && ctx.is_known("argsassign-vec-move-ctz-zero")) {
    for (size_t i = 0; i < n; i++) {
      Dst& d = p.dst[i];
      const FuncValue& v = p.fd.arg(i);
      bool big = (TypeUtils::is_vec(p.types[i]) && TypeUtils::size_of(p.types[i]) >= 16);
      // a float whose destination type is deduced from the register (kInt32x4...) turns into a 16-byte move on the second hop of a swap
      if (TypeUtils::is_float(p.types[i]) && d.kind == 1 && RegUtils::group_of(d.reg_type) == RegGroup::kVec && d.type == TypeId::kVoid) {
        d.type = p.types[i] == TypeId::kFloat32 ? TypeId::kFloat32x1 : TypeId::kFloat64x1; ctx.known_excluded("argsassign-vec-move-ctz-zero");
      }
      if (!big || d.kind == 0) continue;
      bool to_vec_reg = d.kind == 1 && RegUtils::group_of(d.reg_type) == RegGroup::kVec;
      bool self = to_vec_reg && v.is_reg() && RegUtils::group_of(v.reg_type()) == RegGroup::kVec && v.reg_id() == d.reg_id;
      if ((to_vec_reg && !self) || (d.kind == 2 && v.is_stack())) { d = Dst(); ctx.known_excluded("argsassign-vec-move-ctz-zero"); }
    }
  }
  // Register -> register moves between groups are documented as unsupported (emithelper.cpp "Conversion is not supported") but are not
  // always refused (finding argsassign-cross-group-not-rejected: assertion / silently wrong code); once known they are not generated.
  if (ctx.is_known("argsassign-cross-group-not-rejected")) {
    for (size_t i = 0; i < n; i++) {
      Dst& d = p.dst[i];
      const FuncValue& v = p.fd.arg(i);
      if (d.kind == 1 && v.is_reg() && !v.is_indirect() && RegUtils::group_of(v.reg_type()) != RegUtils::group_of(d.reg_type)) { d = Dst(); ctx.known_excluded("argsassign-cross-group-not-rejected"); }
    }
  }
  // A float/double argument that lives in an xmm register and is assigned a stack slot is stored with movaps/movapd (16 bytes) by
  // emit_reg_move (finding argsassign-float-to-stack-movaps: overflows the 4/8-byte slot, faults when the slot is not 16-byte aligned).
  if (p.target != T_A64 && ctx.is_known("argsassign-float-to-stack-movaps")) {
    for (size_t i = 0; i < n; i++) {
      Dst& d = p.dst[i];
      const FuncValue& v = p.fd.arg(i);
      if (d.kind == 2 && TypeUtils::is_float(p.types[i]) && v.is_reg()) { d = Dst(); ctx.known_excluded("argsassign-float-to-stack-movaps"); }
    }
  }
  // float/double stack argument -> stack slot: emit_arg_move(gp64, kFloat32/64, mem, ...) has no branch for a scalar float destination
  // type and returns kInvalidState (finding argsassign-float-stack-to-stack-error); once known such destinations are not generated.
  if (p.target != T_A64 && ctx.is_known("argsassign-float-stack-to-stack-error")) {
    for (size_t i = 0; i < n; i++) {
      Dst& d = p.dst[i];
      if (d.kind == 2 && TypeUtils::is_float(p.types[i]) && p.fd.arg(i).is_stack()) { d = Dst(); ctx.known_excluded("argsassign-float-stack-to-stack-error"); }
    }
  }
  // Cycles of three or more registers are not resolved (finding argsassign-cycle3-unresolved: emit_args_assignment returns kInvalidState);
  // once known they are opened by dropping one destination (cfg[5] == 77 marks the fixed case that keeps reporting the finding).
  if (ctx.is_known("argsassign-cycle3-unresolved") && cg(c, 5) != 77) {
    for (int grp = 0; grp < 2; grp++)
      for (auto& cy : find_cycles(p, grp))
        if (cy.second >= 3) { p.dst[cy.first] = Dst(); ctx.known_excluded("argsassign-cycle3-unresolved"); }
  }
  // AArch64: with dynamic stack alignment and stack-passed sources the SA register variable has no destination; when another argument
  // wants the register it sits in, emit_args_assignment moves that argument from scratch register to scratch register forever (no
  // swap instruction on AArch64). Finding argsassign-hang:a64; once known, dynamic alignment is not combined with AArch64 here.
  if (p.target == T_A64 && p.local_align > 16 && !(p.flags & F_FP) && ctx.is_known("argsassign-hang:a64")) { p.local_align = 16; ctx.known_excluded("argsassign-hang:a64"); }
  p.local_size = (stack_cursor + 15) & ~15u;
  return true;
}

// ---- values ----
static uint64_t pat_word(const Plan& p, size_t arg, size_t w) { return mix(p.seed * 1315423911ull + arg * 131 + w * 7 + 12345); }
static void arg_bytes(const Plan& p, size_t arg, uint8_t out[64]) {
  for (size_t w = 0; w < 8; w++) { uint64_t v = pat_word(p, arg, w); memcpy(out + 8 * w, &v, 8); }
  TypeId t = p.types[arg];
  if (t == TypeId::kFloat32) { float f = 100.0f + float(arg) * 1.25f + float(p.seed % 7); memcpy(out, &f, 4); }
  if (t == TypeId::kFloat64) { double f = 1000.0 + double(arg) * 1.5 + double(p.seed % 11); memcpy(out, &f, 8); }
}
static uint64_t junk_word(const Plan& p, size_t k) { return mix(p.seed * 7919 + k + 999331); }

static uint8_t* g_exec = nullptr;
static const size_t kExecSize = 1 << 16;
enum : uint32_t { D_GP = 0, D_VEC = 128, D_STK = 128 + 32 * 64, D_FLAG = D_STK + 4096, D_SIZE = D_FLAG + 64 };

static bool host_has_avx512() {
  static int v = -1;
  if (v < 0) { const CpuFeatures& cf = CpuInfo::host().features(); v = cf.x86().has_avx512_f() && cf.x86().has_avx512_bw() && cf.x86().has_avx512_vl(); }
  return v != 0;
}

// Expected low bytes of a destination. Returns the number of bytes to compare (0 = nothing to judge).
static uint32_t expected_bytes(TypeId st, TypeId dt_given, RegType dst_reg_type, bool dst_is_reg, const uint8_t src[64], uint8_t out[64], const char** rule) {
  uint32_t s = TypeUtils::size_of(st);
  TypeId dt = dt_given;
  if (dt == TypeId::kVoid) dt = dst_is_reg ? RegUtils::type_id_of(dst_reg_type) : st;
  uint32_t d = TypeUtils::size_of(dt);
  memcpy(out, src, 64);
  if (TypeUtils::is_int(st) && TypeUtils::is_int(dt) && dst_is_reg) {
    if (d <= s) { *rule = "int-trunc"; return d; }
    if (is_signed_int(st) && !is_signed_int(dt)) { *rule = "int-signed-to-wider-unsigned(low bits only)"; return s; }
    uint8_t fill = (is_signed_int(st) && (src[s - 1] & 0x80)) ? 0xFF : 0x00;
    for (uint32_t i = s; i < d; i++) out[i] = fill;
    *rule = is_signed_int(st) ? "int-sign-extend" : "int-zero-extend";
    return d;
  }
  if (st == TypeId::kFloat32 && (dt == TypeId::kFloat64 || dt == TypeId::kFloat64x1) && dst_is_reg) {
    float f; memcpy(&f, src, 4); double g = double(f); memcpy(out, &g, 8);
    *rule = "float-widen"; return 8;
  }
  *rule = "copy";
  return std::min(s, d ? d : s);
}

struct Built {
  FuncFrame frame;
  FuncArgsAssignment args;
  Error err = Error::kOk;
  const char* stage = "";
};

static std::string listing_of(CodeHolder& code) {
  (void)code; return std::string();
}

// ---- CPU-time watchdog for code that may loop forever: reports the failure in the driver's protocol and exits ----
static char g_wd_key[96], g_wd_msg[3072];
static void watchdog_handler(int) {
  const vh::Opts& o = vh::g_opts;
  char buf[4096];
  int n;
  if (!o.replay.empty()) n = snprintf(buf, sizeof buf, "REPLAY-FAIL key=%s msg=%s\n", g_wd_key, g_wd_msg);
  else n = snprintf(buf, sizeof buf, "FAIL key=%s replay=%s/w%d.current msg=%s\n", g_wd_key, o.out_dir.c_str(), o.worker, g_wd_msg);
  if (n > 0) { ssize_t w = write(1, buf, size_t(std::min<int>(n, int(sizeof buf) - 1))); (void)w; }
  _exit(1);
}
static void watchdog_arm(const std::string& key, const std::string& msg) {
  snprintf(g_wd_key, sizeof g_wd_key, "%s", key.c_str());
  snprintf(g_wd_msg, sizeof g_wd_msg, "%s", msg.c_str());
  for (char* q = g_wd_msg; *q; q++) if (*q == '\n') *q = ' ';
  struct sigaction sa; memset(&sa, 0, sizeof sa); sa.sa_handler = watchdog_handler; sigaction(SIGVTALRM, &sa, nullptr);
  struct itimerval it; memset(&it, 0, sizeof it); it.it_value.tv_sec = 3; setitimer(ITIMER_VIRTUAL, &it, nullptr);
}
static void watchdog_disarm() { struct itimerval it; memset(&it, 0, sizeof it); setitimer(ITIMER_VIRTUAL, &it, nullptr); }

// Dedicated probes (cfg = [99, k]) for finding classes whose symptom kills the process (assertion / UBSan abort): a fixed ordinary
// case is run in a forked child with an empty known-list; any abnormal end of the child reports the probe's key.
static void run_case(const vh::Case& c, vh::Ctx& ctx);
struct Probe { const char* key; const char* what; vh::Case c; };
static std::vector<Probe> make_probes() {
  std::vector<Probe> v;
  { Probe p; p.key = "argsassign-vec-move-ctz-zero";
    p.what = "sysv64 f(__m128 a), a assigned xmm0 -> xmm3: RegUtils::signature_of_vec_by_size(16) evaluates Support::ctz(0) ((size | 0x40) & 0x0F is 0 for size 16/32/64)";
    p.c.cfg = {0, 0, 0, 0, 1, 0}; p.c.ops = {{10, 1, 3, 1, 0}}; v.push_back(p); }
  { Probe p; p.key = "argsassign-cross-group-not-rejected";
    p.what = "sysv64 f(long a0..a6): a0 rdi -> rsi, a1 rsi -> xmm7 (GP -> vector register move, documented as unsupported), a6 [stack] -> rdi: the swap test in "
             "emit_args_assignment compares register ids across groups (xmm7 vs rdi = id 7), exchanges rdi/rsi, marks a1 done and never rejects it";
    p.c.cfg = {0, 0, 0, 0, 1, 0}; p.c.ops = {{6, 1, 1, 0, 0}, {6, 3, 7, 1, 0}, {6, 0, 0, 0, 0}, {6, 0, 0, 0, 0}, {6, 0, 0, 0, 0}, {6, 0, 0, 0, 0}, {6, 1, 0, 0, 0}}; v.push_back(p); }
  { Probe p; p.key = "argsassign-hang:a64";
    p.what = "aapcs64, 18 arguments, local stack alignment 32 (dynamic alignment, no frame pointer), destinations permuted among x0..x9: emit_args_assignment loops forever";
    p.c.cfg = {2, 0, 18, 2, 51758, 15};
    p.c.ops = {{10,1,4,1,0},{2,1,1,0,0},{8,1,0,2,0},{9,1,5,2,54},{3,1,2,0,13},{6,2,4,3,29},{2,1,1,0,46},{11,1,3,1,0},{7,1,6,0,22},{6,1,5,2,7},{12,1,7,3,54},{0,1,1,2,0},
               {12,1,6,0,54},{14,1,6,2,0},{11,1,3,1,63},{10,1,2,0,30},{8,1,0,2,4},{3,1,6,0,37}};
    v.push_back(p); }
  return v;
}
static void run_probe(size_t k, vh::Ctx& ctx) {
  std::vector<Probe> probes = make_probes();
  if (k >= probes.size()) return;
  const Probe& pr = probes[k];
  fflush(nullptr);
  pid_t pid = fork();
  if (pid == 0) {
    int dn = open("/dev/null", O_WRONLY); if (dn >= 0) { dup2(dn, 2); dup2(dn, 1); }
    alarm(300);
    vh::Opts o; vh::Ctx cx; cx.opts = &o;
    int rc = 0;
    try { run_case(pr.c, cx); } catch (const vh::Failure&) { rc = 7; }
    _exit(rc);
  }
  int status = 0;
  if (pid < 0 || waitpid(pid, &status, 0) < 0) { ctx.cls("probe-fork-failed"); return; }
  ctx.cls(fmt("probe:%s", pr.key));
  if (WIFEXITED(status) && WEXITSTATUS(status) == 0) return;
  std::string how = WIFSIGNALED(status) ? fmt("killed by signal %d (6 = assertion)", WTERMSIG(status))
                                        : fmt("exit code %d (98 = UBSan report, 99 = ASan report, 7 = harness failure e.g. wrong value, 1 = CPU-time watchdog (endless loop) or a sanitizer report without exitcode option)", WEXITSTATUS(status));
  ctx.fail_unless_known(pr.key, fmt("%s: child %s", pr.what, how.c_str()));
}

static void run_case(const vh::Case& c, vh::Ctx& ctx) {
  if (cg(c, 0) == 99) { run_probe(size_t(um(cg(c, 1))), ctx); return; }
  Plan p;
  if (!make_plan(c, p, ctx)) return;
  size_t n = p.types.size();
  ctx.cls(fmt("target:%s", p.cc->name));
  if (getenv("C06_DEBUG")) { fprintf(stderr, "%s\n", describe(p).c_str()); }

  // ---- classification of the assignment (for the counters and the non-trivial rule) ----
  bool has_stack_src = false, has_cycle = false, has_cycle3 = false, has_self_ext = false, has_cross = false, has_indirect = false, has_unassigned_src = false, has_stack_dst = false;
  {
    for (int grp = 0; grp < 2; grp++)
      for (auto& cy : find_cycles(p, grp)) {
        int len = cy.second; size_t i = cy.first;
        if (len >= 2) { has_cycle = true; ctx.cls(fmt("cycle-len-%s-%d", grp == 0 ? "gp" : "vec", std::min(len, 8))); }
        if (len >= 3) has_cycle3 = true;
        if (len == 1) {
          uint32_t ds = TypeUtils::size_of(p.dst[i].type == TypeId::kVoid ? RegUtils::type_id_of(p.dst[i].reg_type) : p.dst[i].type);
          if (grp == 0 && ds > TypeUtils::size_of(p.types[i])) { has_self_ext = true; }
        }
      }
    for (size_t i = 0; i < n; i++) {
      const FuncValue& v = p.fd.arg(i);
      if (p.dst[i].kind == 0) continue;
      if (v.is_stack()) has_stack_src = true;
      if (v.is_indirect()) has_indirect = true;
      if (!v.is_assigned()) has_unassigned_src = true;
      if (p.dst[i].kind == 2) has_stack_dst = true;
      if (p.dst[i].kind == 1 && v.is_reg() && RegUtils::group_of(v.reg_type()) != RegUtils::group_of(p.dst[i].reg_type)) has_cross = true;
    }
  }
  if (has_self_ext) ctx.cls("self-move-needing-extension");
  if (has_stack_src) ctx.cls("stack-source");
  if (has_stack_dst) ctx.cls("stack-destination");

  // ---- build ----
  FuncFrame frame;
  Error e = frame.init(p.fd);
  if (e != Error::kOk) ctx.fail("argsassign-frame-init", fmt("FuncFrame::init error %u :: %s", unsigned(e), describe(p).c_str()));
  if (p.flags & F_FP) frame.set_preserved_fp();
  if (p.flags & F_AVX) frame.set_avx_enabled();
  if (p.flags & F_AVX512) frame.set_avx512_enabled();
  if (p.flags & F_DIRTY_GP) frame.set_all_dirty(RegGroup::kGp);
  if (p.flags & F_DIRTY_VEC) frame.set_dirty_regs(RegGroup::kVec, p.target == T_A64 ? 0xFFFFFFFFu : p.target == T_X64 ? 0xFFFFu : 0xFFu);
  if (p.local_size) frame.set_local_stack_size(p.local_size);
  if (p.local_align) frame.set_local_stack_alignment(p.local_align);
  else if (p.local_size) frame.set_local_stack_alignment(std::min<uint32_t>(64, 16));

  FuncArgsAssignment args(&p.fd);
  if (p.sa_reg >= 0) args.set_sa_reg_id(uint32_t(p.sa_reg));
  uint32_t max_slot_align = 16;
  for (size_t i = 0; i < n; i++) {
    const Dst& d = p.dst[i];
    if (d.kind == 1) args.assign_reg(i, d.reg_type, d.reg_id, d.type);
    else if (d.kind == 2) { args.assign_stack(i, d.stack_off, d.type); max_slot_align = std::max(max_slot_align, std::min<uint32_t>(d.slot_size, 64)); }
  }
  if (has_stack_dst && max_slot_align > 16) frame.set_local_stack_alignment(std::max(p.local_align, max_slot_align));

  bool has_scalar_float_dst = false;
  for (size_t i = 0; i < n; i++) if (p.dst[i].kind == 1 && p.dst[i].scalar_float_type) has_scalar_float_dst = true;
  if (has_scalar_float_dst) ctx.cls("scalar-float-typeid-on-vector-register");
  // MMX / mask typed arguments with a destination: only the absence of a crash is judged (MMX registers are not loaded by the host
  // trampoline; on Win64 they travel in GP registers and emit_arg_move has no GP->GP branch for them: clean kInvalidInstruction)
  bool has_exotic = false;
  for (size_t i = 0; i < n; i++) if (p.dst[i].kind != 0 && (TypeUtils::is_mmx(p.types[i]) || TypeUtils::is_mask(p.types[i]))) has_exotic = true;
  if (has_exotic) ctx.cls("mmx-or-mask-argument-with-destination");
  bool expect_reject = has_cross || has_indirect || has_unassigned_src || has_scalar_float_dst || has_exotic;
  e = args.update_func_frame(frame);
  if (e != Error::kOk) {
    ctx.cls(fmt("update-func-frame-error-%u", unsigned(e)));
    if (!expect_reject && p.target == T_X64)
      ctx.fail_unless_known("argsassign-emit-error", fmt("update_func_frame error %u on a same-group assignment :: %s", unsigned(e), describe(p).c_str()));
    return;
  }
  e = frame.finalize();
  if (e != Error::kOk) ctx.fail_unless_known("argsassign-emit-error", fmt("FuncFrame::finalize error %u :: %s", unsigned(e), describe(p).c_str()));

  CodeHolder code;
  if (code.init(p.env) != Error::kOk) ctx.fail("harness-codeholder-init", "CodeHolder::init failed");

  if (p.target != T_X64) {
    // Non-host targets: nothing is executed; the three emit calls must return (kOk or an error) without assertion, sanitizer report
    // or hang. An endless loop is caught by a CPU-time watchdog (ITIMER_VIRTUAL, robust on a loaded machine) that reports and exits.
    watchdog_arm(fmt("argsassign-hang:%s", p.target == T_A64 ? "a64" : "x86-32"),
                 fmt("emit_prolog/emit_args_assignment/emit_epilog did not return within 3 s of CPU time (endless loop) :: %s", describe(p).c_str()));
    Error e1, e2, e3;
    if (p.target == T_A64) { a64::Assembler a(&code); e1 = a.emit_prolog(frame); e2 = a.emit_args_assignment(frame, args); e3 = a.emit_epilog(frame); }
    else { x86::Assembler a(&code); e1 = a.emit_prolog(frame); e2 = a.emit_args_assignment(frame, args); e3 = a.emit_epilog(frame); }
    watchdog_disarm();
    ctx.cls(fmt("%s-build-%s", p.target == T_A64 ? "a64" : "x86-32", e2 != Error::kOk ? "argsassign-clean-error" : (e1 != Error::kOk || e3 != Error::kOk) ? "clean-error" : "ok"));
    if (has_cycle || has_stack_src) ctx.nontrivial();
    return;
  }

  StringLogger logger;
  if (getenv("C06_DEBUG")) code.set_logger(&logger);
  x86::Assembler a(&code);
  Label L_data = a.new_label();
  Error e1 = a.emit_prolog(frame);
  Error e2 = a.emit_args_assignment(frame, args);
  if (getenv("C06_DEBUG")) { fprintf(stderr, "%s\n[e1=%u e2=%u]\n", logger.data(), unsigned(e1), unsigned(e2)); }
  if (e1 != Error::kOk) ctx.fail_unless_known("argsassign-emit-error", fmt("emit_prolog error %u :: %s", unsigned(e1), describe(p).c_str()));
  if (e2 != Error::kOk) {
    ctx.cls(fmt("emit-args-assignment-error-%u", unsigned(e2)));
    bool float_s2s = false;
    for (size_t i = 0; i < n; i++) if (p.dst[i].kind == 2 && TypeUtils::is_float(p.types[i]) && p.fd.arg(i).is_stack()) float_s2s = true;
    if (float_s2s && !expect_reject) {
      ctx.fail_unless_known("argsassign-float-stack-to-stack-error", fmt("emit_args_assignment error %u: a float/double stack argument assigned to a stack slot :: %s", unsigned(e2), describe(p).c_str()));
      return;
    }
    if (has_cycle3 && !expect_reject && e2 == Error::kInvalidState) {
      ctx.fail_unless_known("argsassign-cycle3-unresolved", fmt("emit_args_assignment returns kInvalidState for a cycle of three or more registers :: %s", describe(p).c_str()));
      return;
    }
    bool s2s = false;
    for (size_t i = 0; i < n; i++) if (p.dst[i].kind == 2 && p.fd.arg(i).is_stack()) s2s = true;
    if (s2s && !expect_reject && e2 == Error::kInvalidState && !strncmp(p.cc->name, "lightcall", 9)) {
      ctx.fail_unless_known("argsassign-scratch-is-live-argument",
        fmt("stack -> stack move finds no scratch register (mark_scratch_regs settled for a register that still carries an argument) :: %s", describe(p).c_str()));
      return;
    }
    bool has_widen = false;
    for (size_t i = 0; i < n; i++) if (p.dst[i].kind == 1 && p.types[i] == TypeId::kFloat32 && p.dst[i].type == TypeId::kFloat64x1) has_widen = true;
    if (!expect_reject)
      ctx.fail_unless_known(has_widen ? "argsassign-float-widen" : "argsassign-emit-error",
                            fmt("emit_args_assignment error %u on a same-group assignment that update_func_frame accepted :: %s", unsigned(e2), describe(p).c_str()));
    return;
  }
  if (expect_reject) ctx.cls("accepted-despite-unsupported-source");

  if (getenv("C06_DEBUG")) code.reset_logger();
  // ---- dump block ----
  using namespace x86;
  Error de = Error::kOk;
  auto chk = [&](Error x) { if (x != Error::kOk && de == Error::kOk) de = x; };
  auto D = [&](uint32_t off, uint32_t size) { Mem m = x86::ptr(L_data, int32_t(off)); m.set_size(size); return m; };
  for (uint32_t r = 0; r < 16; r++) chk(a.mov(D(D_GP + 8 * r, 8), gpq(r)));
  bool z = host_has_avx512();
  for (uint32_t r = 0; r < 16; r++) {
    if (z) chk(a.vmovups(D(D_VEC + 64 * r, 64), zmm(r)));
    else chk(a.movups(D(D_VEC + 64 * r, 16), xmm(r)));
  }
  // destination slots: [rsp + off], copied through rax
  uint32_t stk_words = 0;
  std::vector<uint32_t> slot_dump(n, 0);
  for (size_t i = 0; i < n; i++) {
    const Dst& d = p.dst[i];
    if (d.kind != 2) continue;
    slot_dump[i] = stk_words;
    for (uint32_t w = 0; w < d.slot_size / 8; w++) {
      chk(a.mov(rax, qword_ptr(rsp, d.stack_off + int32_t(8 * w))));
      chk(a.mov(D(D_STK + 8 * stk_words, 8), rax));
      stk_words++;
    }
  }
  chk(a.mov(D(D_FLAG, 8), rsp));
  chk(a.mov(rax, qword_ptr(L_data, int32_t(D_GP))));      // restore rax (return-value register is not judged, but keep the state tidy)
  Error e3 = a.emit_epilog(frame);
  if (e3 != Error::kOk) ctx.fail_unless_known("argsassign-emit-error", fmt("emit_epilog error %u :: %s", unsigned(e3), describe(p).c_str()));
  chk(a.align(AlignMode::kZero, 64));
  chk(a.bind(L_data));
  size_t data_off = a.offset();
  for (uint32_t i = 0; i < D_SIZE / 8; i++) chk(a.dq(0));
  if (de != Error::kOk) ctx.fail("harness-dump-emit", fmt("harness instruction failed with error %u", unsigned(de)));
  if (stk_words * 8 > 4096) return;
  const CodeBuffer& cb = code.text_section()->buffer();
  if (cb.size() > kExecSize) { ctx.cls("too-large"); return; }
  if (code.has_unresolved_fixups()) ctx.fail("harness-unresolved", "unresolved fixups in the generated function");

  bool max_vec_ok = z || !(p.flags & F_AVX);
  if (!max_vec_ok) { ctx.cls("host-skipped-no-avx512"); return; }

  if (!g_exec) {
    void* m = mmap(nullptr, kExecSize, PROT_READ | PROT_WRITE | PROT_EXEC, MAP_PRIVATE | MAP_ANONYMOUS, -1, 0);
    if (m == MAP_FAILED) { ctx.cls("host-skipped-no-rwx"); return; }
    g_exec = (uint8_t*)m;
  }
  memcpy(g_exec, cb.data(), cb.size());

  // ---- machine state ----
  static MState st;
  memset(&st, 0, sizeof st);
  st.rflags = 0x202; st.mxcsr = 0x1F80;
  for (int r = 0; r < 16; r++) st.gpr[r] = junk_word(p, size_t(r));
  for (int r = 0; r < 32; r++) for (int w = 0; w < 8; w++) { uint64_t v = junk_word(p, 100 + size_t(r) * 8 + size_t(w)); memcpy(st.zmm[r] + 8 * w, &v, 8); }
  for (int i = 0; i < MSC_STACK_WORDS; i++) st.stack[i] = junk_word(p, 1000 + size_t(i));
  bool misaligned_vec_src = false;
  for (size_t i = 0; i < n; i++) {
    const FuncValue& v = p.fd.arg(i);
    uint8_t b[64]; arg_bytes(p, i, b);
    if (v.is_reg() && !v.is_indirect()) {
      RegGroup g = RegUtils::group_of(v.reg_type());
      if (g == RegGroup::kGp && v.reg_id() < 16) memcpy(&st.gpr[v.reg_id()], b, 8);
      else if (g == RegGroup::kVec && v.reg_id() < 32) memcpy(st.zmm[v.reg_id()], b, 64);
    } else if (v.is_stack() && !v.is_indirect()) {
      uint32_t sz = std::max<uint32_t>(TypeUtils::size_of(p.types[i]), 1);
      int32_t off = v.stack_offset();
      if (off < 0 || size_t(off) + sz > MSC_STACK_WORDS * 8) { ctx.cls("stack-args-exceed-window"); return; }
      memcpy((uint8_t*)st.stack + off, b, sz);
      if (TypeUtils::is_vec(p.types[i]) && sz >= 16 && (uint32_t(off) % sz) != 0 && p.dst[i].kind != 0) misaligned_vec_src = true;
    }
  }
  if (misaligned_vec_src) {
    // FuncDetail places a vector stack argument at an offset that is not a multiple of its size (part A findings
    // sysv64-stack-vector-alignment / -float-slot-size); emit_arg_move then loads it with movaps, which faults. Consequence of the
    // known layout finding, excluded and counted.
    if (ctx.is_known("argsassign-misaligned-vector-stack-arg")) { ctx.known_excluded("argsassign-misaligned-vector-stack-arg"); return; }
  }

  int sig = msc_run((void (*)())g_exec, &st);
  ctx.cls("host-executed");
  const uint8_t* data = g_exec + data_off;
  if (sig != 0) {
    uint64_t rip = msc_fault_rip();
    bool float_to_stack = false;
    for (size_t i = 0; i < n; i++) if (p.dst[i].kind == 2 && TypeUtils::is_float(p.types[i]) && p.fd.arg(i).is_reg()) float_to_stack = true;
    std::string k = misaligned_vec_src ? "argsassign-misaligned-vector-stack-arg" : float_to_stack ? "argsassign-float-to-stack-movaps" : fmt("argsassign-fault:%s", p.cc->name);
    ctx.fail_unless_known(k, fmt("signal %d at code offset %lld (fault address 0x%llx) :: %s", sig, (long long)(rip - uint64_t(uintptr_t(g_exec))),
                                 (unsigned long long)msc_fault_addr(), describe(p).c_str()));
    return;
  }
  if (st.rsp_exit != st.rsp_entry + 8)
    ctx.fail_unless_known(fmt("argsassign-bad-return:%s", p.cc->name), fmt("rsp after return 0x%llx, expected entry 0x%llx + 8 :: %s", (unsigned long long)st.rsp_exit, (unsigned long long)st.rsp_entry, describe(p).c_str()));

  // ---- judge ----
  std::vector<char> in_cycle2(n, 0);
  for (auto& cy : find_cycles(p, 0))
    if (cy.second == 2) {
      in_cycle2[cy.first] = 1;
      for (size_t j = 0; j < n; j++) if (p.dst[cy.first].kind == 1 && p.fd.arg(j).is_reg() && RegUtils::group_of(p.fd.arg(j).reg_type()) == RegGroup::kGp && p.fd.arg(j).reg_id() == p.dst[cy.first].reg_id && p.dst[j].kind == 1) in_cycle2[j] = 1;
    }
  bool float_to_stack_present = false;
  for (size_t i = 0; i < n; i++) if (p.dst[i].kind == 2 && TypeUtils::is_float(p.types[i]) && p.fd.arg(i).is_reg()) float_to_stack_present = true;
  for (size_t i = 0; i < n; i++) {
    const Dst& d = p.dst[i];
    if (d.kind == 0) continue;
    const FuncValue& v = p.fd.arg(i);
    if (!v.is_assigned() || v.is_indirect()) continue;
    if (TypeUtils::is_mmx(p.types[i]) || TypeUtils::is_mask(p.types[i])) continue;
    uint8_t src[64], exp[64]; arg_bytes(p, i, src);
    const char* rule = "";
    uint32_t nb = expected_bytes(p.types[i], d.type, d.reg_type, d.kind == 1, src, exp, &rule);
    const uint8_t* got = nullptr;
    if (d.kind == 1) {
      if (RegUtils::group_of(d.reg_type) == RegGroup::kGp) { got = data + D_GP + 8 * d.reg_id; nb = std::min<uint32_t>(nb, 8); }
      else got = data + D_VEC + 64 * d.reg_id;
    } else got = data + D_STK + 8 * slot_dump[i];
    if (!z && nb > 16) nb = 16;
    ctx.cls(fmt("judged:%s", rule));
    if (memcmp(got, exp, nb) != 0) {
      std::string g, x;
      for (uint32_t k = 0; k < nb; k++) { g += fmt("%02x", got[nb - 1 - k]); x += fmt("%02x", exp[nb - 1 - k]); }
      std::string key = fmt("argsassign-wrong-value:%s", p.cc->name);
      if (!strcmp(rule, "float-widen")) key = "argsassign-float-widen";
      // the destination holds the raw bytes of the source register (a plain exchange/copy, the extension was skipped)
      // (xchg r64 leaves all 64 raw bits, xchg r32 the low 32 raw bits zero-extended)
      if ((!strcmp(rule, "int-sign-extend") || !strcmp(rule, "int-zero-extend")) && v.is_reg()) {
        static const uint8_t zero4[4] = {0, 0, 0, 0};
        bool raw64 = memcmp(got, src, nb) == 0;
        bool raw32 = memcmp(got, src, 4) == 0 && (nb <= 4 || memcmp(got + 4, zero4, 4) == 0);
        // only where an exchange can have happened: the argument is a member of a 2-cycle, or an SA-register variable exists
        // (dynamic alignment without frame pointer / explicit SA register) and the argument actually changes register
        bool moved = v.reg_id() != d.reg_id;
        bool sa_var_possible = p.sa_reg >= 0 || (frame.has_dynamic_alignment() && !frame.has_preserved_fp());
        if ((raw64 || raw32) && moved && (in_cycle2[i] || sa_var_possible)) key = "argsassign-swap-skips-extension";
      }
      if (float_to_stack_present && d.kind == 2) key = "argsassign-float-to-stack-movaps";
      ctx.fail_unless_known(key, fmt("arg %zu (%s): destination holds 0x%s, expected 0x%s (%u bytes, rule %s) :: %s", i, tname(p.types[i]), g.c_str(), x.c_str(), nb, rule, describe(p).c_str()));
    }
  }
  if (has_cycle || has_stack_src) { ctx.nontrivial(); if (ctx.want_sample()) ctx.sample("B: " + describe(p)); }
}

} // namespace

void vh_run(const vh::Case& c, vh::Ctx& ctx) { run_case(c, ctx); }

bool vh_enum(const vh::Opts& o, uint64_t k, vh::Case& out) {
  if (o.worker != 0 || k >= 4) return false;
  out = vh::Case();
  if (k < 3) { out.cfg = {99, int64_t(k)}; return true; }
  // sysv64 f(long a, long b, long c): a rdi -> rdx, b rsi -> rdi, c rdx -> rsi (3-cycle); cfg[5] == 77: never opened by the exclusion
  out.cfg = {0, 0, 0, 0, 1, 77};
  out.ops = {{6, 1, 2, 0, 0}, {6, 1, 0, 0, 0}, {6, 1, 0, 0, 0}};
  return true;
}

rc::Gen<vh::Case> vh_gen(const vh::Opts&) {
  using vh::irange;
  return rc::gen::exec([]() -> vh::Case {
    auto pct = [](int n) { return *irange<int>(0, 99) < n; };
    vh::Case c;
    c.cfg.assign(6, 0);
    int ts = *irange<int>(0, 99);
    c.cfg[0] = ts < 88 ? T_X64 : ts < 94 ? T_X86 : T_A64;
    if (c.cfg[0] == T_X64) { static const int t[] = {0, 0, 0, 0, 1, 1, 2, 2, 3, 4, 5, 3}; c.cfg[1] = t[*irange<int>(0, 11)]; }
    else c.cfg[1] = *irange<int>(0, 5);
    int64_t fl = 0;
    if (pct(25)) fl |= F_FP;
    if (pct(50)) fl |= F_AVX;
    if (pct(25)) fl |= F_AVX512;
    if (pct(30)) fl |= F_DIRTY_GP;
    if (pct(30)) fl |= F_DIRTY_VEC;
    if (pct(12)) fl |= F_SA;
    c.cfg[2] = fl;
    c.cfg[3] = pct(55) ? 0 : *irange<int>(1, 3);
    c.cfg[4] = *irange<int>(0, 1000002);
    c.cfg[5] = *irange<int>(0, 15);
    // argument list
    int shape = *irange<int>(0, 99);
    int n = shape < 35 ? *irange<int>(1, 6) : shape < 75 ? *irange<int>(4, 12) : shape < 93 ? *irange<int>(8, 20) : *irange<int>(16, 32);
    int prof = *irange<int>(0, 99);   // type profile
    int cyc = *irange<int>(0, 99);    // destination profile: <55 permutation-heavy
    for (int i = 0; i < n; i++) {
      vh::Op op(5, 0);
      int t;
      if (prof < 30) t = *irange<int>(0, 7);
      else if (prof < 45) t = *irange<int>(8, 9);
      else if (prof < 60) t = *irange<int>(10, 13);
      else if (prof < 97) { int k = *irange<int>(0, 99); t = k < 45 ? *irange<int>(0, 7) : k < 65 ? *irange<int>(8, 9) : k < 88 ? *irange<int>(10, 13) : *irange<int>(14, 17); }
      else t = *irange<int>(0, 19);
      op[0] = t;
      int k = *irange<int>(0, 99);
      op[1] = k < 6 ? 0 : k < 84 ? 1 : k < 95 ? 2 : 3;
      op[2] = cyc < 55 ? *irange<int>(0, 7) : cyc < 80 ? *irange<int>(0, 15) : *irange<int>(0, 40);
      op[3] = pct(55) ? 0 : *irange<int>(1, 3);
      int tk = *irange<int>(0, 99);
      op[4] = tk < 35 ? 0 : tk < 55 ? *irange<int>(1, 3) : *irange<int>(4, 7) + 8 * *irange<int>(0, 7);
      c.ops.push_back(op);
    }
    return c;
  });
}
