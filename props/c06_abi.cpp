// C06 part A helper — prints what AsmJit's FuncDetail says about a list of signatures (no oracle in here; the
// comparison against clang lives in fw/c06_abi.py).
//
// stdin, one signature per line:   S <id> <env> <ccid> <va_index> <ret_type_id> <argc> <type_id>*argc
//   env: x64linux x64win x86linux x86win a64linux a64apple        (type ids are asmjit::TypeId values, 0 = void)
// stdout, one line per signature:  R <id> err=<n> | key=value ... (see print_detail)
//   value syntax: r:<group>:<regtype>:<id>[:i]   s:<offset>[:i]   u (unassigned)   ; packs are joined by '+', args by ','
#include <asmjit/core.h>
#include <asmjit/x86.h>
#include <asmjit/a64.h>

#include <cstdio>
#include <cstdlib>
#include <cstring>
#include <string>
#include <vector>
#include <sstream>
#include <iostream>

using namespace asmjit;

static bool make_env(const std::string& name, Environment& env) {
  if (name == "x64linux") env = Environment(Arch::kX64, SubArch::kUnknown, Vendor::kUnknown, Platform::kLinux, PlatformABI::kGNU);
  else if (name == "x64win") env = Environment(Arch::kX64, SubArch::kUnknown, Vendor::kUnknown, Platform::kWindows, PlatformABI::kMSVC);
  else if (name == "x86linux") env = Environment(Arch::kX86, SubArch::kUnknown, Vendor::kUnknown, Platform::kLinux, PlatformABI::kGNU);
  else if (name == "x86win") env = Environment(Arch::kX86, SubArch::kUnknown, Vendor::kUnknown, Platform::kWindows, PlatformABI::kMSVC);
  else if (name == "a64linux") env = Environment(Arch::kAArch64, SubArch::kUnknown, Vendor::kUnknown, Platform::kLinux, PlatformABI::kGNU);
  else if (name == "a64apple") env = Environment(Arch::kAArch64, SubArch::kUnknown, Vendor::kUnknown, Platform::kOSX, PlatformABI::kDarwin);
  else return false;
  return true;
}

static std::string value_str(const FuncValue& v) {
  char b[64];
  if (v.is_reg()) {
    snprintf(b, sizeof b, "r:%u:%u:%u%s", unsigned(RegUtils::group_of(v.reg_type())), unsigned(v.reg_type()), v.reg_id(), v.is_indirect() ? ":i" : "");
    return b;
  }
  if (v.is_stack()) {
    snprintf(b, sizeof b, "s:%d%s", v.stack_offset(), v.is_indirect() ? ":i" : "");
    return b;
  }
  return "u";
}

static std::string pack_str(const FuncValuePack& p) {
  uint32_t n = p.count();
  if (!n) return "-";
  std::string s;
  for (uint32_t i = 0; i < n; i++) { if (i) s += "+"; s += value_str(p[i]); }
  return s;
}

int main() {
  std::string line;
  while (std::getline(std::cin, line)) {
    if (line.empty() || line[0] != 'S') continue;
    std::istringstream in(line);
    std::string tag, id, envname;
    unsigned ccid = 0, va = 255, ret = 0, argc = 0;
    in >> tag >> id >> envname >> ccid >> va >> ret >> argc;
    Environment env;
    if (!make_env(envname, env) || argc > 32) { printf("R %s err=-1\n", id.c_str()); continue; }
    FuncSignature sig{CallConvId(ccid), va};
    sig.set_ret(TypeId(ret));
    for (unsigned i = 0; i < argc; i++) { unsigned t = 0; in >> t; sig.add_arg(TypeId(t)); }
    FuncDetail fd;
    Error e = fd.init(sig, env);
    if (e != Error::kOk) { printf("R %s err=%u\n", id.c_str(), unsigned(e)); fflush(stdout); continue; }
    const CallConv& cc = fd.call_conv();
    printf("R %s err=0 ccid=%u strategy=%u flags=%u stack=%u red=%u spill=%u nsa=%u va=%u", id.c_str(), unsigned(cc.id()), unsigned(cc.strategy()),
           unsigned(cc.flags()), fd.arg_stack_size(), fd.red_zone_size(), fd.spill_zone_size(), fd.natural_stack_alignment(), fd.va_index());
    printf(" pres=%u:%u:%u:%u", fd.preserved_regs(RegGroup::kGp), fd.preserved_regs(RegGroup::kVec), fd.preserved_regs(RegGroup::kMask), fd.preserved_regs(RegGroup::kExtra));
    printf(" passed=%u:%u:%u:%u", fd.passed_regs(RegGroup::kGp), fd.passed_regs(RegGroup::kVec), fd.passed_regs(RegGroup::kMask), fd.passed_regs(RegGroup::kExtra));
    printf(" used=%u:%u:%u:%u", fd.used_regs(RegGroup::kGp), fd.used_regs(RegGroup::kVec), fd.used_regs(RegGroup::kMask), fd.used_regs(RegGroup::kExtra));
    printf(" srsize=%u:%u", cc.save_restore_reg_size(RegGroup::kGp), cc.save_restore_reg_size(RegGroup::kVec));
    // FuncFrame derived facts: who pops
    FuncFrame frame;
    Error fe = frame.init(fd);
    printf(" frame_err=%u cleanup=%u", unsigned(fe), fe == Error::kOk ? frame.callee_stack_cleanup() : 0u);
    printf(" ret=%s args=", pack_str(fd.ret_pack()).c_str());
    for (unsigned i = 0; i < argc; i++) { if (i) printf(","); printf("%s", pack_str(fd.arg_pack(i)).c_str()); }
    if (!argc) printf("-");
    printf("\n");
    fflush(stdout);
  }
  return 0;
}
