// C07 — Prolog/epilog preserve callee-saved state and keep frame areas disjoint.
//
// Case: cfg only (ops unused):
//   [0] arch 0 x86-64, 1 x86-32, 2 AArch64        [1] calling convention index (per arch table)   [2] platform 0 linux/gnu, 1 windows/msvc (a64: darwin)
//   [3] nargs 0..12   [4] arg type selectors (3 bits per arg)
//   [5] dirty GP mask  [6] dirty Vec mask  [7] dirty K mask  [8] dirty MM mask
//   [9] local stack size  [10] local alignment sel (0 unset, n -> 1<<(n-1), n<=7)  [11] call stack size  [12] call alignment sel
//   [13] flag bits (F_*)   [14] explicit SA register (0 none, n -> GP id n-1)
//   [15] custom extra preserved Vec mask  [16] custom preserved K mask  [17] custom preserved MM mask   (0 = plain convention)
//   [18] entry alignment selector  [19] value seed
// Oracles: (1) layout arithmetic on the finalized FuncFrame (all targets), (2) a small reference machine that interprets the
// emitted prolog/epilog nodes (all targets; body = harness actions confined to the declared areas), (3) execution on the host
// CPU through hostexec/msc for every x86-64 convention (prolog; generated body; epilog).
#define VH_MAIN
#include "vh.h"

#include <asmjit/core.h>
#include <asmjit/x86.h>
#include <asmjit/a64.h>

#include <sys/mman.h>
#include "msc.h"

using namespace asmjit;

const char* vh_property() { return "C07"; }

namespace {

enum { ARCH_X64 = 0, ARCH_X86 = 1, ARCH_A64 = 2 };
enum : uint32_t {
  F_FP = 1u << 0, F_VARARGS_ATTR = 1u << 1, F_FUNC_CALLS = 1u << 2, F_IBT = 1u << 3, F_AVX = 1u << 4, F_AVX512 = 1u << 5,
  F_MMX_CLEANUP = 1u << 6, F_AVX_CLEANUP = 1u << 7, F_AVX_AUTO_CLEANUP = 1u << 8, F_RESET_RED_ZONE = 1u << 9, F_UPDATE_API = 1u << 10,
  F_WRITE_SPILL = 1u << 11, F_SIG_VARARGS = 1u << 12, F_SET_DIRTY = 1u << 13, F_ALL_DIRTY = 1u << 14, F_ALL = (1u << 15) - 1
};

static inline uint64_t mix(uint64_t x) {
  x += 0x9E3779B97F4A7C15ull; x = (x ^ (x >> 30)) * 0xBF58476D1CE4E5B9ull; x = (x ^ (x >> 27)) * 0x94D049BB133111EBull; return x ^ (x >> 31);
}

static const CallConvId kCcX86[13] = {
  CallConvId::kCDecl, CallConvId::kStdCall, CallConvId::kFastCall, CallConvId::kVectorCall, CallConvId::kThisCall,
  CallConvId::kRegParm1, CallConvId::kRegParm2, CallConvId::kRegParm3, CallConvId::kLightCall2, CallConvId::kLightCall3, CallConvId::kLightCall4,
  CallConvId::kX64SystemV, CallConvId::kX64Windows };
static const CallConvId kCcA64[5] = { CallConvId::kCDecl, CallConvId::kFastCall, CallConvId::kLightCall2, CallConvId::kLightCall3, CallConvId::kLightCall4 };
static const TypeId kArgTypes[8] = { TypeId::kInt32, TypeId::kInt64, TypeId::kUIntPtr, TypeId::kFloat64, TypeId::kFloat32, TypeId::kInt32x4, TypeId::kUInt8, TypeId::kInt64 };

struct P {
  int arch = 0, cc_sel = 0, plat = 0, nargs = 0;
  uint64_t argsel = 0;
  uint32_t dirty[4] = {0, 0, 0, 0};
  uint32_t local_size = 0, call_size = 0;
  uint32_t local_al = 0, call_al = 0;       // 0 = not set, else the alignment value
  uint32_t flags = 0;
  int sa_reg = -1;                          // explicit SA register id or -1
  uint32_t cust[4] = {0, 0, 0, 0};          // extra preserved regs per group (custom convention), [0] unused
  uint32_t entry_k = 0;
  uint64_t seed = 0;
  bool has(uint32_t f) const { return (flags & f) != 0; }
};

static int64_t cg(const vh::Case& c, size_t i) { return i < c.cfg.size() ? c.cfg[i] : 0; }
static uint64_t um(int64_t v) { return v < 0 ? uint64_t(-(v + 1)) : uint64_t(v); }

static P decode(const vh::Case& c) {
  P p;
  p.arch = int(um(cg(c, 0)) % 3);
  p.cc_sel = int(um(cg(c, 1)) % (p.arch == ARCH_X64 ? 13 : p.arch == ARCH_X86 ? 11 : 5));
  p.plat = int(um(cg(c, 2)) % 2);
  p.nargs = int(um(cg(c, 3)) % 13);
  p.argsel = um(cg(c, 4));
  uint32_t gpm = p.arch == ARCH_X64 ? 0xFFFFu : p.arch == ARCH_X86 ? 0xFFu : 0x7FFFFFFFu;
  p.flags = uint32_t(um(cg(c, 13))) & F_ALL;
  if (p.arch == ARCH_A64) p.flags &= (F_FP | F_VARARGS_ATTR | F_FUNC_CALLS | F_IBT | F_UPDATE_API | F_SIG_VARARGS | F_SET_DIRTY | F_ALL_DIRTY);
  uint32_t vecm = p.arch == ARCH_X64 ? (p.has(F_AVX512) ? 0xFFFFFFFFu : 0xFFFFu) : p.arch == ARCH_X86 ? 0xFFu : 0xFFFFFFFFu;
  uint32_t km = p.arch == ARCH_A64 ? 0u : 0xFFu;
  p.dirty[0] = uint32_t(um(cg(c, 5))) & gpm;
  p.dirty[1] = uint32_t(um(cg(c, 6))) & vecm;
  p.dirty[2] = uint32_t(um(cg(c, 7))) & km;
  p.dirty[3] = uint32_t(um(cg(c, 8))) & km;
  p.local_size = uint32_t(um(cg(c, 9)) % 65537);
  p.call_size = uint32_t(um(cg(c, 11)) % 65537);
  uint32_t la = uint32_t(um(cg(c, 10)) % 8), ca = uint32_t(um(cg(c, 12)) % 8);
  p.local_al = la ? 1u << (la - 1) : 0;
  p.call_al = ca ? 1u << (ca - 1) : 0;
  uint32_t ngp = p.arch == ARCH_X64 ? 16 : p.arch == ARCH_X86 ? 8 : 29;   // a64: x0..x28 as SA candidates
  uint32_t sa = uint32_t(um(cg(c, 14)) % (ngp + 1));
  p.sa_reg = sa ? int(sa - 1) : -1;
  if (p.arch != ARCH_A64 && p.sa_reg == 4) p.sa_reg = -1;                   // SP is "no explicit register"
  p.cust[1] = uint32_t(um(cg(c, 15))) & vecm;
  p.cust[2] = uint32_t(um(cg(c, 16))) & km;
  p.cust[3] = uint32_t(um(cg(c, 17))) & km;
  if (p.arch == ARCH_A64) p.cust[1] = 0;
  p.entry_k = uint32_t(um(cg(c, 18)) % 16);
  p.seed = um(cg(c, 19)) % 1000003;
  return p;
}

struct Built {
  Environment env;
  FuncSignature sig;
  FuncDetail fd;
  FuncFrame frame;
  uint32_t rs = 8, ret_size = 8;
  std::string cc;                  // class label of the effective convention
  bool custom = false;
  // expectations taken from the convention (not from the frame)
  uint32_t preserved[4] = {0, 0, 0, 0};
  uint32_t callee_pop = 0;
  // stack-passed argument values: (stack offset)
  std::vector<int32_t> stack_args;
  // frame facts after finalize
  bool da = false, fp = false;
  uint32_t sp_id = 4, fp_id = 5;
};

static std::string hex(uint64_t v) { char b[32]; snprintf(b, sizeof b, "0x%llx", (unsigned long long)v); return b; }
static std::string fmt(const char* f, ...) __attribute__((format(printf, 1, 2)));
static std::string fmt(const char* f, ...) { char b[1536]; va_list ap; va_start(ap, f); vsnprintf(b, sizeof b, f, ap); va_end(ap); return b; }

static std::string describe(const P& p, const Built& b) {
  const FuncFrame& f = b.frame;
  return fmt("arch=%s cc=%s%s args=%d(stack %zu, arg_stack_size %u) dirty gp=%s vec=%s k=%s mm=%s local=%u/al%u call=%u/al%u flags=%s sa_reg=%d | "
             "final_align=%u da=%d fp=%d call_stack=%u local_off=%u extra_off=%u extra_size=%u da_off=%s pushpop_off=%u pushpop_size=%u "
             "stack_adj=%u final_size=%u sa_from_sp=%s sa_from_sa=%u sa_reg_id=%u alignedVecSR=%d redzone=%u spill=%u cleanup=%u",
             p.arch == ARCH_X64 ? "x64" : p.arch == ARCH_X86 ? "x86" : "a64", b.cc.c_str(), b.custom ? "+custom" : "", p.nargs, b.stack_args.size(), b.fd.arg_stack_size(),
             hex(p.dirty[0]).c_str(), hex(p.dirty[1]).c_str(), hex(p.dirty[2]).c_str(), hex(p.dirty[3]).c_str(), p.local_size, p.local_al, p.call_size, p.call_al,
             hex(p.flags).c_str(), p.sa_reg, f.final_stack_alignment(), int(f.has_dynamic_alignment()), int(f.has_preserved_fp()), f.call_stack_size(), f.local_stack_offset(),
             f.extra_reg_save_offset(), f.extra_reg_save_size(), f.has_da_offset() ? hex(f.da_offset()).c_str() : "-", f.push_pop_save_offset(), f.push_pop_save_size(),
             f.stack_adjustment(), f.final_stack_size(), f.sa_offset_from_sp() == FuncFrame::kTagInvalidOffset ? "-" : hex(f.sa_offset_from_sp()).c_str(), f.sa_offset_from_sa(),
             f.sa_reg_id(), int(f.has_aligned_vec_save_restore()), f.red_zone_size(), f.spill_zone_size(), f.callee_stack_cleanup());
}

static Arch arch_of(const P& p) { return p.arch == ARCH_X64 ? Arch::kX64 : p.arch == ARCH_X86 ? Arch::kX86 : Arch::kAArch64; }

// Builds FuncDetail + finalized FuncFrame. Returns false (after reporting) when the API refused an in-domain input.
static bool build(const P& p, Built& b, vh::Ctx& ctx) {
  Platform plat = p.plat ? (p.arch == ARCH_A64 ? Platform::kOSX : Platform::kWindows) : Platform::kLinux;
  PlatformABI abi = p.plat ? (p.arch == ARCH_A64 ? PlatformABI::kDarwin : PlatformABI::kMSVC) : PlatformABI::kGNU;
  b.env = Environment(arch_of(p), SubArch::kUnknown, Vendor::kUnknown, plat, abi);
  CallConvId id = p.arch == ARCH_A64 ? kCcA64[p.cc_sel] : kCcX86[p.cc_sel];
  b.sig = FuncSignature(id, p.has(F_SIG_VARARGS) ? uint32_t(p.nargs) : uint32_t(FuncSignature::kNoVarArgs));
  for (int i = 0; i < p.nargs; i++) b.sig.add_arg(kArgTypes[(p.argsel >> (3 * (i % 8))) & 7]);
  Error e = b.fd.init(b.sig, b.env);
  if (e != Error::kOk) { ctx.fail_unless_known("funcdetail-init-error", fmt("FuncDetail::init returned %u for cc index %d arch %d", unsigned(e), p.cc_sel, p.arch)); return false; }
  b.rs = p.arch == ARCH_X86 ? 4 : 8;
  b.ret_size = p.arch == ARCH_A64 ? 0 : b.rs;
  b.sp_id = p.arch == ARCH_A64 ? 31 : 4;
  b.fp_id = p.arch == ARCH_A64 ? 29 : 5;

  const CallConv& cc = b.fd.call_conv();
  char nm[48];
  uint32_t idn = uint32_t(cc.id());
  if (p.arch == ARCH_A64) {
    bool apple = cc.strategy() == CallConvStrategy::kAArch64Apple;
    if (idn >= 16 && idn <= 18) snprintf(nm, sizeof nm, "light%u-a64%s", idn - 14, apple ? "-apple" : "");
    else snprintf(nm, sizeof nm, "%s", apple ? "apple-a64" : "aapcs-a64");
  } else {
    const char* sfx = p.arch == ARCH_X64 ? "64" : "32";
    switch (cc.id()) {
      case CallConvId::kCDecl: snprintf(nm, sizeof nm, "cdecl%s", sfx); break;
      case CallConvId::kStdCall: snprintf(nm, sizeof nm, "stdcall%s", sfx); break;
      case CallConvId::kFastCall: snprintf(nm, sizeof nm, "fastcall%s", sfx); break;
      case CallConvId::kVectorCall: snprintf(nm, sizeof nm, "vectorcall%s", sfx); break;
      case CallConvId::kThisCall: snprintf(nm, sizeof nm, "thiscall%s", sfx); break;
      case CallConvId::kRegParm1: case CallConvId::kRegParm2: case CallConvId::kRegParm3: snprintf(nm, sizeof nm, "regparm%u-%s", idn - 4, sfx); break;
      case CallConvId::kLightCall2: case CallConvId::kLightCall3: case CallConvId::kLightCall4: snprintf(nm, sizeof nm, "light%u-%s", idn - 14, sfx); break;
      case CallConvId::kX64SystemV: snprintf(nm, sizeof nm, "sysv64"); break;
      case CallConvId::kX64Windows: snprintf(nm, sizeof nm, "win64"); break;
      default: snprintf(nm, sizeof nm, "cc%u", idn); break;
    }
  }
  b.cc = nm;

  // ---- the convention's callee-saved sets against the ABI documents (independent of the frame code) ----
  {
    uint32_t gp = cc.preserved_regs(RegGroup::kGp), vec = cc.preserved_regs(RegGroup::kVec);
    uint32_t egp = gp, evec = vec; bool have = true;
    if (b.cc == "sysv64") { egp = 0xF038; evec = 0; }
    else if (b.cc == "win64" || b.cc == "vectorcall64") { egp = 0xF0F8; evec = 0xFFC0; }
    else if (p.arch == ARCH_X86 && idn < 8) { egp = 0xF8; evec = 0; }
    else if (b.cc == "aapcs-a64" || b.cc == "apple-a64") { egp = 0x7FFC0000u; evec = 0xFF00; }
    else have = false;
    if (have && (gp != egp || vec != evec))
      ctx.fail_unless_known("preserved-set-wrong:" + b.cc, fmt("CallConv preserved regs gp=%s vec=%s, the ABI says gp=%s vec=%s (SP bit included)", hex(gp).c_str(), hex(vec).c_str(), hex(egp).c_str(), hex(evec).c_str()));
    if (have) { b.preserved[0] = egp; b.preserved[1] = evec; } else { b.preserved[0] = gp; b.preserved[1] = vec; }
    b.preserved[2] = cc.preserved_regs(RegGroup::kMask);
    b.preserved[3] = cc.preserved_regs(RegGroup::kExtra);
    b.preserved[0] &= ~(1u << b.sp_id);
    // constants the headers document: red zone (AMD64 == 128), spill zone (WIN-X64 == 32), 16-byte stack alignment on 64-bit targets
    {
      int want_red = b.cc == "sysv64" ? 128 : (b.cc == "win64" || p.arch == ARCH_X86) ? 0 : -1;
      int want_spill = b.cc == "win64" ? 32 : (b.cc == "sysv64" || p.arch != ARCH_X64) ? 0 : -1;
      int want_nat = p.arch != ARCH_X86 ? 16 : idn < 8 ? 4 : -1;
      if ((want_red >= 0 && int(cc.red_zone_size()) != want_red) || (want_spill >= 0 && int(cc.spill_zone_size()) != want_spill) || (want_nat >= 0 && int(cc.natural_stack_alignment()) != want_nat))
        ctx.fail_unless_known("abi-constant-wrong:" + b.cc, fmt("red zone %u (want %d) spill zone %u (want %d) natural alignment %u (want %d)", cc.red_zone_size(), want_red, cc.spill_zone_size(), want_spill, cc.natural_stack_alignment(), want_nat));
    }
    // which conventions pop their stack arguments (x86-32 only)
    bool pops = p.arch == ARCH_X86 && (b.cc == "stdcall32" || b.cc == "fastcall32" || b.cc == "vectorcall32" || b.cc == "thiscall32");
    if (pops != cc.has_flag(CallConvFlags::kCalleePopsStack))
      ctx.fail_unless_known("callee-pops-flag-wrong:" + b.cc, fmt("kCalleePopsStack is %d, expected %d", int(!pops), int(pops)));
    b.callee_pop = pops ? b.fd.arg_stack_size() : 0;
  }

  // ---- custom convention: additional preserved registers (public CallConv setter) ----
  for (int g = 1; g < 4; g++) {
    if (!p.cust[g]) continue;
    b.custom = true;
    RegGroup grp = RegGroup(g);
    b.fd._call_conv.set_preserved_regs(grp, b.fd._call_conv.preserved_regs(grp) | p.cust[g]);
    b.preserved[g] |= p.cust[g];
  }

  for (int i = 0; i < p.nargs; i++)
    for (size_t vi = 0; vi < Globals::kMaxValuePack; vi++) {
      const FuncValue& v = b.fd.arg(size_t(i), vi);
      if (!v.is_initialized()) break;
      if (v.is_stack()) b.stack_args.push_back(v.stack_offset());
    }

  FuncFrame& f = b.frame;
  e = f.init(b.fd);
  if (e != Error::kOk) { ctx.fail_unless_known("frame-init-error", fmt("FuncFrame::init returned %u", unsigned(e))); return false; }
  if (p.has(F_FP)) f.set_preserved_fp();
  if (p.has(F_VARARGS_ATTR)) f.set_var_args();
  if (p.has(F_FUNC_CALLS)) f.set_func_calls();
  if (p.has(F_IBT)) f.set_indirect_branch_protection();
  if (p.has(F_AVX)) f.set_avx_enabled();
  if (p.has(F_AVX512)) f.set_avx512_enabled();
  if (p.has(F_MMX_CLEANUP)) f.set_mmx_cleanup();
  if (p.has(F_AVX_CLEANUP)) f.set_avx_cleanup();
  if (p.has(F_AVX_AUTO_CLEANUP)) f.set_avx_auto_cleanup();
  if (p.has(F_RESET_RED_ZONE)) f.reset_red_zone();
  for (int g = 0; g < 4; g++) {
    if (p.has(F_SET_DIRTY)) f.set_dirty_regs(RegGroup(g), p.dirty[g]); else f.add_dirty_regs(RegGroup(g), p.dirty[g]);
  }
  if (p.has(F_ALL_DIRTY)) {                      // documented helper: every register of every group clobbered
    f.set_all_dirty();
    // domain: xmm16..31 can only be declared dirty by a function that enabled AVX-512 (same restriction as the generated masks)
    if (p.arch != ARCH_A64 && !p.has(F_AVX512)) f.set_dirty_regs(RegGroup::kVec, f.dirty_regs(RegGroup::kVec) & 0xFFFFu);
  }
  if (p.has(F_UPDATE_API)) {
    f.update_local_stack_size(p.local_size); f.update_call_stack_size(p.call_size);
    if (p.local_al) f.update_local_stack_alignment(p.local_al);
    if (p.call_al) f.update_call_stack_alignment(p.call_al);
  } else {
    f.set_local_stack_size(p.local_size); f.set_call_stack_size(p.call_size);
    if (p.local_al) f.set_local_stack_alignment(p.local_al);
    if (p.call_al) f.set_call_stack_alignment(p.call_al);
  }
  if (p.sa_reg >= 0) f.set_sa_reg_id(uint32_t(p.sa_reg));
  e = f.finalize();
  if (e != Error::kOk) { ctx.fail_unless_known("finalize-error", fmt("FuncFrame::finalize returned %u", unsigned(e))); return false; }
  b.da = f.has_dynamic_alignment();
  b.fp = f.has_preserved_fp();
  return true;
}

// Entry stack pointer for entry-alignment selector k: (E + ret_size) is a multiple of the natural alignment, all residues mod 64 reachable.
static uint64_t entry_sp(const P& p, const Built& b, uint64_t base64, uint32_t k) {
  uint32_t nat = b.frame.natural_stack_alignment();
  if (nat < 1) nat = 1;
  return base64 + uint64_t(nat) * (k % (nat >= 64 ? 1 : 64 / nat)) - b.ret_size;
}

// Promises about the body's stack pointer S (shared by all three oracles). `tag` names the oracle in messages.
static void check_body_sp(const P& p, const Built& b, vh::Ctx& ctx, uint64_t S, const char* tag) {
  const FuncFrame& f = b.frame;
  std::string sfx = (p.arch == ARCH_A64 && b.da) ? ":a64-da" : "";
  uint32_t nat = f.natural_stack_alignment();
  if (f.local_stack_size() && f.local_stack_alignment() > 1 && (S + f.local_stack_offset()) % f.local_stack_alignment() != 0) {
    std::string k = "local-misaligned" + sfx;
    if (sfx.empty() && !b.da && f.local_stack_alignment() > nat) k += ":above-natural-no-da";
    ctx.fail_unless_known(k, fmt("[%s] local area at SP+%u = %s is not %u-aligned :: %s", tag, f.local_stack_offset(), hex(S + f.local_stack_offset()).c_str(), f.local_stack_alignment(), describe(p, b).c_str()));
  }
  if (f.call_stack_size() || f.has_func_calls()) {
    uint32_t a = std::max(nat, f.call_stack_alignment());
    if (a > 1 && S % a != 0) {
      std::string k = "body-sp-misaligned" + sfx;
      if (sfx.empty() && !b.da && a > nat) k += ":above-natural-no-da";
      ctx.fail_unless_known(k, fmt("[%s] body SP %s is not %u-aligned (call stack %u, func calls %d) :: %s", tag, hex(S).c_str(), a, f.call_stack_size(), int(f.has_func_calls()), describe(p, b).c_str()));
    }
  }
  if (p.arch != ARCH_A64 && f.extra_reg_save_size() && f.has_aligned_vec_save_restore() && (f.saved_regs(RegGroup::kVec) != 0) && (S + f.extra_reg_save_offset()) % 16 != 0)
    ctx.fail_unless_known("vec-save-misaligned", fmt("[%s] aligned vector save area at SP+%u = %s is not 16-aligned :: %s", tag, f.extra_reg_save_offset(), hex(S + f.extra_reg_save_offset()).c_str(), describe(p, b).c_str()));
}

// ---------------------------------------------------------------------------------------------------------------------------
// Oracle 1: layout arithmetic
// ---------------------------------------------------------------------------------------------------------------------------
struct Area { const char* name; uint64_t lo, hi; };

static void check_layout(const P& p, const Built& b, vh::Ctx& ctx) {
  const FuncFrame& f = b.frame;
  uint32_t rs = b.rs;
  std::vector<Area> areas;
  areas.push_back({"call", 0, f.call_stack_size()});
  areas.push_back({"local", f.local_stack_offset(), uint64_t(f.local_stack_offset()) + f.local_stack_size()});
  areas.push_back({"extrasave", f.extra_reg_save_offset(), uint64_t(f.extra_reg_save_offset()) + f.extra_reg_save_size()});
  if (f.has_da_offset()) areas.push_back({"daslot", f.da_offset(), uint64_t(f.da_offset()) + rs});
  uint64_t frame_hi;    // first byte above the areas addressed relative to the body SP
  if (!b.da) {
    areas.push_back({"pushpop", f.push_pop_save_offset(), uint64_t(f.push_pop_save_offset()) + f.push_pop_save_size()});
    if (b.ret_size) areas.push_back({"retaddr", f.final_stack_size(), uint64_t(f.final_stack_size()) + b.ret_size});
    if (f.sa_offset_from_sp() != FuncFrame::kTagInvalidOffset)
      areas.push_back({"callerframe", f.sa_offset_from_sp(), uint64_t(f.sa_offset_from_sp()) + 0x100000});
    else
      ctx.fail_unless_known("sa-offset-wrong", fmt("sa_offset_from_sp is invalid without dynamic alignment :: %s", describe(p, b).c_str()));
    frame_hi = f.final_stack_size();
    if (f.sa_offset_from_sp() != FuncFrame::kTagInvalidOffset && f.sa_offset_from_sp() != f.final_stack_size() + b.ret_size)
      ctx.fail_unless_known("sa-offset-wrong", fmt("sa_offset_from_sp %u != final_stack_size %u + return address %u :: %s", f.sa_offset_from_sp(), f.final_stack_size(), b.ret_size, describe(p, b).c_str()));
  } else {
    frame_hi = f.stack_adjustment();
    if (f.stack_adjustment() % f.final_stack_alignment() != 0)
      ctx.fail_unless_known("da-adjustment-unaligned", fmt("stack_adjustment %u is not a multiple of the final alignment %u :: %s", f.stack_adjustment(), f.final_stack_alignment(), describe(p, b).c_str()));
    if (f.sa_offset_from_sp() != FuncFrame::kTagInvalidOffset)
      ctx.fail_unless_known("sa-offset-wrong", fmt("sa_offset_from_sp %u is reported although SP is dynamically aligned :: %s", f.sa_offset_from_sp(), describe(p, b).c_str()));
    if (f.sa_reg_id() == b.sp_id || f.sa_reg_id() == Reg::kIdBad)
      ctx.fail_unless_known("sa-reg-missing", fmt("dynamic alignment without a stack-argument base register :: %s", describe(p, b).c_str()));
    if (!b.fp && !f.has_da_offset())
      ctx.fail_unless_known("da-slot-missing", fmt("dynamic alignment without FP and without a DA slot :: %s", describe(p, b).c_str()));
  }
  for (size_t i = 0; i < areas.size(); i++) {
    const Area& a = areas[i];
    if (a.lo == a.hi) continue;
    if (strcmp(a.name, "callerframe") != 0 && strcmp(a.name, "retaddr") != 0 && a.hi > frame_hi)
      ctx.fail_unless_known(std::string("area-outside-frame:") + a.name, fmt("%s [%llu,%llu) exceeds the frame size %llu :: %s", a.name, (unsigned long long)a.lo, (unsigned long long)a.hi, (unsigned long long)frame_hi, describe(p, b).c_str()));
    for (size_t j = i + 1; j < areas.size(); j++) {
      const Area& c = areas[j];
      if (c.lo == c.hi) continue;
      if (a.lo < c.hi && c.lo < a.hi)
        ctx.fail_unless_known(std::string("areas-overlap:") + a.name + "-" + c.name, fmt("%s [%llu,%llu) overlaps %s [%llu,%llu) :: %s", a.name, (unsigned long long)a.lo, (unsigned long long)a.hi, c.name, (unsigned long long)c.lo, (unsigned long long)c.hi, describe(p, b).c_str()));
    }
  }
  // sizes of the save areas: every saved register needs its slot
  uint32_t pp = 0, ex = 0;
  for (int g = 0; g < 4; g++) {
    uint32_t n = Support::popcnt(f.saved_regs(RegGroup(g))), sz = f.save_restore_reg_size(RegGroup(g));
    bool pushpop = (g == 0) || (p.arch == ARCH_A64 && g == 1);
    (pushpop ? pp : ex) += n * sz;
  }
  if (f.push_pop_save_size() < pp || (p.arch != ARCH_A64 && f.push_pop_save_size() != pp))
    ctx.fail_unless_known("push-pop-size-wrong", fmt("push_pop_save_size %u, saved registers need %u :: %s", f.push_pop_save_size(), pp, describe(p, b).c_str()));
  if (f.extra_reg_save_size() < ex)
    ctx.fail_unless_known("extra-save-size-wrong", fmt("extra_reg_save_size %u, saved registers need %u :: %s", f.extra_reg_save_size(), ex, describe(p, b).c_str()));
  uint64_t need = uint64_t(f.call_stack_size()) + f.local_stack_size() + f.extra_reg_save_size() + f.push_pop_save_size() + (f.has_da_offset() ? rs : 0);
  if (f.final_stack_size() < need)
    ctx.fail_unless_known("final-size-too-small", fmt("final_stack_size %u < sum of areas %llu :: %s", f.final_stack_size(), (unsigned long long)need, describe(p, b).c_str()));
  if (f.call_stack_size() != p.call_size || f.local_stack_size() != p.local_size)
    ctx.fail_unless_known("size-not-recorded", fmt("requested local %u call %u :: %s", p.local_size, p.call_size, describe(p, b).c_str()));
  uint32_t want_al = std::max(std::max(f.natural_stack_alignment(), p.local_al), p.call_al);
  if (f.final_stack_alignment() != want_al)
    ctx.fail_unless_known("final-alignment-wrong", fmt("final_stack_alignment %u, expected max(natural, local, call) = %u :: %s", f.final_stack_alignment(), want_al, describe(p, b).c_str()));
  // callee cleanup as reported by the frame
  if (f.callee_stack_cleanup() != b.callee_pop)
    ctx.fail_unless_known("callee-cleanup-wrong:" + b.cc, fmt("callee_stack_cleanup %u, the convention pops %u :: %s", f.callee_stack_cleanup(), b.callee_pop, describe(p, b).c_str()));
  // alignment promises for every entry SP the convention allows (model: S = E - final size, or aligned down then adjusted)
  uint32_t nat = std::max<uint32_t>(1, f.natural_stack_alignment());
  for (uint32_t k = 0; k < (nat >= 64 ? 1u : 64u / nat); k++) {
    uint64_t E = entry_sp(p, b, 0x100000, k);
    uint64_t S = b.da ? ((E - f.push_pop_save_size()) & ~uint64_t(f.final_stack_alignment() - 1)) - f.stack_adjustment() : E - f.final_stack_size();
    check_body_sp(p, b, ctx, S, "arith");
  }
}
// ---------------------------------------------------------------------------------------------------------------------------
// Register file shared by the reference machine and the host run + the final register checks
// ---------------------------------------------------------------------------------------------------------------------------
struct RegState {
  uint64_t gp[32];
  uint8_t vec[32][64];
  uint64_t k[8];
  uint64_t mm[8];
};

static void init_regs(const P& p, RegState& r, uint64_t mask) {
  for (int i = 0; i < 32; i++) r.gp[i] = mix(p.seed * 1000 + 100 + uint64_t(i)) & mask;
  for (int i = 0; i < 32; i++) for (int j = 0; j < 8; j++) { uint64_t v = mix(p.seed * 1000 + 200 + uint64_t(i) * 8 + uint64_t(j)); memcpy(r.vec[i] + 8 * j, &v, 8); }
  for (int i = 0; i < 8; i++) { r.k[i] = mix(p.seed * 1000 + 500 + uint64_t(i)); r.mm[i] = mix(p.seed * 1000 + 600 + uint64_t(i)); }
}
static uint64_t junk_gp(const P& p, int i) { return mix(p.seed * 1000 + 700 + uint64_t(i)); }
static uint64_t junk_word(const P& p, int i) { return mix(p.seed * 1000 + 800 + uint64_t(i)); }

// Compares exit registers with entry registers: callee-saved ones and those never declared dirty must be unchanged.
static void check_regs(const P& p, const Built& b, vh::Ctx& ctx, const RegState& in, const RegState& out, const char* tag, bool have_mm, bool vzeroupper, const std::string& listing) {
  const FuncFrame& f = b.frame;
  int ngp = p.arch == ARCH_X64 ? 16 : p.arch == ARCH_X86 ? 8 : 31;
  int nvec = p.arch == ARCH_X86 ? 8 : 32;
  auto rep = [&](const char* what, const char* grp, int i, const std::string& detail) {
    ctx.fail_unless_known(std::string(what) + ":" + grp + ":" + b.cc, fmt("[%s] %s register #%d %s :: %s :: %s", tag, grp, i, detail.c_str(), describe(p, b).c_str(), listing.c_str()));
  };
  for (int i = 0; i < ngp; i++) {
    if (uint32_t(i) == b.sp_id) continue;
    bool pres = (b.preserved[0] >> i) & 1, dirty = (f.dirty_regs(RegGroup::kGp) >> i) & 1;
    if (in.gp[i] == out.gp[i]) continue;
    if (pres) rep("callee-saved-clobbered", "gp", i, fmt("entry %s exit %s", hex(in.gp[i]).c_str(), hex(out.gp[i]).c_str()));
    else if (!dirty) rep("non-dirty-clobbered", "gp", i, fmt("entry %s exit %s", hex(in.gp[i]).c_str(), hex(out.gp[i]).c_str()));
  }
  uint32_t vsz = std::min<uint32_t>(64, std::max<uint32_t>(1, b.fd.call_conv().save_restore_reg_size(RegGroup::kVec)));
  uint32_t full = p.arch == ARCH_A64 ? 16 : 64;
  for (int i = 0; i < nvec; i++) {
    bool pres = (b.preserved[1] >> i) & 1, dirty = (f.dirty_regs(RegGroup::kVec) >> i) & 1;
    uint32_t fw = (vzeroupper && i < 16) ? 16 : full;
    if (pres && memcmp(in.vec[i], out.vec[i], std::min(vsz, full)) != 0)
      rep("callee-saved-clobbered", "vec", i, fmt("low %u bytes differ (entry %s.. exit %s..)", vsz, hex(*(const uint64_t*)in.vec[i]).c_str(), hex(*(const uint64_t*)out.vec[i]).c_str()));
    else if (!dirty && memcmp(in.vec[i], out.vec[i], fw) != 0)
      rep("non-dirty-clobbered", "vec", i, fmt("(%u bytes compared; entry %s.. exit %s..)", fw, hex(*(const uint64_t*)in.vec[i]).c_str(), hex(*(const uint64_t*)out.vec[i]).c_str()));
  }
  if (p.arch == ARCH_A64) return;
  for (int i = 0; i < 8; i++) {
    bool pres = (b.preserved[2] >> i) & 1, dirty = (f.dirty_regs(RegGroup::kMask) >> i) & 1;
    if (in.k[i] != out.k[i]) {
      if (pres) rep("callee-saved-clobbered", "k", i, fmt("entry %s exit %s", hex(in.k[i]).c_str(), hex(out.k[i]).c_str()));
      else if (!dirty) rep("non-dirty-clobbered", "k", i, fmt("entry %s exit %s", hex(in.k[i]).c_str(), hex(out.k[i]).c_str()));
    }
    if (!have_mm) continue;
    pres = (b.preserved[3] >> i) & 1; dirty = (f.dirty_regs(RegGroup::kExtra) >> i) & 1;
    if (in.mm[i] != out.mm[i]) {
      if (pres) rep("callee-saved-clobbered", "mm", i, fmt("entry %s exit %s", hex(in.mm[i]).c_str(), hex(out.mm[i]).c_str()));
      else if (!dirty) rep("non-dirty-clobbered", "mm", i, fmt("entry %s exit %s", hex(in.mm[i]).c_str(), hex(out.mm[i]).c_str()));
    }
  }
}

// Listing of prolog + epilog for failure reports (built from scratch, with a logger).
static std::string make_listing(const P& p, const Built& b) {
  CodeHolder code;
  if (code.init(b.env) != Error::kOk) return "<no listing>";
  StringLogger lg;
  code.set_logger(&lg);
  if (p.arch == ARCH_A64) { a64::Assembler a(&code); (void)a.emit_prolog(b.frame); lg.log("  ; -- body --\n"); (void)a.emit_epilog(b.frame); }
  else { x86::Assembler a(&code); (void)a.emit_prolog(b.frame); lg.log("  ; -- body --\n"); (void)a.emit_epilog(b.frame); }
  std::string s = lg.data();
  for (char& ch : s) if (ch == '\n') ch = '|';
  if (s.size() > 1400) s = s.substr(0, 700) + " ... " + s.substr(s.size() - 650);
  return s;
}

// ---------------------------------------------------------------------------------------------------------------------------
// Oracle 2: reference machine over the emitted nodes
// ---------------------------------------------------------------------------------------------------------------------------
struct Sim {
  int arch = 0; uint32_t rs = 8; uint64_t mask = ~0ull;
  RegState r;
  uint64_t mem_lo = 0; std::vector<uint8_t> mem;
  std::string fault_key, fault;
  bool returned = false; uint64_t ret_pc = 0; bool vzeroupper = false;
  uint32_t sp_id = 4;
  uint64_t& sp() { return r.gp[sp_id]; }
  bool in(uint64_t a, uint64_t n) const { return a >= mem_lo && a + n <= mem_lo + mem.size() && a + n >= a; }
  void stop(const std::string& k, const std::string& m) { if (fault_key.empty()) { fault_key = k; fault = m; } }
  bool rd(uint64_t a, void* dst, uint32_t n) { if (!in(a, n)) { stop("frame-access-out-of-bounds", "read of " + std::to_string(n) + " bytes at " + hex(a)); memset(dst, 0, n); return false; } memcpy(dst, &mem[a - mem_lo], n); return true; }
  bool wr(uint64_t a, const void* src, uint32_t n) { if (!in(a, n)) { stop("frame-access-out-of-bounds", "write of " + std::to_string(n) + " bytes at " + hex(a)); return false; } memcpy(&mem[a - mem_lo], src, n); return true; }
  uint64_t rdw(uint64_t a) { uint64_t v = 0; rd(a, &v, rs); return v; }
  void wrw(uint64_t a, uint64_t v) { wr(a, &v, rs); }
};

static const BaseBuilder* g_fmt_builder = nullptr;
static std::string node_text(const P& p, const InstNode* n) {
  String s;
  if (!g_fmt_builder || Formatter::format_node(s, FormatOptions(), g_fmt_builder, n) != Error::kOk) return "<inst " + std::to_string(unsigned(n->inst_id())) + ">";
  (void)p;
  return std::string(s.data(), s.size());
}

static void sim_x86(const P& p, Sim& m, const InstNode* n) {
  namespace Inst = x86::Inst;
  InstId id = n->inst_id();
  Span<const Operand> ops = n->operands();
  auto isgp = [&](size_t i) { return i < ops.size() && ops[i].is_reg() && ops[i].as<Reg>().is_gp(); };
  auto ismem = [&](size_t i) { return i < ops.size() && ops[i].is_mem(); };
  auto isimm = [&](size_t i) { return i < ops.size() && ops[i].is_imm(); };
  auto rid = [&](size_t i) { return ops[i].as<Reg>().id() & 31u; };
  auto addr = [&](size_t i) -> uint64_t {
    const x86::Mem& mm = ops[i].as<x86::Mem>();
    if (!mm.has_base_reg() || mm.has_index()) { m.stop("sim-unsupported", "memory operand form in " + node_text(p, n)); return 0; }
    return (m.r.gp[mm.base_id() & 31u] + uint64_t(int64_t(mm.offset_lo32()))) & m.mask;
  };
  auto imm = [&](size_t i) { return uint64_t(ops[i].as<Imm>().value()); };
  if (id == Inst::kIdEndbr32 || id == Inst::kIdEndbr64 || id == Inst::kIdEmms) return;
  if (id == Inst::kIdVzeroupper) { m.vzeroupper = true; for (int i = 0; i < 16; i++) memset(m.r.vec[i] + 16, 0, 48); return; }
  if (id == Inst::kIdPush && isgp(0)) { m.sp() = (m.sp() - m.rs) & m.mask; m.wrw(m.sp(), m.r.gp[rid(0)]); return; }
  if (id == Inst::kIdPop && isgp(0)) { uint64_t v = m.rdw(m.sp()); m.sp() = (m.sp() + m.rs) & m.mask; m.r.gp[rid(0)] = v; return; }
  if (id == Inst::kIdMov && isgp(0) && isgp(1)) { m.r.gp[rid(0)] = m.r.gp[rid(1)]; return; }
  if (id == Inst::kIdMov && ismem(0) && isgp(1)) { m.wrw(addr(0), m.r.gp[rid(1)]); return; }
  if (id == Inst::kIdMov && isgp(0) && ismem(1)) { m.r.gp[rid(0)] = m.rdw(addr(1)); return; }
  if (id == Inst::kIdLea && isgp(0) && ismem(1)) { m.r.gp[rid(0)] = addr(1); return; }
  if (id == Inst::kIdAnd && isgp(0) && isimm(1)) { m.r.gp[rid(0)] = (m.r.gp[rid(0)] & imm(1)) & m.mask; return; }
  if (id == Inst::kIdSub && isgp(0) && isimm(1)) { m.r.gp[rid(0)] = (m.r.gp[rid(0)] - imm(1)) & m.mask; return; }
  if (id == Inst::kIdAdd && isgp(0) && isimm(1)) { m.r.gp[rid(0)] = (m.r.gp[rid(0)] + imm(1)) & m.mask; return; }
  bool vmov = id == Inst::kIdMovaps || id == Inst::kIdMovups || id == Inst::kIdVmovaps || id == Inst::kIdVmovups;
  if (vmov && ops.size() == 2) {
    bool aligned = id == Inst::kIdMovaps || id == Inst::kIdVmovaps, vex = id == Inst::kIdVmovaps || id == Inst::kIdVmovups;
    size_t mi = ismem(0) ? 0 : 1, ri = 1 - mi;
    if (ismem(mi) && ops[ri].is_reg() && ops[ri].as<Reg>().is_vec()) {
      uint32_t sz = ops[ri].as<Reg>().size(); if (sz < 16 || sz > 64) sz = 16;
      uint64_t a = addr(mi);
      uint32_t vid = rid(ri);
      if (!vex && vid >= 16) { m.stop("vec-save-sse-with-xmm16plus", "legacy SSE move with xmm" + std::to_string(vid)); return; }
      if (aligned && a % sz != 0) { m.stop("vec-save-misaligned", node_text(p, n) + " with address " + hex(a) + " would fault (#GP)"); return; }
      if (mi == 0) m.wr(a, m.r.vec[vid], sz);
      else { m.rd(a, m.r.vec[vid], sz); if (vex) memset(m.r.vec[vid] + sz, 0, 64 - sz); }
      return;
    }
  }
  if (id == Inst::kIdKmovq && ops.size() == 2) {
    if (ismem(0) && ops[1].is_reg()) { uint64_t v = m.r.k[rid(1) & 7]; m.wr(addr(0), &v, 8); return; }
    if (ismem(1) && ops[0].is_reg()) { uint64_t v = 0; m.rd(addr(1), &v, 8); m.r.k[rid(0) & 7] = v; return; }
  }
  if (id == Inst::kIdMovq && ops.size() == 2) {
    if (ismem(0) && ops[1].is_reg() && ops[1].as<Reg>().reg_type() == RegType::kX86_Mm) { uint64_t v = m.r.mm[rid(1) & 7]; m.wr(addr(0), &v, 8); return; }
    if (ismem(1) && ops[0].is_reg() && ops[0].as<Reg>().reg_type() == RegType::kX86_Mm) { uint64_t v = 0; m.rd(addr(1), &v, 8); m.r.mm[rid(0) & 7] = v; return; }
  }
  if (id == Inst::kIdRet) {
    m.ret_pc = m.rdw(m.sp());
    m.sp() = (m.sp() + m.rs + (isimm(0) ? imm(0) : 0)) & m.mask;
    m.returned = true;
    return;
  }
  m.stop("sim-unsupported", "instruction not modelled: " + node_text(p, n));
}

static void sim_a64(const P& p, Sim& m, const InstNode* n) {
  namespace Inst = a64::Inst;
  InstId id = n->inst_id();
  Span<const Operand> ops = n->operands();
  auto isreg = [&](size_t i) { return i < ops.size() && ops[i].is_reg(); };
  auto rid = [&](size_t i) { return ops[i].as<Reg>().id() & 31u; };
  if (id == Inst::kIdBti) return;
  bool st = id == Inst::kIdStp || id == Inst::kIdStr || id == Inst::kIdStp_v || id == Inst::kIdStr_v;
  bool ld = id == Inst::kIdLdp || id == Inst::kIdLdr || id == Inst::kIdLdp_v || id == Inst::kIdLdr_v;
  if (st || ld) {
    size_t nr = ops.size() - 1;
    if ((nr != 1 && nr != 2) || !ops[nr].is_mem() || !isreg(0) || (nr == 2 && !isreg(1))) { m.stop("sim-unsupported", "operand form of " + node_text(p, n)); return; }
    const a64::Mem& mm = ops[nr].as<a64::Mem>();
    if (!mm.has_base_reg() || mm.has_index()) { m.stop("sim-unsupported", "memory form of " + node_text(p, n)); return; }
    uint32_t bid = mm.base_id() & 31u;
    int64_t off = mm.offset_lo32();
    uint64_t base = m.r.gp[bid];
    if (bid == 31 && base % 16 != 0) { m.stop("sp-misaligned-access", node_text(p, n) + " with sp=" + hex(base) + " (SP alignment fault)"); return; }
    uint64_t a = mm.is_post_index() ? base : base + uint64_t(off);
    if (mm.is_pre_index() || mm.is_post_index()) m.r.gp[bid] = base + uint64_t(off);
    for (size_t i = 0; i < nr; i++) {
      const Reg& rg = ops[i].as<Reg>();
      uint32_t sz = rg.size(); if (sz != 4 && sz != 8 && sz != 16) sz = 8;
      uint32_t r = rid(i);
      uint64_t ai = a + uint64_t(i) * sz;
      if (rg.is_gp()) { if (st) { uint64_t v = r == 31 ? 0 : m.r.gp[r]; m.wr(ai, &v, sz); } else { uint64_t v = 0; m.rd(ai, &v, sz); if (r != 31) m.r.gp[r] = v; } }
      else if (rg.is_vec()) { if (st) m.wr(ai, m.r.vec[r], sz); else { memset(m.r.vec[r], 0, 16); m.rd(ai, m.r.vec[r], sz); } }
      else { m.stop("sim-unsupported", "register kind in " + node_text(p, n)); return; }
    }
    return;
  }
  if (id == Inst::kIdMov && ops.size() == 2 && isreg(0) && isreg(1)) { m.r.gp[rid(0)] = m.r.gp[rid(1)]; return; }
  if ((id == Inst::kIdSub || id == Inst::kIdAdd) && ops.size() == 3 && isreg(0) && isreg(1) && ops[2].is_imm()) {
    uint64_t v = uint64_t(ops[2].as<Imm>().value());
    m.r.gp[rid(0)] = id == Inst::kIdSub ? m.r.gp[rid(1)] - v : m.r.gp[rid(1)] + v;
    return;
  }
  if (id == Inst::kIdRet) { m.ret_pc = m.r.gp[ops.size() && isreg(0) ? rid(0) : 30]; m.returned = true; return; }
  m.stop("sim-unsupported", "instruction not modelled: " + node_text(p, n));
}

static void run_sim(const P& p, const Built& b, vh::Ctx& ctx) {
  const FuncFrame& f = b.frame;
  const char* an = p.arch == ARCH_X64 ? "x64" : p.arch == ARCH_X86 ? "x86" : "a64";
  CodeHolder code;
  if (code.init(b.env) != Error::kOk) { ctx.fail("harness-codeholder-init", "CodeHolder::init failed"); }
  x86::Builder xb; a64::Builder ab;
  BaseBuilder* bb = p.arch == ARCH_A64 ? static_cast<BaseBuilder*>(&ab) : static_cast<BaseBuilder*>(&xb);
  if (code.attach(bb) != Error::kOk) ctx.fail("harness-attach", "attach failed");
  g_fmt_builder = bb;
  struct Unset { ~Unset() { g_fmt_builder = nullptr; } } unset_guard;
  Error e1 = bb->emit_prolog(f);
  BaseNode* split = bb->cursor();
  Error e2 = bb->emit_epilog(f);
  // AArch64 prolog/epilog do not implement dynamic stack alignment: a documented refusal (kInvalidState from both)
  // is accepted, silently emitting a frame that does not align SP is not (keys *:a64-da).
  if (p.arch == ARCH_A64 && b.da && e1 == Error::kInvalidState && e2 == Error::kInvalidState) { ctx.cls("a64_dynamic_alignment_rejected"); return; }
  if (e1 != Error::kOk || e2 != Error::kOk) {
    ctx.fail_unless_known(std::string("emit-error:") + an, fmt("emit_prolog -> %u, emit_epilog -> %u :: %s :: %s", unsigned(e1), unsigned(e2), describe(p, b).c_str(), make_listing(p, b).c_str()));
    return;
  }
  std::string listing;
  auto lst = [&]() -> const std::string& { if (listing.empty()) listing = make_listing(p, b); return listing; };

  Sim m;
  m.arch = p.arch; m.rs = b.rs; m.mask = p.arch == ARCH_X86 ? 0xFFFFFFFFull : ~0ull; m.sp_id = b.sp_id;
  init_regs(p, m.r, m.mask);
  RegState in;
  uint64_t base64 = p.arch == ARCH_X86 ? 0xBFF80000ull : 0x00007FFD40000000ull;
  uint64_t E = entry_sp(p, b, base64, p.entry_k);
  uint64_t RA = p.arch == ARCH_X86 ? 0x08049A10ull : 0x0000000000401A2Cull;
  const uint64_t kAbove = 0x400;
  const uint64_t kBelow = std::min<uint64_t>(0x48000, (uint64_t(f.final_stack_size()) + f.stack_adjustment() + 0x2FFF) & ~uint64_t(0xFFF));
  static std::vector<uint8_t> s_mem, s_orig;
  m.mem.swap(s_mem);
  m.mem_lo = E - kBelow;
  m.mem.assign(kBelow + kAbove, 0xC7);
  for (uint64_t a = E; a < E + kAbove; a++) m.mem[a - m.mem_lo] = uint8_t(mix(p.seed * 7919 + (a - E)) | 1);
  if (p.arch == ARCH_A64) m.r.gp[30] = RA; else m.wrw(E, RA);
  m.sp() = E;
  in = m.r;
  std::vector<uint8_t>& orig = s_orig;
  orig = m.mem;
  uint64_t S = 0;
  bool body_done = false, wrote_spill = false;

  auto body = [&]() {
    body_done = true;
    S = m.sp();
    check_body_sp(p, b, ctx, S, "sim");
    if (!b.da && E - S != f.final_stack_size())
      ctx.fail_unless_known("final-stack-size-mismatch:" + b.cc, fmt("[sim] entry SP - body SP = %llu, final_stack_size() = %u :: %s :: %s", (unsigned long long)(E - S), f.final_stack_size(), describe(p, b).c_str(), lst().c_str()));
    if (b.da && E - S < f.final_stack_size())
      ctx.fail_unless_known("final-stack-size-mismatch:" + b.cc, fmt("[sim] entry SP - body SP = %llu < final_stack_size() = %u :: %s :: %s", (unsigned long long)(E - S), f.final_stack_size(), describe(p, b).c_str(), lst().c_str()));
    if (b.fp) {   // a preserved frame pointer forms a frame record: [FP] = caller's FP, next word = return address
      uint64_t fpv = m.r.gp[b.fp_id], w0 = 0, w1 = 0;
      bool okr = m.in(fpv, 2 * b.rs);
      if (okr) { memcpy(&w0, &m.mem[fpv - m.mem_lo], b.rs); memcpy(&w1, &m.mem[fpv + b.rs - m.mem_lo], b.rs); }
      bool good = okr && w0 == in.gp[b.fp_id] && w1 == RA && (p.arch == ARCH_A64 || fpv == ((E - b.rs) & m.mask));
      if (!good)
        ctx.fail_unless_known("frame-pointer-wrong:" + b.cc, fmt("[sim] FP in the body is %s: [FP] = %s (caller FP %s), [FP+%u] = %s (return address %s) :: %s :: %s", hex(fpv).c_str(), hex(w0).c_str(), hex(in.gp[b.fp_id]).c_str(), b.rs, hex(w1).c_str(), hex(RA).c_str(), describe(p, b).c_str(), lst().c_str()));
    }
    // stack-passed arguments through every base the frame documents
    std::string asfx = (p.arch == ARCH_A64 && b.da) ? ":a64-da" : "";
    for (int32_t off : b.stack_args) {
      uint64_t want = 0; memcpy(&want, &orig[E + b.ret_size + uint64_t(off) - m.mem_lo], b.rs);
      struct { const char* name; const char* tagk; bool use; uint64_t a; } paths[3] = {
        {"sp+sa_offset_from_sp", ":sp", f.sa_offset_from_sp() != FuncFrame::kTagInvalidOffset, S + f.sa_offset_from_sp() + uint64_t(off)},
        {"fp+sa_offset_from_sa", ":fp", b.fp, m.r.gp[b.fp_id] + f.sa_offset_from_sa() + uint64_t(off)},
        {"sa_reg+sa_offset_from_sa", ":sa", f.sa_reg_id() != b.sp_id && f.sa_reg_id() != Reg::kIdBad, m.r.gp[f.sa_reg_id() & 31u] + f.sa_offset_from_sa() + uint64_t(off)} };
      for (auto& pa : paths) {
        if (!pa.use) continue;
        uint64_t a = pa.a & m.mask, got = 0;
        bool okr = m.in(a, b.rs);
        if (okr) memcpy(&got, &m.mem[a - m.mem_lo], b.rs);
        if (!okr || got != want || a != ((E + b.ret_size + uint64_t(off)) & m.mask))
          ctx.fail_unless_known("stack-arg-offset-wrong:" + b.cc + pa.tagk + asfx, fmt("[sim] stack argument at offset %d: %s gives address %s, the argument lives at %s :: %s :: %s", off, pa.name, hex(a).c_str(), hex(E + b.ret_size + uint64_t(off)).c_str(), describe(p, b).c_str(), lst().c_str()));
      }
    }
    // scribble over everything the body owns
    int ngp = p.arch == ARCH_X64 ? 16 : p.arch == ARCH_X86 ? 8 : 31;
    for (int i = 0; i < ngp; i++) {
      if (uint32_t(i) == b.sp_id || (b.fp && uint32_t(i) == b.fp_id)) continue;
      if ((f.dirty_regs(RegGroup::kGp) >> i) & 1) m.r.gp[i] = junk_gp(p, i) & m.mask;
    }
    for (int i = 0; i < 32; i++) if ((f.dirty_regs(RegGroup::kVec) >> i) & 1) for (int j = 0; j < 8; j++) { uint64_t v = junk_word(p, i * 8 + j); memcpy(m.r.vec[i] + 8 * j, &v, 8); }
    for (int i = 0; i < 8; i++) {
      if ((f.dirty_regs(RegGroup::kMask) >> i) & 1) m.r.k[i] = junk_word(p, 300 + i);
      if ((f.dirty_regs(RegGroup::kExtra) >> i) & 1) m.r.mm[i] = junk_word(p, 310 + i);
    }
    auto fill = [&](uint64_t a, uint64_t n, uint8_t pat, const char* what) {
      if (!n) return;
      if (!m.in(a, n)) { ctx.fail_unless_known(std::string("area-outside-frame:") + what, fmt("[sim] %s area [%s,+%llu) is outside the stack :: %s", what, hex(a).c_str(), (unsigned long long)n, describe(p, b).c_str())); return; }
      memset(&m.mem[a - m.mem_lo], pat, n);
    };
    fill(S + f.local_stack_offset(), f.local_stack_size(), 0xB1, "local");
    fill(S, f.call_stack_size(), 0xB2, "call");
    fill(S - f.red_zone_size(), f.red_zone_size(), 0xB3, "redzone");
    if (p.has(F_WRITE_SPILL) && f.spill_zone_size()) { fill(E + b.ret_size, f.spill_zone_size(), 0xB4, "spill"); wrote_spill = true; }
  };

  if (!split) body();
  for (BaseNode* n = bb->first_node(); n && m.fault_key.empty() && !m.returned; n = n->next()) {
    if (n->is_inst()) { if (p.arch == ARCH_A64) sim_a64(p, m, n->as<InstNode>()); else sim_x86(p, m, n->as<InstNode>()); }
    if (n == split && m.fault_key.empty() && !body_done) body();
  }
  if (!m.fault_key.empty()) {
    std::string k = m.fault_key;
    if (p.arch == ARCH_A64 && b.da) k += ":a64-da";
    ctx.fail_unless_known(k, fmt("[sim] %s :: %s :: %s", m.fault.c_str(), describe(p, b).c_str(), lst().c_str()));
  } else if (!m.returned) {
    ctx.fail_unless_known("return-address-lost:" + b.cc, fmt("[sim] epilog ended without a return instruction :: %s :: %s", describe(p, b).c_str(), lst().c_str()));
  } else {
    std::string sfx = (p.arch == ARCH_A64 && b.da) ? ":a64-da" : "";
    if (m.ret_pc != RA)
      ctx.fail_unless_known("return-address-lost:" + b.cc + sfx, fmt("[sim] returned to %s instead of %s :: %s :: %s", hex(m.ret_pc).c_str(), hex(RA).c_str(), describe(p, b).c_str(), lst().c_str()));
    uint64_t want_sp = (E + b.ret_size + b.callee_pop) & m.mask;
    if (m.sp() != want_sp)
      ctx.fail_unless_known("rsp-not-restored:" + b.cc + sfx, fmt("[sim] SP after return %s, expected %s (entry %s + return address %u + callee-popped %u) :: %s :: %s", hex(m.sp()).c_str(), hex(want_sp).c_str(), hex(E).c_str(), b.ret_size, b.callee_pop, describe(p, b).c_str(), lst().c_str()));
    check_regs(p, b, ctx, in, m.r, "sim", true, m.vzeroupper, lst());
    // memory the frame must not touch
    uint64_t low_ok = S - f.red_zone_size();
    uint64_t lim = std::min<uint64_t>(low_ok, m.mem_lo + m.mem.size());
    if (lim > m.mem_lo && memcmp(&m.mem[0], &orig[0], lim - m.mem_lo) != 0) for (uint64_t a = m.mem_lo; a < lim; a++)
      if (m.mem[a - m.mem_lo] != orig[a - m.mem_lo]) { ctx.fail_unless_known("canary-below-frame" + sfx, fmt("[sim] byte at %s (body SP %s, %llu below SP - red zone) was written :: %s :: %s", hex(a).c_str(), hex(S).c_str(), (unsigned long long)(low_ok - a), describe(p, b).c_str(), lst().c_str())); break; }
    for (uint64_t a = E + b.ret_size + (wrote_spill ? f.spill_zone_size() : 0); a < E + kAbove; a++)
      if (m.mem[a - m.mem_lo] != orig[a - m.mem_lo]) { ctx.fail_unless_known("caller-frame-clobbered" + sfx, fmt("[sim] caller byte at entry SP + %llu was written :: %s :: %s", (unsigned long long)(a - E), describe(p, b).c_str(), lst().c_str())); break; }
  }
  // the node list must assemble
  Error e3 = bb->finalize();
  m.mem.swap(s_mem);
  if (e3 != Error::kOk || code.code_size() == 0)
    ctx.fail_unless_known("assemble-error:" + b.cc, fmt("Builder::finalize -> %u (code size %zu) :: %s :: %s", unsigned(e3), code.code_size(), describe(p, b).c_str(), lst().c_str()));
}
// ---------------------------------------------------------------------------------------------------------------------------
// Oracle 3: execution on the host CPU (x86-64 only)
// ---------------------------------------------------------------------------------------------------------------------------
enum : uint32_t {
  D_THUNK_RSP = 0x00, D_AFTER_RSP = 0x08, D_RETURNED = 0x10, D_BODY_RSP = 0x18, D_BODY_RBP = 0x20, D_BODY_SA = 0x28,
  D_ARGS = 0x40 /* [3][16] qwords */, D_JUNK_VEC = 0x1C0 /* 32 x 64 */, D_JUNK_GP = 0x9C0, D_JUNK_K = 0xA40, D_JUNK_MM = 0xA80,
  D_MM_INIT = 0xAC0, D_MM_AFTER = 0xB00, D_SIZE = 0xB40
};
static const uint32_t kThunkWords = 24, kMaxStackArgs = 16;
static uint8_t* g_exec = nullptr;
static const size_t kExecSize = 1u << 16;
static bool g_stack_filled = false;

__attribute__((no_sanitize("address"))) static const uint8_t* first_not(const uint8_t* a, const uint8_t* e, uint8_t pat) {
  uint64_t w = 0x0101010101010101ull * pat;
  while (a < e && (uintptr_t(a) & 7)) { if (*a != pat) return a; a++; }
  while (a + 8 <= e) { if (*(const uint64_t*)a != w) break; a += 8; }
  while (a < e) { if (*a != pat) return a; a++; }
  return nullptr;
}

static bool host_has_avx512() {
  static int v = -1;
  if (v < 0) { const CpuFeatures& cf = CpuInfo::host().features(); v = cf.x86().has_avx512_f() && cf.x86().has_avx512_bw() && cf.x86().has_avx512_vl() && cf.x86().has_avx512_dq(); }
  return v != 0;
}

static void run_host(const P& p, const Built& b, vh::Ctx& ctx) {
  const FuncFrame& f = b.frame;
  if (!host_has_avx512()) { ctx.cls("host_skipped_no_avx512"); return; }
  if (!g_exec) {
    void* m = mmap(nullptr, kExecSize, PROT_READ | PROT_WRITE | PROT_EXEC, MAP_PRIVATE | MAP_ANONYMOUS, -1, 0);
    if (m == MAP_FAILED) { ctx.cls("host_skipped_no_rwx"); return; }
    g_exec = (uint8_t*)m;
  }
  uint32_t k = p.entry_k % 4;
  bool use_mm = f.dirty_regs(RegGroup::kExtra) != 0 || f.has_mmx_cleanup() || b.preserved[3] != 0;
  bool vzu = f.has_avx_cleanup() || (f.has_avx_auto_cleanup() && f.dirty_regs(RegGroup::kVec) != 0);
  uint32_t sa_id = f.sa_reg_id();
  bool sa_path = sa_id != Reg::kIdBad && sa_id != 4;
  bool sp_path = f.sa_offset_from_sp() != FuncFrame::kTagInvalidOffset;
  size_t nsa = std::min<size_t>(b.stack_args.size(), kMaxStackArgs);

  RegState in;
  init_regs(p, in, ~0ull);
  std::vector<uint8_t> data(D_SIZE, 0);
  auto put = [&](uint32_t off, uint64_t v) { memcpy(&data[off], &v, 8); };
  for (int i = 0; i < 32; i++) for (int j = 0; j < 8; j++) put(D_JUNK_VEC + uint32_t(i) * 64 + uint32_t(j) * 8, junk_word(p, i * 8 + j));
  for (int i = 0; i < 16; i++) put(D_JUNK_GP + 8 * uint32_t(i), junk_gp(p, i));
  for (int i = 0; i < 8; i++) { put(D_JUNK_K + 8 * uint32_t(i), junk_word(p, 300 + i)); put(D_JUNK_MM + 8 * uint32_t(i), junk_word(p, 310 + i)); put(D_MM_INIT + 8 * uint32_t(i), in.mm[i]); }
  auto tword = [&](uint32_t i) { return int32_t(0x51000000u + i * 0x010203u + uint32_t(p.seed & 0xFFFF)); };

  CodeHolder code;
  if (code.init(b.env) != Error::kOk) ctx.fail("harness-codeholder-init", "CodeHolder::init failed");
  x86::Assembler a(&code);
  Label L_fn = a.new_label(), L_data = a.new_label();
  auto D = [&](uint32_t off) { return x86::qword_ptr(L_data, int32_t(off)); };
  using namespace x86;
  // ---- thunk: builds the caller's frame, calls the function, records SP after the return ----
  a.mov(D(D_THUNK_RSP), rsp);
  a.lea(rsp, ptr(rsp, -int32_t(8 + 16 * k + 8 * kThunkWords)));
  for (uint32_t i = 0; i < kThunkWords; i++) a.mov(qword_ptr(rsp, int32_t(8 * i)), Imm(tword(i)));
  if (use_mm) for (uint32_t i = 0; i < 8; i++) a.movq(mm(i), D(D_MM_INIT + 8 * i));
  a.call(L_fn);
  a.mov(D(D_AFTER_RSP), rsp);
  a.mov(dword_ptr(L_data, D_RETURNED), Imm(1));
  if (use_mm) { for (uint32_t i = 0; i < 8; i++) a.movq(D(D_MM_AFTER + 8 * i), mm(i)); a.emms(); }
  a.mov(rsp, D(D_THUNK_RSP));
  a.ret();
  // ---- the function under test ----
  a.bind(L_fn);
  size_t fn_off = a.offset();
  Error e1 = a.emit_prolog(f);
  size_t body_off = a.offset();
  {
    Gp scr = (sa_path && sa_id == 0) ? rcx : rax;
    a.mov(D(D_BODY_RSP), rsp);
    a.mov(D(D_BODY_RBP), rbp);
    if (sa_path) a.mov(D(D_BODY_SA), gpq(sa_id));
    for (size_t j = 0; j < nsa; j++) {
      int32_t off = b.stack_args[j];
      if (sp_path) { a.mov(scr, qword_ptr(rsp, int32_t(f.sa_offset_from_sp()) + off)); a.mov(D(D_ARGS + uint32_t(j) * 8), scr); }
      if (b.fp) { a.mov(scr, qword_ptr(rbp, int32_t(f.sa_offset_from_sa()) + off)); a.mov(D(D_ARGS + 128 + uint32_t(j) * 8), scr); }
      if (sa_path) { a.mov(scr, qword_ptr(gpq(sa_id), int32_t(f.sa_offset_from_sa()) + off)); a.mov(D(D_ARGS + 256 + uint32_t(j) * 8), scr); }
    }
    auto fill = [&](const Mem& where, uint32_t n, uint8_t pat) { if (!n) return; a.lea(rdi, where); a.mov(ecx, Imm(n)); a.mov(eax, Imm(pat)); a.rep().stosb(); };
    if (p.has(F_WRITE_SPILL) && f.spill_zone_size()) {   // first: may need the SA register before rax/rcx/rdi are used
      Mem spill = sp_path ? ptr(rsp, int32_t(f.sa_offset_from_sp())) : b.fp ? ptr(rbp, int32_t(f.sa_offset_from_sa())) : ptr(gpq(sa_path ? sa_id : 5), int32_t(f.sa_offset_from_sa()));
      fill(spill, f.spill_zone_size(), 0xB4);
    }
    fill(ptr(rsp, int32_t(f.local_stack_offset())), f.local_stack_size(), 0xB1);
    fill(ptr(rsp), f.call_stack_size(), 0xB2);
    fill(ptr(rsp, -int32_t(f.red_zone_size())), f.red_zone_size(), 0xB3);
    a.mov(rax, Imm(in.gp[0])); a.mov(rcx, Imm(in.gp[1])); a.mov(rdi, Imm(in.gp[7]));
    for (uint32_t i = 0; i < 16; i++) {
      if (i == 4 || (b.fp && i == 5) || !((f.dirty_regs(RegGroup::kGp) >> i) & 1)) continue;
      a.mov(gpq(i), D(D_JUNK_GP + 8 * i));
    }
    for (uint32_t i = 0; i < 32; i++) {
      if (!((f.dirty_regs(RegGroup::kVec) >> i) & 1)) continue;
      Mem src = ptr(L_data, int32_t(D_JUNK_VEC + 64 * i));
      if (p.has(F_AVX512) || i >= 16) a.vmovdqu64(zmm(i), src);
      else if (p.has(F_AVX)) a.vmovdqu(ymm(i), src);
      else a.movdqu(xmm(i), src);
    }
    for (uint32_t i = 0; i < 8; i++) {
      if ((f.dirty_regs(RegGroup::kMask) >> i) & 1) a.kmovq(x86::k(i), D(D_JUNK_K + 8 * i));
      if ((f.dirty_regs(RegGroup::kExtra) >> i) & 1) a.movq(mm(i), D(D_JUNK_MM + 8 * i));
    }
  }
  size_t epi_off = a.offset();
  Error e2 = a.emit_epilog(f);
  size_t end_off = a.offset();
  a.align(AlignMode::kData, 64);
  a.bind(L_data);
  size_t data_off = a.offset();
  a.embed(data.data(), data.size());
  if (e1 != Error::kOk || e2 != Error::kOk) {
    ctx.fail_unless_known("emit-error:x64", fmt("[host] Assembler emit_prolog -> %u, emit_epilog -> %u :: %s :: %s", unsigned(e1), unsigned(e2), describe(p, b).c_str(), make_listing(p, b).c_str()));
    return;
  }
  const CodeBuffer& cb = code.text_section()->buffer();
  if (cb.size() > kExecSize || cb.size() != data_off + D_SIZE) ctx.fail("harness-code-size", fmt("code buffer %zu bytes, data at %zu", cb.size(), data_off));
  memcpy(g_exec, cb.data(), cb.size());
  uint8_t* dp = g_exec + data_off;
  auto getd = [&](uint32_t off) { uint64_t v; memcpy(&v, dp + off, 8); return v; };
  std::string listing;
  auto lst = [&]() -> const std::string& { if (listing.empty()) listing = make_listing(p, b); return listing; };

  // ---- machine state and the private stack ----
  static MState st;
  memset(&st, 0, sizeof st);
  for (int i = 0; i < 16; i++) st.gpr[i] = in.gp[i];
  st.rflags = 0x202; st.mxcsr = 0x1F80;
  for (int i = 0; i < 8; i++) st.k[i] = in.k[i];
  memcpy(st.zmm, in.vec, sizeof st.zmm);
  for (int i = 0; i < MSC_STACK_WORDS; i++) st.stack[i] = mix(p.seed * 31 + 900 + uint64_t(i));
  uint64_t stack_in[MSC_STACK_WORDS];
  memcpy(stack_in, st.stack, sizeof stack_in);
  uint8_t *lo = nullptr, *hi = nullptr, *ent = nullptr;
  msc_stack_bounds(&lo, &hi, &ent);
  if (!g_stack_filled) { msc_stack_fill(0xC7); g_stack_filled = true; }
  const size_t kWin = std::min<size_t>(0x48000, (size_t(f.final_stack_size()) + f.stack_adjustment() + 0x2FFF) & ~size_t(0xFFF));
  uint8_t* win_lo = ent - kWin;
  if (win_lo < lo) ctx.fail("harness-stack-too-small", "private stack smaller than the window");
  static uint8_t* s_prev_lo = nullptr;
  uint8_t* fill_lo = (s_prev_lo && s_prev_lo < win_lo) ? s_prev_lo : win_lo;
  memset(fill_lo, 0xC7, size_t(hi - fill_lo));
  s_prev_lo = win_lo;
  win_lo = lo;     // the scan below covers the whole private stack
  uint64_t E = uint64_t(uintptr_t(ent));
  uint64_t rsp_call = E - 8 - 16 * k - 8 * kThunkWords;
  uint64_t E_in = rsp_call - 8;

  int sig = msc_run((void (*)())g_exec, &st);
  ctx.cls("host_executed");
  std::string where = fmt("thunk@0 fn@%zu body@%zu epilog@%zu end@%zu", fn_off, body_off, epi_off, end_off);
  if (sig != 0) {
    uint64_t rip = msc_fault_rip(), cb0 = uint64_t(uintptr_t(g_exec));
    bool inside = rip >= cb0 && rip < cb0 + end_off;
    std::string key = inside ? "exec-fault:" + b.cc : "return-address-lost:" + b.cc;
    ctx.fail_unless_known(key, fmt("[host] signal %d at %s (code offset %lld; %s), fault address %s, entry SP %s :: %s :: %s", sig, hex(rip).c_str(), (long long)(rip - cb0), where.c_str(),
                                   hex(msc_fault_addr()).c_str(), hex(E_in).c_str(), describe(p, b).c_str(), lst().c_str()));
    memset(lo, 0xC7, size_t(hi - lo));     // unknown damage: refill everything
    s_prev_lo = nullptr;
    return;
  }
  if (getd(D_RETURNED) != 1 || st.rsp_exit != st.rsp_entry + 8 || st.rsp_entry != E) {
    ctx.fail_unless_known("return-address-lost:" + b.cc, fmt("[host] the function did not come back through its return address (flag %llu, thunk rsp %s -> %s) :: %s :: %s",
                          (unsigned long long)getd(D_RETURNED), hex(st.rsp_entry).c_str(), hex(st.rsp_exit).c_str(), describe(p, b).c_str(), lst().c_str()));
    return;
  }
  uint64_t after = getd(D_AFTER_RSP), S = getd(D_BODY_RSP);
  if (after != rsp_call + b.callee_pop)
    ctx.fail_unless_known("rsp-not-restored:" + b.cc, fmt("[host] rsp after return %s, expected %s (entry %s + 8 + callee-popped %u) :: %s :: %s", hex(after).c_str(), hex(rsp_call + b.callee_pop).c_str(), hex(E_in).c_str(), b.callee_pop, describe(p, b).c_str(), lst().c_str()));
  check_body_sp(p, b, ctx, S, "host");
  if ((!b.da && E_in - S != f.final_stack_size()) || (b.da && E_in - S < f.final_stack_size()))
    ctx.fail_unless_known("final-stack-size-mismatch:" + b.cc, fmt("[host] entry rsp - body rsp = %llu, final_stack_size() = %u :: %s :: %s", (unsigned long long)(E_in - S), f.final_stack_size(), describe(p, b).c_str(), lst().c_str()));
  if (b.fp && getd(D_BODY_RBP) != E_in - 8)
    ctx.fail_unless_known("frame-pointer-wrong:" + b.cc, fmt("[host] rbp in the body %s, expected entry rsp - 8 = %s :: %s :: %s", hex(getd(D_BODY_RBP)).c_str(), hex(E_in - 8).c_str(), describe(p, b).c_str(), lst().c_str()));
  for (size_t j = 0; j < nsa; j++) {
    uint64_t want; memcpy(&want, (const void*)uintptr_t(rsp_call + uint64_t(b.stack_args[j])), 8);
    const char* names[3] = {"rsp+sa_offset_from_sp", "rbp+sa_offset_from_sa", "sa_reg+sa_offset_from_sa"};
    bool use[3] = {sp_path, b.fp, sa_path};
    const char* tagk[3] = {":sp", ":fp", ":sa"};
    for (int q = 0; q < 3; q++)
      if (use[q] && getd(D_ARGS + uint32_t(q) * 128 + uint32_t(j) * 8) != want)
        ctx.fail_unless_known("stack-arg-offset-wrong:" + b.cc + tagk[q], fmt("[host] stack argument at offset %d read through %s is %s, the caller stored %s :: %s :: %s", b.stack_args[j], names[q],
                              hex(getd(D_ARGS + uint32_t(q) * 128 + uint32_t(j) * 8)).c_str(), hex(want).c_str(), describe(p, b).c_str(), lst().c_str()));
  }
  RegState out;
  memset(&out, 0, sizeof out);
  for (int i = 0; i < 16; i++) out.gp[i] = st.gpr[i];
  for (int i = 0; i < 8; i++) { out.k[i] = st.k[i]; out.mm[i] = use_mm ? getd(D_MM_AFTER + 8 * uint32_t(i)) : in.mm[i]; }
  memcpy(out.vec, st.zmm, sizeof st.zmm);
  check_regs(p, b, ctx, in, out, "host", use_mm, vzu, lst());
  // ---- memory the function must not touch ----
  {
    const uint8_t* low_ok = (const uint8_t*)uintptr_t(S - f.red_zone_size());
    const uint8_t* scratch = hi - 32768 - 8;      // the trampoline's pushfq/pop slot
    const uint8_t* bad = nullptr;
    if (low_ok > win_lo && low_ok <= hi) {
      if (scratch >= win_lo && scratch < low_ok) { bad = first_not(win_lo, scratch, 0xC7); if (!bad && scratch + 8 < low_ok) bad = first_not(scratch + 8, low_ok, 0xC7); }
      else bad = first_not(win_lo, low_ok, 0xC7);
    }
    if (bad)
      { memset(lo, 0xC7, size_t(hi - lo)); s_prev_lo = nullptr;
        ctx.fail_unless_known("canary-below-frame", fmt("[host] byte %llu below (body rsp - red zone) was written (body rsp %s) :: %s :: %s", (unsigned long long)(low_ok - bad), hex(S).c_str(), describe(p, b).c_str(), lst().c_str())); }
    uint32_t spill = (p.has(F_WRITE_SPILL) ? f.spill_zone_size() : 0);
    std::string cf;
    for (uint32_t i = 0; i < kThunkWords && cf.empty(); i++) {
      uint64_t w; memcpy(&w, (const void*)uintptr_t(rsp_call + 8 * i), 8);
      uint64_t want = (8 * i < spill) ? 0xB4B4B4B4B4B4B4B4ull : uint64_t(int64_t(tword(i)));
      if (w != want) cf = fmt("caller word #%u at entry rsp + %u is %s, expected %s", i, 8 + 8 * i, hex(w).c_str(), hex(want).c_str());
    }
    if (cf.empty() && first_not((const uint8_t*)uintptr_t(rsp_call + 8 * kThunkWords), ent, 0xC7)) cf = "padding between the caller words and the thunk's return address was written";
    if (cf.empty() && (memcmp(stack_in, st.stack, sizeof stack_in) != 0 || memcmp(stack_in, ent + 8, sizeof stack_in) != 0)) cf = "the words above the thunk's return address changed";
    if (cf.empty() && first_not(ent + 8 + sizeof stack_in, hi, 0xC7)) cf = "bytes above the argument words were written";
    if (!cf.empty())
      ctx.fail_unless_known("caller-frame-clobbered", fmt("[host] %s :: %s :: %s", cf.c_str(), describe(p, b).c_str(), lst().c_str()));
  }
}

} // namespace

// ---------------------------------------------------------------------------------------------------------------------------
// Generator, enumeration, property body
// ---------------------------------------------------------------------------------------------------------------------------
rc::Gen<vh::Case> vh_gen(const vh::Opts&) {
  using vh::irange;
  return rc::gen::exec([]() -> vh::Case {
    auto pct = [](int n) { return *irange<int>(0, 99) < n; };
    auto r32 = []() { return int64_t(uint32_t(*irange<int>(0, 0xFFFF)) | (uint32_t(*irange<int>(0, 0xFFFF)) << 16)); };
    auto mask = [&](int zero_pct) -> int64_t {
      if (pct(zero_pct)) return 0;
      switch (*irange<int>(0, 4)) { case 0: return 0xFFFFFFFFll; case 1: return r32() & r32(); case 2: return r32(); case 3: return r32() | r32(); default: return int64_t(1) << *irange<int>(0, 31); }
    };
    vh::Case c;
    c.cfg.assign(20, 0);
    int as = *irange<int>(0, 99);
    int arch = as < 50 ? ARCH_X64 : as < 75 ? ARCH_X86 : ARCH_A64;
    c.cfg[0] = arch;
    if (arch == ARCH_X64) { static const int t[] = {11, 11, 11, 0, 12, 12, 12, 3, 3, 8, 9, 10, 1, 2, 4, 5, 6, 7, 0, 3}; c.cfg[1] = t[*irange<int>(0, 19)]; }
    else if (arch == ARCH_X86) c.cfg[1] = *irange<int>(0, 10);
    else c.cfg[1] = pct(85) ? *irange<int>(0, 1) : *irange<int>(2, 4);
    c.cfg[2] = *irange<int>(0, 1);
    c.cfg[3] = pct(35) ? *irange<int>(0, 4) : (arch == ARCH_A64 || pct(25)) ? *irange<int>(7, 12) : *irange<int>(5, 8);
    if (pct(55)) { static const int ints[] = {0, 1, 2, 7, 6, 1, 2, 0}; int64_t v = 0; for (int i = 0; i < 8; i++) v |= int64_t(ints[*irange<int>(0, 7)]) << (3 * i); c.cfg[4] = v; }
    else c.cfg[4] = *irange<int>(0, (1 << 24) - 1);
    c.cfg[5] = mask(10); c.cfg[6] = mask(25); c.cfg[7] = mask(65); c.cfg[8] = mask(75);
    auto size = [&](int zero_pct) -> int64_t {
      if (pct(zero_pct)) return 0;
      int s = *irange<int>(0, 99);
      if (s < 30) return *irange<int>(1, 64);
      if (s < 55) return *irange<int>(65, 4096);
      if (s < 75) return *irange<int>(4097, 65536);
      static const int bnd[] = {8, 16, 24, 40, 4095, 4096, 4097, 8192, 32767, 32768, 65535, 65536, 1, 4, 12, 100};
      return bnd[*irange<int>(0, 15)];
    };
    c.cfg[9] = size(15);
    c.cfg[10] = pct(20) ? 0 : *irange<int>(1, 7);
    c.cfg[11] = size(45);
    c.cfg[12] = pct(50) ? 0 : *irange<int>(1, 7);
    int64_t fl = 0;
    static const int prob[15] = {40, 15, 40, 15, 40, 25, 12, 15, 15, 15, 30, 50, 10, 15, 4};
    for (int i = 0; i < 15; i++) if (pct(prob[i])) fl |= int64_t(1) << i;
    c.cfg[13] = fl;
    c.cfg[14] = pct(75) ? 0 : *irange<int>(1, 29);
    if (pct(18)) { if (pct(50)) c.cfg[15] = mask(0); if (pct(60)) c.cfg[16] = mask(0) & 0xFF; if (pct(40)) c.cfg[17] = mask(0) & 0xFF; }
    c.cfg[18] = *irange<int>(0, 15);
    c.cfg[19] = *irange<int>(0, 999);
    return c;
  });
}

// Deterministic grid: arch x convention x platform x FP x alignment x size preset x dirty preset.
bool vh_enum(const vh::Opts& o, uint64_t k, vh::Case& out) {
  uint64_t idx = k * uint64_t(std::max(1, o.workers)) + uint64_t(o.worker);
  static const int ncc[3] = {13, 11, 5};
  uint64_t per_arch[3], total = 0;
  for (int a = 0; a < 3; a++) { per_arch[a] = uint64_t(ncc[a]) * 2 * 2 * 5 * 3 * 3; total += per_arch[a]; }
  if (idx >= total) return false;
  int arch = 0;
  while (idx >= per_arch[arch]) { idx -= per_arch[arch]; arch++; }
  out = vh::Case();
  out.cfg.assign(20, 0);
  out.cfg[0] = arch;
  out.cfg[1] = int64_t(idx % uint64_t(ncc[arch])); idx /= uint64_t(ncc[arch]);
  out.cfg[2] = int64_t(idx % 2); idx /= 2;
  int fp = int(idx % 2); idx /= 2;
  static const int als[5] = {0, 4, 5, 6, 7};
  out.cfg[10] = als[idx % 5]; idx /= 5;
  int sp = int(idx % 3); idx /= 3;
  int dp = int(idx % 3);
  out.cfg[9] = sp == 0 ? 0 : sp == 1 ? 24 : 4104;
  out.cfg[11] = sp == 2 ? 40 : 0;
  out.cfg[3] = arch == ARCH_A64 ? 11 : 8; out.cfg[4] = 0x249249;          // 64-bit integer arguments, some on the stack
  int64_t m = dp == 0 ? 0 : dp == 1 ? 0xFFFFFFFFll : 0xAAAAAAAAll;
  out.cfg[5] = m; out.cfg[6] = m; out.cfg[7] = dp == 1 ? 0xFF : 0; out.cfg[8] = 0;
  out.cfg[13] = (fp ? F_FP : 0) | (dp == 1 ? (F_AVX | F_AVX512) : dp == 2 ? F_AVX : 0) | (sp == 2 ? F_FUNC_CALLS : 0) | F_WRITE_SPILL;
  out.cfg[18] = int64_t((k * 7 + 3) % 16);
  out.cfg[19] = int64_t(k % 1000);
  return true;
}

void vh_run(const vh::Case& c, vh::Ctx& ctx) {
  P p = decode(c);
  Built b;
  static const char* an[3] = {"x64", "x86", "a64"};
  ctx.cls(std::string("arch_") + an[p.arch]);
  if (!build(p, b, ctx)) { ctx.cls("build_refused"); return; }
  const FuncFrame& f = b.frame;
  ctx.cls("cc_" + b.cc);
  if (b.custom) ctx.cls("custom_preserved_regs");
  ctx.cls(b.fp ? "fp_preserved" : "fp_omitted");
  ctx.cls(b.da ? (b.fp ? "dyn_align_with_fp" : "dyn_align_without_fp") : "no_dyn_align");
  ctx.cls(std::string("final_align_") + std::to_string(f.final_stack_alignment()));
  ctx.cls(f.local_stack_size() == 0 ? "local_0" : f.local_stack_size() <= 64 ? "local_1_64" : f.local_stack_size() <= 4096 ? "local_65_4096" : f.local_stack_size() < 65536 ? "local_4097_65535" : "local_64k");
  ctx.cls(f.call_stack_size() == 0 ? "call_0" : f.call_stack_size() <= 128 ? "call_1_128" : "call_large");
  int groups = 0;
  static const char* gn[4] = {"gp", "vec", "k", "mm"};
  for (int g = 0; g < 4; g++) if (f.saved_regs(RegGroup(g))) { groups++; ctx.cls(std::string("saves_") + gn[g]); }
  ctx.cls(std::string("saved_groups_") + std::to_string(groups));
  if (p.arch != ARCH_A64 && f.saved_regs(RegGroup::kVec)) {
    ctx.cls(f.has_aligned_vec_save_restore() ? "vec_save_aligned" : "vec_save_unaligned");
    ctx.cls(f.is_avx512_enabled() ? "vec_save_mode_avx512" : f.is_avx_enabled() ? "vec_save_mode_avx" : "vec_save_mode_sse");
    if (f.saved_regs(RegGroup::kVec) >> 16) ctx.cls("vec_save_high16");
  }
  if (!b.stack_args.empty()) ctx.cls("has_stack_args");
  if (f.has_callee_stack_cleanup()) ctx.cls("callee_pops");
  if (p.sa_reg >= 0) ctx.cls("explicit_sa_reg");
  if (f.has_da_offset()) ctx.cls("da_slot");
  if (f.has_red_zone()) ctx.cls("red_zone"); if (f.has_spill_zone()) ctx.cls("spill_zone");
  if (f.has_func_calls()) ctx.cls("func_calls");
  if (f.has_indirect_branch_protection()) ctx.cls("ibt");
  if (f.has_avx_cleanup() || f.has_avx_auto_cleanup()) ctx.cls("avx_cleanup");
  if (f.has_mmx_cleanup()) ctx.cls("mmx_cleanup");
  if (f.stack_adjustment() == 0) ctx.cls("no_stack_adjustment");
  if (p.has(F_ALL_DIRTY)) ctx.cls("set_all_dirty");

  check_layout(p, b, ctx);
  // SSE moves cannot name xmm16..31: the frame must use (E)VEX moves whenever such a register is saved.
  if (p.arch != ARCH_A64 && !f.is_avx_enabled() && (f.saved_regs(RegGroup::kVec) >> 16) != 0) {
    ctx.cls("sse_save_of_high_xmm");
    // While the finding is listed these frames are skipped (the host run would execute moves of the wrong registers); once it is
    // retired the reference machine judges the emitted instructions (legacy SSE move naming xmm16+ -> same key).
    if (ctx.is_known("vec-save-sse-with-xmm16plus")) { ctx.known_excluded("vec-save-sse-with-xmm16plus"); return; }
  }
  bool nosim = ctx.opts && ctx.opts->geti("nosim", 0), nohost = ctx.opts && ctx.opts->geti("nohost", 0);   // oracle selection for sensitivity studies
  if (!nosim) { run_sim(p, b, ctx); ctx.cls("simulated"); }
  if (p.arch == ARCH_X64 && !nohost) run_host(p, b, ctx); else ctx.cls("arithmetic_and_reference_machine_only");

  if (groups >= 2 || b.da || f.local_stack_size() > 4096) {
    ctx.nontrivial();
    if (ctx.want_sample()) ctx.sample(describe(p, b) + " :: " + make_listing(p, b));
  }
}
