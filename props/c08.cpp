// C08 — Builder/Compiler serialization is byte-identical to direct assembling.
//
// Case: cfg = [arch (0 x86-32, 1 x86-64, 2 AArch64), flags]   ops = one emitter call or one node-list edit each (see Kind).
//   flags: 1 kValidateAssembler on every path, 2 (+1) kValidateIntermediate on Builder/Compiler, 4 logger attached,
//          8 kOptimizeForSize, 16 kOptimizedAlign, 32/64 (two bits): 1..3 labels created through the CodeHolder before any emitter is attached
// Paths:  A  Assembler, calls in natural order (per-call errors)
//         B  Builder  + edits, finalize()          C  Compiler (physical registers only) + the same edits, finalize()
//         R  fresh Assembler fed with the harness's own list of calls in node order (= the edited sequence); stops at the
//            first error like serialize_to() does.
// Oracle: B == R and C == R (section bytes, labels, relocations, fixups, finalize error code); A == R whenever no edit and no
//         section re-entry reordered the calls (then R is literally "the same sequence issued directly to an Assembler").
#define VH_MAIN
#include "vh.h"
#include "gen/x86inst.h"

#include <asmjit/core.h>
#include <asmjit/x86.h>
#include <asmjit/a64.h>

#include <memory>

using namespace asmjit;

const char* vh_property() { return "C08"; }

// ---------------------------------------------------------------------------------------------------------------------
// x86 ISA database (forms usable by xi::instantiate) ---------------------------------------------------------------------
static xdb::DB g_db;
static std::vector<InstId> g_instid;                 // per form
static std::vector<char> g_usable[2];               // [mode64][form]
static std::vector<int> g_next_usable[2];           // next usable form index at or after i (cyclic)
static std::vector<int> g_cls[2][4];                // generator classes: 0 all, 1 >=4 explicit operands, 2 {k}, 3 lock/rep

static int explicit_ops(const xdb::Form& f) {
  int n = 0;
  for (const xdb::Op& d : f.ops) if (!(d.implicit && d.immValue.empty())) n++;
  return n;
}

void vh_init(const vh::Opts& o, vh::Ctx&) {
  std::string path = "build/gen/x86_forms.txt";
  auto it = o.kv.find("forms");
  if (it != o.kv.end()) path = it->second;
  if (!g_db.load(path.c_str())) { fprintf(stderr, "cannot load %s\n", path.c_str()); exit(2); }
  size_t n = g_db.forms.size();
  g_instid.resize(n);
  for (int m = 0; m < 2; m++) { g_usable[m].assign(n, 0); g_next_usable[m].assign(n, -1); }
  for (size_t i = 0; i < n; i++) {
    const xdb::Form& f = g_db.forms[i];
    g_instid[i] = InstAPI::string_to_inst_id(Arch::kX64, f.name.c_str(), f.name.size());
    if (!g_instid[i] || f.is_apx()) continue;
    bool ok = true;
    for (const xdb::Op& d : f.ops) {
      if (d.implicit && d.immValue.empty()) continue;
      if (d.is_rel() || d.data == "dfv") ok = false;
      if (d.is_reg()) { xi::RC rc; int fx; if (!xi::db_reg_class(d.reg, rc, fx) && !d.is_mem()) ok = false; }
    }
    if (!ok) continue;
    for (int m = 0; m < 2; m++) {
      if (!f.mode_ok(m ? 64 : 32)) continue;
      g_usable[m][i] = 1;
      g_cls[m][0].push_back(int(i));
      if (explicit_ops(f) >= 4) g_cls[m][1].push_back(int(i));
      if (f.kmask) g_cls[m][2].push_back(int(i));
      if (f.lock || f.rep || f.repne) g_cls[m][3].push_back(int(i));
    }
  }
  for (int m = 0; m < 2; m++) {
    int nx = -1;
    for (size_t r = 0; r < 2 * n; r++) { size_t i = (2 * n - 1 - r) % n; if (g_usable[m][i]) nx = int(i); g_next_usable[m][i] = nx; }
    if (g_cls[m][0].empty()) { fprintf(stderr, "no usable x86 forms\n"); exit(2); }
  }
}

// ---------------------------------------------------------------------------------------------------------------------
enum Kind { K_INST = 0, K_LINST, K_NEWLABEL, K_BIND, K_ALIGN, K_EMBED, K_DATA, K_CPOOL, K_ELABEL, K_EDELTA, K_COMMENT, K_NEWSEC, K_SECTION,
            K_RM, K_RMRANGE, K_REINS, K_SETCUR, K_COUNT };
static const char* kKindName[K_COUNT] = {"inst", "label-inst", "new-label", "bind", "align", "embed", "embed-data-array", "embed-const-pool", "embed-label",
                                         "embed-label-delta", "comment", "new-section", "section", "remove-node", "remove-nodes", "reinsert", "set-cursor"};

static const char* kComments[] = {"c0", "a somewhat longer inline comment ; with punctuation", "", "x"};

static uint64_t mix(uint64_t x) { x += 0x9E3779B97F4A7C15ull; x = (x ^ (x >> 30)) * 0xBF58476D1CE4E5B9ull; x = (x ^ (x >> 27)) * 0x94D049BB133111EBull; return x ^ (x >> 31); }

struct Call {
  int kind = K_INST;
  // instruction
  bool is_db = false;
  xi::XInst x;
  InstId inst = 0;
  Operand ops[6];
  uint32_t nops = 0;
  InstOptions opt = InstOptions::kNone;
  bool has_extra = false;
  Reg extra;
  const char* comment = nullptr;
  bool interesting = false;       // >3 operands or option / extra register
  std::string text;               // rendering / comment text
  // data
  AlignMode amode = AlignMode::kCode;
  uint32_t alignment = 0;
  std::vector<uint8_t> data;
  TypeId type = TypeId::kUInt8;
  size_t count = 0, repeat = 1, size = 0;
  uint32_t label = Globals::kInvalidId, label2 = Globals::kInvalidId;
  std::shared_ptr<ConstPool> pool;
  uint32_t section = 0;
};

static Error issue(BaseEmitter& e, CodeHolder& code, const Call& c) {
  switch (c.kind) {
    case K_INST:
    case K_LINST:
      if (c.comment) e.set_inline_comment(c.comment);
      if (c.is_db) {
        e.add_inst_options(c.opt);
        if (c.has_extra) e.set_extra_reg(c.extra);
        return xi::emit(e, c.inst, c.x);
      }
      e.set_inst_options(c.opt);
      if (c.has_extra) e.set_extra_reg(c.extra);
      return e.emit_op_array(c.inst, c.ops, c.nops);
    case K_BIND: return e.bind(Label(c.label));
    case K_ALIGN: return e.align(c.amode, c.alignment);
    case K_EMBED: return e.embed(c.data.data(), c.size);
    case K_DATA: return e.embed_data_array(c.type, c.data.data(), c.count, c.repeat);
    case K_CPOOL: return e.embed_const_pool(Label(c.label), *c.pool);
    case K_ELABEL: return e.embed_label(Label(c.label), c.size);
    case K_EDELTA: return e.embed_label_delta(Label(c.label), Label(c.label2), c.size);
    case K_COMMENT: return e.comment(c.text.c_str(), c.text.size());
    case K_SECTION: return e.section(code.section_by_id(c.section));
    default: return Error::kOk;
  }
}

// ---- x86 instructions ------------------------------------------------------------------------------------------------
static const InstOptions kNoiseOpts[] = {
  InstOptions::kX86_Rex, InstOptions::kX86_Vex3, InstOptions::kX86_Evex, InstOptions::kX86_ModMR, InstOptions::kX86_ModRM, InstOptions::kLongForm,
  InstOptions::kShortForm, InstOptions::kX86_Lock, InstOptions::kX86_Rep, InstOptions::kX86_Repne, InstOptions::kX86_XAcquire, InstOptions::kX86_XRelease,
  InstOptions::kX86_ZMask, InstOptions::kX86_SAE, InstOptions::kTaken, InstOptions::kNotTaken, InstOptions::kX86_Vex, InstOptions::kOverwrite, InstOptions::kUnfollow};

// op = [K_INST, form, comment, noise, choices...]
static void decode_x86_inst(const vh::Op& op, int mode, Call& c) {
  auto G = [&](size_t i) -> uint64_t { return i < op.size() ? uint64_t(op[i]) : 0; };
  int m = mode == 64;
  size_t fi = size_t(g_next_usable[m][G(1) % g_db.forms.size()]);
  const xdb::Form& f = g_db.forms[fi];
  xi::Choices ch(op, 4);
  c.kind = K_INST;
  c.is_db = true;
  c.x = xi::instantiate(f, mode, ch);
  c.inst = g_instid[fi];
  uint64_t cm = G(2), nz = G(3);
  if (cm % 4 == 0) c.comment = kComments[(cm >> 2) % 4];
  if (nz % 20 == 0) c.opt |= kNoiseOpts[(nz / 20) % (sizeof(kNoiseOpts) / sizeof(kNoiseOpts[0]))];
  if ((c.x.options & (xi::kOptRep | xi::kOptRepne)) && ((nz >> 8) & 1)) {
    // rep(zcx): the count register as extra register
    c.has_extra = true;
    c.extra = mode == 64 ? (((nz >> 9) & 3) == 0 ? Reg(x86::ecx) : Reg(x86::rcx)) : Reg(x86::ecx);
  } else if ((nz >> 11) % 60 == 0) {
    c.has_extra = true;                                // arbitrary extra register (may be illegal: rejected on every path alike)
    c.extra = ((nz >> 16) & 1) ? Reg(x86::KReg(uint32_t((nz >> 17) % 8))) : Reg(x86::gpd(uint32_t((nz >> 17) % 8)));
  }
  c.nops = uint32_t(std::min<size_t>(c.x.ops.size(), 6));
  c.interesting = c.nops > 3 || c.x.options || c.x.k || c.x.z || c.x.er >= 0 || c.x.sae || c.opt != InstOptions::kNone || c.has_extra;
  c.text = xi::render(c.x);
}

static Reg x86_gp(int mode, int bits, uint32_t id) {
  id %= (mode == 64 ? 16u : 8u);
  if (bits == 64 && mode == 64) return x86::gpq(id);
  if (bits == 16) return x86::gpw(id);
  if (bits == 8) return x86::gpb_lo(mode == 64 ? id : id % 4);
  return x86::gpd(id);
}

// op = [K_LINST, shape, label, comment, choices...]; `lab` = resolved label id (may be invalid)
static void decode_x86_linst(const vh::Op& op, int mode, uint32_t lab, Call& c) {
  using namespace x86;
  auto G = [&](size_t i) -> uint64_t { return i < op.size() ? uint64_t(op[i]) : 0; };
  xi::Choices ch(op, 4);
  c.kind = K_LINST;
  c.label = lab;
  c.is_db = false;
  Label L(lab);
  uint64_t cm = G(3);
  if (cm % 4 == 0) c.comment = kComments[(cm >> 2) % 4];
  static const int32_t disps[] = {0, 0, 1, -1, 4, 127, 128, -128, 0x1000, 0x7fffff00, -0x12345};
  auto DISP = [&]() { return disps[ch.pick(11)]; };
  auto E = [&](InstId id, std::initializer_list<Operand> ops) { c.inst = id; c.nops = 0; for (const Operand& o : ops) c.ops[c.nops++] = o; };
  auto JOPT = [&]() { int s = ch.pick(8); if (s == 1) c.opt |= InstOptions::kShortForm; if (s == 2) c.opt |= InstOptions::kLongForm; };
  int shape = int(G(1) % 14);
  char tb[96];
  switch (shape) {
    case 0: E(Inst::kIdJmp, {L}); JOPT(); break;
    case 1: {
      static const InstId jcc[] = {Inst::kIdJa, Inst::kIdJae, Inst::kIdJb, Inst::kIdJbe, Inst::kIdJe, Inst::kIdJne, Inst::kIdJg, Inst::kIdJge, Inst::kIdJl, Inst::kIdJle,
                                   Inst::kIdJo, Inst::kIdJno, Inst::kIdJs, Inst::kIdJns, Inst::kIdJp, Inst::kIdJnp};
      E(jcc[ch.pick(16)], {L}); JOPT();
      int h = ch.pick(8); if (h == 0) c.opt |= InstOptions::kTaken; if (h == 1) c.opt |= InstOptions::kNotTaken;
      break;
    }
    case 2: E(Inst::kIdCall, {L}); break;
    case 3: {
      static const InstId lp[] = {Inst::kIdLoop, Inst::kIdLoope, Inst::kIdLoopne, Inst::kIdJecxz};
      Reg zcx = mode == 64 ? (ch.pick(4) == 0 ? Reg(ecx) : Reg(rcx)) : (ch.pick(4) == 0 ? Reg(cx) : Reg(ecx));
      E(lp[ch.pick(4)], {zcx, L});
      break;
    }
    case 4: E(Inst::kIdXbegin, {L}); break;
    case 5: E(Inst::kIdLea, {x86_gp(mode, ch.pick(2) ? 64 : 32, uint32_t(ch.pick(16))), Mem(L, DISP())}); break;
    case 6: { int b = ch.pick(3); int bits = b == 0 ? 32 : b == 1 ? 64 : 16; E(Inst::kIdMov, {x86_gp(mode, bits, uint32_t(ch.pick(16))), Mem(L, DISP())}); break; }
    case 7: { int b = ch.pick(3); int bits = b == 0 ? 32 : b == 1 ? 64 : 8; E(Inst::kIdMov, {Mem(L, DISP()), x86_gp(mode, bits, uint32_t(ch.pick(16)))}); break; }
    case 8: {
      static const InstId ids[] = {Inst::kIdCmp, Inst::kIdMov, Inst::kIdAdd, Inst::kIdTest};
      static const uint32_t sz[] = {1, 2, 4, 8};
      static const int64_t imms[] = {0, 1, -1, 127, 128, 0x1234, 0x12345678};
      uint32_t s = sz[ch.pick(mode == 64 ? 4 : 3)];
      E(ids[ch.pick(4)], {Mem(L, DISP(), s), Imm(imms[ch.pick(s == 1 ? 4 : s == 2 ? 6 : 7)])});
      break;
    }
    case 9: {
      uint32_t nv = mode == 64 ? 32 : 8;
      Mem mm(L, DISP());
      if (ch.pick(2)) { mm.set_size(4); mm.set_broadcast(Mem::Broadcast::k1To16); } else mm.set_size(64);
      if (ch.pick(2)) E(Inst::kIdVaddps, {zmm(uint32_t(ch.pick(int(nv)))), zmm(uint32_t(ch.pick(int(nv)))), mm});
      else E(Inst::kIdVpternlogd, {zmm(uint32_t(ch.pick(int(nv)))), zmm(uint32_t(ch.pick(int(nv)))), mm, Imm(ch.pick(256))});
      int k = ch.pick(8);
      if (k) { c.has_extra = true; c.extra = KReg(uint32_t(k)); if (ch.pick(2)) c.opt |= InstOptions::kX86_ZMask; }
      break;
    }
    case 10:   // [label + index*scale + disp] exists in 32-bit mode only (64-bit: rejected; generated rarely)
      if (mode == 32 || ch.pick(8) == 0) E(Inst::kIdLea, {x86_gp(mode, 32, uint32_t(ch.pick(16))), Mem(L, x86_gp(mode, mode, uint32_t(ch.pick(16))), uint32_t(ch.pick(4)), DISP())});
      else E(Inst::kIdLea, {x86_gp(mode, 64, uint32_t(ch.pick(16))), Mem(L, DISP())});
      break;
    case 11: {
      static const uint64_t abs[] = {0, 0x1000, 0x7fffffff, 0x80000000ull, 0x123456789ull, 0xffffffffffffff00ull};
      E(ch.pick(2) ? Inst::kIdJmp : Inst::kIdCall, {Imm(abs[ch.pick(mode == 64 ? 6 : 4)])});
      break;
    }
    case 12: E(ch.pick(2) ? Inst::kIdJmp : Inst::kIdCall, {Mem(L, DISP(), uint32_t(mode / 8))}); break;
    default: E(Inst::kIdPush, {Mem(L, DISP(), uint32_t(mode / 8))}); break;
  }
  c.interesting = c.nops > 3 || c.opt != InstOptions::kNone || c.has_extra;
  snprintf(tb, sizeof tb, "x86-label-shape%d(L%u)", shape, lab);
  c.text = tb;
}

// ---- AArch64 instruction shapes ----------------------------------------------------------------------------------------
static const int kA64Shapes = 66;
static const int kA64LabelShapes = 10;

struct A64Env {
  xi::Choices& c;
  Call& out;
  A64Env(xi::Choices& cc, Call& o) : c(cc), out(o) {}
  a64::Gp X(bool allow_sp = false, bool allow_zr = false) {
    int id = c.pick(34);
    if (id == 31) return allow_sp ? a64::sp : a64::x(29);
    if (id >= 32) return allow_zr ? a64::xzr : a64::x(uint32_t(id - 32));
    return a64::x(uint32_t(id));
  }
  a64::Gp W(bool allow_sp = false, bool allow_zr = false) { a64::Gp g = X(allow_sp, allow_zr); return g.r32(); }
  a64::Gp R(bool is64) { return is64 ? X() : W(); }
  a64::Vec V() { return a64::v(uint32_t(c.pick(32))); }
  a64::Vec VA(const a64::Vec& v, int arr) {
    switch (arr % 7) { case 0: return v.b8(); case 1: return v.b16(); case 2: return v.h4(); case 3: return v.h8(); case 4: return v.s2(); case 5: return v.s4(); default: return v.d2(); }
  }
  Imm CC() { return Imm(uint32_t(2 + c.pick(14))); }
  Imm SH(int maxv) { static const arm::ShiftOp k[] = {arm::ShiftOp::kLSL, arm::ShiftOp::kLSR, arm::ShiftOp::kASR}; return Imm(arm::Shift(k[c.pick(3)], uint32_t(c.pick(maxv)))); }
  Imm EXT() {
    static const arm::ShiftOp k[] = {arm::ShiftOp::kUXTB, arm::ShiftOp::kUXTH, arm::ShiftOp::kUXTW, arm::ShiftOp::kUXTX, arm::ShiftOp::kSXTB, arm::ShiftOp::kSXTH, arm::ShiftOp::kSXTW, arm::ShiftOp::kSXTX};
    return Imm(arm::Shift(k[c.pick(8)], uint32_t(c.pick(5))));
  }
  // memory operand with every addressing mode; scale = log2(access size)
  a64::Mem M(int scale, bool allow_index = true, bool allow_prepost = true) {
    a64::Gp base = X(true);
    int mode = c.pick(8);
    static const int32_t simm[] = {0, 1, -1, 8, -8, 255, -256, 16};
    switch (mode) {
      case 0: return a64::ptr(base);
      case 1: return a64::ptr(base, int32_t(c.pick(64) << scale));                 // scaled unsigned offset
      case 2: return a64::ptr(base, int32_t(4095 << scale));
      case 3: return allow_prepost ? a64::ptr_pre(base, simm[c.pick(8)]) : a64::ptr(base, simm[c.pick(8)]);
      case 4: return allow_prepost ? a64::ptr_post(base, simm[c.pick(8)]) : a64::ptr(base);
      case 5: if (allow_index) return a64::ptr(base, X()); return a64::ptr(base);
      case 6: if (allow_index) return a64::ptr(base, X(), a64::lsl(uint32_t(c.pick(2) ? scale : 0))); return a64::ptr(base, 8 << scale);
      default:
        if (allow_index) return a64::ptr(base, W(), c.pick(2) ? a64::uxtw(uint32_t(c.pick(2) ? scale : 0)) : a64::sxtw(uint32_t(c.pick(2) ? scale : 0)));
        return a64::ptr(base, simm[c.pick(8)]);                                      // unscaled (ldur-like) offset
    }
  }
  a64::Mem MP(int scale) {   // pair addressing: offset / pre / post, imm7 scaled
    a64::Gp base = X(true);
    int32_t off = int32_t(c.pick(128) - 64) * (1 << scale);
    int mode = c.pick(3);
    return mode == 0 ? a64::ptr(base, off) : mode == 1 ? a64::ptr_pre(base, off) : a64::ptr_post(base, off);
  }
  void E(InstId id, std::initializer_list<Operand> ops) { out.inst = id; out.nops = 0; for (const Operand& o : ops) out.ops[out.nops++] = o; }
};

static void a64_shape(int shape, xi::Choices& c, Call& out) {
  using namespace a64;
  namespace I = a64::Inst;
  A64Env e(c, out);
  bool w = c.pick(2) == 0;   // 32-bit variant
  switch (shape) {
    case 0: e.E(I::kIdNop, {}); break;
    case 1: e.E(I::kIdRet, {c.pick(2) ? x(30) : e.X()}); break;
    case 2: e.E(I::kIdBr, {e.X()}); break;
    case 3: e.E(I::kIdBlr, {e.X()}); break;
    case 4: e.E(I::kIdSvc, {Imm(c.pick(65536))}); break;
    case 5: e.E(I::kIdBrk, {Imm(c.pick(65536))}); break;
    case 6: e.E(I::kIdHint, {Imm(c.pick(128))}); break;
    case 7: e.E(I::kIdDmb, {Imm(c.pick(16))}); break;
    case 8: e.E(I::kIdMov, {e.R(!w), e.R(!w)}); break;
    case 9: {
      static const uint64_t v[] = {0, 1, 0xFFFF, 0x10000, ~uint64_t(0), 0xFFFF0000u, 0x5555555555555555ull, 0x00FF00FF00FF00FFull, 0x123456789ull};
      e.E(I::kIdMov, {e.X(), Imm(v[c.pick(9)])});
      break;
    }
    case 10: {
      static const InstId ids[] = {I::kIdMovz, I::kIdMovn, I::kIdMovk};
      InstId id = ids[c.pick(3)];
      if (c.pick(2)) e.E(id, {e.R(!w), Imm(c.pick(65536))});
      else e.E(id, {e.R(!w), Imm(c.pick(65536)), Imm(lsl(uint32_t(16 * c.pick(w ? 2 : 4))))});
      break;
    }
    case 11: { static const InstId ids[] = {I::kIdAdd, I::kIdAdds, I::kIdSub, I::kIdSubs}; e.E(ids[c.pick(4)], {e.R(!w), e.R(!w), e.R(!w)}); break; }
    case 12: { static const InstId ids[] = {I::kIdAdd, I::kIdAdds, I::kIdSub, I::kIdSubs}; e.E(ids[c.pick(4)], {e.R(!w), e.R(!w), e.R(!w), e.SH(w ? 32 : 64)}); break; }
    case 13: { static const InstId ids[] = {I::kIdAdd, I::kIdAdds, I::kIdSub, I::kIdSubs}; e.E(ids[c.pick(4)], {e.X(true), e.X(true), e.W(), e.EXT()}); break; }
    case 14: { static const InstId ids[] = {I::kIdAdd, I::kIdAdds, I::kIdSub, I::kIdSubs}; e.E(ids[c.pick(4)], {e.R(!w), e.R(!w), Imm(c.pick(4096))}); break; }
    case 15: { static const InstId ids[] = {I::kIdAdd, I::kIdAdds, I::kIdSub, I::kIdSubs}; e.E(ids[c.pick(4)], {e.X(true), e.X(true), Imm(c.pick(4096)), Imm(lsl(12))}); break; }
    case 16: {
      static const InstId ids[] = {I::kIdAnd, I::kIdOrr, I::kIdEor, I::kIdAnds};
      static const uint64_t lm[] = {1, 0xFF, 0xFF00, 0x5555555555555555ull, 0x7FFFFFFFFFFFFFFFull, 0xF0F0F0F0F0F0F0F0ull, 0x3};
      e.E(ids[c.pick(4)], {e.X(), e.X(), Imm(lm[c.pick(7)])});
      break;
    }
    case 17: { static const InstId ids[] = {I::kIdAnd, I::kIdOrr, I::kIdEor, I::kIdBic, I::kIdAnds}; e.E(ids[c.pick(5)], {e.R(!w), e.R(!w), e.R(!w), e.SH(w ? 32 : 64)}); break; }
    case 18: {
      static const InstId ids[] = {I::kIdCmp, I::kIdCmn, I::kIdTst};
      InstId id = ids[c.pick(3)];
      int k = c.pick(3);
      if (k == 0) e.E(id, {e.R(!w), e.R(!w)});
      else if (k == 1) e.E(id, {e.X(), Imm(id == I::kIdTst ? 0xFF : c.pick(4096))});
      else e.E(id, {e.R(!w), e.R(!w), e.SH(w ? 32 : 64)});
      break;
    }
    case 19: {
      int k = c.pick(4);
      if (k < 2) e.E(k ? I::kIdMadd : I::kIdMsub, {e.R(!w), e.R(!w), e.R(!w), e.R(!w)});
      else e.E(k == 2 ? I::kIdSmaddl : I::kIdUmaddl, {e.X(), e.W(), e.W(), e.X()});
      break;
    }
    case 20: { static const InstId ids[] = {I::kIdCsel, I::kIdCsinc, I::kIdCsinv, I::kIdCsneg}; e.E(ids[c.pick(4)], {e.R(!w), e.R(!w), e.R(!w), e.CC()}); break; }
    case 21: if (c.pick(2)) e.E(I::kIdCset, {e.R(!w), e.CC()}); else e.E(I::kIdCinc, {e.R(!w), e.R(!w), e.CC()}); break;
    case 22: {
      InstId id = c.pick(2) ? I::kIdCcmp : I::kIdCcmn;
      if (c.pick(2)) e.E(id, {e.R(!w), e.R(!w), Imm(c.pick(16)), e.CC()}); else e.E(id, {e.R(!w), Imm(c.pick(32)), Imm(c.pick(16)), e.CC()});
      break;
    }
    case 23: {
      static const InstId ids[] = {I::kIdUbfx, I::kIdSbfx, I::kIdBfi, I::kIdUbfiz};
      int sz = w ? 32 : 64; int lsb = c.pick(sz); int wd = 1 + c.pick(sz - lsb);
      e.E(ids[c.pick(4)], {e.R(!w), e.R(!w), Imm(lsb), Imm(wd)});
      break;
    }
    case 24: e.E(I::kIdExtr, {e.R(!w), e.R(!w), e.R(!w), Imm(c.pick(w ? 32 : 64))}); break;
    case 25: {
      static const InstId ids[] = {I::kIdLsl, I::kIdLsr, I::kIdAsr, I::kIdRor};
      InstId id = ids[c.pick(4)];
      if (c.pick(2)) e.E(id, {e.R(!w), e.R(!w), Imm(c.pick(w ? 32 : 64))}); else e.E(id, {e.R(!w), e.R(!w), e.R(!w)});
      break;
    }
    case 26: { static const InstId ids[] = {I::kIdClz, I::kIdRbit, I::kIdRev, I::kIdNeg, I::kIdMvn}; e.E(ids[c.pick(5)], {e.R(!w), e.R(!w)}); break; }
    case 27: { static const InstId ids[] = {I::kIdMul, I::kIdUdiv, I::kIdSdiv}; e.E(ids[c.pick(3)], {e.R(!w), e.R(!w), e.R(!w)}); break; }
    case 28: {
      static const uint32_t sr[] = {Predicate::SysReg::encode(3, 3, 4, 2, 0) /* NZCV */, Predicate::SysReg::encode(3, 3, 13, 0, 2) /* TPIDR_EL0 */,
                                    Predicate::SysReg::encode(3, 3, 4, 4, 0) /* FPCR */};
      if (c.pick(2)) e.E(I::kIdMrs, {e.X(), Imm(sr[c.pick(3)])}); else e.E(I::kIdMsr, {Imm(sr[c.pick(3)]), e.X()});
      break;
    }
    case 29:
      if (c.pick(2)) e.E(I::kIdSys, {Imm(c.pick(8)), Imm(c.pick(16)), Imm(c.pick(16)), Imm(c.pick(8))});
      else e.E(I::kIdSys, {Imm(c.pick(8)), Imm(c.pick(16)), Imm(c.pick(16)), Imm(c.pick(8)), e.X()});
      break;
    case 30: case 31: case 32: case 33: case 34: {
      InstId id = c.pick(2) ? I::kIdLdr : I::kIdStr;
      e.E(id, {e.R(!w), e.M(w ? 2 : 3)});
      break;
    }
    case 35: e.E(c.pick(2) ? I::kIdLdur : I::kIdStur, {e.R(!w), ptr(e.X(true), int32_t(c.pick(512) - 256))}); break;
    case 36: {
      static const InstId ids[] = {I::kIdLdrb, I::kIdLdrh, I::kIdLdrsb, I::kIdLdrsh, I::kIdLdrsw, I::kIdStrb, I::kIdStrh};
      static const int sc[] = {0, 1, 0, 1, 2, 0, 1};
      int k = c.pick(7);
      e.E(ids[k], {k == 4 ? e.X() : e.W(), e.M(sc[k])});
      break;
    }
    case 37: e.E(c.pick(2) ? I::kIdLdp : I::kIdStp, {e.X(), e.X(), e.MP(3)}); break;
    case 38: if (c.pick(2)) e.E(c.pick(2) ? I::kIdLdp : I::kIdStp, {e.W(), e.W(), e.MP(2)}); else e.E(I::kIdLdpsw, {e.X(), e.X(), e.MP(2)}); break;
    case 39: { static const InstId ids[] = {I::kIdLdaxr, I::kIdLdxr, I::kIdStlr}; e.E(ids[c.pick(3)], {e.R(!w), ptr(e.X(true))}); break; }
    case 40: e.E(c.pick(2) ? I::kIdStxr : I::kIdStlxr, {e.W(), e.R(!w), ptr(e.X(true))}); break;
    case 41: if (c.pick(2)) e.E(I::kIdStxp, {e.W(), e.R(!w), e.R(!w), ptr(e.X(true))}); else e.E(I::kIdLdxp, {e.R(!w), e.R(!w), ptr(e.X(true))}); break;
    case 42: { uint32_t s = uint32_t(c.pick(15)) * 2, t = uint32_t(c.pick(15)) * 2; e.E(I::kIdCasp, {x(s), x(s + 1), x(t), x(t + 1), ptr(e.X(true))}); break; }
    case 43: { static const InstId ids[] = {I::kIdCas, I::kIdLdadd, I::kIdSwp}; e.E(ids[c.pick(3)], {e.R(!w), e.R(!w), ptr(e.X(true))}); break; }
    case 44: e.E(I::kIdPrfm, {Imm(c.pick(6)), e.M(3, true, false)}); break;
    case 45: {
      int k = c.pick(4);
      if (k == 0) e.E(I::kIdFmov_v, {d(uint32_t(c.pick(32))), d(uint32_t(c.pick(32)))});
      else if (k == 1) e.E(I::kIdFmov_v, {d(uint32_t(c.pick(32))), e.X()});
      else if (k == 2) e.E(I::kIdFmov_v, {e.W(), s(uint32_t(c.pick(32)))});
      else e.E(I::kIdFmov_v, {s(uint32_t(c.pick(32))), Imm(c.pick(2) ? 1.0 : -2.5)});
      break;
    }
    case 46: {
      InstId id = c.pick(2) ? I::kIdFadd_v : I::kIdFmul_v;
      if (w) e.E(id, {s(uint32_t(c.pick(32))), s(uint32_t(c.pick(32))), s(uint32_t(c.pick(32)))});
      else e.E(id, {d(uint32_t(c.pick(32))), d(uint32_t(c.pick(32))), d(uint32_t(c.pick(32)))});
      break;
    }
    case 47: e.E(I::kIdFmadd_v, {d(uint32_t(c.pick(32))), d(uint32_t(c.pick(32))), d(uint32_t(c.pick(32))), d(uint32_t(c.pick(32)))}); break;
    case 48:
      if (c.pick(2)) e.E(I::kIdFcsel_v, {s(uint32_t(c.pick(32))), s(uint32_t(c.pick(32))), s(uint32_t(c.pick(32))), e.CC()});
      else e.E(I::kIdFccmp_v, {d(uint32_t(c.pick(32))), d(uint32_t(c.pick(32))), Imm(c.pick(16)), e.CC()});
      break;
    case 49: {
      int k = c.pick(4);
      if (k == 0) e.E(I::kIdFcvtzs_v, {e.R(!w), d(uint32_t(c.pick(32)))});
      else if (k == 1) e.E(I::kIdFcvtzs_v, {e.X(), d(uint32_t(c.pick(32))), Imm(1 + c.pick(64))});
      else if (k == 2) e.E(I::kIdScvtf_v, {s(uint32_t(c.pick(32))), e.R(!w)});
      else e.E(I::kIdScvtf_v, {e.VA(e.V(), 5), e.VA(e.V(), 5), Imm(1 + c.pick(32))});
      break;
    }
    case 50: if (c.pick(2)) e.E(I::kIdFcmp_v, {d(uint32_t(c.pick(32))), d(uint32_t(c.pick(32)))}); else e.E(I::kIdFabs_v, {e.VA(e.V(), 5), e.VA(e.V(), 5)}); break;
    case 51: {
      static const InstId ids[] = {I::kIdAdd_v, I::kIdSqadd_v, I::kIdMul_v, I::kIdCmeq_v, I::kIdUzp1_v, I::kIdZip1_v};
      int arr = c.pick(7);
      e.E(ids[c.pick(6)], {e.VA(e.V(), arr), e.VA(e.V(), arr), e.VA(e.V(), arr)});
      break;
    }
    case 52:
      if (c.pick(2)) e.E(I::kIdFmla_v, {e.V().s4(), e.V().s4(), e.V().s(uint32_t(c.pick(4)))});
      else e.E(I::kIdMla_v, {e.V().h8(), e.V().h8(), v(uint32_t(c.pick(16))).h(uint32_t(c.pick(8)))});
      break;
    case 53: {
      int k = c.pick(5);
      if (k == 0) e.E(I::kIdIns_v, {e.V().s(uint32_t(c.pick(4))), e.W()});
      else if (k == 1) e.E(I::kIdIns_v, {e.V().d(uint32_t(c.pick(2))), e.V().d(uint32_t(c.pick(2)))});
      else if (k == 2) e.E(I::kIdUmov_v, {e.W(), e.V().b(uint32_t(c.pick(16)))});
      else if (k == 3) e.E(I::kIdDup_v, {e.V().s4(), e.W()});
      else e.E(I::kIdDup_v, {e.V().h8(), e.V().h(uint32_t(c.pick(8)))});
      break;
    }
    case 54: e.E(I::kIdExt_v, {e.V().b16(), e.V().b16(), e.V().b16(), Imm(c.pick(16))}); break;
    case 55: {
      static const InstId ids[] = {I::kIdShl_v, I::kIdSshr_v, I::kIdUshr_v};
      InstId id = ids[c.pick(3)];
      e.E(id, {e.V().s4(), e.V().s4(), Imm(id == I::kIdShl_v ? c.pick(32) : 1 + c.pick(32))});
      break;
    }
    case 56: {
      InstId id = c.pick(4) ? I::kIdTbl_v : I::kIdTbx_v;
      uint32_t n = 1 + uint32_t(c.pick(4)), first = uint32_t(c.pick(32));
      Vec dd = e.V().b16(), mm = e.V().b16();
      if (n == 1) e.E(id, {dd, v(first).b16(), mm});
      else if (n == 2) e.E(id, {dd, v(first).b16(), v((first + 1) % 32).b16(), mm});
      else if (n == 3) e.E(id, {dd, v(first).b16(), v((first + 1) % 32).b16(), v((first + 2) % 32).b16(), mm});
      else e.E(id, {dd, v(first).b16(), v((first + 1) % 32).b16(), v((first + 2) % 32).b16(), v((first + 3) % 32).b16(), mm});
      break;
    }
    case 57: {
      InstId id = c.pick(2) ? I::kIdLd1_v : I::kIdSt1_v;
      uint32_t n = 1 + uint32_t(c.pick(4)), first = uint32_t(c.pick(32));
      int arr = c.pick(7);
      Gp base = e.X(true);
      int am = c.pick(3);
      uint32_t bytes = (arr % 7 == 0 || arr % 7 == 2 || arr % 7 == 4) ? 8u : 16u;
      Mem mm = am == 0 ? ptr(base) : am == 1 ? ptr_post(base, int32_t(bytes * n)) : ptr_post(base, e.X());
      Vec a = e.VA(v(first), arr), b = e.VA(v((first + 1) % 32), arr), cc = e.VA(v((first + 2) % 32), arr), dd = e.VA(v((first + 3) % 32), arr);
      if (n == 1) e.E(id, {a, mm}); else if (n == 2) e.E(id, {a, b, mm}); else if (n == 3) e.E(id, {a, b, cc, mm}); else e.E(id, {a, b, cc, dd, mm});
      break;
    }
    case 58: e.E(c.pick(2) ? I::kIdLd1_v : I::kIdSt1_v, {e.V().s(uint32_t(c.pick(4))), ptr(e.X(true))}); break;
    case 59: {
      uint32_t first = uint32_t(c.pick(32));
      int arr = 1 + 2 * c.pick(3);   // b16 / h8 / s4
      Vec a = e.VA(v(first), arr), b = e.VA(v((first + 1) % 32), arr), cc = e.VA(v((first + 2) % 32), arr), dd = e.VA(v((first + 3) % 32), arr);
      Mem mm = c.pick(2) ? ptr(e.X(true)) : ptr_post(e.X(true), 64);
      int k = c.pick(6);
      if (k == 0) e.E(I::kIdLd2_v, {a, b, ptr(e.X(true))});
      else if (k == 1) e.E(I::kIdLd3_v, {a, b, cc, ptr(e.X(true))});
      else if (k == 2) e.E(I::kIdLd4_v, {a, b, cc, dd, mm});
      else if (k == 3) e.E(I::kIdSt4_v, {a, b, cc, dd, mm});
      else if (k == 4) e.E(I::kIdLd1r_v, {a, ptr(e.X(true))});
      else e.E(I::kIdLd4r_v, {a, b, cc, dd, ptr(e.X(true))});
      break;
    }
    case 60: {
      int k = c.pick(3);
      InstId id = c.pick(2) ? I::kIdLdr_v : I::kIdStr_v;
      uint32_t r = uint32_t(c.pick(32));
      if (k == 0) e.E(id, {q(r), e.M(4)}); else if (k == 1) e.E(id, {d(r), e.M(3)}); else e.E(id, {s(r), e.M(2)});
      break;
    }
    case 61: e.E(c.pick(2) ? I::kIdLdp_v : I::kIdStp_v, {q(uint32_t(c.pick(32))), q(uint32_t(c.pick(32))), e.MP(4)}); break;
    case 62: if (c.pick(2)) e.E(I::kIdMovi_v, {e.V().b16(), Imm(c.pick(256))}); else e.E(I::kIdMovi_v, {e.V().d2(), Imm(c.pick(2) ? 0xFF00FF00FF00FF00ull : 0x00000000FFFFFFFFull)}); break;
    case 63: if (c.pick(2)) e.E(I::kIdCnt_v, {e.V().b16(), e.V().b16()}); else e.E(I::kIdAddv_v, {s(uint32_t(c.pick(32))), e.V().s4()}); break;
    case 64: e.E(I::kIdAese_v, {e.V().b16(), e.V().b16()}); break;
    default: e.E(I::kIdSdot_v, {e.V().s4(), e.V().b16(), v(uint32_t(c.pick(32))).b4(uint32_t(c.pick(4)))}); break;
  }
}

// op = [K_INST, shape, comment, noise, choices...]
static void decode_a64_inst(const vh::Op& op, Call& c) {
  auto G = [&](size_t i) -> uint64_t { return i < op.size() ? uint64_t(op[i]) : 0; };
  xi::Choices ch(op, 4);
  c.kind = K_INST;
  c.is_db = false;
  int shape = int(G(1) % kA64Shapes);
  a64_shape(shape, ch, c);
  uint64_t cm = G(2);
  if (cm % 4 == 0) c.comment = kComments[(cm >> 2) % 4];
  c.interesting = c.nops > 3;
  char tb[64]; snprintf(tb, sizeof tb, "a64-shape%d/%uops", shape, c.nops);
  c.text = tb;
}

// op = [K_LINST, shape, label, comment, choices...]
static void decode_a64_linst(const vh::Op& op, uint32_t lab, Call& c) {
  using namespace a64;
  namespace I = a64::Inst;
  auto G = [&](size_t i) -> uint64_t { return i < op.size() ? uint64_t(op[i]) : 0; };
  xi::Choices ch(op, 4);
  A64Env e(ch, c);
  c.kind = K_LINST;
  c.label = lab;
  c.is_db = false;
  Label L(lab);
  uint64_t cm = G(3);
  if (cm % 4 == 0) c.comment = kComments[(cm >> 2) % 4];
  bool w = ch.pick(2) == 0;
  int shape = int(G(1) % kA64LabelShapes);
  switch (shape) {
    case 0: e.E(I::kIdB, {L}); break;
    case 1: e.E(I::kIdBl, {L}); break;
    case 2: e.E(BaseInst::compose_arm_inst_id(I::kIdB, CondCode(2 + ch.pick(14))), {L}); break;
    case 3: e.E(ch.pick(2) ? I::kIdCbz : I::kIdCbnz, {e.R(!w), L}); break;
    case 4: e.E(ch.pick(2) ? I::kIdTbz : I::kIdTbnz, {e.R(!w), Imm(ch.pick(w ? 32 : 64)), L}); break;
    case 5: e.E(I::kIdAdr, {e.X(), L}); break;
    case 6: e.E(I::kIdAdrp, {e.X(), L}); break;
    case 7: e.E(I::kIdLdr, {e.R(!w), ptr(L)}); break;
    case 8: { int k = ch.pick(3); uint32_t r = uint32_t(ch.pick(32)); e.E(I::kIdLdr_v, {k == 0 ? q(r) : k == 1 ? d(r) : s(r), ptr(L)}); break; }
    default: e.E(I::kIdLdrsw, {e.X(), ptr(L)}); break;
  }
  c.interesting = c.nops > 3;
  char tb[64]; snprintf(tb, sizeof tb, "a64-label-shape%d(L%u)", shape, lab);
  c.text = tb;
}

// ---- the harness's own list of calls (mirrors the documented node-list semantics) --------------------------------------
enum ItemKind { IT_CALL, IT_SECTION, IT_BIND, IT_CPALIGN, IT_CPDATA };
struct Item {
  int kind = IT_CALL;
  int call = -1;                  // index into calls (IT_CALL / IT_CPALIGN / IT_CPDATA)
  uint32_t id = 0;                // section id / label id
  bool active = false;
  BaseNode* node[2] = {nullptr, nullptr};   // Builder / Compiler node
};

struct Model {
  std::vector<Item> items;
  std::vector<int> order;         // active items in list order
  int cursor = -1;                // item index or -1 (null cursor: insert at the front)
  bool reordered = false;         // list order differs from call order (section re-entry)

  int pos_of(int it) const { for (size_t i = 0; i < order.size(); i++) if (order[i] == it) return int(i); return -1; }
  void add_at_cursor(int it) {
    int p = cursor < 0 ? 0 : pos_of(cursor) + 1;
    if (size_t(p) != order.size()) reordered = true;
    order.insert(order.begin() + p, it);
    items[size_t(it)].active = true;
    cursor = it;
  }
  void section(int it) {
    if (!items[size_t(it)].active) { order.push_back(it); items[size_t(it)].active = true; cursor = it; return; }
    size_t p = size_t(pos_of(it));
    for (size_t q = p + 1; q < order.size(); q++)
      if (items[size_t(order[q])].kind == IT_SECTION) { cursor = order[q - 1]; return; }
    cursor = order.back();
  }
  void remove(int it) {
    if (!items[size_t(it)].active) return;
    int p = pos_of(it);
    int prev = p > 0 ? order[size_t(p - 1)] : -1;
    order.erase(order.begin() + p);
    items[size_t(it)].active = false;
    if (cursor == it) cursor = prev;
  }
  void remove_range(size_t p0, size_t p1) {
    int prev = p0 > 0 ? order[p0 - 1] : -1;
    for (size_t p = p0; p <= p1; p++) { int it = order[p]; items[size_t(it)].active = false; if (cursor == it) cursor = prev; }
    order.erase(order.begin() + long(p0), order.begin() + long(p1) + 1);
  }
  void insert_at(int it, size_t pos) { order.insert(order.begin() + long(pos), it); items[size_t(it)].active = true; }
};

// ---- observable state of a CodeHolder ----------------------------------------------------------------------------------
struct Snap {
  struct Sec { std::string name, bytes; uint32_t flags, alignment; uint64_t vsize; };
  struct Fix { uint32_t section, id; uint64_t offset; int64_t rel; std::string fmt; };
  struct Lab { bool bound; uint32_t section; uint64_t offset; std::vector<Fix> fixups; };
  struct Rel { uint32_t type, src_sec, tgt_sec; uint64_t src_off, payload; std::string fmt, expr; };
  std::vector<Sec> secs;
  std::vector<Lab> labs;
  std::vector<Rel> rels;
  std::vector<Fix> xfix;          // cross-section fixups detached from their label
  size_t unresolved = 0;
};

static std::string fmt_str(const OffsetFormat& f) {
  char b[96];
  snprintf(b, sizeof b, "t%u/f%u/r%u/vs%u/vo%u/ib%u/is%u/dl%u", unsigned(f.type()), f.flags(), f.region_size(), f.value_size(), f.value_offset(), f.imm_bit_count(),
           f.imm_bit_shift(), f.imm_discard_lsb());
  return b;
}

static std::string expr_str(const Expression* e, int depth = 0) {
  if (!e || depth > 4) return "?";
  std::string s = "(" + std::to_string(int(e->op_type));
  for (int i = 0; i < 2; i++) {
    s += " ";
    switch (e->value_type[i]) {
      case ExpressionValueType::kNone: s += "none"; break;
      case ExpressionValueType::kConstant: s += "c" + std::to_string(e->value[i].constant); break;
      case ExpressionValueType::kLabel: s += "L" + std::to_string(e->value[i].label_id); break;
      case ExpressionValueType::kExpression: s += expr_str(e->value[i].expression, depth + 1); break;
    }
  }
  return s + ")";
}

static void take_snapshot(const CodeHolder& code, Snap& s) {
  for (Section* sec : code.sections()) {
    Snap::Sec x;
    x.name = sec->name();
    x.bytes.assign((const char*)sec->buffer().data(), sec->buffer().size());
    x.flags = uint32_t(sec->flags()); x.alignment = sec->alignment(); x.vsize = sec->virtual_size();
    s.secs.push_back(x);
  }
  auto fix_of = [](const Fixup* f) { Snap::Fix x; x.section = f->section_id; x.id = f->label_or_reloc_id; x.offset = f->offset; x.rel = int64_t(f->rel); x.fmt = fmt_str(f->format); return x; };
  for (const LabelEntry& le : code.label_entries()) {
    Snap::Lab l;
    l.bound = le.is_bound();
    l.section = l.bound ? le.section_id() : Globals::kInvalidId;
    l.offset = l.bound ? le.offset() : 0;
    for (const Fixup* f = le.unresolved_fixups(); f; f = f->next) l.fixups.push_back(fix_of(f));
    s.labs.push_back(l);
  }
  for (const Fixup* f = code._fixups; f; f = f->next) s.xfix.push_back(fix_of(f));
  for (const RelocEntry* re : code.reloc_entries()) {
    Snap::Rel r;
    r.type = uint32_t(re->reloc_type()); r.src_sec = re->source_section_id(); r.tgt_sec = re->target_section_id(); r.src_off = re->source_offset();
    r.fmt = fmt_str(re->format());
    if (re->reloc_type() == RelocType::kExpression) { r.payload = 0; r.expr = expr_str(re->payload_as_expression()); } else r.payload = re->payload();
    s.rels.push_back(r);
  }
  s.unresolved = code.unresolved_fixup_count();
}

static std::string hexs(const std::string& b, size_t from, size_t n) {
  std::string s; char t[4];
  for (size_t i = from; i < b.size() && i < from + n; i++) { snprintf(t, sizeof t, "%02x", (unsigned char)b[i]); s += t; }
  return s;
}

// Compares `got` (path named `path`) against the reference. Returns "" or "<what>\t<message>".
static bool same_fix(const Snap::Fix& a, const Snap::Fix& b) { return a.section == b.section && a.id == b.id && a.offset == b.offset && a.rel == b.rel && a.fmt == b.fmt; }

static bool diff_snap(const Snap& ref, const Snap& got, std::string& what, std::string& msg) {
  char b[512];
  if (ref.secs.size() != got.secs.size()) { what = "section-count-differs"; snprintf(b, sizeof b, "reference has %zu sections, path has %zu", ref.secs.size(), got.secs.size()); msg = b; return true; }
  for (size_t i = 0; i < ref.secs.size(); i++) {
    const Snap::Sec &r = ref.secs[i], &g = got.secs[i];
    if (r.bytes != g.bytes) {
      size_t p = 0; while (p < r.bytes.size() && p < g.bytes.size() && r.bytes[p] == g.bytes[p]) p++;
      what = "bytes-differ";
      snprintf(b, sizeof b, "section %zu '%s': reference %zu bytes, path %zu bytes, first difference at offset %zu: reference ..%s path ..%s", i, r.name.c_str(), r.bytes.size(),
               g.bytes.size(), p, hexs(r.bytes, p, 12).c_str(), hexs(g.bytes, p, 12).c_str());
      msg = b; return true;
    }
    if (r.name != g.name || r.flags != g.flags || r.alignment != g.alignment || r.vsize != g.vsize) {
      what = "section-attr-differs"; snprintf(b, sizeof b, "section %zu: name/flags/alignment/virtual size differ (%s/%u/%u/%llu vs %s/%u/%u/%llu)", i, r.name.c_str(), r.flags, r.alignment,
               (unsigned long long)r.vsize, g.name.c_str(), g.flags, g.alignment, (unsigned long long)g.vsize); msg = b; return true;
    }
  }
  if (ref.labs.size() != got.labs.size()) { what = "label-count-differs"; snprintf(b, sizeof b, "reference has %zu labels, path has %zu", ref.labs.size(), got.labs.size()); msg = b; return true; }
  for (size_t i = 0; i < ref.labs.size(); i++) {
    const Snap::Lab &r = ref.labs[i], &g = got.labs[i];
    if (r.bound != g.bound) { what = "label-bound-differs"; snprintf(b, sizeof b, "label %zu: reference %s, path %s", i, r.bound ? "bound" : "unbound", g.bound ? "bound" : "unbound"); msg = b; return true; }
    if (r.section != g.section || r.offset != g.offset) {
      what = "label-offset-differs"; snprintf(b, sizeof b, "label %zu: reference section %u offset %llu, path section %u offset %llu", i, r.section, (unsigned long long)r.offset, g.section,
               (unsigned long long)g.offset); msg = b; return true;
    }
    bool fx = r.fixups.size() == g.fixups.size();
    for (size_t k = 0; fx && k < r.fixups.size(); k++) fx = same_fix(r.fixups[k], g.fixups[k]);
    if (!fx) { what = "fixup-differs"; snprintf(b, sizeof b, "label %zu: unresolved fixup lists differ (%zu vs %zu entries)", i, r.fixups.size(), g.fixups.size()); msg = b; return true; }
  }
  {
    bool fx = ref.xfix.size() == got.xfix.size();
    for (size_t k = 0; fx && k < ref.xfix.size(); k++) fx = same_fix(ref.xfix[k], got.xfix[k]);
    if (!fx || ref.unresolved != got.unresolved) {
      what = "fixup-differs"; snprintf(b, sizeof b, "cross-section fixups differ (%zu vs %zu entries; unresolved count %zu vs %zu)", ref.xfix.size(), got.xfix.size(), ref.unresolved, got.unresolved);
      msg = b; return true;
    }
  }
  if (ref.rels.size() != got.rels.size()) { what = "reloc-differs"; snprintf(b, sizeof b, "reference has %zu relocations, path has %zu", ref.rels.size(), got.rels.size()); msg = b; return true; }
  for (size_t i = 0; i < ref.rels.size(); i++) {
    const Snap::Rel &r = ref.rels[i], &g = got.rels[i];
    if (r.type != g.type || r.src_sec != g.src_sec || r.tgt_sec != g.tgt_sec || r.src_off != g.src_off || r.payload != g.payload || r.fmt != g.fmt || r.expr != g.expr) {
      what = "reloc-differs";
      snprintf(b, sizeof b, "relocation %zu: reference type %u src %u:%llu tgt %u payload %llu %s %s; path type %u src %u:%llu tgt %u payload %llu %s %s", i, r.type, r.src_sec,
               (unsigned long long)r.src_off, r.tgt_sec, (unsigned long long)r.payload, r.fmt.c_str(), r.expr.c_str(), g.type, g.src_sec, (unsigned long long)g.src_off, g.tgt_sec,
               (unsigned long long)g.payload, g.fmt.c_str(), g.expr.c_str());
      msg = b; return true;
    }
  }
  return false;
}

// ---- generator --------------------------------------------------------------------------------------------------------
static rc::Gen<vh::Op> op_gen(int arch, bool edits) {
  using namespace rc;
  return gen::exec([arch, edits]() -> vh::Op {
    int sel = *vh::irange<int>(0, 999);
    int m = arch == 1;
    auto ints = [](vh::Op& op, int n) { for (int i = 0; i < n; i++) op.push_back(*vh::irange<int>(0, 0x3fffffff)); };
    vh::Op op;
    int edit_share = edits ? 140 : 0;
    if (sel < edit_share) {
      int e = sel % 10;
      int k = e < 3 ? K_RM : e < 5 ? K_RMRANGE : e < 8 ? K_REINS : K_SETCUR;
      op.push_back(k);
      op.push_back(*vh::irange<int>(0, 199));
      op.push_back(*vh::irange<int>(0, 199));
      op.push_back(*vh::irange<int>(0, 15));
      return op;
    }
    int r = *vh::irange<int>(0, 999);
    if (r < 390) {
      op.push_back(K_INST);
      if (arch < 2) {
        int cs = *vh::irange<int>(0, 99);
        int cls = cs < 40 ? 0 : cs < 65 ? 1 : cs < 88 ? 2 : 3;
        const std::vector<int>& v = g_cls[m][cls].empty() ? g_cls[m][0] : g_cls[m][cls];
        op.push_back(v[size_t(*vh::irange<int>(0, int(v.size()) - 1))]);
        op.push_back(*vh::irange<int>(0, 15));            // comment
        op.push_back(*vh::irange<int>(0, 0x3fffffff));    // noise
        ints(op, 36);
      } else {
        static const int many[] = {12, 13, 15, 17, 19, 20, 22, 23, 24, 29, 41, 42, 47, 48, 54, 56, 57, 59};
        int cs = *vh::irange<int>(0, 99);
        op.push_back(cs < 45 ? many[*vh::irange<int>(0, int(sizeof(many) / sizeof(many[0])) - 1)] : *vh::irange<int>(0, kA64Shapes - 1));
        op.push_back(*vh::irange<int>(0, 15));
        op.push_back(0);
        ints(op, 14);
      }
    } else if (r < 530) {
      op.push_back(K_LINST);
      op.push_back(*vh::irange<int>(0, arch < 2 ? 13 : kA64LabelShapes - 1));
      op.push_back(*vh::irange<int>(0, 63));              // label
      op.push_back(*vh::irange<int>(0, 15));              // comment
      ints(op, 10);
    } else if (r < 580) {
      op.push_back(K_NEWLABEL);
      op.push_back(*vh::irange<int>(0, 9));               // 0..5 anonymous, else named
      op.push_back(*vh::irange<int>(0, 7));               // name
      op.push_back(*vh::irange<int>(0, 7));               // type
      op.push_back(*vh::irange<int>(0, 63));              // parent
    } else if (r < 670) {
      op.push_back(K_BIND);
      op.push_back(*vh::irange<int>(0, 63));
      op.push_back(*vh::irange<int>(0, 31));              // 0: allow binding an already bound label
    } else if (r < 715) {
      op.push_back(K_ALIGN);
      op.push_back(*vh::irange<int>(0, 39));              // mode (3.. rarely invalid)
      op.push_back(*vh::irange<int>(0, 39));              // alignment selector
    } else if (r < 750) {
      op.push_back(K_EMBED);
      op.push_back(*vh::irange<int>(0, 40));
      op.push_back(*vh::irange<int>(0, 0x3fffffff));
    } else if (r < 785) {
      op.push_back(K_DATA);
      op.push_back(*vh::irange<int>(0, 31));              // type selector
      op.push_back(*vh::irange<int>(0, 6));               // count
      op.push_back(*vh::irange<int>(0, 5));               // repeat
      op.push_back(*vh::irange<int>(0, 0x3fffffff));
    } else if (r < 815) {
      op.push_back(K_CPOOL);
      op.push_back(*vh::irange<int>(0, 63));
      op.push_back(*vh::irange<int>(0, 5));               // number of constants
      op.push_back(*vh::irange<int>(0, 0x3fffffff));
    } else if (r < 850) {
      op.push_back(K_ELABEL);
      op.push_back(*vh::irange<int>(0, 63));
      op.push_back(*vh::irange<int>(0, 23));
    } else if (r < 885) {
      op.push_back(K_EDELTA);
      op.push_back(*vh::irange<int>(0, 63));
      op.push_back(*vh::irange<int>(0, 63));
      op.push_back(*vh::irange<int>(0, 23));
    } else if (r < 905) {
      op.push_back(K_COMMENT);
      op.push_back(*vh::irange<int>(0, 7));
    } else if (r < 935) {
      op.push_back(K_NEWSEC);
      op.push_back(*vh::irange<int>(0, 5));
      op.push_back(*vh::irange<int>(0, 15));
      op.push_back(*vh::irange<int>(0, 9));
    } else {
      op.push_back(K_SECTION);
      op.push_back(*vh::irange<int>(0, 7));
    }
    return op;
  });
}

rc::Gen<vh::Case> vh_gen(const vh::Opts&) {
  using namespace rc;
  return gen::exec([]() -> vh::Case {
    vh::Case c;
    int a = *vh::irange<int>(0, 99);
    int arch = a < 25 ? 0 : a < 68 ? 1 : 2;
    int f = *vh::irange<int>(0, 99);
    int flags = 0;
    if (f < 20) flags |= 1;
    if (f < 10) flags |= 2;
    if (*vh::irange<int>(0, 9) == 0) flags |= 4;
    if (*vh::irange<int>(0, 5) == 0) flags |= 8;
    if (*vh::irange<int>(0, 3) == 0) flags |= 16;
    if (*vh::irange<int>(0, 3) == 0) flags |= 32 * *vh::irange<int>(1, 3);   // labels in the CodeHolder that no path's emitter created
    c.cfg = {arch, flags};
    bool edits = *vh::irange<int>(0, 99) < 45;
    int nlab = *vh::irange<int>(0, 6);
    for (int i = 0; i < nlab; i++) c.ops.push_back(vh::Op{K_NEWLABEL, 0, 0, 0, 0});
    if (*vh::irange<int>(0, 3) == 0) c.ops.push_back(vh::Op{K_NEWSEC, *vh::irange<int>(0, 5), *vh::irange<int>(0, 15), *vh::irange<int>(0, 9)});
    std::vector<vh::Op> body = *gen::container<std::vector<vh::Op>>(op_gen(arch, edits));
    for (auto& o : body) c.ops.push_back(std::move(o));
    return c;
  });
}

// ---- the property ------------------------------------------------------------------------------------------------------
namespace {
struct Path {
  StringLogger logger;
  CodeHolder code;
  std::unique_ptr<BaseEmitter> em;
  BaseBuilder* bb = nullptr;
  void init(int arch, int type, int flags) {
    Environment env(arch == 0 ? Arch::kX86 : arch == 1 ? Arch::kX64 : Arch::kAArch64);
    code.init(env);
    if (flags & 4) code.set_logger(&logger);
    // flags bits 5..6: 1..3 labels that exist in the CodeHolder before the emitter is attached (created by the holder itself, as a prologue
    // written by another emitter would leave them): label ids of the emitter's own labels then start above 0 and a Builder's label-node table has a gap
    for (int i = 0; i < ((flags >> 5) & 3); i++) { uint32_t lid = 0; (void)code.new_label_id(Out(lid)); }
    if (arch < 2) {
      if (type == 0) em.reset(new x86::Assembler(&code)); else if (type == 1) em.reset(new x86::Builder(&code)); else em.reset(new x86::Compiler(&code));
    } else {
      if (type == 0) em.reset(new a64::Assembler(&code)); else if (type == 1) em.reset(new a64::Builder(&code)); else em.reset(new a64::Compiler(&code));
    }
    if (type) bb = static_cast<BaseBuilder*>(em.get());
    EncodingOptions eo = EncodingOptions::kNone;
    if (flags & 8) eo |= EncodingOptions::kOptimizeForSize;
    if (flags & 16) eo |= EncodingOptions::kOptimizedAlign;
    em->add_encoding_options(eo);
    DiagnosticOptions d = DiagnosticOptions::kNone;
    if (flags & 1) d |= DiagnosticOptions::kValidateAssembler;
    if ((flags & 3) == 3 && type) d |= DiagnosticOptions::kValidateIntermediate;
    em->add_diagnostic_options(d);
  }
};
struct LabelSpec { bool named = false; std::string name; LabelType type = LabelType::kAnonymous; uint32_t parent = Globals::kInvalidId; };
struct SecSpec { std::string name; SectionFlags flags; uint32_t align; };

static Label make_label(BaseEmitter& e, const LabelSpec& s) {
  return s.named ? e.new_named_label(s.name.c_str(), s.name.size(), s.type, s.parent) : e.new_label();
}
}

void vh_run(const vh::Case& cs, vh::Ctx& ctx) {
  int arch = cs.cfg.size() > 0 ? int(uint64_t(cs.cfg[0]) % 3) : 1;
  int flags = cs.cfg.size() > 1 ? int(uint64_t(cs.cfg[1]) & 127) : 0;
  if (flags & 96) ctx.cls("foreign_labels_in_holder");
  if (!(flags & 1)) flags &= ~2;
  const int mode = arch == 0 ? 32 : 64;
  const char* arch_name = arch == 0 ? "x86" : arch == 1 ? "x64" : "a64";
  const bool force_rebind = ctx.opts && ctx.opts->geti("force-rebind", ctx.is_known("builder-bind-bound-label-asserts") ? 0 : 1) != 0;
  const bool force_rmlast = ctx.opts && ctx.opts->geti("force-remove-through-last", ctx.is_known("builder-remove-nodes-through-last-asserts") ? 0 : 1) != 0;

  Arena pool_arena(4096);
  Path A, P[2];
  A.init(arch, 0, flags);
  P[0].init(arch, 1, flags);
  P[1].init(arch, 2, flags);
  static const char* pname[2] = {"builder", "compiler"};

  std::vector<Call> calls;
  calls.reserve(402);                      // Call objects must not move: comment text is referenced by address
  std::vector<uint32_t> labels;            // label ids in creation order (kInvalidId: creation failed)
  std::vector<LabelSpec> lspecs;
  std::vector<SecSpec> sspecs;             // sections 1..
  std::vector<int> bind_item;              // per label index: model item or -1
  std::vector<int> sec_item;               // per section id
  Model model;
  size_t edits = 0, interesting_ok = 0;
  std::string sample;
  uint32_t a_cur_sec = 0;                  // current section of the natural-order Assembler
  bool a_diverged = false;                 // a call was withheld from the natural-order Assembler
  const bool force_xsec = ctx.opts && ctx.opts->geti("force-xsec", ctx.is_known("excluded:assembler-asserts-on-reference-to-label-bound-in-another-section") ? 0 : 1) != 0;

  // initial .text section node
  {
    Item it; it.kind = IT_SECTION; it.id = 0; it.active = true;
    for (int p = 0; p < 2; p++) it.node[p] = P[p].bb->first_node();
    model.items.push_back(it); model.order.push_back(0); model.cursor = 0;
    sec_item.push_back(0);
  }
  ctx.cls(std::string("arch_") + arch_name);
  if (flags & 1) ctx.cls("flag_validate_assembler");
  if (flags & 2) ctx.cls("flag_validate_intermediate");
  if (flags & 4) ctx.cls("flag_logger");
  if (flags & 8) ctx.cls("flag_optimize_for_size");
  if (flags & 16) ctx.cls("flag_optimized_align");

  auto label_active = [&](size_t li) { int it = bind_item[li]; return it >= 0 && model.items[size_t(it)].active; };
  auto new_item = [&](int kind, int call, uint32_t id) { Item it; it.kind = kind; it.call = call; it.id = id; model.items.push_back(it); return int(model.items.size()) - 1; };

  auto ref_hazard_natural = [&](uint32_t lab) { return A.code.is_label_valid(lab) && A.code.is_label_bound(lab) && A.code.label_entry_of(lab).section_id() != a_cur_sec; };

  // Issues one node-producing call on A, Builder and Compiler and records it in the model.
  auto do_call = [&](Call&& c0, int label_index) {
    calls.push_back(std::move(c0));
    const int ci = int(calls.size()) - 1;
    const Call& c = calls.back();
    const char* kn = kKindName[c.kind];
    ctx.cls(std::string("op_") + kn);
    Error ea = Error::kOk;
    if (c.kind == K_LINST && !force_xsec && ref_hazard_natural(c.label)) { a_diverged = true; ctx.cls("natural_assembler_call_withheld_xsec_bound_label"); }
    else ea = issue(*A.em, A.code, c);
    Error eb[2];
    for (int p = 0; p < 2; p++) eb[p] = issue(*P[p].em, P[p].code, c);
    if ((eb[0] != Error::kOk) != (eb[1] != Error::kOk))
      ctx.fail_unless_known(std::string("error-occurrence-differs-builder-vs-compiler:") + kn, "call " + c.text + ": Builder returned " + std::to_string(int(eb[0])) + ", Compiler " + std::to_string(int(eb[1])));
    if (c.kind == K_INST || c.kind == K_LINST) {
      ctx.cls("inst_ops_" + std::to_string(c.nops));
      if (c.interesting) ctx.cls("inst_with_option_extra_or_gt3_ops");
      if (c.has_extra || (c.is_db && c.x.k)) ctx.cls("inst_extra_reg");
      if (c.comment) ctx.cls("inst_inline_comment");
      if (ea == Error::kOk) { ctx.cls("inst_accepted"); if (c.interesting) interesting_ok++; } else { ctx.cls("inst_rejected_by_assembler"); if (!c.is_db) ctx.cls("rejected:" + c.text.substr(0, c.text.find_first_of("(/"))); else ctx.cls(c.opt != InstOptions::kNone || c.has_extra ? "rejected:x86-db-with-noise" : "rejected:x86-db-plain"); }
    }
    if (eb[0] != Error::kOk || eb[1] != Error::kOk) {
      // Failed at call time in the Builder: no node was created. The same call must fail on the Assembler (codes may differ).
      if (ea == Error::kOk)
        ctx.fail_unless_known(std::string("error-occurrence-differs:") + kn, std::string(arch_name) + " call '" + c.text + "' (" + kn + ") failed on the Builder at call time (error " +
                              std::to_string(int(eb[0])) + ") but succeeded on the Assembler");
      ctx.cls("err_at_call_time_both");
      return;
    }
    if (ea != Error::kOk) ctx.cls("err_assembler_call_deferred_in_builder");
    // record the created nodes
    if (c.kind == K_CPOOL) {
      int ia = new_item(IT_CPALIGN, ci, 0);
      int ib = bind_item[size_t(label_index)];
      if (ib < 0) { ib = new_item(IT_BIND, -1, c.label); bind_item[size_t(label_index)] = ib; }
      int id = new_item(IT_CPDATA, ci, 0);
      for (int p = 0; p < 2; p++) {
        BaseNode* d = P[p].bb->cursor();
        model.items[size_t(id)].node[p] = d;
        model.items[size_t(ib)].node[p] = d->prev();
        model.items[size_t(ia)].node[p] = d->prev()->prev();
      }
      model.add_at_cursor(ia); model.add_at_cursor(ib); model.add_at_cursor(id);
    } else if (c.kind == K_BIND) {
      int ib = bind_item[size_t(label_index)];
      if (ib < 0) { ib = new_item(IT_BIND, -1, c.label); bind_item[size_t(label_index)] = ib; }
      for (int p = 0; p < 2; p++) model.items[size_t(ib)].node[p] = P[p].bb->cursor();
      model.add_at_cursor(ib);
    } else {
      int it = new_item(IT_CALL, ci, 0);
      for (int p = 0; p < 2; p++) model.items[size_t(it)].node[p] = P[p].bb->cursor();
      model.add_at_cursor(it);
      if (c.kind == K_COMMENT && P[0].bb->cursor()->inline_comment() == c.text.c_str())
        ctx.fail_unless_known("builder-empty-comment-keeps-caller-pointer", "Builder::comment(\"\", 0) stores the caller's pointer in the CommentNode instead of a copy (new_comment_node copies only "
                              "when size > 0); serialize_to() later calls strlen() on it, i.e. use-after-free when the caller's buffer is gone (seen as ASan heap-use-after-free)");
    }
    if (ctx.want_sample() && sample.size() < 600) { sample += c.text.empty() ? kn : c.text; sample += " | "; }
  };

  // first label (from `start`, cyclic) whose node is not in the list; -1 if all are
  auto pick_unbound = [&](size_t start) -> int {
    for (size_t j = 0; j < labels.size(); j++) { size_t k = (start + j) % labels.size(); if (!label_active(k)) return int(k); }
    return -1;
  };

  // section in effect at list position `pos` (-1: before the first element)
  auto section_at = [&](int pos) -> uint32_t {
    for (int q = pos; q >= 0; q--) { const Item& it = model.items[size_t(model.order[size_t(q)])]; if (it.kind == IT_SECTION) return it.id; }
    return 0;
  };
  // Both assemblers run into ASMJIT_ASSERT(!le.is_bound()) in CodeHolder::new_fixup() when an instruction references a label that is already bound in
  // ANOTHER section (release builds overwrite the label's offset with the fixup pointer). This is an Assembler defect independent of the Builder; such
  // references are avoided where the harness can see them and the case is not compared when the edited list contains one.
  auto ref_hazard_model = [&](size_t li) {
    int it = bind_item[li];
    if (it < 0 || !model.items[size_t(it)].active) return false;
    return section_at(model.pos_of(it)) != section_at(model.cursor < 0 ? -1 : model.pos_of(model.cursor));
  };
  auto pick_ref_label = [&](size_t start) -> int {
    for (size_t j = 0; j < labels.size(); j++) {
      size_t k = (start + j) % labels.size();
      if (labels[k] == Globals::kInvalidId) continue;     // invalid label as [label] operand in 32-bit mode: known out-of-bounds read (C14), not this property
      if (force_xsec || (!ref_hazard_natural(labels[k]) && !ref_hazard_model(k))) return int(k);
    }
    return -1;
  };

  for (const vh::Op& op : cs.ops) {
    if (op.empty()) continue;
    auto G = [&](size_t i) -> uint64_t { return i < op.size() ? uint64_t(op[i]) : 0; };
    int kind = int(G(0) % K_COUNT);
    if (calls.size() >= 400) break;
    switch (kind) {
      case K_INST: {
        Call c;
        if (arch < 2) decode_x86_inst(op, mode, c); else decode_a64_inst(op, c);
        do_call(std::move(c), -1);
        break;
      }
      case K_LINST: {
        if (labels.empty()) { ctx.cls("skip_no_label"); break; }
        int lk = pick_ref_label(size_t(G(2) % labels.size()));
        if (lk < 0) { ctx.cls("skip_no_referencable_label"); break; }
        size_t li = size_t(lk);
        Call c;
        if (arch < 2) decode_x86_linst(op, mode, labels[li], c); else decode_a64_linst(op, labels[li], c);
        ctx.cls(label_active(li) ? "label_ref_to_bound" : "label_ref_to_unbound");
        do_call(std::move(c), int(li));
        break;
      }
      case K_NEWLABEL: {
        if (labels.size() >= 24) { ctx.cls("skip_label_limit"); break; }
        LabelSpec s;
        if (G(1) % 10 >= 6) {
          static const char* names[] = {"L0", "L1", "loop", "a_label_with_a_longer_name", "", "L0", "x", "L1"};
          static const LabelType types[] = {LabelType::kGlobal, LabelType::kLocal, LabelType::kAnonymous, LabelType::kExternal, LabelType::kGlobal, LabelType::kLocal, LabelType::kGlobal, LabelType(9)};
          s.named = true;
          s.name = names[G(2) % 8];
          s.type = types[G(3) % 8];
          if (s.type == LabelType::kLocal && !labels.empty()) s.parent = labels[size_t(G(4) % labels.size())];
          else if (G(4) % 16 == 15 && !labels.empty()) s.parent = labels[0];
        }
        Label la = make_label(*A.em, s);
        for (int p = 0; p < 2; p++) {
          Label lp = make_label(*P[p].em, s);
          if (lp.id() != la.id())
            ctx.fail_unless_known("label-id-differs", std::string("new label #") + std::to_string(labels.size()) + ": Assembler id " + std::to_string(la.id()) + ", " + pname[p] + " id " + std::to_string(lp.id()));
        }
        ctx.cls(!s.named ? "op_new-label" : la.is_valid() ? "op_new-named-label" : "op_new-named-label-failed");
        labels.push_back(la.id()); lspecs.push_back(s); bind_item.push_back(-1);
        break;
      }
      case K_BIND: {
        if (labels.empty()) { ctx.cls("skip_no_label"); break; }
        size_t li = size_t(G(1) % labels.size());
        bool allow_rebind = G(2) % 32 == 0;
        if (label_active(li) && !allow_rebind) { int k = pick_unbound(li); if (k < 0) { ctx.cls("skip_all_labels_bound"); break; } li = size_t(k); }
        Call c; c.kind = K_BIND; c.label = labels[li]; c.text = "bind(L" + std::to_string(li) + ")";
        if (label_active(li) && !force_rebind) {
          // bind() of a label whose LabelNode is already part of the node list: BaseBuilder::add_node() asserts (!node->is_active()); the
          // documented behaviour (BaseEmitter::bind: "Attempt to bind the same label multiple times will return an error") and the Assembler return an error.
          Error ea = A.em->bind(Label(c.label));
          ctx.cls("bind_of_bound_label");
          if (edits == 0 && ea == Error::kOk) ctx.fail("harness-selfcheck:rebind", "model says label is bound but the Assembler accepted bind()");
          ctx.fail_unless_known("builder-bind-bound-label-asserts", "Builder::bind() of an already bound label runs into ASMJIT_ASSERT(!node->is_active()) in add_node() (corrupts the list in release builds); "
                                "the Assembler returns kLabelAlreadyBound (" + std::to_string(int(ea)) + ")");
          break;
        }
        do_call(std::move(c), int(li));
        break;
      }
      case K_ALIGN: {
        Call c; c.kind = K_ALIGN;
        uint64_t ms = G(1) % 40, as = G(2) % 40;
        c.amode = ms < 39 ? AlignMode(ms % 3) : AlignMode(3);
        static const uint32_t good[] = {0, 1, 2, 4, 8, 16, 32, 64}, bad[] = {3, 128, 6, 256, 0x80000000u, 5, 12, 1024};
        c.alignment = as < 38 ? good[as % 8] : bad[(as + ms) % 8];
        c.text = "align(" + std::to_string(int(c.amode)) + "," + std::to_string(c.alignment) + ")";
        do_call(std::move(c), -1);
        break;
      }
      case K_EMBED: {
        Call c; c.kind = K_EMBED;
        c.size = size_t(G(1) % 41);
        c.data.resize(c.size + 1);
        for (size_t i = 0; i < c.size; i++) c.data[i] = uint8_t(mix(G(2) + i));
        c.text = "embed(" + std::to_string(c.size) + ")";
        do_call(std::move(c), -1);
        break;
      }
      case K_DATA: {
        Call c; c.kind = K_DATA;
        static const TypeId types[] = {TypeId::kUInt8, TypeId::kInt8, TypeId::kUInt16, TypeId::kInt16, TypeId::kUInt32, TypeId::kInt32, TypeId::kUInt64, TypeId::kInt64, TypeId::kFloat32,
                                       TypeId::kFloat64, TypeId::kIntPtr, TypeId::kUIntPtr, TypeId::kIntPtr, TypeId::kUIntPtr, TypeId::kFloat80, TypeId::kMask16, TypeId::kMmx64, TypeId::kInt32x4,
                                       TypeId::kUInt8x16, TypeId::kInt32x8, TypeId::kFloat64x4, TypeId::kFloat32x16, TypeId::kInt8x8, TypeId::kInt16x2, TypeId::kUInt32, TypeId::kUInt64,
                                       TypeId::kUInt16, TypeId::kUInt8, TypeId::kVoid, TypeId(200), TypeId(1), TypeId::kUInt64};
        c.type = types[G(1) % 32];
        c.count = size_t(G(2) % 7);
        c.repeat = size_t(G(3) % 6);
        c.data.resize(c.count * 64 + 64);
        for (size_t i = 0; i < c.data.size(); i++) c.data[i] = uint8_t(mix(G(4) + i));
        c.text = "embed_data_array(t" + std::to_string(int(c.type)) + "," + std::to_string(c.count) + "x" + std::to_string(c.repeat) + ")";
        if (c.repeat != 1) ctx.cls("data_repeat_not_1");
        do_call(std::move(c), -1);
        break;
      }
      case K_CPOOL: {
        if (labels.empty()) { ctx.cls("skip_no_label"); break; }
        size_t li = size_t(G(1) % labels.size());
        if (label_active(li)) { int k = pick_unbound(li); if (k < 0) { ctx.cls("skip_all_labels_bound"); break; } li = size_t(k); }
        Call c; c.kind = K_CPOOL; c.label = labels[li];
        c.pool = std::make_shared<ConstPool>(pool_arena);
        size_t n = size_t(G(2) % 6);
        for (size_t i = 0; i < n; i++) {
          static const size_t sz[] = {1, 2, 4, 8, 16, 32, 64};
          uint8_t buf[64];
          uint64_t s = mix(G(3) + i);
          size_t size = sz[s % 7];
          for (size_t k = 0; k < 64; k++) buf[k] = uint8_t(mix(s / 7 % 5 + k / 8) >> (8 * (k % 8)));
          size_t off;
          (void)c.pool->add(buf, size, Out(off));
        }
        c.text = "embed_const_pool(L" + std::to_string(li) + "," + std::to_string(c.pool->size()) + "b)";
        do_call(std::move(c), int(li));
        break;
      }
      case K_ELABEL:
      case K_EDELTA: {
        if (labels.empty()) { ctx.cls("skip_no_label"); break; }
        Call c; c.kind = kind;
        size_t li = size_t(G(1) % labels.size());
        c.label = labels[li];
        uint64_t ss = kind == K_ELABEL ? G(2) % 24 : G(3) % 24;
        static const size_t good[] = {0, 1, 2, 4, 8}, bad[] = {3, 16, 5, 7};
        c.size = ss < 20 ? good[ss % 5] : bad[ss - 20];
        if (kind == K_EDELTA) { size_t l2 = size_t(G(2) % labels.size()); c.label2 = labels[l2]; c.text = "embed_label_delta(L" + std::to_string(li) + ",L" + std::to_string(l2) + "," + std::to_string(c.size) + ")"; }
        else c.text = "embed_label(L" + std::to_string(li) + "," + std::to_string(c.size) + ")";
        do_call(std::move(c), -1);
        break;
      }
      case K_COMMENT: {
        static const char* texts[] = {"; comment", "", "second comment with some length .......................................", "x"};
        Call c; c.kind = K_COMMENT; c.text = texts[G(1) % 4];
        do_call(std::move(c), -1);
        break;
      }
      case K_NEWSEC: {
        if (sec_item.size() >= 5) { ctx.cls("skip_section_limit"); break; }
        static const char* names[] = {".data", ".rodata", "s2", ".bss", "", "a_section_name_that_is_too_long_to_be_accepted"};
        static const uint32_t al[] = {0, 1, 4, 8, 16, 64, 4096, 3, 2, 32};
        SecSpec s; s.name = names[G(1) % 6]; s.flags = SectionFlags(G(2) % 16); s.align = al[G(3) % 10];
        Section* sec = nullptr;
        Error ea = A.code.new_section(Out(sec), s.name.c_str(), SIZE_MAX, s.flags, s.align);
        for (int p = 0; p < 2; p++) {
          Error ep = P[p].code.new_section(Out(sec), s.name.c_str(), SIZE_MAX, s.flags, s.align);
          if (ep != ea) ctx.fail("harness-selfcheck:new-section", "CodeHolder::new_section results differ between holders");
        }
        if (ea == Error::kOk) { sspecs.push_back(s); sec_item.push_back(-1); ctx.cls("op_new-section"); } else ctx.cls("op_new-section-failed");
        break;
      }
      case K_SECTION: {
        uint32_t sid = uint32_t(G(1) % sec_item.size());
        // mostly switch to a section other than the one the cursor is in (a switch to the current section is kept as a rare case)
        if (sec_item.size() > 1 && (G(1) / 8) % 4 != 0 && sid == section_at(model.cursor < 0 ? -1 : model.pos_of(model.cursor))) sid = uint32_t((sid + 1) % sec_item.size());
        Call c; c.kind = K_SECTION; c.section = sid; c.text = "section(" + std::to_string(sid) + ")";
        ctx.cls("op_section");
        Error ea = issue(*A.em, A.code, c);
        if (ea != Error::kOk) ctx.fail("harness-selfcheck:section", "Assembler::section() failed");
        a_cur_sec = sid;
        int it = sec_item[sid];
        if (it < 0) { it = new_item(IT_SECTION, -1, sid); sec_item[sid] = it; }
        for (int p = 0; p < 2; p++) {
          Error ep = issue(*P[p].em, P[p].code, c);
          if (ep != Error::kOk) ctx.fail_unless_known(std::string("error-occurrence-differs:section"), std::string(pname[p]) + "::section() failed with " + std::to_string(int(ep)));
          SectionNode* sn = nullptr;
          (void)P[p].bb->section_node_of(Out(sn), sid);
          model.items[size_t(it)].node[p] = sn;
        }
        if (model.items[size_t(it)].active && model.order.back() != it) {
          bool last_sec = true;
          for (size_t q = size_t(model.pos_of(it)) + 1; q < model.order.size(); q++) if (model.items[size_t(model.order[q])].kind == IT_SECTION) last_sec = false;
          if (!last_sec) ctx.cls("section_reentry_not_last");
        }
        model.section(it);
        if (ctx.want_sample() && sample.size() < 600) sample += c.text + " | ";
        break;
      }
      case K_RM: {
        size_t n = model.order.size();
        if (n < 2) { ctx.cls("skip_edit_list_too_short"); break; }
        int it = model.order[size_t(G(1) % n)];
        for (int p = 0; p < 2; p++) P[p].bb->remove_node(model.items[size_t(it)].node[p]);
        ctx.cls(std::string("edit_remove_") + (model.items[size_t(it)].kind == IT_SECTION ? "section_node" : model.items[size_t(it)].kind == IT_BIND ? "label_node" : "node"));
        if (model.cursor == it) ctx.cls("edit_remove_cursor_node");
        model.remove(it);
        edits++;
        if (ctx.want_sample() && sample.size() < 600) sample += "REMOVE | ";
        break;
      }
      case K_RMRANGE: {
        size_t n = model.order.size();
        if (n < 3) { ctx.cls("skip_edit_list_too_short"); break; }
        size_t p0 = size_t(G(1) % n), p1 = std::min(p0 + 1 + size_t(G(2) % 4), n - 1);
        if (p0 == 0 && p1 == n - 1) p0 = 1;
        bool through_last = p1 == n - 1 && p0 != p1;
        for (int p = 0; p < 2; p++) {
          BaseNode* first = model.items[size_t(model.order[p0])].node[p];
          BaseNode* last = model.items[size_t(model.order[p1])].node[p];
          if (through_last && !force_rmlast) {
            // remove_nodes(first, last_node()) hits ASMJIT_ASSERT(next != nullptr) inside its unlink loop although the function handles `_node_list._last == last`
            // explicitly; perform the equivalent removal node by node so that the history continues.
            for (size_t q = p0; q <= p1; q++) P[p].bb->remove_node(model.items[size_t(model.order[q])].node[p]);
          } else P[p].bb->remove_nodes(first, last);
        }
        if (through_last && !force_rmlast)
          ctx.fail_unless_known("builder-remove-nodes-through-last-asserts", "remove_nodes(first, last) with last == last_node() runs into ASMJIT_ASSERT(next != nullptr) in the unlink loop (debug builds abort; "
                                "release builds work)");
        ctx.cls(through_last ? "edit_remove_range_through_last" : "edit_remove_range");
        model.remove_range(p0, p1);
        edits++;
        if (ctx.want_sample() && sample.size() < 600) sample += "REMOVE-RANGE | ";
        break;
      }
      case K_REINS: {
        std::vector<int> inact;
        for (size_t i = 0; i < model.items.size(); i++) if (!model.items[i].active && model.items[i].node[0]) inact.push_back(int(i));
        if (inact.empty() || model.order.empty()) { ctx.cls("skip_edit_nothing_removed"); break; }
        int it = inact[size_t(G(1) % inact.size())];
        size_t pos = size_t(G(2) % model.order.size());
        bool before = (G(3) & 1) != 0;
        int ref = model.order[pos];
        for (int p = 0; p < 2; p++) {
          if (before) P[p].bb->add_before(model.items[size_t(it)].node[p], model.items[size_t(ref)].node[p]);
          else P[p].bb->add_after(model.items[size_t(it)].node[p], model.items[size_t(ref)].node[p]);
        }
        model.insert_at(it, before ? pos : pos + 1);
        ctx.cls(before ? "edit_reinsert_before" : "edit_reinsert_after");
        edits++;
        if (ctx.want_sample() && sample.size() < 600) sample += "REINSERT | ";
        break;
      }
      case K_SETCUR: {
        size_t n = model.order.size();
        if (n == 0) break;
        if (G(3) % 16 == 15) {
          for (int p = 0; p < 2; p++) P[p].bb->set_cursor(nullptr);
          model.cursor = -1;
          ctx.cls("edit_set_cursor_null");
        } else {
          int it = model.order[size_t(G(1) % n)];
          for (int p = 0; p < 2; p++) P[p].bb->set_cursor(model.items[size_t(it)].node[p]);
          model.cursor = it;
          ctx.cls("edit_set_cursor");
        }
        edits++;
        if (ctx.want_sample() && sample.size() < 600) sample += "SET-CURSOR | ";
        break;
      }
      default: break;
    }
  }

  const bool edited = edits > 0;
  if (edited) ctx.cls("case_with_edits");
  if (model.reordered && !edited) ctx.cls("case_reordered_by_section_reentry");
  if (sec_item.size() > 1) ctx.cls("case_sections_gt1");
  auto key_of = [&](const std::string& what, const char* path) {
    return edited ? std::string("edit-result-differs-") + path + ":" + what : what + "-" + path + ":" + arch_name;
  };

  // ---- the node list must be the harness's list ----
  for (int p = 0; p < 2; p++) {
    size_t i = 0;
    bool ok = true;
    BaseNode* prev = nullptr;
    for (BaseNode* n = P[p].bb->first_node(); n; n = n->next(), i++) {
      if (i >= model.order.size() || model.items[size_t(model.order[i])].node[p] != n || n->prev() != prev || !n->is_active()) { ok = false; break; }
      prev = n;
    }
    if (ok && (i != model.order.size() || P[p].bb->last_node() != prev)) ok = false;
    BaseNode* want_cursor = model.cursor < 0 ? nullptr : model.items[size_t(model.cursor)].node[p];
    if (!ok) ctx.fail_unless_known(key_of("node-list-differs", pname[p]), std::string(pname[p]) + " node list differs from the harness's list at position " + std::to_string(i) + " of " + std::to_string(model.order.size()));
    else if (P[p].bb->cursor() != want_cursor) ctx.fail_unless_known(key_of("cursor-differs", pname[p]), std::string(pname[p]) + " cursor is not where the documented cursor rules put it");
  }

  // ---- does the (edited) list reference a label that is bound earlier in another section? (Assembler defect, see above) ----
  if (!force_xsec) {
    std::map<uint32_t, uint32_t> bound_in;
    uint32_t cur = 0;
    bool hazard = false;
    for (int iti : model.order) {
      const Item& it = model.items[size_t(iti)];
      if (it.kind == IT_SECTION) cur = it.id;
      else if (it.kind == IT_BIND) { if (!bound_in.count(it.id)) bound_in[it.id] = cur; }
      else if (it.kind == IT_CALL && calls[size_t(it.call)].kind == K_LINST) {
        auto f = bound_in.find(calls[size_t(it.call)].label);
        if (f != bound_in.end() && f->second != cur) { hazard = true; break; }
      }
    }
    if (hazard) {
      ctx.known_excluded("excluded:assembler-asserts-on-reference-to-label-bound-in-another-section");
      ctx.cls("case_not_compared_xsec_bound_label_reference");
      if (edited) ctx.nontrivial();
      return;
    }
  }

  // ---- reference: the list issued to a fresh Assembler, stopping at the first error like serialize_to() ----
  Path R;
  R.init(arch, 0, flags);
  for (const SecSpec& s : sspecs) { Section* sec; if (R.code.new_section(Out(sec), s.name.c_str(), SIZE_MAX, s.flags, s.align) != Error::kOk) ctx.fail("harness-selfcheck:new-section", "reference new_section failed"); }
  for (size_t i = 0; i < lspecs.size(); i++) { Label l = make_label(*R.em, lspecs[i]); if (l.id() != labels[i]) ctx.fail("harness-selfcheck:label-id", "reference label id differs"); }
  Error err_ref = Error::kOk;
  const char* ref_fail_kind = "none";
  std::string ref_fail_text;
  for (int iti : model.order) {
    const Item& it = model.items[size_t(iti)];
    Error e = Error::kOk;
    const char* kn = "";
    switch (it.kind) {
      case IT_CALL: e = issue(*R.em, R.code, calls[size_t(it.call)]); kn = kKindName[calls[size_t(it.call)].kind]; ref_fail_text = calls[size_t(it.call)].text; break;
      case IT_SECTION: e = R.em->section(R.code.section_by_id(it.id)); kn = "section"; break;
      case IT_BIND: e = R.em->bind(Label(it.id)); kn = "bind"; ref_fail_text = "bind"; break;
      case IT_CPALIGN: e = R.em->align(AlignMode::kData, uint32_t(calls[size_t(it.call)].pool->alignment())); kn = "embed-const-pool"; break;
      case IT_CPDATA: {
        const ConstPool& pool = *calls[size_t(it.call)].pool;
        std::vector<uint8_t> buf(pool.size() + 1);
        pool.fill(buf.data());
        e = R.em->embed(buf.data(), pool.size());
        kn = "embed-const-pool";
        break;
      }
    }
    if (e != Error::kOk) { err_ref = e; ref_fail_kind = kn; break; }
  }
  if (err_ref != Error::kOk) ctx.cls(std::string("finalize_error_expected_") + ref_fail_kind);

  Snap sr;
  take_snapshot(R.code, sr);
  if (!sr.rels.empty()) ctx.cls("case_with_relocations");
  if (sr.unresolved) ctx.cls("case_with_unresolved_fixups");
  if (!sr.xfix.empty()) ctx.cls("case_with_cross_section_fixups");

  // ---- finalize Builder / Compiler and compare ----
  for (int p = 0; p < 2; p++) {
    Error ef = P[p].em->finalize();
    if ((ef != Error::kOk) != (err_ref != Error::kOk))
      ctx.fail_unless_known(key_of(std::string("finalize-error-occurrence-differs/") + ref_fail_kind, pname[p]), std::string(arch_name) + " " + pname[p] + "::finalize() returned " + std::to_string(int(ef)) +
                            ", the same sequence on an Assembler gives " + std::to_string(int(err_ref)) + " (first failing element: " + ref_fail_kind + " " + ref_fail_text + ")");
    else if (ef != err_ref)
      ctx.fail_unless_known(key_of(std::string("finalize-error-code-differs/") + ref_fail_kind, pname[p]), std::string(arch_name) + " " + pname[p] + "::finalize() returned " + std::to_string(int(ef)) +
                            ", the Assembler fails with " + std::to_string(int(err_ref)) + " at " + ref_fail_kind + " " + ref_fail_text);
    Snap sp;
    take_snapshot(P[p].code, sp);
    std::string what, msg;
    if (diff_snap(sr, sp, what, msg)) {
      if (err_ref != Error::kOk) what += "/after-error";
      ctx.fail_unless_known(key_of(what, pname[p]), std::string(arch_name) + " " + pname[p] + " vs Assembler: " + msg + " [" + std::to_string(model.order.size()) + " list elements, " + std::to_string(edits) + " edits]");
    }
  }

  // ---- literal form of the property: calls in natural order on an Assembler (valid when nothing reordered the list) ----
  // (.addrtab is created on demand and takes the next section id, which depends on when user sections were created: not comparable by id then)
  bool addrtab_shift = A.code.has_address_table_section() && R.code.has_address_table_section() &&
                       A.code.address_table_section()->section_id() != R.code.address_table_section()->section_id();
  if (addrtab_shift) ctx.cls("case_addrtab_id_depends_on_creation_order");
  if (!edited && !model.reordered && !a_diverged && !addrtab_shift && err_ref == Error::kOk) {
    Snap sa;
    take_snapshot(A.code, sa);
    std::string what, msg;
    if (diff_snap(sr, sa, what, msg)) ctx.fail("harness-selfcheck:" + what, "natural-order Assembler differs from list-order Assembler: " + msg);
    ctx.cls("case_natural_order_assembler_compared");
  }

  if (interesting_ok > 0 || edited) {
    ctx.nontrivial();
    if (ctx.want_sample()) ctx.sample(std::string(arch_name) + ": " + sample);
  }
}
