// C09 — JitAllocator never hands out overlapping, misaligned or corrupted memory.
//
// Case: cfg = [option_bits, block_size_sel, granularity_sel, pattern_sel, final_mode, exh_depth, 0]
//   option_bits: 1 dual mapping, 2 multiple pools, 4 fill unused, 8 immediate release, 16 no initial padding,
//                32 large pages, 64 align block size to large page, 128 custom fill pattern
//   *_sel      : index into kBlockSel / kGranSel / kPatternSel (valid and invalid CreateParams values)
//   final_mode : how the history ends (0 release oldest first, 1 newest first, 2 interleaved, 3 soft reset, 4 hard reset);
//                afterwards: nothing accounted, retention policy, one more alloc/release, hard reset leaves nothing
//   exh_depth  : 0 = ops are the history; n > 0 = bounded-exhaustive batch: ops is a prefix, every suffix of <= n symbols of
//                the 11-symbol alphabet (exh_op) is appended and run on a fresh allocator (see run_exhaustive / vh_init)
// ops (first int = kind; every int is decoded modulo its range, indices modulo the number of live spans):
//   0 alloc   [0, size_class, k, d, init]        init: 0 leave as is, 1 write through rw(), 2 write through write()
//   1 release [1, i]                             i >= 0 position, -1 newest, -2 oldest
//   2 shrink  [2, i, mode, v, via]               mode: 0 to 0 (= release), 1 to 1 byte, 2 anywhere, 3 same size, 4 one granule less,
//                                                      5 one granule less + 1, 6 larger (rejected), 7 to a granule multiple
//                                                via: 0 span returned by alloc, 1 span returned by query
//   3 query   [3, mode, i, v]                    mode: 0 live start, 1 interior, 2 first granule, 3 released, 4 foreign
//   4 write   [4, i, form, off, len, seed]       form: 0 offset, 1 callback, 2 callback+truncate, 3 scope offset, 4 scope callback,
//                                                      5 out of range (rejected), 6 callback returning an error, 7 direct rw()
//   5 reset   [5, hard]
//   6 audit   [6]                                every span's tracked bytes, pairwise disjointness in both views, queries, statistics
//   7 burst   [7, seed, count]                   `count` further operations derived deterministically from `seed`
//   8 reuse   [8, i, v]                          release/shrink followed by an allocation that fits into the freed bytes
//   9 reject  [9, which]                         release(nullptr | foreign), shrink / write with an empty span
//
// Oracle: explicit model (live spans with their bytes, blocks identified by the opaque Span::_block token, running sums);
// statistics are compared after every operation. Not generated (outside the documented domain and not checked by the
// code): release of a released/interior pointer, shrink/write through a stale span, a write callback truncating to 0.
//
// Known findings (keys) have a continue/avoid path each: is-initialized-inverted, empty-blocks-retained, reset-allocation-count,
// soft-reset-not-filled continue; soft-reset-stale-tree-links and full-block-stale-search-range abort the process inside
// AsmJit (assert / sanitizer), so the operation that would trigger them is avoided when the key is listed.
// Debugging aid: C09_TRACE=1 prints every executed operation (also inside bursts) to stderr.
#define VH_MAIN
#include "vh.h"

#include <cstdarg>

#include <asmjit/core.h>

using namespace asmjit;

const char* vh_property() { return "C09"; }

namespace {

using Span = JitAllocator::Span;
using Stats = JitAllocator::Statistics;

enum : int { K_ALLOC = 0, K_RELEASE, K_SHRINK, K_QUERY, K_WRITE, K_RESET, K_STATS, K_BURST, K_REUSE, K_REJECT, K_COUNT };

enum : uint32_t { O_DUAL = 1, O_MULTI = 2, O_FILL = 4, O_IMMEDIATE = 8, O_NOPAD = 16, O_LARGE = 32, O_ALIGNLARGE = 64, O_CUSTOM = 128 };

static const uint32_t kBlockSel[] = {0, 65536, 131072, 262144, 100000, 4096, 1048576};
static const uint32_t kGranSel[] = {0, 64, 128, 256, 100, 512, 32};
static const uint32_t kPatternSel[] = {0x01020304u, 0x00000000u, 0xCCCCCCCCu, 0xDEADBEEFu, 0x90909090u, 0xFF0000FFu};

static inline uint64_t mix(uint64_t& s) {
  s += 0x9E3779B97F4A7C15ull;
  uint64_t z = s;
  z = (z ^ (z >> 30)) * 0xBF58476D1CE4E5B9ull;
  z = (z ^ (z >> 27)) * 0x94D049BB133111EBull;
  return z ^ (z >> 31);
}

static void gen_bytes(uint8_t* dst, size_t n, uint64_t seed) {
  uint64_t s = seed * 0x2545F4914F6CDD1Dull + 0x1234567;
  size_t i = 0;
  for (; i + 8 <= n; i += 8) { uint64_t v = mix(s); memcpy(dst + i, &v, 8); }
  if (i < n) { uint64_t v = mix(s); memcpy(dst + i, &v, n - i); }
}

static inline uint64_t u(int64_t v) { return uint64_t(v); }
static inline int64_t arg(const vh::Op& op, size_t i) { return i < op.size() ? op[i] : 0; }

// ---- operation construction shared by the rapidcheck generator and by bursts ------------------------------------
// R: int(int lo, int hi) inclusive.
template<class R>
static vh::Op make_op(R&& r, bool thorough, bool allow_burst) {
  int sel = r(0, 999);
  int kind;
  if (sel < 370) kind = K_ALLOC;
  else if (sel < 540) kind = K_RELEASE;
  else if (sel < 650) kind = K_SHRINK;
  else if (sel < 740) kind = K_QUERY;
  else if (sel < 850) kind = K_WRITE;
  else if (sel < 865) kind = K_RESET;
  else if (sel < 900) kind = K_STATS;
  else if (sel < 960) kind = K_REUSE;
  else if (sel < 975) kind = K_REJECT;
  else kind = allow_burst ? K_BURST : K_ALLOC;
  vh::Op op;
  op.push_back(kind);
  switch (kind) {
    case K_ALLOC: {
      int c = r(0, 99);
      int cls = c < 34 ? 0 : c < 58 ? 1 : c < 72 ? 2 : c < 80 ? 3 : c < 93 ? 4 : c < 96 ? 5 : 6;
      op.push_back(cls);
      op.push_back(r(0, 9999));
      op.push_back(r(0, 2));
      op.push_back(r(0, 2));
      break;
    }
    case K_RELEASE:
      op.push_back(r(0, 63));
      break;
    case K_SHRINK:
      op.push_back(r(0, 63));
      op.push_back(r(0, 7));
      op.push_back(r(0, 99999));
      op.push_back(r(0, 1));
      break;
    case K_QUERY:
      op.push_back(r(0, 4));
      op.push_back(r(0, 63));
      op.push_back(r(0, 99999));
      break;
    case K_WRITE:
      op.push_back(r(0, 63));
      op.push_back(r(0, 7));
      op.push_back(r(0, 99999));
      op.push_back(r(0, 99999));
      op.push_back(r(0, 999999));
      break;
    case K_RESET:
      op.push_back(r(0, 1));
      break;
    case K_STATS:
      break;
    case K_BURST: {
      op.push_back(r(0, 999999));
      int b = r(0, 99);
      int count;
      if (thorough) count = b < 40 ? 300 : b < 80 ? 3000 : b < 97 ? 20000 : 100000;
      else count = b < 60 ? 60 : b < 95 ? 400 : 2500;
      op.push_back(count);
      break;
    }
    case K_REUSE:
      op.push_back(r(0, 63));
      op.push_back(r(0, 99999));
      break;
    case K_REJECT:
      op.push_back(r(0, 5));
      break;
  }
  return op;
}

// Bytes of a live span as the model knows them. Small spans are tracked completely; of a large span only the first
// and the last kWin bytes are tracked (allocator mistakes act on whole granules next to a span boundary; the middle of a
// multi-block span would only cost time).
struct Content {
  static constexpr size_t kFull = 8192, kWin = 2048;
  size_t n = 0;
  std::vector<uint8_t> head;   // n <= kFull: all bytes; else the first kWin bytes
  std::vector<uint8_t> tail;   // n <= kFull: empty;     else the last kWin bytes
  bool full() const { return n <= kFull; }
  void snapshot(const uint8_t* mem, size_t size) {
    n = size;
    if (full()) { head.assign(mem, mem + n); tail.clear(); }
    else { head.assign(mem, mem + kWin); tail.assign(mem + n - kWin, mem + n); }
  }
  void write(size_t off, const uint8_t* src, size_t len) {
    size_t hw = head.size();
    if (off < hw && len) memcpy(&head[off], src, std::min(len, hw - off));
    if (!full()) {
      size_t ts = n - kWin, a = std::max(off, ts), b = std::min(off + len, n);
      if (a < b) memcpy(&tail[a - ts], src + (a - off), b - a);
    }
  }
  // The span shrank to `ns` bytes; `mem` is the current memory, taken as the truth for bytes that were not tracked.
  void shrink(size_t ns, const uint8_t* mem) {
    if (ns == n) return;
    Content c;
    c.snapshot(mem, ns);
    c.write(0, head.data(), std::min(head.size(), ns));
    if (!full() && n - kWin < ns) c.write(n - kWin, tail.data(), ns - (n - kWin));
    *this = std::move(c);
  }
  // index of the first tracked byte that differs, or SIZE_MAX
  size_t diff(const uint8_t* mem, bool light, uint8_t* want) const {
    size_t hw = head.size(), hl = (light && hw > 1024) ? 256 : hw;
    if (memcmp(mem, head.data(), hl) != 0) { size_t i = 0; while (mem[i] == head[i]) i++; *want = head[i]; return i; }
    if (full()) {
      if (light && hw > 1024 && memcmp(mem + hw - 256, head.data() + hw - 256, 256) != 0) { size_t i = hw - 256; while (mem[i] == head[i]) i++; *want = head[i]; return i; }
      return SIZE_MAX;
    }
    size_t ts = n - kWin, skip = light ? kWin - 256 : 0;
    if (memcmp(mem + ts + skip, tail.data() + skip, kWin - skip) != 0) { size_t i = skip; while (mem[ts + i] == tail[i]) i++; *want = tail[i]; return ts + i; }
    return SIZE_MAX;
  }
};

struct SpanM {
  Span span;
  Content data;
  void* block = nullptr;
  size_t pos = 0;        // index in Runner::order
  bool shrunk = false;
  uint64_t serial = 0;
};

struct BlockM {
  size_t live = 0;
  size_t bytes = 0;      // sum of the live span sizes in this block
  size_t cap = 0;        // size of the block (growth of reserved_size() when it appeared); 0 = unknown (kept by a soft reset)
  intptr_t delta = 0;    // rw - rx, identical for every span of a block
  bool from_reset = false;
  // Attribution of retained empty blocks (implementation knowledge, only used to tell the known finding
  // "empty-blocks-retained" from any other excess): a block stays in its initial append-only mode while every
  // release/shrink so far hit its topmost span; a block emptied in that mode is the known finding.
  bool append_only = true;
  bool emptied_append_only = false;   // valid while live == 0
};

struct RelPtr { uintptr_t rx; void* block; };

struct CbData {
  const uint8_t* src = nullptr;
  size_t n = 0;          // bytes to copy to span.rw()
  size_t truncate = 0;   // 0 = no truncation
  size_t seen_size = 0;
  void* seen_rw = nullptr;
  int calls = 0;
};

static Error cb_full(Span& span, void* ud) noexcept {
  CbData* d = static_cast<CbData*>(ud);
  d->calls++;
  d->seen_size = span.size();
  d->seen_rw = span.rw();
  if (d->n && d->n <= span.size() && span.rw()) memcpy(span.rw(), d->src, d->n);
  if (d->truncate) span.shrink(d->truncate);
  return Error::kOk;
}

static Error cb_fail(Span& span, void* ud) noexcept {
  CbData* d = static_cast<CbData*>(ud);
  d->calls++;
  d->seen_size = span.size();
  (void)span;
  return Error::kInvalidState;
}

static uint8_t g_static_foreign[256];
static const bool g_trace = getenv("C09_TRACE") != nullptr;   // debugging aid: prints every executed operation to stderr

struct Runner {
  vh::Ctx& ctx;
  JitAllocator& A;
  uint32_t G = 64, B0 = 65536;
  bool multi = false, fill = false, immediate = false, pad = true, dual = false;
  size_t pools = 1;
  uint8_t pat[4] = {0, 0, 0, 0};
  uint8_t patpage[4096 + 8];             // the fill pattern repeated (phase 0)
  uint32_t pattern = 0;

  std::map<uintptr_t, SpanM> live;       // by rx
  std::map<uintptr_t, size_t> rwmap;     // rw -> size
  std::vector<uintptr_t> order;          // rx of the live spans in an address independent order
  std::map<void*, BlockM> blocks;        // blocks known by token (live >= 0)
  size_t known_empty = 0;                // blocks in `blocks` with live == 0
  size_t known_empty_append_only = 0;    // ... of which emptied in append-only mode (see BlockM)
  size_t unknown_retained = 0;           // blocks kept by a soft reset that have not been seen again
  size_t sum = 0;                        // sum of live span sizes
  size_t count_bias = 0;                 // allocation_count() left behind by reset() (known finding reset-allocation-count)
  size_t Bc = 0;                         // number of blocks (statistics().block_count(), validated step by step)
  std::vector<RelPtr> released;
  Stats last{};
  uint64_t step_no = 0;
  uint64_t serial_no = 0;
  bool freed_something = false, alloc_after_free = false;
  bool in_burst = false;
  bool truncated = false;                // history cut short by a known-finding exclusion
  std::string sample;
  bool want_sample = false;
  const std::vector<vh::Op>* hist_ops = nullptr;   // set by the exhaustive mode: the concrete history, for messages
  std::string hist_text() const;

  Runner(vh::Ctx& c, JitAllocator& a) : ctx(c), A(a) {}
  ~Runner() { flush_classes(); }

  // class counters are collected locally (keyed by the literal's address) and merged into the context once per history
  std::vector<std::pair<const char*, uint64_t>> counters;
  void cls(const char* name, uint64_t n = 1) {
    for (auto& kv : counters) if (kv.first == name) { kv.second += n; return; }
    counters.emplace_back(name, n);
  }
  void flush_classes() {
    for (auto& kv : counters) ctx.cls(kv.first, kv.second);
    counters.clear();
  }

  // ------------------------------------------------------------------------------------------------------------
  void note(const char* fmt, size_t a = 0, size_t b = 0) {
    if (!want_sample || sample.size() > 360) return;
    char buf[64];
    snprintf(buf, sizeof buf, fmt, a, b);
    sample += buf;
  }

  [[noreturn]] void failv(const char* key, const char* fmt, ...) __attribute__((format(printf, 3, 4))) {
    char b[900];
    va_list ap;
    va_start(ap, fmt);
    vsnprintf(b, sizeof b, fmt, ap);
    va_end(ap);
    std::string m = b;
    if (hist_ops) m += " [history: " + hist_text() + "]";
    ctx.fail(key, m);
  }
  bool fail_unless_known(const char* key, const char* fmt, ...) __attribute__((format(printf, 3, 4))) {
    if (ctx.is_known(key)) { ctx.known_excluded(key); return true; }   // counted, history continues
    char b[900];
    va_list ap;
    va_start(ap, fmt);
    vsnprintf(b, sizeof b, fmt, ap);
    va_end(ap);
    std::string m = b;
    if (hist_ops) m += " [history: " + hist_text() + "]";
    return ctx.fail_unless_known(key, m);
  }
  [[noreturn]] void failc(const char* key, const char* cond, const char* fmt, ...) __attribute__((format(printf, 4, 5))) {
    char b[900];
    va_list ap;
    va_start(ap, fmt);
    vsnprintf(b, sizeof b, fmt, ap);
    va_end(ap);
    std::string m = std::string(cond) + " :: " + b;
    if (hist_ops) m += " [history: " + hist_text() + "]";
    ctx.fail(key, m);
  }
#define CK(cond, key, ...) do { if (!(cond)) failc((key), #cond, __VA_ARGS__); } while (0)

  static bool same_stats(const Stats& a, const Stats& b) {
    return a._block_count == b._block_count && a._allocation_count == b._allocation_count && a._used_size == b._used_size &&
           a._reserved_size == b._reserved_size && a._overhead_size == b._overhead_size;
  }

  size_t align_up(size_t v, size_t a) const { return (v + a - 1) / a * a; }
  size_t empties() const { return known_empty + unknown_retained; }

  // ------------------------------------------------------------------------------------------------------------
  void check_stats(const char* where) {
    Stats st = A.statistics();
    CK(st.allocation_count() == order.size() + count_bias, "stat-allocation-count", "%s: allocation_count() %zu, live spans %zu%s", where, st.allocation_count(), order.size(), count_bias ? " (+ stale count left by reset, known finding)" : "");
    CK(st.block_count() == Bc, "stat-block-count", "%s: block_count() %zu, expected %zu", where, st.block_count(), Bc);
    size_t p = pad ? 1 : 0;
    if (!multi) {
      CK(st.used_size() == sum + Bc * G * p, "stat-used-size", "%s: used_size() %zu, live bytes %zu + %zu blocks * padding %zu", where, st.used_size(), sum, Bc, size_t(G) * p);
    } else {
      CK(st.used_size() >= sum + Bc * G * p && st.used_size() <= sum + Bc * 4 * G * p && (st.used_size() - sum) % G == 0, "stat-used-size",
         "%s: used_size() %zu outside [%zu, %zu] (live bytes %zu, %zu blocks)", where, st.used_size(), sum + Bc * G * p, sum + Bc * 4 * G * p, sum, Bc);
    }
    CK(st.reserved_size() >= st.used_size(), "stat-reserved-size", "%s: reserved_size() %zu < used_size() %zu", where, st.reserved_size(), st.used_size());
    CK(st.reserved_size() >= Bc * size_t(B0), "stat-reserved-size", "%s: reserved_size() %zu < %zu blocks * block_size() %u", where, st.reserved_size(), Bc, B0);
    CK(st.unused_size() == st.reserved_size() - st.used_size(), "stat-reserved-size", "%s: unused_size()", where);
    if (Bc == 0) CK(st.reserved_size() == 0 && st.overhead_size() == 0 && st.used_size() == 0, "stat-empty-residue", "%s: no blocks but reserved %zu overhead %zu used %zu", where, st.reserved_size(), st.overhead_size(), st.used_size());
    else CK(st.overhead_size() > 0, "stat-overhead", "%s: %zu blocks but overhead_size() == 0", where, Bc);
    last = st;
  }

  void check_unchanged(const char* where) {
    Stats st = A.statistics();
    CK(same_stats(st, last), "rejected-call-changed-statistics", "%s: statistics changed by a rejected/read-only call (blocks %zu->%zu allocs %zu->%zu used %zu->%zu reserved %zu->%zu)",
       where, last._block_count, st._block_count, last._allocation_count, st._allocation_count, last._used_size, st._used_size, last._reserved_size, st._reserved_size);
  }

  void check_policy(const char* where) {
    size_t limit = immediate ? 0 : pools;
    size_t regular = empties() - known_empty_append_only;
    CK(regular <= limit, "empty-block-policy", "%s: %zu empty block(s) retained (%zu blocks, %zu live spans), policy allows %zu (%s, %zu pool(s))",
       where, regular, Bc, order.size(), limit, immediate ? "immediate release" : "keep one per pool", pools);
    if (empties() > limit) {
      cls("policy_exceeded");
      fail_unless_known("empty-blocks-retained", "%s: %zu empty block(s) retained (%zu blocks, %zu live spans; %zu of them emptied by releasing the topmost span of a block never released from otherwise), policy allows %zu (%s, %zu pool(s))",
                        where, empties(), Bc, order.size(), known_empty_append_only, limit, immediate ? "immediate release" : "keep one per pool", pools);
    }
  }

  // ------------------------------------------------------------------------------------------------------------
  void check_content(const SpanM& sm, bool full, const char* where) {
    size_t n = sm.span.size();
    CK(sm.data.n == n, "harness-internal", "model size %zu vs span %zu", sm.data.n, n);
    const uint8_t* rx = static_cast<const uint8_t*>(sm.span.rx());
    const uint8_t* rw = static_cast<const uint8_t*>(sm.span.rw());
    uint8_t want = 0;
    size_t i = sm.data.diff(rx, !full, &want);
    if (i != SIZE_MAX) failv("content-corrupted", "%s: span of %zu bytes (rx view): byte %zu is 0x%02x, model says 0x%02x (granularity %u)", where, n, i, rx[i], want, G);
    if (rw != rx) {
      i = sm.data.diff(rw, !full, &want);
      if (i != SIZE_MAX) failv("content-corrupted", "%s: span of %zu bytes (rw view): byte %zu is 0x%02x, model says 0x%02x (granularity %u)", where, n, i, rw[i], want, G);
    }
  }

  void check_neighbors(uintptr_t addr, const char* where) {
    auto it = live.lower_bound(addr);
    if (it != live.end()) {
      check_content(it->second, false, where);
      auto nx = std::next(it);
      if (nx != live.end() && nx->first != addr) check_content(nx->second, false, where);
    }
    if (it != live.begin()) check_content(std::prev(it)->second, false, where);
  }

  void check_some(const char* where) {
    size_t n = order.size();
    if (!n) return;
    size_t k = n <= 6 ? n : 3;
    for (size_t j = 0; j < k; j++) check_content(live.at(order[(step_no * 3 + j) % n]), false, where);
  }

  // Is [addr, addr+n) filled with the fill pattern?  (addresses are at least 4-byte aligned relative to the block start)
  void check_filled(const uint8_t* mem, size_t n, const char* key, const char* where) {
    // compare against a pattern page with the same phase (mod 4) as `mem`
    const uint8_t* ref = patpage + (uintptr_t(mem) & 3);
    size_t i = 0;
    while (i < n) {
      size_t c = std::min<size_t>(n - i, 4096);   // 4096 keeps the phase: 4096 % 4 == 0
      if (memcmp(mem + i, ref, c) != 0) break;
      i += c;
    }
    if (i >= n) return;
    while (mem[i] == pat[(uintptr_t(mem) + i) & 3]) i++;
    failv(key, "%s: byte %zu of %zu is 0x%02x, fill pattern 0x%08x expects 0x%02x", where, i, n, mem[i], pattern, pat[(uintptr_t(mem) + i) & 3]);
  }

  SpanM* containing(uintptr_t p) {
    auto it = live.upper_bound(p);
    if (it == live.begin()) return nullptr;
    --it;
    if (p < it->first + it->second.span.size()) return &it->second;
    return nullptr;
  }

  void expect_query_rejected(void* p, const char* where) {
    Span out;
    out._rx = &out; out._rw = &out; out._size = 12345;
    Error e = A.query(Out(out), p);
    CK(e != Error::kOk, "query-accepted-dead-pointer", "%s: query() returned kOk (rx %s, size %zu) for a pointer that is not inside any live span", where, out.rx() ? "non-null" : "null", out.size());
    check_unchanged(where);
  }

  void full_audit(const char* where) {
    // every span byte by byte, pairwise disjointness in both views, query of every start, statistics
    uintptr_t prev_end = 0;
    size_t s = 0;
    for (auto& kv : live) {
      const SpanM& sm = kv.second;
      CK(kv.first >= prev_end, "overlap", "%s: rx spans overlap", where);
      prev_end = kv.first + sm.span.size();
      s += sm.span.size();
      check_content(sm, true, where);
      CK(kv.first % G == 0, "misaligned", "%s: rx not aligned to %u", where, G);
    }
    CK(s == sum, "harness-internal", "sum %zu vs %zu", s, sum);
    prev_end = 0;
    for (auto& kv : rwmap) {
      CK(kv.first >= prev_end, "overlap-rw", "%s: rw spans overlap", where);
      prev_end = kv.first + kv.second;
    }
    CK(rwmap.size() == live.size() && order.size() == live.size(), "harness-internal", "map sizes");
    size_t n = order.size(), lim = in_burst ? 16 : 64;
    for (size_t j = 0; j < n && j < lim; j++) query_live_start(live.at(order[(step_no + j) % n]), where);
    check_stats(where);
  }

  void query_live_start(const SpanM& sm, const char* where) {
    Span out;
    Error e = A.query(Out(out), sm.span.rx());
    CK(e == Error::kOk, "query-live-failed", "%s: query(live start) error %u", where, unsigned(e));
    CK(out.rx() == sm.span.rx() && out.rw() == sm.span.rw(), "query-wrong-pointer", "%s: query(live start) returned other pointers (rx delta %td rw delta %td)", where,
       (const uint8_t*)out.rx() - (const uint8_t*)sm.span.rx(), (const uint8_t*)out.rw() - (const uint8_t*)sm.span.rw());
    CK(out.size() == sm.span.size(), "query-wrong-size", "%s: query(live start) size %zu, span size %zu", where, out.size(), sm.span.size());
    CK(out._block == sm.span._block, "query-wrong-pointer", "%s: query(live start) returned another block token", where);
  }

  // ------------------------------------------------------------------------------------------------------------
  size_t decode_size(int64_t cls_, uint64_t k, uint64_t d) const {
    int cls = int(u(cls_) % 8);
    size_t g = G, b = B0;
    switch (cls) {
      case 0: return 1 + k % (4 * g);
      case 1: return (1 + k % 8) * g + (d % 3) - 1;
      case 2: return 1 + k % 8192;
      case 3: return ((1 + k % 16) * g) << (d % 3);
      case 4: {
        const size_t t[] = {b - g, b - g + 1, b - 1, b, b + 1, b + g, 2 * b - 2 * g, 2 * b - g, 2 * b - g + 1, 2 * b, 2 * b + 1, 3 * b, 3 * b + g + 1,
                            b / 2, b / 2 + 1, b / 4, 2 * b - 3 * g, b - 2 * g, 4 * b - g, b / 2 - g};
        return t[k % (sizeof(t) / sizeof(t[0]))];
      }
      case 5: return 0;
      case 7: {   // alphabet of the bounded-exhaustive sweep (first block of a pool is 2 * block_size())
        const size_t t[] = {1, 2 * g + 1, b, 2 * b - 2 * g, 2 * b - g, 2 * b + 1};
        return t[k % 6];
      }
      default: {
        const size_t t[] = {size_t(0x80000000u), size_t(0x80000001u), size_t(0x80000000u) + g, size_t(0xFFFFFFFFu), size_t(0x100000000ull), size_t(0x100000001ull),
                            size_t(0x200000005ull), SIZE_MAX, SIZE_MAX - 1, SIZE_MAX - g + 1, SIZE_MAX - g, SIZE_MAX / 2 + 1, size_t(0x100000000ull) + g};
        return t[k % (sizeof(t) / sizeof(t[0]))];
      }
    }
  }

  // ------------------------------------------------------------------------------------------------------------
  SpanM* do_alloc(size_t req, int init, uint64_t seed, const char* where = "alloc") {
    bool must_reject = req == 0 || req > size_t(0x7FFFFFFFu);
    if (!must_reject && (sum + req > (size_t(40) << 20) || order.size() >= 3000)) { cls("alloc_skipped_cap"); return nullptr; }
    if (!must_reject && ctx.is_known("full-block-stale-search-range") && may_fill_append_only_block(align_up(req, G))) {
      // known-finding exclusion (see note_block_fill): do not make an append-only block exactly full
      ctx.known_excluded("full-block-stale-search-range");
      cls("alloc_skipped_would_fill_block_known");
      return nullptr;
    }
    Span s;
    s._rx = &s; s._rw = &s; s._size = 777;
    Error e = A.alloc(Out(s), req);
    if (must_reject) {
      CK(e != Error::kOk, "invalid-size-accepted", "alloc(%zu) returned kOk", req);
      CK(s.rx() == nullptr && s.rw() == nullptr && s.size() == 0, "rejected-alloc-returned-span", "alloc(%zu) failed (error %u) but left a span (size %zu)", req, unsigned(e), s.size());
      check_unchanged("alloc(rejected size)");
      cls(req == 0 ? "alloc_rejected_zero" : "alloc_rejected_too_large");
      note("A!", 0);
      return nullptr;
    }
    CK(e == Error::kOk, "alloc-failed", "alloc(%zu) returned error %u (live %zu spans, %zu bytes, %zu blocks)", req, unsigned(e), order.size(), sum, Bc);
    uintptr_t rx = uintptr_t(s.rx()), rw = uintptr_t(s.rw());
    size_t size = s.size();
    CK(rx != 0, "null-span", "alloc(%zu): rx() is null", req);
    CK(rw != 0, "null-span", "alloc(%zu): rw() is null", req);
    CK(rx % G == 0, "misaligned", "alloc(%zu): rx() %% %u == %zu", req, G, size_t(rx % G));
    CK(rw % G == 0, "misaligned", "alloc(%zu): rw() %% %u == %zu", req, G, size_t(rw % G));
    CK(size >= req, "size-too-small", "alloc(%zu): span size %zu", req, size);
    CK(size % G == 0, "size-not-granular", "alloc(%zu): span size %zu is not a multiple of %u", req, size, G);
    if (!multi) CK(size == align_up(req, G), "size-not-granular", "alloc(%zu): span size %zu, expected %zu", req, size, align_up(req, G));
    else CK(size < req + 4 * size_t(G), "size-not-granular", "alloc(%zu): span size %zu", req, size);
    CK(s._block != nullptr, "null-span", "alloc(%zu): no block token", req);
    if (dual) CK(rw != rx, "views-not-distinct", "dual mapping requested but rw() == rx()");
    else CK(rw == rx, "views-not-distinct", "single mapping but rw() != rx()");

    // disjoint from every live span in both views (neighbours in address order suffice: the others are disjoint already)
    {
      auto it = live.lower_bound(rx);
      if (it != live.end()) CK(rx + size <= it->first, "overlap", "alloc(%zu): new span [+0,+%zu) overlaps the next live span starting at +%zu (rx view)", req, size, size_t(it->first - rx));
      if (it != live.begin()) { auto pv = std::prev(it); CK(pv->first + pv->second.span.size() <= rx, "overlap", "alloc(%zu): new span starts %zu bytes inside a live span of size %zu (rx view)", req, size_t(pv->first + pv->second.span.size() - rx), pv->second.span.size()); }
      auto jt = rwmap.lower_bound(rw);
      if (jt != rwmap.end()) CK(rw + size <= jt->first, "overlap-rw", "alloc(%zu): new span overlaps the next live span (rw view)", req);
      if (jt != rwmap.begin()) { auto pv = std::prev(jt); CK(pv->first + pv->second <= rw, "overlap-rw", "alloc(%zu): new span starts inside a live span (rw view)", req); }
    }

    // block bookkeeping through the opaque token
    Stats st = A.statistics();
    bool from_reset_block = false;
    auto bit = blocks.find(s._block);
    if (bit != blocks.end()) {
      CK(st.block_count() == Bc, "stat-block-count", "alloc(%zu) into a known block changed block_count() %zu -> %zu", req, Bc, st.block_count());
      if (bit->second.live == 0) { known_empty--; if (bit->second.emptied_append_only) known_empty_append_only--; bit->second.emptied_append_only = false; cls("alloc_reused_empty_block"); }
      else cls("alloc_existing_block");
      bit->second.live++;
      bit->second.bytes += size;
      CK(bit->second.delta == intptr_t(rw - rx), "views-inconsistent", "alloc(%zu): rw-rx differs from other spans of the same block", req);
      from_reset_block = bit->second.from_reset;
    } else {
      BlockM bm;
      bm.live = 1;
      bm.bytes = size;
      bm.delta = intptr_t(rw - rx);
      if (st.block_count() == Bc && unknown_retained > 0) {
        unknown_retained--;
        bm.from_reset = true;
        if (Bc == 1) bm.cap = st.reserved_size();
        from_reset_block = true;
        cls("alloc_reused_reset_block");
      } else {
        CK(st.block_count() == Bc + 1, "stat-block-count", "alloc(%zu) into a new block: block_count() %zu -> %zu", req, Bc, st.block_count());
        Bc++;
        bm.cap = st.reserved_size() - last.reserved_size();
        cls("alloc_new_block");
        // released memory is reusable: a new block must not be needed while a gap between two live spans of one block fits
        // (one pool only: with several pools the pool of a gap is not observable)
        if (!multi && !live.empty()) {
          auto a = live.begin();
          for (auto b2 = std::next(a); b2 != live.end(); ++a, ++b2) {
            if (a->second.block != b2->second.block) continue;
            size_t gap = b2->first - (a->first + a->second.span.size());
            if (gap >= size) {
              cls("gap_not_reused");
              failv("free-gap-not-reused", "alloc(%zu) created a new block (%zu -> %zu) although %zu free bytes lie between two live spans of an existing block", req, Bc - 1, Bc, gap);
            }
          }
        }
      }
      blocks[s._block] = bm;
    }

    SpanM sm;
    sm.span = s;
    sm.block = s._block;
    const uint8_t* prx = static_cast<const uint8_t*>(s.rx());
    if (fill) {
      // unused memory always carries the pattern => so does a fresh span
      if (from_reset_block) {
        size_t i = 0;
        while (i < size && memcmp(prx + i, patpage + (rx & 3), std::min<size_t>(size - i, 4096)) == 0) i += std::min<size_t>(size - i, 4096);
        while (i < size && prx[i] == pat[(rx + i) & 3]) i++;
        if (i < size) {
          // known-finding path (the stale bytes stay until this span is released, which refills them)
          fail_unless_known("soft-reset-not-filled", "alloc from the block kept by reset(kSoft): byte %zu of %zu is 0x%02x, fill pattern 0x%08x expects 0x%02x", i, size, prx[i], pattern, pat[(rx + i) & 3]);
          cls("alloc_from_reset_block_stale_bytes");
        }
      } else {
        check_filled(prx, size, "alloc-not-filled", "alloc (fresh span)");
        if (rw != rx) check_filled(static_cast<const uint8_t*>(s.rw()), size, "alloc-not-filled", "alloc (fresh span, rw view)");
      }
    }
    sm.data.snapshot(prx, size);
    if (init) {
      // initial contents: the tracked windows (whole span when small)
      size_t w1 = sm.data.head.size();
      std::vector<uint8_t> buf(w1 + sm.data.tail.size());
      gen_bytes(buf.data(), buf.size(), seed ^ uint64_t(init));
      size_t toff = size - sm.data.tail.size();
      if (init == 1) {
        { VirtMem::ProtectJitReadWriteScope scope(s.rx(), size);
          memcpy(s.rw(), buf.data(), w1);
          if (buf.size() > w1) memcpy(static_cast<uint8_t*>(s.rw()) + toff, buf.data() + w1, buf.size() - w1); }
        VirtMem::flush_instruction_cache(s.rx(), size);
      } else {
        Error we = A.write(sm.span, 0, buf.data(), w1);
        if (we == Error::kOk && buf.size() > w1) we = A.write(sm.span, toff, buf.data() + w1, buf.size() - w1);
        CK(we == Error::kOk, "write-failed", "write(span, offset form) into a span of %zu bytes: error %u", size, unsigned(we));
        CK(sm.span.size() == size && sm.span.rx() == s.rx(), "write-changed-span", "write(offset form) changed the span");
      }
      sm.data.write(0, buf.data(), w1);
      if (buf.size() > w1) sm.data.write(toff, buf.data() + w1, buf.size() - w1);
    }
    sm.pos = order.size();
    sm.serial = ++serial_no;
    order.push_back(rx);
    rwmap[rw] = size;
    sum += size;
    auto ins = live.emplace(rx, std::move(sm));
    SpanM* res = &ins.first->second;
    check_content(*res, true, where);
    check_neighbors(rx, where);
    check_stats(where);
    if (freed_something) alloc_after_free = true;
    note_block_fill(s._block, req);

    // class counters
    if (req % G == 0) cls("alloc_size_granule_multiple");
    else if (req % G == 1 || req % G == G - 1) cls("alloc_size_granule_edge");
    if (req >= B0) cls(req > 2 * size_t(B0) ? "alloc_size_over_2_blocks" : "alloc_size_block_or_more");
    else if (req + 2 * G >= B0) cls("alloc_size_near_block");
    if (req <= G) cls("alloc_size_one_granule");
    if (g_trace) fprintf(stderr, "  alloc(%zu) -> rx %p size %zu block %p blocks %zu\n", req, s.rx(), size, s._block, Bc);
    note("A%zu ", req);
    return res;
  }

  // Known finding "full-block-stale-search-range": when a block becomes exactly full while it is still in its initial
  // ("incremental") mode its search range end is left at 0; releasing the tail, re-allocating part of it and then releasing or
  // shrinking anything else in that block leaves free granules outside the search range, and BitVectorRangeIterator then
  // returns a range that starts beyond the range end -> alloc() marks bits past the end of the block (heap overflow, span
  // beyond the mapping). The run cannot continue past a sanitizer abort, so when the key is listed the history is cut as
  // soon as a block that is still in its initial append-only mode (see BlockM) becomes exactly full (superset of the trigger).
  // Could an allocation of `sz` bytes (granule multiple) make a block that is still append-only exactly full?
  // Superset: every existing append-only block, and a fresh block (its size is a multiple of block_size()).
  bool may_fill_append_only_block(size_t sz) const {
    for (size_t m = pad ? 1 : 0; m <= (pad ? (multi ? 4u : 1u) : 0u); m = m ? m * 2 : 5) {
      size_t p = m * G;
      if ((sz + p) % B0 == 0) return true;
      for (auto& kv : blocks) {
        const BlockM& bm = kv.second;
        if (!bm.append_only) continue;
        if (bm.cap ? bm.bytes + sz + p == bm.cap : (bm.bytes + sz + p) % B0 == 0) return true;
      }
    }
    return false;
  }

  void note_block_fill(void* block, size_t req) {
    auto it = blocks.find(block);
    if (it == blocks.end()) return;
    const BlockM& bm = it->second;
    bool full = false;
    for (size_t m = 1; m <= (multi ? 4u : 1u); m *= 2) {
      size_t used = bm.bytes + (pad ? m * G : 0);
      if (bm.cap ? used == bm.cap : (used >= 2 * size_t(B0) && used % B0 == 0)) full = true;
    }
    if (!full) return;
    cls("block_exactly_full");
    // the stale search range only arises while the block is still in its initial append-only mode
    if (!bm.append_only) { cls("block_exactly_full_after_holes"); return; }
    (void)req;
    if (ctx.is_known("full-block-stale-search-range") && !truncated) {
      truncated = true;
      ctx.known_excluded("full-block-stale-search-range");
      cls("history_cut_full_block_known");
    }
  }

  // i >= 0: position in an address independent list; -1: newest span, -2: oldest span (by allocation serial)
  SpanM& pick(int64_t i) {
    if (i >= 0 || i < -2) return live.at(order[size_t(u(i) % order.size())]);
    size_t best = 0;
    for (size_t j = 1; j < order.size(); j++) {
      uint64_t a = live.at(order[j]).serial, b = live.at(order[best]).serial;
      if (i == -1 ? a > b : a < b) best = j;
    }
    return live.at(order[best]);
  }

  void forget_span(SpanM& sm) {
    uintptr_t rx = uintptr_t(sm.span.rx());
    size_t pos = sm.pos;
    rwmap.erase(uintptr_t(sm.span.rw()));
    sum -= sm.span.size();
    uintptr_t moved = order.back();
    order[pos] = moved;
    order.pop_back();
    if (moved != rx) live.at(moved).pos = pos;
    live.erase(rx);
  }

  // Bookkeeping after a span of `block` disappeared (release / shrink to 0). Returns true if the block still exists.
  bool after_span_gone(void* block, size_t gone_bytes, bool topmost, const char* where) {
    Stats st = A.statistics();
    auto bit = blocks.find(block);
    CK(bit != blocks.end() && bit->second.live > 0 && bit->second.bytes >= gone_bytes, "harness-internal", "block token unknown");
    bit->second.live--;
    bit->second.bytes -= gone_bytes;
    if (!topmost) bit->second.append_only = false;
    bool exists = true;
    if (bit->second.live > 0) {
      CK(st.block_count() == Bc, "stat-block-count", "%s: block still has live spans but block_count() %zu -> %zu", where, Bc, st.block_count());
    } else if (st.block_count() == Bc) {
      known_empty++;
      if (bit->second.append_only) { known_empty_append_only++; bit->second.emptied_append_only = true; cls("release_block_emptied_kept_append_only"); }
      cls("release_block_emptied_kept");
    } else {
      CK(st.block_count() + 1 == Bc, "stat-block-count", "%s: block_count() %zu -> %zu after one block became empty", where, Bc, st.block_count());
      Bc--;
      blocks.erase(bit);
      exists = false;
      cls("release_block_emptied_deleted");
      // pointers into a deleted block are forgotten: a later mapping may reuse the addresses
      released.erase(std::remove_if(released.begin(), released.end(), [&](const RelPtr& r) { return r.block == block; }), released.end());
    }
    return exists;
  }

  // Is the span starting at rx the highest one of its block?
  bool is_topmost(uintptr_t rx, void* block) {
    auto it = live.find(rx);
    if (it == live.end()) return false;
    ++it;
    return it == live.end() || it->second.block != block;
  }

  void remember_released(uintptr_t p, void* block) {
    if (released.size() >= 48) released.erase(released.begin());
    released.push_back(RelPtr{p, block});
  }

  void do_release(int64_t i, bool via_shrink0) {
    if (order.empty()) { cls("noop_empty"); return; }
    SpanM& sm = pick(i);
    const char* where = via_shrink0 ? "shrink(span, 0)" : "release";
    check_content(sm, true, where);                       // contents are kept until released
    Span sp = sm.span;
    void* block = sm.block;
    size_t size = sp.size();
    uintptr_t rx = uintptr_t(sp.rx());
    Error e;
    if (via_shrink0) {
      Span tmp = sp;
      e = A.shrink(tmp, 0);
      CK(e == Error::kOk, "release-failed", "shrink(span, 0) error %u", unsigned(e));
      CK(tmp.rx() == nullptr && tmp.size() == 0, "shrink-zero-span-not-cleared", "shrink(span, 0) did not clear the span");
    } else {
      e = A.release(sp.rx());
      CK(e == Error::kOk, "release-failed", "release(live span) error %u", unsigned(e));
    }
    bool topmost = is_topmost(rx, block);
    forget_span(sm);
    bool exists = after_span_gone(block, size, topmost, where);
    if (g_trace) fprintf(stderr, "  %s rx %p size %zu block %p -> blocks %zu\n", where, sp.rx(), size, block, Bc);
    if (exists) {
      if (fill) {
        check_filled(reinterpret_cast<const uint8_t*>(rx), size, "released-not-filled", where);
        if (sp.rw() != sp.rx()) check_filled(static_cast<const uint8_t*>(sp.rw()), size, "released-not-filled", where);
      }
      remember_released(rx, block);
    }
    check_stats(where);
    expect_query_rejected(reinterpret_cast<void*>(rx), "query(just released pointer)");
    check_neighbors(rx, where);
    check_policy(where);
    freed_something = true;
    cls(via_shrink0 ? "shrink_to_zero" : "release");
    note("R%zu ", size);
  }

  // Common verification after a span was shrunk by shrink() or by a truncating write callback.
  void after_shrink(SpanM& sm, const Span& after, size_t old_size, size_t new_size, const char* where) {
    CK(after.rx() == sm.span.rx() && after.rw() == sm.span.rw(), "shrink-moved-span", "%s: span pointers changed", where);
    size_t ns = after.size();
    CK(ns >= new_size && ns <= old_size && ns % G == 0, "shrink-wrong-size", "%s: %zu -> %zu bytes requested, span size became %zu", where, old_size, new_size, ns);
    if (!multi) CK(ns == align_up(new_size, G), "shrink-wrong-size", "%s: %zu -> %zu bytes requested, span size became %zu, expected %zu", where, old_size, new_size, ns, align_up(new_size, G));
    else CK(ns <= align_up(new_size, 4 * size_t(G)), "shrink-wrong-size", "%s: %zu -> %zu bytes requested, span size became %zu", where, old_size, new_size, ns);
    uintptr_t rx = uintptr_t(sm.span.rx());
    sm.span._size = ns;
    sm.data.shrink(ns, reinterpret_cast<const uint8_t*>(rx));
    rwmap[uintptr_t(sm.span.rw())] = ns;
    sum -= old_size - ns;
    blocks.at(sm.block).bytes -= old_size - ns;
    if (ns < old_size && !is_topmost(rx, sm.block)) blocks.at(sm.block).append_only = false;
    if (ns < old_size) sm.shrunk = true;
    check_stats(where);
    query_live_start(sm, where);
    check_content(sm, true, where);
    if (ns < old_size) {
      if (fill) {
        check_filled(reinterpret_cast<const uint8_t*>(rx + ns), old_size - ns, "shrunk-not-filled", where);
        if (sm.span.rw() != sm.span.rx()) check_filled(static_cast<const uint8_t*>(sm.span.rw()) + ns, old_size - ns, "shrunk-not-filled", where);
      }
      if (!containing(rx + ns)) expect_query_rejected(reinterpret_cast<void*>(rx + ns), "query(first shrunk-away granule)");
      if (old_size - ns > G && !containing(rx + old_size - G)) expect_query_rejected(reinterpret_cast<void*>(rx + old_size - G), "query(last shrunk-away granule)");
      remember_released(rx + ns, sm.block);
      freed_something = true;
      cls("shrink_freed_granules");
    } else cls("shrink_same_granules");
    check_neighbors(rx, where);
  }

  void do_shrink(int64_t i, int64_t mode_, uint64_t v, int64_t via) {
    if (order.empty()) { cls("noop_empty"); return; }
    int mode = int(u(mode_) % 8);
    if (mode == 0) { do_release(i, true); return; }
    SpanM& sm = pick(i);
    size_t old = sm.span.size();
    size_t ns;
    switch (mode) {
      case 1: ns = 1; break;
      case 2: ns = 1 + v % old; break;
      case 3: ns = old; break;
      case 4: ns = old > G ? old - G : old; break;
      case 5: ns = old > G ? old - G + 1 : 1; break;
      case 6: ns = old + 1 + v % (3 * size_t(G)); break;     // larger: the code rejects it explicitly
      default: ns = old >= 2 * size_t(G) ? G * (1 + v % (old / G)) : old; break;
    }
    Span sp = sm.span;
    if (via & 1) {
      Span q;
      Error qe = A.query(Out(q), sm.span.rx());
      CK(qe == Error::kOk, "query-live-failed", "query(live start) error %u", unsigned(qe));
      sp = q;
    }
    Error e = A.shrink(sp, ns);
    if (ns > old) {
      CK(e != Error::kOk, "shrink-grow-accepted", "shrink(span of %zu bytes, %zu) returned kOk", old, ns);
      CK(sp.rx() == sm.span.rx() && sp.size() == old, "shrink-grow-accepted", "rejected shrink modified the span");
      check_unchanged("shrink(larger size)");
      query_live_start(sm, "after rejected shrink");
      check_content(sm, true, "after rejected shrink");
      cls("shrink_larger_rejected");
      note("S+ ", 0);
      return;
    }
    CK(e == Error::kOk, "shrink-failed", "shrink(span of %zu bytes, %zu) error %u", old, ns, unsigned(e));
    after_shrink(sm, sp, old, ns, "shrink");
    note("S%zu>%zu ", old, ns);
  }

  void do_query(int64_t mode_, int64_t i, uint64_t v) {
    int mode = int(u(mode_) % 5);
    if (mode <= 2 && order.empty()) mode = 4;
    if (mode == 3 && released.empty()) mode = 4;
    if (mode == 0) {
      query_live_start(pick(i), "query(live start)");
      check_unchanged("query(live start)");
      cls("query_live_start");
    } else if (mode == 1 || mode == 2) {
      SpanM& sm = pick(i);
      size_t size = sm.span.size();
      size_t off = mode == 2 ? 1 + v % (G - 1) : (size > 1 ? 1 + v % (size - 1) : 0);
      uint8_t* p = static_cast<uint8_t*>(sm.span.rx()) + off;
      Span out;
      Error e = A.query(Out(out), p);
      CK(e == Error::kOk, "query-live-failed", "query(rx + %zu) inside a live span of %zu bytes: error %u", off, size, unsigned(e));
      uint8_t* orx = static_cast<uint8_t*>(out.rx());
      uint8_t* srx = static_cast<uint8_t*>(sm.span.rx());
      CK(orx >= srx && orx <= p && orx + out.size() == srx + size, "query-wrong-size", "query(rx + %zu): returned [+%td, +%td) for a live span [0, %zu)", off, orx - srx, orx - srx + ptrdiff_t(out.size()), size);
      CK(size_t(orx - srx) % G == 0 && size_t(p - orx) < size_t(G) * (multi ? 4 : 1), "query-wrong-pointer", "query(rx + %zu): returned start +%td", off, orx - srx);
      CK((uint8_t*)out.rw() - orx == (uint8_t*)sm.span.rw() - srx, "query-wrong-pointer", "query(rx + %zu): rw/rx views inconsistent", off);
      if (off < G) CK(orx == srx && out.size() == size, "query-wrong-size", "query(rx + %zu) within the first granule: size %zu, expected %zu", off, out.size(), size);
      check_unchanged("query(interior)");
      cls(mode == 2 ? "query_first_granule" : "query_interior");
    } else if (mode == 3) {
      RelPtr r = released[size_t(v % released.size())];
      if (containing(r.rx)) {
        // reused meanwhile: it is inside a live span again
        SpanM* sm = containing(r.rx);
        Span out;
        Error e = A.query(Out(out), reinterpret_cast<void*>(r.rx));
        CK(e == Error::kOk, "query-live-failed", "query(reused pointer inside a live span) error %u", unsigned(e));
        CK(uintptr_t(out.rx()) + out.size() == uintptr_t(sm->span.rx()) + sm->span.size(), "query-wrong-size", "query(reused pointer): wrong end");
        cls("query_released_reused");
      } else {
        expect_query_rejected(reinterpret_cast<void*>(r.rx), "query(released pointer)");
        cls("query_released_rejected");
      }
    } else {
      uint8_t local[64];
      std::vector<uint8_t> heap(128);
      void* cands[] = {nullptr, local + 8, heap.data() + 16, g_static_foreign + 64, reinterpret_cast<void*>(uintptr_t(64)), reinterpret_cast<void*>(~uintptr_t(0) - 63)};
      void* p = cands[v % 6];
      expect_query_rejected(p, "query(foreign pointer)");
      cls("query_foreign_rejected");
    }
    note("Q%zu ", size_t(mode));
  }

  void do_write(int64_t i, int64_t form_, uint64_t off_, uint64_t len_, uint64_t seed) {
    if (order.empty()) { cls("noop_empty"); return; }
    int form = int(u(form_) % 8);
    SpanM& sm = pick(i);
    size_t size = sm.span.size();
    Span before = sm.span;
    if (form == 0 || form == 3 || form == 7) {
      size_t off = off_ % (size + 1);
      size_t len = (size - off) ? len_ % (size - off + 1) : 0;
      if (len_ % 5 == 0) { off = 0; len = size; }
      if (len > 4096) { len = 4096; if (len_ % 2) off = size - len; }   // large spans: bounded amount of data, often at the end
      std::vector<uint8_t> buf(len);
      gen_bytes(buf.data(), len, seed);
      Error e = Error::kOk;
      if (form == 0) e = A.write(sm.span, off, buf.data(), len);
      else if (form == 3) { JitAllocator::WriteScope ws(A); e = ws.write(sm.span, off, buf.data(), len); if (e == Error::kOk) e = ws.flush(); }
      else if (len) {
        { VirtMem::ProtectJitReadWriteScope scope(sm.span.rx(), size); memcpy(static_cast<uint8_t*>(sm.span.rw()) + off, buf.data(), len); }
        VirtMem::flush_instruction_cache(sm.span.rx(), size);
      }
      CK(e == Error::kOk, "write-failed", "write(offset %zu, %zu bytes) into a span of %zu bytes: error %u", off, len, size, unsigned(e));
      CK(sm.span.rx() == before.rx() && sm.span.rw() == before.rw() && sm.span.size() == size, "write-changed-span", "write(offset form) changed the span");
      if (len) sm.data.write(off, buf.data(), len);
      check_content(sm, true, "write (visible through rx)");
      cls(form == 0 ? "write_offset" : form == 3 ? "write_scope_offset" : "write_direct_rw");
    } else if (form == 5) {
      size_t off, len;
      switch (off_ % 5) {
        case 0: off = size + 1 + len_ % 64; len = 0; break;
        case 1: off = size; len = 1 + len_ % 64; break;
        case 2: off = size - 1 - (len_ % size % 64); len = size - off + 1; break;
        case 3: off = 1; len = SIZE_MAX; break;
        default: off = SIZE_MAX; len = 2; break;
      }
      uint8_t dummy[160];
      memset(dummy, 0xEE, sizeof dummy);
      // len may exceed the buffer: the call must reject before touching `src`
      Error e = A.write(sm.span, off, dummy, len);
      CK(e != Error::kOk, "write-out-of-range-accepted", "write(offset %zu, %zu bytes) into a span of %zu bytes returned kOk", off, len, size);
      CK(sm.span.size() == size && sm.span.rx() == before.rx(), "write-changed-span", "rejected write changed the span");
      check_content(sm, true, "after rejected write");
      check_unchanged("write(out of range)");
      cls("write_out_of_range_rejected");
    } else if (form == 6) {
      CbData d;
      Error e = A.write(sm.span, cb_fail, &d);
      CK(d.calls == 1 && d.seen_size == size, "write-callback", "failing callback: calls %d, span size seen %zu (expected %zu)", d.calls, d.seen_size, size);
      CK(e == Error::kInvalidState, "write-callback", "error of the callback not propagated (got %u)", unsigned(e));
      CK(sm.span.size() == size && sm.span.rx() == before.rx(), "write-changed-span", "failed callback write changed the span");
      check_content(sm, true, "after failed callback write");
      check_unchanged("write(callback error)");
      cls("write_callback_error");
    } else {
      // callback forms: 1 full, 2 truncating, 4 scope (truncating when len_ is odd)
      bool trunc = form == 2 || (form == 4 && (len_ & 1));
      size_t n = trunc ? 1 + off_ % size : size;      // bytes written == new size
      if (trunc && len_ % 7 == 0) n = size > G ? size - G : size;
      size_t wn = std::min<size_t>(n, 4096);           // bytes the callback writes at the start of the span
      std::vector<uint8_t> buf(wn);
      gen_bytes(buf.data(), wn, seed);
      CbData d;
      d.src = buf.data();
      d.n = wn;
      d.truncate = trunc ? n : 0;
      Error e;
      if (form == 4) { JitAllocator::WriteScope ws(A); e = ws.write(sm.span, cb_full, &d); }
      else e = A.write(sm.span, cb_full, &d);
      CK(d.calls == 1 && d.seen_size == size && d.seen_rw == before.rw(), "write-callback", "callback: calls %d, span size seen %zu (expected %zu)", d.calls, d.seen_size, size);
      CK(e == Error::kOk, "write-failed", "write(callback%s) error %u (span %zu bytes, truncated to %zu)", trunc ? ", truncating" : "", unsigned(e), size, n);
      sm.data.write(0, buf.data(), wn);
      if (trunc) {
        Span after = sm.span;
        sm.span = before;
        after_shrink(sm, after, size, n, "write(truncating callback)");
        cls(form == 4 ? "write_scope_callback_truncate" : "write_callback_truncate");
      } else {
        CK(sm.span.rx() == before.rx() && sm.span.size() == size, "write-changed-span", "write(callback) changed the span");
        check_content(sm, true, "write(callback)");
        cls(form == 4 ? "write_scope_callback" : "write_callback");
      }
    }
    note("W%zu ", size_t(form));
  }

  void do_reset(bool hard, const char* where) {
    full_audit("before reset");
    if (!hard && !immediate && Bc >= 2 && ctx.is_known("soft-reset-stale-tree-links")) {
      // Known finding: reset(kSoft) re-inserts the kept block into the (emptied) block tree with its old child links / colour still
      // set -> ASMJIT_ASSERT in ArenaTree::insert (debug) or dangling links (release). Only reachable with >= 2 blocks; excluded then.
      ctx.known_excluded("soft-reset-stale-tree-links");
      cls("reset_soft_excluded_known");
      hard = true;
      where = "reset(kHard) [instead of kSoft: known finding]";
    }
    std::vector<void*> old;
    for (size_t j = 0; j < order.size() && j < 12; j++) old.push_back(reinterpret_cast<void*>(order[j]));
    for (size_t j = 0; j < released.size() && j < 4; j++) old.push_back(reinterpret_cast<void*>(released[j].rx));
    size_t blocks_before = Bc;
    A.reset(hard ? ResetPolicy::kHard : ResetPolicy::kSoft);
    live.clear(); rwmap.clear(); order.clear(); blocks.clear(); released.clear();
    known_empty = 0; known_empty_append_only = 0; sum = 0;
    Stats st = A.statistics();
    if (st.allocation_count() != 0) {
      // known-finding path: remember the stale count so that the rest of the history can still be judged
      fail_unless_known("reset-allocation-count", "%s: allocation_count() is %zu after reset (no span is live)", where, st.allocation_count());
      cls("reset_left_allocation_count");
    }
    count_bias = st.allocation_count();
    if (hard || immediate) CK(st.block_count() == 0, "reset-residue", "%s: %zu block(s) kept (had %zu)%s", where, st.block_count(), blocks_before, immediate ? " with immediate release" : "");
    else CK(st.block_count() <= std::min(pools, blocks_before), "reset-residue", "%s: %zu block(s) kept (had %zu), at most one per pool (%zu) allowed", where, st.block_count(), blocks_before, pools);
    Bc = st.block_count();
    unknown_retained = Bc;
    check_stats(where);
    for (void* p : old) expect_query_rejected(p, "query(pointer from before reset)");
    cls(hard ? "reset_hard" : "reset_soft");
    if (!hard && Bc) cls("reset_soft_kept_block");
    freed_something = true;
    note(hard ? "Xh " : "Xs ", 0);
  }

  // release(i) [or shrink(i)] immediately followed by an allocation that fits into the freed bytes: no new block may be needed
  void do_reuse(int64_t i, uint64_t v) {
    if (order.empty()) { cls("noop_empty"); return; }
    SpanM& sm = pick(i);
    size_t size = sm.span.size();
    bool was_shrunk = sm.shrunk;
    size_t blocks_before = Bc;
    size_t req;
    bool by_shrink = (v & 1) && size >= 2 * size_t(G) && !multi;
    if (by_shrink) {
      size_t keep = G * (1 + (v >> 1) % (size / G - 1));   // G .. size-G
      do_shrink(i, 7, keep / G - 1, 0);
      // do_shrink mode 7 computes G*(1 + v % (old/G)) == keep
      size_t freed = size - pick(i).span.size();
      if (!freed) return;
      req = freed - ((v >> 8) % 3 == 0 && freed > G ? G : 0);
    } else {
      do_release(i, false);
      if (multi) { if (was_shrunk) return; req = size; }
      else req = (v >> 8) % 3 == 0 ? size : 1 + (v >> 10) % size;
    }
    SpanM* n = do_alloc(req, int((v >> 4) % 3), v, "alloc after free");
    if (!n) return;
    CK(Bc <= blocks_before, "freed-memory-not-reused", "%s of %zu bytes followed by alloc(%zu) needed a new block (%zu -> %zu blocks)", by_shrink ? "shrink" : "release", size, req, blocks_before, Bc);
    cls(by_shrink ? "reuse_after_shrink" : "reuse_after_release");
  }

  void do_reject(int64_t which_) {
    int which = int(u(which_) % 6);
    uint8_t local[64];
    Error e;
    const char* what;
    if (which == 0) { e = A.release(nullptr); what = "release(nullptr)"; }
    else if (which == 1) { e = A.release(local + 8); what = "release(stack pointer)"; }
    else if (which == 2) { e = A.release(g_static_foreign + 64); what = "release(static data pointer)"; }
    else if (which == 3) { Span s; e = A.shrink(s, 1); what = "shrink(empty span, 1)"; }
    else if (which == 4) { Span s; e = A.shrink(s, 0); what = "shrink(empty span, 0)"; }
    else { Span s; uint8_t b = 0; e = A.write(s, 0, &b, 1); what = "write(empty span)"; }
    CK(e != Error::kOk, "foreign-pointer-accepted", "%s returned kOk", what);
    check_unchanged(what);
    cls("foreign_call_rejected");
    note("J ", 0);
  }

  // ------------------------------------------------------------------------------------------------------------
  void step(const vh::Op& op, int depth = 0) {
    if (op.empty() || truncated) return;
    step_no++;
    if (g_trace && op[0] % K_COUNT != K_BURST) { fprintf(stderr, "op"); for (int64_t x : op) fprintf(stderr, " %lld", (long long)x); fprintf(stderr, "\n"); }
    int kind = int(u(op[0]) % K_COUNT);
    switch (kind) {
      case K_ALLOC: do_alloc(decode_size(arg(op, 1), u(arg(op, 2)), u(arg(op, 3))), int(u(arg(op, 4)) % 3), step_no * 1315423911ull + u(arg(op, 2))); break;
      case K_RELEASE: do_release(arg(op, 1), false); break;
      case K_SHRINK: do_shrink(arg(op, 1), arg(op, 2), u(arg(op, 3)), arg(op, 4)); break;
      case K_QUERY: do_query(arg(op, 1), arg(op, 2), u(arg(op, 3))); break;
      case K_WRITE: do_write(arg(op, 1), arg(op, 2), u(arg(op, 3)), u(arg(op, 4)), u(arg(op, 5))); break;
      case K_RESET: do_reset((arg(op, 1) & 1) != 0, (arg(op, 1) & 1) ? "reset(kHard)" : "reset(kSoft)"); break;
      case K_STATS: full_audit("audit"); cls("audit"); break;
      case K_BURST: {
        if (depth) break;
        uint64_t s = u(arg(op, 1)) * 0x9E3779B97F4A7C15ull + 17;
        size_t count = size_t(std::min<uint64_t>(u(arg(op, 2)), 200000));
        bool saved = want_sample;
        want_sample = false;
        in_burst = true;
        auto r = [&s](int lo, int hi) { return lo + int(mix(s) % uint64_t(hi - lo + 1)); };
        for (size_t j = 0; j < count; j++) {
          vh::Op o = make_op(r, false, false);
          // keep long histories bounded in memory: prefer releasing when a lot is live
          if (o[0] == K_ALLOC && (order.size() > 600 || sum > (size_t(12) << 20))) { o = vh::Op{K_RELEASE, int64_t(mix(s) % 64)}; }
          if (o[0] == K_RESET && mix(s) % 8 != 0) o = vh::Op{K_RELEASE, int64_t(mix(s) % 64)};
          step(o, 1);
        }
        in_burst = false;
        want_sample = saved;
        cls("burst");
        cls("burst_ops", count);
        note("B%zu ", count);
        break;
      }
      case K_REUSE: do_reuse(arg(op, 1), u(arg(op, 2))); break;
      case K_REJECT: do_reject(arg(op, 1)); break;
    }
    check_some("periodic content check");
  }

  void finish(int mode) {
    full_audit("end of history");
    if (truncated) { do_reset(true, "final reset(kHard) [history cut: known finding]"); return; }
    size_t n0 = order.size();
    if (mode <= 2) {
      size_t k = 0;
      while (!order.empty()) {
        size_t idx = (k * 7) % order.size();
        if (mode <= 1) {   // oldest first / newest first by allocation serial
          for (size_t j = 0; j < order.size(); j++) {
            uint64_t a = live.at(order[j]).serial, b = live.at(order[idx]).serial;
            if (mode == 0 ? a < b : a > b) idx = j;
          }
        }
        do_release(int64_t(idx), false);
        k++;
      }
      cls(mode == 0 ? "final_release_fifo" : mode == 1 ? "final_release_lifo" : "final_release_mixed");
    } else {
      do_reset(mode == 4, mode == 4 ? "final reset(kHard)" : "final reset(kSoft)");
    }
    Stats st = A.statistics();
    CK(st.allocation_count() == count_bias, "final-residue", "after releasing everything allocation_count() is %zu", st.allocation_count());
    size_t p = pad ? 1 : 0;
    CK(st.used_size() >= Bc * G * p && st.used_size() <= Bc * G * p * (multi ? 4 : 1), "final-residue", "after releasing everything used_size() is %zu with %zu blocks", st.used_size(), Bc);
    check_policy("after releasing everything");
    if (n0) cls("final_had_live");
    // the allocator still works and hands out clean memory
    SpanM* sm = do_alloc(G * 3 + 1, 1, 99, "alloc after everything was released");
    if (sm) do_release(int64_t(sm->pos), false);
    do_reset(true, "final reset(kHard)");
    CK(Bc == 0, "reset-residue", "hard reset kept %zu blocks", Bc);
  }
};

static bool dual_mapping_available() {
  static int state = -1;
  if (state < 0) {
    VirtMem::DualMapping dm{};
    Error e = VirtMem::alloc_dual_mapping(Out(dm), 65536, VirtMem::MemoryFlags::kAccessRWX);
    if (e == Error::kOk) { state = 1; (void)VirtMem::release_dual_mapping(dm, 65536); }
    else state = 0;
  }
  return state == 1;
}

struct Setup {
  uint32_t opt = 0;
  JitAllocator::CreateParams params;
};

static Setup make_setup(const vh::Case& c, vh::Ctx& ctx) {
  Setup s;
  auto cf = [&](size_t i) -> uint64_t { return i < c.cfg.size() ? uint64_t(c.cfg[i]) : 0; };
  s.opt = uint32_t(cf(0)) & 0xFF;
  if ((s.opt & O_DUAL) && !dual_mapping_available()) { s.opt &= ~O_DUAL; ctx.cls("cfg_dual_unavailable"); }
  JitAllocatorOptions o = JitAllocatorOptions::kNone;
  if (s.opt & O_DUAL) o |= JitAllocatorOptions::kUseDualMapping;
  if (s.opt & O_MULTI) o |= JitAllocatorOptions::kUseMultiplePools;
  if (s.opt & O_FILL) o |= JitAllocatorOptions::kFillUnusedMemory;
  if (s.opt & O_IMMEDIATE) o |= JitAllocatorOptions::kImmediateRelease;
  if (s.opt & O_NOPAD) o |= JitAllocatorOptions::kDisableInitialPadding;
  if (s.opt & O_LARGE) o |= JitAllocatorOptions::kUseLargePages;
  if (s.opt & O_ALIGNLARGE) o |= JitAllocatorOptions::kAlignBlockSizeToLargePage;
  if (s.opt & O_CUSTOM) o |= JitAllocatorOptions::kCustomFillPattern;
  s.params.options = o;
  s.params.block_size = kBlockSel[cf(1) % 7];
  s.params.granularity = kGranSel[cf(2) % 7];
  s.params.fill_pattern = kPatternSel[cf(3) % 6];
  return s;
}

static void run_history(const vh::Case& c, const std::vector<vh::Op>& ops, vh::Ctx& ctx, bool exhaustive, bool classes) {
  Setup su = make_setup(c, ctx);
  JitAllocator A(&su.params);
  Runner R(ctx, A);
  if (exhaustive) R.hist_ops = &ops;

  // ---- construction ----
  if (!A.is_initialized())
    R.fail_unless_known("is-initialized-inverted", "is_initialized() returned false for a constructed allocator (block_size() %u, granularity() %u)", A.block_size(), A.granularity());
  uint32_t bs = su.params.block_size, gr = su.params.granularity;
  bool bs_valid = bs >= 65536 && bs <= 256u * 1024 * 1024 && (bs & (bs - 1)) == 0;
  bool gr_valid = gr == 64 || gr == 128 || gr == 256;
  R.B0 = A.block_size();
  R.G = A.granularity();
  if (bs_valid) { if (R.B0 != bs) R.failv("create-params", "block_size() %u, requested %u", R.B0, bs); }
  else if (!(R.B0 >= 4096 && (R.B0 & (R.B0 - 1)) == 0 && R.B0 <= 256u * 1024 * 1024)) R.failv("create-params", "invalid block size %u replaced by %u", bs, R.B0);
  if (gr_valid) { if (R.G != gr) R.failv("create-params", "granularity() %u, requested %u", R.G, gr); }
  else if (R.G != 64) R.failv("create-params", "invalid granularity %u replaced by %u (default is 64)", gr, R.G);
  if ((uint32_t(A.options()) & uint32_t(su.params.options)) != uint32_t(su.params.options)) R.failv("create-params", "options() 0x%x lost requested bits 0x%x", uint32_t(A.options()), uint32_t(su.params.options));
  R.multi = (su.opt & O_MULTI) != 0;
  R.pools = R.multi ? 3 : 1;
  R.fill = (su.opt & O_FILL) != 0;
  R.immediate = (su.opt & O_IMMEDIATE) != 0;
  R.pad = (su.opt & O_NOPAD) == 0;
  R.dual = A.has_option(JitAllocatorOptions::kUseDualMapping);
  if (su.opt & O_CUSTOM) R.pattern = su.params.fill_pattern;
  else {
#if ASMJIT_ARCH_X86
    R.pattern = 0xCCCCCCCCu;
#else
    R.pattern = 0u;
#endif
  }
  memcpy(R.pat, &R.pattern, 4);
  for (size_t i = 0; i < sizeof R.patpage; i++) R.patpage[i] = R.pat[i & 3];
  if (R.fill && A.fill_pattern() != R.pattern) R.failv("create-params", "fill_pattern() 0x%08x, expected 0x%08x", A.fill_pattern(), R.pattern);
  R.want_sample = classes && ctx.want_sample();
  R.check_stats("fresh allocator");

  if (classes) {
    ctx.cls(R.dual ? "cfg_dual_mapping" : "cfg_single_mapping");
    ctx.cls(R.multi ? "cfg_multiple_pools" : "cfg_one_pool");
    if (R.fill) ctx.cls((su.opt & O_CUSTOM) ? "cfg_fill_custom_pattern" : "cfg_fill_default_pattern");
    if (R.immediate) ctx.cls("cfg_immediate_release");
    if (!R.pad) ctx.cls("cfg_no_initial_padding");
    if (su.opt & O_LARGE) ctx.cls((su.opt & O_ALIGNLARGE) ? "cfg_large_pages_aligned" : "cfg_large_pages");
    ctx.cls(R.G == 64 ? "cfg_granularity_64" : R.G == 128 ? "cfg_granularity_128" : "cfg_granularity_256");
    if (!gr_valid && gr) ctx.cls("cfg_granularity_invalid_defaulted");
    ctx.cls(R.B0 == 65536 ? "cfg_block_64k" : R.B0 == 131072 ? "cfg_block_128k" : R.B0 == 262144 ? "cfg_block_256k" : "cfg_block_other");
    if (!bs_valid && bs) ctx.cls("cfg_block_invalid_defaulted");
  }

  for (const vh::Op& op : ops) R.step(op);
  int fm = int((c.cfg.size() > 4 ? uint64_t(c.cfg[4]) : 0) % 5);
  R.finish(fm);

  if (classes) {
    if (R.alloc_after_free) ctx.nontrivial();
    if (R.want_sample) {
      char b[96];
      snprintf(b, sizeof b, "opt=0x%x B=%u G=%u | ", su.opt, R.B0, R.G);
      ctx.sample(std::string(b) + R.sample);
    }
  }
}

// ---- bounded-exhaustive sweep ------------------------------------------------------------------------------------
// Alphabet of 11 operations; a batch = (option set, granularity, prefix of 0..2 symbols); the batch runs every history
// prefix + suffix with |suffix| <= depth (cfg[5]), each on a fresh allocator.
static const int kExhSymbols = 11;
static vh::Op exh_op(int sym) {
  switch (sym) {
    case 0: case 1: case 2: case 3: case 4: case 5: return vh::Op{K_ALLOC, 7, sym, 0, 1};
    case 6: return vh::Op{K_RELEASE, -2};
    case 7: return vh::Op{K_RELEASE, -1};
    case 8: return vh::Op{K_SHRINK, -2, 1, 0, 0};
    case 9: return vh::Op{K_SHRINK, -1, 4, 0, 1};
    default: return vh::Op{K_RESET, 0};
  }
}
static const char* const kExhNames[] = {"alloc(1)", "alloc(2G+1)", "alloc(B)", "alloc(2B-2G)", "alloc(2B-G)", "alloc(2B+1)", "release(oldest)", "release(newest)",
                                        "shrink(oldest,1)", "shrink(newest,size-G)", "reset(kSoft)"};
static const uint32_t kExhOpts[] = {0, O_FILL, O_FILL | O_CUSTOM, O_IMMEDIATE, O_NOPAD, O_MULTI, O_DUAL | O_FILL, O_MULTI | O_FILL | O_IMMEDIATE, O_NOPAD | O_IMMEDIATE | O_FILL, O_LARGE | O_ALIGNLARGE};
static const size_t kExhOptCount = sizeof(kExhOpts) / sizeof(kExhOpts[0]);
static const size_t kExhPrefixes = 1 + kExhSymbols + kExhSymbols * kExhSymbols;
static const size_t kExhBatches = kExhOptCount * 2 * kExhPrefixes;

static vh::Case exh_case(size_t batch, int depth) {
  vh::Case c;
  size_t pfx = batch % kExhPrefixes; batch /= kExhPrefixes;
  size_t o = batch % kExhOptCount; batch /= kExhOptCount;
  size_t gsel = batch % 2 ? 3 : 0;      // second half of the batches: granularity 256
  c.cfg = {int64_t(kExhOpts[o]), 0, int64_t(gsel), 0, int64_t(o % 3), depth, 0};
  if (pfx >= 1 && pfx <= size_t(kExhSymbols)) c.ops.push_back(exh_op(int(pfx - 1)));
  else if (pfx > size_t(kExhSymbols)) { size_t q = pfx - 1 - kExhSymbols; c.ops.push_back(exh_op(int(q / kExhSymbols))); c.ops.push_back(exh_op(int(q % kExhSymbols))); }
  return c;
}

static std::string op_text(const vh::Op& op) {
  for (int sym = 0; sym < kExhSymbols; sym++) if (exh_op(sym) == op) return kExhNames[sym];
  std::string t = "op";
  for (int64_t v : op) t += " " + std::to_string(v);
  return t;
}

std::string Runner::hist_text() const {
  std::string t;
  for (const vh::Op& op : *hist_ops) { if (!t.empty()) t += ", "; t += op_text(op); }
  return t.empty() ? std::string("(no operations)") : t;
}

static uint64_t run_exhaustive(const vh::Case& c, vh::Ctx& ctx) {
  int depth = int(std::min<uint64_t>(uint64_t(c.cfg[5]), 4));
  std::vector<vh::Op> ops = c.ops;
  size_t base = ops.size();
  uint64_t count = 0;
  std::vector<int> suffix;
  // iterative enumeration of all suffixes of length 0..depth
  std::function<void()> rec = [&]() {
    run_history(c, ops, ctx, true, false);
    count++;
    if (int(ops.size() - base) >= depth) return;
    for (int sym = 0; sym < kExhSymbols; sym++) {
      ops.push_back(exh_op(sym));
      rec();
      ops.pop_back();
    }
  };
  rec();
  ctx.cls("exhaustive_batches");
  ctx.cls("exhaustive_histories", count);
  return count;
}

} // namespace

rc::Gen<vh::Case> vh_gen(const vh::Opts& o) {
  using namespace rc;
  bool thorough = o.is_thorough();
  auto opGen = gen::exec([thorough]() -> vh::Op {
    return make_op([](int lo, int hi) { return *vh::irange<int>(lo, hi); }, thorough, true);
  });
  auto cfgGen = gen::exec([]() -> std::vector<int64_t> {
    auto pct = [](int p) { return *vh::irange<int>(0, 99) >= 100 - p; };
    int64_t opt = 0;
    if (pct(25)) opt |= O_DUAL;
    if (pct(30)) opt |= O_MULTI;
    bool fill = pct(50);
    if (fill) opt |= O_FILL;
    if (pct(25)) opt |= O_IMMEDIATE;
    if (pct(25)) opt |= O_NOPAD;
    if (pct(12)) { opt |= O_LARGE; if (pct(40)) opt |= O_ALIGNLARGE; }
    if (pct(fill ? 50 : 6)) opt |= O_CUSTOM;
    int b = *vh::irange<int>(0, 99);
    int64_t bsel = b < 45 ? 0 : b < 60 ? 1 : b < 75 ? 2 : b < 85 ? 3 : b < 90 ? 4 : b < 95 ? 5 : 6;
    int g = *vh::irange<int>(0, 99);
    int64_t gsel = g < 25 ? 0 : g < 45 ? 1 : g < 65 ? 2 : g < 85 ? 3 : g < 90 ? 4 : g < 95 ? 5 : 6;
    int64_t psel = *vh::irange<int>(0, 5);
    int64_t fin = *vh::irange<int>(0, 4);
    return std::vector<int64_t>{opt, bsel, gsel, psel, fin, 0, 0};
  });
  return gen::apply([](std::vector<int64_t> cfg, std::vector<vh::Op> ops) {
      vh::Case c; c.cfg = std::move(cfg); c.ops = std::move(ops); return c; },
    cfgGen, gen::container<std::vector<vh::Op>>(opGen));
}

void vh_run(const vh::Case& c, vh::Ctx& ctx) {
  if (c.cfg.size() > 5 && c.cfg[5] > 0) { run_exhaustive(c, ctx); ctx.nontrivial(); return; }
  run_history(c, c.ops, ctx, false, true);
}

// Deterministic bounded-exhaustive tier: before the random histories every worker runs its slice of all batches
// (all histories of depth <= 2 + suffix depth over the 11-symbol alphabet, for 10 option sets x granularity 64/256).
// A failure is reported with the same protocol as the main loop (replay file + "FAIL key=... replay=... msg=...").
void vh_init(const vh::Opts& o, vh::Ctx& ctx) {
  if (!o.replay.empty() || o.geti("exh", 1) == 0) return;
  int depth = int(o.geti("exh-depth", o.is_thorough() ? 3 : 2));
  uint64_t histories = 0, batches = 0;
  size_t workers = size_t(std::max(1, o.workers));
  // quick: granularity 64 only (first half of the batches), suffix depth 2; thorough: everything, suffix depth 3
  size_t nbatches = size_t(o.geti("exh-batches", o.is_thorough() ? long(kExhBatches) : long(kExhBatches / 2)));
  nbatches = std::min(nbatches, kExhBatches);
  for (size_t b = size_t(o.worker) % workers; b < nbatches; b += workers) {
    vh::Case c = exh_case(b, depth);
    try {
      histories += run_exhaustive(c, ctx);
      batches++;
    } catch (const vh::Failure& f) {
      char wb[64];
      snprintf(wb, sizeof wb, "/w%d", o.worker);
      vh::mkdirs(o.out_dir);
      std::string rp = o.out_dir + wb + ".case";
      vh::write_file(rp, "# property C09 key=" + f.key + " (bounded-exhaustive batch)\n# " + f.msg + "\n" + c.to_text() + "end\n");
      ctx.evaluations += histories;
      vh::dump_counters(ctx, o.out_dir + wb + ".json", "fail", rp, f.key, f.msg);
      printf("FAIL key=%s replay=%s msg=%s\n", f.key.c_str(), rp.c_str(), f.msg.c_str());
      fflush(stdout);
      _exit(1);
    }
  }
  ctx.evaluations += histories;
  ctx.nontrivial_evals += histories;
  char note[200];
  snprintf(note, sizeof note, "bounded-exhaustive tier: every worker ran its slice of the first %zu of %zu batches completely (all histories of <= %d operations over %d symbols per option set)", nbatches, kExhBatches, 2 + depth, kExhSymbols);
  ctx.notes.push_back(note);
  ctx.cls("exhaustive_slices_completed");
}
