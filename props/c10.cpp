// C10 — Sections are laid out without overlap and the flattened image is exact.
//
// Case: cfg = [arch, base_mode, base_sel, k, jit, spare]
//   arch       0 x86-64, 1 x86-32, 2 AArch64
//   base_mode  0 no relocation, 1 relocate_to_base(base), 2 init(env, base) + relocate_to_base(base), 3 init(env, base) only
//   k          extra destination bytes of the "larger than required" copies (1..300)
//   jit        != 0: additionally run JitRuntime::add on an identical program (host architecture) and compare images
// ops (build ops are applied in order; copy ops are collected and applied after flatten/relocate):
//   [1, name_sel, name_len, align_sel, order_sel, mode]   new_section (mode bit0: pass SIZE_MAX + NUL-terminated name,
//                                                         bit1: name is a prefix of a longer caller buffer)
//   [3, sec, len_sel, seed]                               switch to section `sec` and embed bytes
//   [4, sec, vs_sel]                                      set_virtual_size on a user section
//   [5, sec, is_jmp, addr_sel]                            x86: call/jmp to an absolute address (x86-64: address table)
//   [6, sec, which]                                       a plain instruction
//   [8, from, to]                                         reference from section `from` to a label bound (later) in `to`
//   [9, size_mode, k, flags, variant]                     extra copy_flattened_data with a chosen destination size
// Oracle: layout facts stated by the property checked on AsmJit's offsets (+ an independent minimal layout, counted only),
// an expected-image map (data / virtual+gap / tail) for every destination size and flag combination, canaries + exact
// malloc (ASan) for bounds, evaluation of x86-64 call/jmp sites for the address table.
#define VH_MAIN
#include "vh.h"

#include <asmjit/core.h>
#include <asmjit/x86.h>
#include <asmjit/a64.h>

#include <memory>

using namespace asmjit;

const char* vh_property() { return "C10"; }

// ---------------------------------------------------------------------------------------------
// tables
// ---------------------------------------------------------------------------------------------
static const uint32_t kBadAlign[] = {3u, 5u, 6u, 12u, 1000u, 65535u, 0x10001u, 0xFFFFFFFFu};
static const int32_t kOrders[] = {INT32_MIN, -1000, -1, 0, 1, 2, 1000, INT32_MAX};
static const size_t kLens[] = {1, 2, 3, 4, 5, 7, 8, 13, 16, 31, 32, 33, 63, 64, 65, 100, 255, 256, 1000, 4095, 4096, 4097, 9000};
static const uint64_t kVSizes[] = {0, 1, 2, 7, 8, 9, 64, 100, 1000, 4096, 4097, 65536, 65537, 100000,
                                   // .bss-style reservations that push later sections across the 2 GiB / 4 GiB lines (layout is judged arithmetically; no image is built)
                                   0x7FFFFFF0ull, 0x80000000ull, 0xFFFFFFF0ull, 0x100000000ull, 0x100000010ull, 0x200000001ull};
static const uint64_t kBases[] = {0x10000ull, 0x7FFF0000ull, 0x100000000ull, 0x123456780000ull, 0x7F0000000000ull, 0x400000ull};
static const uint64_t kAddrs[] = {0x1000ull, 0x7FFF1000ull, 0x100001000ull, 0x123456789000ull, 0x7F0000001000ull,
                                  0xFFFFFFFFFFFFF000ull, 0x8000000000000000ull, 0x401000ull};
#define NELEM(a) (sizeof(a) / sizeof((a)[0]))

static size_t umod(int64_t v, size_t n) { return n ? size_t(uint64_t(v) % uint64_t(n)) : 0; }

static std::string make_name(int64_t sel, size_t len) {
  static const char t0[] = ".text_is_the_name_of_the_builtin_section!";
  static const char t1[] = ".addrtab.is.used.by.asmjit.for.abs.addresses";
  std::string s;
  size_t k = umod(sel, 4);
  for (size_t i = 0; i < len; i++) {
    char c;
    if (k == 0) c = t0[i % (sizeof(t0) - 1)];
    else if (k == 1) c = t1[i % (sizeof(t1) - 1)];
    else if (k == 2) c = char(0x80 + ((i * 37 + 11) & 0x7F));          // high bytes, spaces etc. (never NUL)
    else c = char('a' + (i % 26));
    s += c;
  }
  return s;
}

// ---------------------------------------------------------------------------------------------
// generator
// ---------------------------------------------------------------------------------------------
rc::Gen<vh::Case> vh_gen(const vh::Opts&) {
  using namespace rc;
  auto opGen = gen::exec([]() -> vh::Op {
    int sel = *vh::irange<int>(0, 99);
    if (sel < 30) {
      int ls = *vh::irange<int>(0, 99);
      int len = ls < 5 ? 0 : ls < 45 ? *vh::irange<int>(1, 8) : ls < 75 ? *vh::irange<int>(9, 34) : ls < 87 ? 35 : *vh::irange<int>(36, 40);
      int as = *vh::irange<int>(0, 99);
      int al = as < 55 ? *vh::irange<int>(0, 8) : as < 85 ? *vh::irange<int>(0, 16) : as < 90 ? 17 : *vh::irange<int>(18, 25);
      int os = *vh::irange<int>(0, 99);
      int ord = os < 40 ? 3 : *vh::irange<int>(0, 7);
      return vh::Op{1, *vh::irange<int>(0, 3), len, al, ord, *vh::irange<int>(0, 3)};
    }
    if (sel < 55) {
      int ls = *vh::irange<int>(0, 99);
      int len = ls < 80 ? *vh::irange<int>(0, 17) : *vh::irange<int>(0, int(NELEM(kLens)) - 1);
      return vh::Op{3, *vh::irange<int>(0, 13), len, *vh::irange<int>(0, 255)};
    }
    if (sel < 65) return vh::Op{4, *vh::irange<int>(0, 13), *vh::irange<int>(0, 99) < 88 ? *vh::irange<int>(0, 13) : *vh::irange<int>(14, int(NELEM(kVSizes)) - 1)};
    if (sel < 75) return vh::Op{5, *vh::irange<int>(0, 13), *vh::irange<int>(0, 1), *vh::irange<int>(0, int(NELEM(kAddrs)) - 1)};
    if (sel < 81) return vh::Op{6, *vh::irange<int>(0, 13), *vh::irange<int>(0, 3)};
    if (sel < 88) return vh::Op{8, *vh::irange<int>(0, 13), *vh::irange<int>(0, 13)};
    return vh::Op{9, *vh::irange<int>(0, 9), *vh::irange<int>(0, 300), *vh::irange<int>(0, 3), *vh::irange<int>(0, 1)};
  });
  auto cfgGen = gen::exec([]() -> std::vector<int64_t> {
    int as = *vh::irange<int>(0, 99);
    int arch = as < 60 ? 0 : as < 75 ? 1 : 2;
    int bm = *vh::irange<int>(0, 9);
    int base_mode = bm < 2 ? 0 : bm < 7 ? 1 : bm < 9 ? 2 : 3;
    int jit = *vh::irange<int>(0, 5) == 5 ? 1 : 0;
    return {arch, base_mode, *vh::irange<int>(0, int(NELEM(kBases)) - 1), *vh::irange<int>(1, 300), jit, 0};
  });
  return gen::apply([](std::vector<int64_t> cfg, std::vector<vh::Op> ops) {
      vh::Case c; c.cfg = std::move(cfg); c.ops = std::move(ops); return c; },
    cfgGen, gen::container<std::vector<vh::Op>>(opGen));
}

// ---------------------------------------------------------------------------------------------
// program builder (deterministic function of the case; used twice for the JitRuntime comparison)
// ---------------------------------------------------------------------------------------------
namespace {

struct MSec {
  Section* s = nullptr;
  std::string name;
  uint32_t align = 1;        // effective (0 -> 1)
  int32_t order = 0;
  bool builtin = false, addrtab = false;
  std::string bytes;         // model of the buffer
  std::string wild;          // 1 = byte may be rewritten by fixups / relocation
  uint64_t user_vsize = 0;   // what the harness set
  bool vs_set = false;
};

struct Site { uint32_t sec; size_t off, len; uint64_t target; bool has_reloc; };
struct XRef { uint32_t to; Label label; };

struct Program {
  CodeHolder code;
  std::unique_ptr<BaseAssembler> as;
  int arch = 0;                       // 0 x64, 1 x86, 2 a64
  std::vector<MSec> secs;             // by id (kept in sync with code.sections())
  std::vector<Site> sites;
  std::vector<XRef> xrefs;
  unsigned refused_align = 0, refused_name = 0, created = 0, insts = 0, embeds = 0, calls = 0;
  bool has_at() const { return code.has_address_table_section(); }
};

constexpr size_t kMaxExtraSections = 12;

} // namespace

static void sync_addrtab(Program& p) {
  // .addrtab is created implicitly by AsmJit; mirror it in the model the moment it appears.
  Span<Section*> all = p.code.sections();
  while (p.secs.size() < all.size()) {
    MSec m;
    m.s = all[p.secs.size()];
    m.name = ".addrtab";
    m.align = m.s->alignment();
    m.order = m.s->order();
    m.addrtab = true;
    p.secs.push_back(m);
  }
}

static void check_names(vh::Ctx& ctx, Program& p, const std::string& name) {
  // name() of every section equals what was given; section_by_name returns the first section of that name.
  bool all_terminated = true;
  for (MSec& m : p.secs) {
    const char* nm = m.s->name();
    bool same = memcmp(nm, m.name.data(), m.name.size()) == 0 && nm[m.name.size()] == '\0';
    if (!same) {
      all_terminated = false;
      ctx.fail_unless_known("section-name-garbage",
        "Section::name() of section #" + std::to_string(m.s->section_id()) + " is not the " + std::to_string(m.name.size()) +
        "-byte name given to new_section (prefix equal: " + (memcmp(nm, m.name.data(), m.name.size()) == 0 ? "yes" : "no") +
        ", byte after the name: " + std::to_string(unsigned(uint8_t(nm[m.name.size()]))) + ")");
    }
  }
  Section* found = p.code.section_by_name(name.data(), name.size());
  Section* expect = nullptr;
  for (MSec& m : p.secs) if (m.name == name) { expect = m.s; break; }
  if (found != expect) {
    if (all_terminated)
      ctx.fail("section-by-name-wrong", "section_by_name(" + std::to_string(name.size()) + " bytes) returned section " +
               (found ? std::to_string(found->section_id()) : std::string("null")) + ", first section of that name is " +
               (expect ? std::to_string(expect->section_id()) : std::string("null")));
    else
      ctx.fail_unless_known("section-name-garbage", "section_by_name does not find the first section with the given name (names are not terminated)");
  }
}

static void check_by_order(vh::Ctx& ctx, Program& p) {
  Span<Section*> all = p.code.sections();
  Span<Section*> ord = p.code.sections_by_order();
  VH_CHECK(ctx, all.size() == ord.size(), "by-order-not-permutation", "sections() has %zu entries, sections_by_order() %zu", all.size(), ord.size());
  std::vector<int> seen(all.size(), 0);
  for (size_t i = 0; i < ord.size(); i++) {
    uint32_t id = ord[i]->section_id();
    VH_CHECK(ctx, id < all.size() && all[id] == ord[i] && !seen[id], "by-order-not-permutation", "entry %zu of sections_by_order (id %u) is not a unique member of sections()", i, id);
    seen[id] = 1;
    if (i) {
      const Section* a = ord[i - 1]; const Section* b = ord[i];
      bool lt = a->order() < b->order() || (a->order() == b->order() && a->section_id() < b->section_id());
      VH_CHECK(ctx, lt, "by-order-not-sorted", "sections_by_order[%zu]=(order %d,id %u) is not before [%zu]=(order %d,id %u)",
               i - 1, a->order(), a->section_id(), i, b->order(), b->section_id());
    }
  }
}

static uint32_t pick_user_sec(Program& p, int64_t v) {
  // any section that the user may emit into: everything except .addrtab ("used exclusively by AsmJit")
  size_t n = p.secs.size();
  uint32_t id = uint32_t(umod(v, n));
  if (p.secs[id].addrtab) id = 0;
  return id;
}

static void switch_to(vh::Ctx& ctx, Program& p, uint32_t id) {
  Error e = p.as->section(p.secs[id].s);
  VH_CHECK(ctx, e == Error::kOk, "emit-failed", "section(#%u) returned %u", id, unsigned(e));
}

// Appends what the assembler just wrote to the model (learned from the buffer) with the given wildness.
static void learn(vh::Ctx& ctx, Program& p, uint32_t id, bool wild) {
  MSec& m = p.secs[id];
  size_t bs = m.s->buffer_size();
  VH_CHECK(ctx, bs >= m.bytes.size(), "buffer-shrunk", "buffer of section #%u shrank from %zu to %zu", id, m.bytes.size(), bs);
  size_t old = m.bytes.size();
  m.bytes.append((const char*)m.s->data() + old, bs - old);
  m.wild.append(bs - old, wild ? 1 : 0);
}

static void build(vh::Ctx& ctx, Program& p, const vh::Case& c, int arch, uint64_t init_base, bool count) {
  p.arch = arch;
  Environment env(arch == 0 ? Arch::kX64 : arch == 1 ? Arch::kX86 : Arch::kAArch64);
  Error e = p.code.init(env, init_base);
  VH_CHECK(ctx, e == Error::kOk, "init-failed", "CodeHolder::init returned %u", unsigned(e));
  if (arch == 2) p.as.reset(new a64::Assembler(&p.code)); else p.as.reset(new x86::Assembler(&p.code));
  {
    MSec t; t.s = p.code.text_section(); t.name = ".text"; t.align = std::max<uint32_t>(1, t.s->alignment()); t.order = t.s->order(); t.builtin = true;
    p.secs.push_back(t);
  }
  size_t nops = 0;
  for (const vh::Op& op : c.ops) {
    if (op.empty()) continue;
    if (++nops > 96) break;
    auto arg = [&](size_t i) -> int64_t { return i < op.size() ? op[i] : 0; };
    switch (op[0]) {
      case 1: {
        if (p.created >= kMaxExtraSections) break;
        size_t len = umod(arg(2), 41);
        std::string name = make_name(arg(1), len);
        size_t asel = umod(arg(3), 26);
        uint32_t align = asel <= 16 ? (1u << asel) : asel == 17 ? 0u : kBadAlign[asel - 18];
        int32_t order = kOrders[umod(arg(4), NELEM(kOrders))];
        bool z = (arg(5) & 1) != 0;
        size_t before = p.code.section_count();
        Section* s = reinterpret_cast<Section*>(uintptr_t(1));
        // mode bit1: the name is a prefix of a longer (not NUL-terminated at name_size) caller buffer
        std::string backing = name + ((!z && (arg(5) & 2)) ? "+tail-that-is-not-part-of-the-name" : "");
        e = p.code.new_section(Out(s), backing.c_str(), z ? SIZE_MAX : name.size(), SectionFlags::kNone, align, order);
        bool bad_align = asel >= 18, bad_name = len > Globals::kMaxSectionNameSize;
        if (bad_align || bad_name) {
          VH_CHECK(ctx, e != Error::kOk, bad_align ? "invalid-alignment-accepted" : "long-name-accepted",
                   "new_section(name_size=%zu, alignment=%u) returned kOk", len, align);
          VH_CHECK(ctx, s == nullptr && p.code.section_count() == before && p.code.sections_by_order().size() == before,
                   "refused-section-changed-state", "refused new_section left section_out=%p count %zu->%zu", (void*)s, before, p.code.section_count());
          if (bad_align) p.refused_align++; else p.refused_name++;
          break;
        }
        VH_CHECK(ctx, e == Error::kOk && s != nullptr, "new-section-failed", "new_section(name_size=%zu, alignment=%u, order=%d) returned %u", len, align, order, unsigned(e));
        VH_CHECK(ctx, p.code.section_count() == before + 1 && s->section_id() == before && p.code.section_by_id(uint32_t(before)) == s,
                 "new-section-id", "new section has id %u, expected %zu", s->section_id(), before);
        VH_CHECK(ctx, s->order() == order && (s->alignment() == align || (align == 0 && s->alignment() == 1)) && s->buffer_size() == 0 && s->virtual_size() == 0,
                 "new-section-fields", "order %d/%d alignment %u/%u buffer %zu vsize %llu", s->order(), order, s->alignment(), align, s->buffer_size(), (unsigned long long)s->virtual_size());
        MSec m; m.s = s; m.name = name; m.align = std::max<uint32_t>(1, align); m.order = order;
        p.secs.push_back(m);
        p.created++;
        check_by_order(ctx, p);
        check_names(ctx, p, name);
        break;
      }
      case 3: {
        uint32_t id = pick_user_sec(p, arg(1));
        size_t len = kLens[umod(arg(2), NELEM(kLens))];
        if (p.secs[id].bytes.size() + len > 40000) len = 1;
        std::string data(len, 0);
        uint32_t x = uint32_t(arg(3)) * 2654435761u + 12345u;
        for (size_t i = 0; i < len; i++) { x = x * 1664525u + 1013904223u; data[i] = char((x >> 24) | ((arg(3) & 1) ? 0 : 1)); }
        if ((arg(3) & 7) == 3) std::fill(data.begin(), data.end(), char(0));       // all-zero data (looks like padding)
        if ((arg(3) & 7) == 5) std::fill(data.begin(), data.end(), char(0xA5));    // looks like the untouched fill
        switch_to(ctx, p, id);
        e = p.as->embed(data.data(), data.size());
        VH_CHECK(ctx, e == Error::kOk, "emit-failed", "embed(%zu) returned %u", len, unsigned(e));
        MSec& m = p.secs[id];
        VH_CHECK(ctx, m.s->buffer_size() == m.bytes.size() + len && memcmp(m.s->data() + m.bytes.size(), data.data(), len) == 0,
                 "embed-mismatch", "embed of %zu bytes into section #%u: buffer size %zu (was %zu) or content differs", len, id, m.s->buffer_size(), m.bytes.size());
        m.bytes += data; m.wild.append(len, 0);
        p.embeds++;
        break;
      }
      case 4: {
        uint32_t id = pick_user_sec(p, arg(1));
        MSec& m = p.secs[id];
        uint64_t v = kVSizes[umod(arg(2), NELEM(kVSizes))];
        m.s->set_virtual_size(v);
        m.user_vsize = v; m.vs_set = true;
        break;
      }
      case 5: {
        uint32_t id = pick_user_sec(p, arg(1));
        if (arch == 2) { switch_to(ctx, p, id); e = static_cast<a64::Assembler*>(p.as.get())->ret(a64::x30); VH_CHECK(ctx, e == Error::kOk, "emit-failed", "ret returned %u", unsigned(e)); learn(ctx, p, id, false); p.insts++; break; }
        x86::Assembler* a = static_cast<x86::Assembler*>(p.as.get());
        uint64_t addr = kAddrs[umod(arg(3), NELEM(kAddrs))];
        if (arch == 1) addr &= 0xFFFFFFFFull;
        switch_to(ctx, p, id);
        size_t nrel = p.code.reloc_entries().size();
        size_t off = p.secs[id].bytes.size();
        e = (arg(2) & 1) ? a->jmp(imm(addr)) : a->call(imm(addr));
        VH_CHECK(ctx, e == Error::kOk, "emit-failed", "call/jmp abs 0x%llx returned %u", (unsigned long long)addr, unsigned(e));
        learn(ctx, p, id, true);
        sync_addrtab(p);
        p.sites.push_back(Site{id, off, p.secs[id].bytes.size() - off, addr, p.code.reloc_entries().size() > nrel});
        p.calls++;
        check_by_order(ctx, p);
        break;
      }
      case 6: {
        uint32_t id = pick_user_sec(p, arg(1));
        switch_to(ctx, p, id);
        int w = int(arg(2) & 3);
        if (arch == 2) {
          a64::Assembler* a = static_cast<a64::Assembler*>(p.as.get());
          e = w == 0 ? a->nop() : w == 1 ? a->ret(a64::x30) : w == 2 ? a->add(a64::x0, a64::x1, a64::x2) : a->mov(a64::w3, 0x1234);
        } else {
          x86::Assembler* a = static_cast<x86::Assembler*>(p.as.get());
          e = w == 0 ? a->nop() : w == 1 ? a->ret() : w == 2 ? a->add(x86::eax, x86::ecx) : a->mov(x86::edx, 0x12345678);
        }
        VH_CHECK(ctx, e == Error::kOk, "emit-failed", "instruction %d returned %u", w, unsigned(e));
        learn(ctx, p, id, false);
        p.insts++;
        break;
      }
      case 8: {
        if (p.xrefs.size() >= 8) break;
        uint32_t from = pick_user_sec(p, arg(1)), to = pick_user_sec(p, arg(2));
        switch_to(ctx, p, from);
        Label L = p.as->new_label();
        if (arch == 2) e = static_cast<a64::Assembler*>(p.as.get())->adr(a64::x0, L);
        else if (arch == 1) e = static_cast<x86::Assembler*>(p.as.get())->mov(x86::eax, x86::ptr(L));
        else e = static_cast<x86::Assembler*>(p.as.get())->lea(x86::rax, x86::ptr(L));
        VH_CHECK(ctx, e == Error::kOk, "emit-failed", "label reference returned %u", unsigned(e));
        learn(ctx, p, from, true);
        p.xrefs.push_back(XRef{to, L});
        break;
      }
      default: break;
    }
  }
  // bind the referenced labels at the current end of their target sections
  for (XRef& x : p.xrefs) {
    uint32_t to = x.to;
    if (to >= p.secs.size() || p.secs[to].addrtab) to = 0;
    switch_to(ctx, p, to);
    e = p.as->bind(x.label);
    VH_CHECK(ctx, e == Error::kOk, "emit-failed", "bind returned %u", unsigned(e));
  }
  sync_addrtab(p);
  (void)count;
}

// ---------------------------------------------------------------------------------------------
// expected image
// ---------------------------------------------------------------------------------------------
namespace {
enum : uint8_t { kTail = 0, kData = 1, kVirt = 2, kHole = 3 };
struct Expect {
  size_t cs = 0, real_end = 0, data_end = 0, max_off = 0;
  std::vector<uint8_t> kind, val;
};
}

static void make_expect(vh::Ctx& ctx, Program& p, Expect& ex, size_t extra) {
  ex.cs = p.code.code_size();
  for (Section* s : p.code.sections()) {
    size_t off = size_t(s->offset());
    ex.max_off = std::max(ex.max_off, off);
    ex.real_end = std::max(ex.real_end, off + size_t(s->real_size()));
    if (s->buffer_size()) ex.data_end = std::max(ex.data_end, off + s->buffer_size());
  }
  size_t n = std::max(ex.cs, ex.real_end) + extra;
  ex.kind.assign(n, kTail);
  ex.val.assign(n, 0);
  for (size_t i = 0; i < ex.real_end; i++) ex.kind[i] = kHole;
  for (Section* s : p.code.sections()) {
    size_t off = size_t(s->offset()), bs = s->buffer_size(), rs = size_t(s->real_size());
    for (size_t i = bs; i < rs; i++) {
      VH_CHECK(ctx, ex.kind[off + i] == kHole, "overlap", "virtual part of section #%u overlaps another section at image offset %zu", s->section_id(), off + i);
      ex.kind[off + i] = kVirt;
    }
  }
  for (Section* s : p.code.sections()) {
    size_t off = size_t(s->offset()), bs = s->buffer_size();
    for (size_t i = 0; i < bs; i++) {
      VH_CHECK(ctx, ex.kind[off + i] == kHole, "overlap", "buffer of section #%u overlaps another section at image offset %zu", s->section_id(), off + i);
      ex.kind[off + i] = kData;
      ex.val[off + i] = s->data()[i];
    }
  }
}

static const char* flags_name(unsigned f) { static const char* n[] = {"none", "PadSection", "PadTarget", "PadSection|PadTarget"}; return n[f & 3]; }

static void check_image(vh::Ctx& ctx, const Expect& ex, const uint8_t* img, size_t D, unsigned F) {
  bool ps = (F & 1) != 0, pt = (F & 2) != 0;
  size_t n = std::min(D, ex.kind.size());
  for (size_t i = 0; i < n; i++) {
    uint8_t b = img[i];
    switch (ex.kind[i]) {
      case kData:
        if (b != ex.val[i]) { char m[200]; snprintf(m, sizeof m, "dst_size %zu flags %s: image byte %zu is 0x%02x, section data says 0x%02x", D, flags_name(F), i, b, ex.val[i]); ctx.fail("image-data-wrong", m); }
        break;
      case kVirt:
      case kHole:
        if (ps) { if (b != 0) { char m[200]; snprintf(m, sizeof m, "dst_size %zu flags %s: padding byte %zu (virtual size / alignment gap) is 0x%02x, expected 0", D, flags_name(F), i, b); ctx.fail("padding-not-zeroed", m); } }
        else if (pt && i >= ex.data_end) { /* beyond the last data byte kPadTargetBuffer may clear: not specified which flag owns it */ }
        else if (b != 0xA5) { char m[200]; snprintf(m, sizeof m, "dst_size %zu flags %s: padding byte %zu was written (0x%02x) although kPadSectionBuffer was not given", D, flags_name(F), i, b); ctx.fail("padding-written-without-flag", m); }
        break;
      default:
        if (pt) { if (b != 0) { char m[200]; snprintf(m, sizeof m, "dst_size %zu flags %s: byte %zu after the flattened data is 0x%02x, expected 0", D, flags_name(F), i, b); ctx.fail("tail-not-zeroed", m); } }
        else if (b != 0xA5) { char m[200]; snprintf(m, sizeof m, "dst_size %zu flags %s: byte %zu after the flattened data was written (0x%02x) although kPadTargetBuffer was not given", D, flags_name(F), i, b); ctx.fail("tail-written-without-flag", m); }
        break;
    }
  }
}

// One copy_flattened_data into a destination of exactly D bytes; returns true if the copy was accepted.
static bool do_copy(vh::Ctx& ctx, Program& p, const Expect& ex, size_t D, unsigned F, int variant, std::vector<uint8_t>* keep = nullptr) {
  CopySectionFlags flags = CopySectionFlags(F & 3);
  Error e;
  bool must_refuse = D < ex.data_end;
  bool must_accept = D >= ex.cs;
  auto verdict = [&](Error err) {
    if (must_refuse) VH_CHECK(ctx, err != Error::kOk, "too-small-accepted", "copy_flattened_data(dst_size=%zu, %s) returned kOk although section data ends at %zu (code_size %zu)", D, flags_name(F), ex.data_end, ex.cs);
    if (must_accept) VH_CHECK(ctx, err == Error::kOk, "large-enough-refused", "copy_flattened_data(dst_size=%zu, %s) returned %u although code_size() is %zu", D, flags_name(F), unsigned(err), ex.cs);
  };
  if (variant == 0) {
    // exact allocation: ASan reports any access beyond D
    uint8_t* d = (uint8_t*)malloc(D ? D : 1);
    memset(d, 0xA5, D ? D : 1);
    e = p.code.copy_flattened_data(d, D, flags);
    bool ok0 = D != 0 || d[0] == 0xA5;
    if (e == Error::kOk && ok0) {
      struct Free { uint8_t* p; ~Free() { free(p); } } fr{d};
      verdict(e);
      check_image(ctx, ex, d, D, F);
      if (keep) keep->assign(d, d + D);
      return true;
    }
    free(d);
    VH_CHECK(ctx, ok0, "copy-out-of-bounds", "copy_flattened_data(dst_size=0) wrote to the destination");
    verdict(e);
    return false;
  }
  const size_t G = 64;
  std::vector<uint8_t> big(D + 2 * G, 0xA5);
  e = p.code.copy_flattened_data(big.data() + G, D, flags);
  for (size_t i = 0; i < G; i++)
    VH_CHECK(ctx, big[i] == 0xA5 && big[G + D + i] == 0xA5, "copy-out-of-bounds", "copy_flattened_data(dst_size=%zu, %s) -> %u wrote outside the destination (guard byte %zu)", D, flags_name(F), unsigned(e), i);
  verdict(e);
  if (e != Error::kOk) return false;
  check_image(ctx, ex, big.data() + G, D, F);
  if (keep) keep->assign(big.data() + G, big.data() + G + D);
  return true;
}

// ---------------------------------------------------------------------------------------------
// the property
// ---------------------------------------------------------------------------------------------
static uint64_t align_up64(uint64_t v, uint64_t a) { return (v + a - 1) & ~(a - 1); }

void vh_run(const vh::Case& c, vh::Ctx& ctx) {
  auto cfg = [&](size_t i) -> int64_t { return i < c.cfg.size() ? c.cfg[i] : 0; };
  int arch = int(umod(cfg(0), 3));
  int base_mode = int(umod(cfg(1), 4));
  uint64_t base = kBases[umod(cfg(2), NELEM(kBases))];
  if (arch == 1) { base &= 0xFFFFFFFFull; if (!base) base = 0x10000; }
  size_t kx = 1 + umod(cfg(3), 300);
  bool jit = cfg(4) != 0;

  Program p;
  build(ctx, p, c, arch, base_mode >= 2 ? base : Globals::kNoBaseAddress, true);
  CodeHolder& code = p.code;
  size_t nsec = p.secs.size();
  ctx.cls(arch == 0 ? "arch_x64" : arch == 1 ? "arch_x86" : "arch_a64");
  ctx.cls(nsec < 10 ? "sections_0" + std::to_string(nsec) : std::string("sections_10+"));
  if (p.refused_align) ctx.cls("refused_invalid_alignment", p.refused_align);
  if (p.refused_name) ctx.cls("refused_long_name", p.refused_name);

  // ---- snapshot before flatten ----
  struct Pre { uint64_t real; size_t bs; uint64_t vs; };
  std::vector<Pre> pre(nsec);
  std::set<uint32_t> aligns;
  std::set<std::string> names;
  bool dup_names = false, equal_orders = false, neg = false, pos = false, any_empty = false, any_virtual = false, any_data = false;
  std::set<int32_t> orders;
  for (size_t i = 0; i < nsec; i++) {
    Section* s = p.secs[i].s;
    pre[i] = Pre{s->real_size(), s->buffer_size(), s->virtual_size()};
    aligns.insert(p.secs[i].align);
    if (!names.insert(p.secs[i].name).second) dup_names = true;
    if (!orders.insert(s->order()).second) equal_orders = true;
    if (i && s->order() < 0) neg = true;
    if (i && s->order() > 0) pos = true;
    if (pre[i].real == 0) any_empty = true;
    else if (pre[i].bs == 0) any_virtual = true;
    else any_data = true;
    if (pre[i].bs && pre[i].vs > pre[i].bs) ctx.cls("section_virtual_larger_than_buffer");
    if (pre[i].bs && pre[i].vs && pre[i].vs < pre[i].bs) ctx.cls("section_virtual_smaller_than_buffer");
    VH_CHECK(ctx, i == 0 || p.secs[i].addrtab || s->offset() == Globals::kNoSectionOffset, "offset-before-flatten", "section #%zu has an offset before flatten()", i);
  }
  if (dup_names) ctx.cls("duplicate_names");
  if (equal_orders) ctx.cls("equal_orders");
  if (neg) ctx.cls("negative_order");
  if (pos) ctx.cls("positive_order");
  if (any_empty) ctx.cls("has_empty_section");
  if (any_virtual) ctx.cls("has_virtual_only_section");
  if (any_data) ctx.cls("has_data_section");
  if (p.has_at()) ctx.cls("has_address_table");
  if (!p.xrefs.empty()) ctx.cls("has_cross_section_reference");
  for (uint32_t a : aligns) if (a >= 4096) { ctx.cls("alignment_ge_4096"); break; }
  check_by_order(ctx, p);

  size_t size_before_flatten = code.code_size();

  // ---- flatten ----
  Error e = code.flatten();
  VH_CHECK(ctx, e == Error::kOk, "flatten-failed", "flatten() returned %u", unsigned(e));
  check_by_order(ctx, p);
  Span<Section*> ord = code.sections_by_order();

  bool misaligned_empty = false;
  uint64_t run = 0, min_run = 0;
  bool minimal = true;
  for (size_t i = 0; i < ord.size(); i++) {
    Section* s = ord[i];
    uint32_t id = s->section_id();
    uint64_t off = s->offset();
    uint32_t al = p.secs[id].align;
    VH_CHECK(ctx, off != Globals::kNoSectionOffset, "no-offset-after-flatten", "section #%u has no offset after flatten()", id);
    VH_CHECK(ctx, s->buffer_size() == pre[id].bs, "flatten-changed-buffer", "flatten() changed the buffer size of section #%u", id);
    // order: offsets never go backwards along sections_by_order; no overlap: starts at or after the end of everything before it
    VH_CHECK(ctx, off >= run, pre[id].real ? "overlap" : "order-not-respected",
             "section #%u (order %d, real size %llu) got offset %llu but the sections ordered before it end at %llu",
             id, s->order(), (unsigned long long)pre[id].real, (unsigned long long)off, (unsigned long long)run);
    if (off % al != 0) {
      char m[200];
      snprintf(m, sizeof m, "section #%u (alignment %u, real size %llu) got offset %llu", id, al, (unsigned long long)pre[id].real, (unsigned long long)off);
      if (pre[id].real) ctx.fail("misaligned", m);
      misaligned_empty = true;
      ctx.fail_unless_known("empty-section-misaligned", std::string("empty ") + m + ", not a multiple of its alignment");
    }
    // independent minimal layout (counted, the property does not promise minimality)
    uint64_t want = pre[id].real ? align_up64(min_run, al) : min_run;
    if (off != want) minimal = false;
    min_run = want + pre[id].real;
    VH_CHECK(ctx, s->real_size() >= pre[id].real, "flatten-shrunk-section", "real_size of section #%u went from %llu to %llu in flatten()", id, (unsigned long long)pre[id].real, (unsigned long long)s->real_size());
    if (i + 1 < ord.size())
      VH_CHECK(ctx, off + s->real_size() <= ord[i + 1]->offset(), "overlap", "section #%u [%llu,+%llu) reaches into the next section at %llu",
               id, (unsigned long long)off, (unsigned long long)s->real_size(), (unsigned long long)ord[i + 1]->offset());
    run = off + pre[id].real;
  }
  ctx.cls(minimal ? "layout_minimal" : "layout_not_minimal");
  uint64_t last_end = ord.size() == 0 ? 0 : ord[ord.size() - 1]->offset() + ord[ord.size() - 1]->real_size();
  VH_CHECK(ctx, last_end == run, "overlap", "end of last section %llu != running end %llu", (unsigned long long)last_end, (unsigned long long)run);
  size_t cs_flat = code.code_size();
  if (uint64_t(cs_flat) != last_end) {
    char m[240];
    snprintf(m, sizeof m, "code_size() after flatten() is %zu, the last section ends at %llu (before flatten code_size() was %zu)", cs_flat, (unsigned long long)last_end, size_before_flatten);
    if (misaligned_empty && uint64_t(cs_flat) > last_end) ctx.fail_unless_known("code-size-not-end-after-empty-aligned-section", m);
    else ctx.fail("code-size-not-end", m);
  }
  // header: code_size() is "the minimum code size of all combined sections after applying minimum alignment" and "may decrease
  // after calling flatten()": an estimate taken before flatten() must be enough for the flattened image
  VH_CHECK(ctx, uint64_t(size_before_flatten) >= last_end, "estimate-before-flatten-too-small",
           "code_size() before flatten() was %zu but the flattened sections end at %llu", size_before_flatten, (unsigned long long)last_end);
  if (cs_flat > size_before_flatten) ctx.cls("code_size_grew_in_flatten");
  if (cs_flat < size_before_flatten) ctx.cls("code_size_shrank_in_flatten");

  // A layout that spans 2 GiB or more: cross-section references and relocations may legitimately be out of range (C03/C04 judge those);
  // C10 judged offsets, order, alignment, overlap and code_size() above and stops here.
  if (cs_flat >= (1ull << 31) - 65536) { ctx.cls(cs_flat >= (1ull << 32) ? "huge_image_ge_4gib_layout_only" : "huge_image_ge_2gib_layout_only"); ctx.nontrivial(); return; }

  // ---- cross-section fixups ----
  e = code.resolve_cross_section_fixups();
  if (e != Error::kOk) {
    // only an out-of-range AArch64 `adr` (+-1 MiB) may legitimately fail here
    VH_CHECK(ctx, arch == 2 && e == Error::kInvalidDisplacement && cs_flat > (1u << 20), "resolve-failed", "resolve_cross_section_fixups returned %u (image %zu bytes)", unsigned(e), cs_flat);
    ctx.cls("a64_adr_out_of_range");
  } else {
    VH_CHECK(ctx, !code.has_unresolved_fixups(), "resolve-failed", "%zu unresolved fixups after resolve_cross_section_fixups", code.unresolved_fixup_count());
  }

  // ---- relocation ----
  size_t estimated = code.code_size();
  bool relocated = false;
  bool at_last = p.has_at() && ord[ord.size() - 1] == code.address_table_section();
  if (base_mode == 1 || base_mode == 2) {
    std::vector<uint64_t> offs(nsec);
    for (size_t i = 0; i < nsec; i++) offs[i] = p.secs[i].s->offset();
    CodeHolder::RelocationSummary summary;
    summary.code_size_reduction = 12345;
    e = code.relocate_to_base(base, &summary);
    VH_CHECK(ctx, e == Error::kOk, "relocate-failed", "relocate_to_base(0x%llx) returned %u", (unsigned long long)base, unsigned(e));
    relocated = true;
    size_t after = code.code_size();
    VH_CHECK(ctx, after <= estimated, "size-grew-in-relocation", "code_size() was %zu before relocate_to_base and is %zu after", estimated, after);
    if (estimated - after != summary.code_size_reduction) {
      // JitRuntime::_add relies on this equality (it asserts it and shrinks the allocation by it)
      char m[200]; snprintf(m, sizeof m, "code_size() %zu -> %zu in relocate_to_base but RelocationSummary::code_size_reduction is %zu", estimated, after, summary.code_size_reduction);
      if (misaligned_empty) ctx.fail_unless_known("code-size-not-end-after-empty-aligned-section", m);
      else ctx.fail("size-reduction-wrong", m);
    }
    for (size_t i = 0; i < nsec; i++)
      VH_CHECK(ctx, p.secs[i].s->offset() == offs[i], "relocate-moved-section", "relocate_to_base changed the offset of section #%zu", i);
    if (after < estimated) ctx.cls("code_size_reduced_by_relocation");
    ctx.cls("relocated");
    if (p.has_at()) ctx.cls(at_last ? "address_table_last" : "address_table_not_last");
  } else ctx.cls(base_mode == 0 ? "not_relocated" : "base_at_init_only");

  // section buffers still hold what was emitted (outside fixup/relocation sites)
  for (size_t i = 0; i < nsec; i++) {
    MSec& m = p.secs[i];
    if (m.addrtab) continue;
    VH_CHECK(ctx, m.s->buffer_size() == m.bytes.size(), "section-bytes-changed", "buffer size of section #%zu is %zu, emitted %zu", i, m.s->buffer_size(), m.bytes.size());
    for (size_t j = 0; j < m.bytes.size(); j++)
      if (!m.wild[j] && m.s->data()[j] != uint8_t(m.bytes[j])) {
        char t[160]; snprintf(t, sizeof t, "byte %zu of section #%zu changed from 0x%02x to 0x%02x", j, i, uint8_t(m.bytes[j]), m.s->data()[j]);
        ctx.fail("section-bytes-changed", t);
      }
  }

  // ---- copies ----
  {
    // an image of more than 64 MiB (huge virtual sizes) is not materialised: offsets, order, alignment, overlap, the size estimate and
    // code_size() == end of the last section were judged arithmetically above; here only the last of them after relocation
    uint64_t end = 0;
    for (Section* s : p.code.sections()) end = std::max<uint64_t>(end, s->offset() + s->real_size());
    if (end > (64ull << 20)) {
      size_t csz = p.code.code_size();
      if (uint64_t(csz) != end) { char m[200]; snprintf(m, sizeof m, "code_size() is %zu, the last section ends at %llu (huge image, after relocation)", csz, (unsigned long long)end); ctx.fail("code-size-not-end", m); }
      ctx.cls(end >= (1ull << 32) ? "huge_image_ge_4gib_layout_only" : "huge_image_layout_only");
      ctx.nontrivial();
      return;
    }
  }
  Expect ex;
  make_expect(ctx, p, ex, 301);
  size_t cs = ex.cs;
  VH_CHECK(ctx, cs >= ex.real_end, "code-size-not-end", "code_size() %zu is smaller than the end of the last section %zu", cs, ex.real_end);
  if (cs != ex.real_end && !(misaligned_empty && ctx.is_known("code-size-not-end-after-empty-aligned-section"))) {
    char m[160]; snprintf(m, sizeof m, "code_size() is %zu, the last section ends at %zu (after relocation)", cs, ex.real_end);
    ctx.fail("code-size-not-end", m);
  }
  if (cs == 0) ctx.cls("image_empty");
  else ctx.cls(cs <= 64 ? "image_le_64" : cs <= 4096 ? "image_le_4k" : cs <= 65536 ? "image_le_64k" : "image_gt_64k");

  bool big = cs > (256u << 10);
  std::vector<uint8_t> image;
  unsigned rot = unsigned(cfg(3)) & 3;
  int copies = 0, refused = 0, short_ok = 0;
  auto run_copy = [&](size_t D, unsigned F, int variant, std::vector<uint8_t>* keep) {
    bool ok = do_copy(ctx, p, ex, D, F, variant, keep);
    copies++;
    if (!ok) refused++;
    else if (D < cs) short_ok++;
    return ok;
  };
  for (unsigned F = 0; F < 4; F++) {
    run_copy(cs, F, int(F & 1) ^ int(rot & 1), F == 3 ? &image : nullptr);
    if (!big && cs <= 8192) run_copy(cs, F, int(~F & 1) ^ int(rot & 1), nullptr);
  }
  ctx.cls("copy_exact", big || cs > 8192 ? 4 : 8);
  for (unsigned F = 0; F < 4; F++) {
    if (big && F != rot) continue;
    if (cs > 0) { bool ok = run_copy(cs - 1, F, int(F >> 1) & 1, nullptr); ctx.cls(ok ? "copy_minus1_accepted_virtual_tail" : "copy_minus1_refused"); }
    run_copy(cs + kx, F, int(F & 1), nullptr);
    ctx.cls("copy_larger");
  }
  for (const vh::Op& op : c.ops) {
    if (op.empty() || op[0] != 9) continue;
    if (copies > 40 || (big && copies > 14)) break;
    auto arg = [&](size_t i) -> int64_t { return i < op.size() ? op[i] : 0; };
    size_t k = umod(arg(2), 301);
    size_t D;
    switch (umod(arg(1), 10)) {
      case 0: D = 0; break;
      case 1: D = ex.data_end ? ex.data_end - 1 : 0; break;
      case 2: D = ex.data_end; break;
      case 3: D = cs / 2; break;
      case 4: D = cs > k ? cs - k : 0; break;
      case 5: D = cs + k; break;
      case 6: D = size_t(p.secs[umod(arg(2), nsec)].s->offset()); break;
      case 7: { Section* s = p.secs[umod(arg(2), nsec)].s; D = size_t(s->offset()) + s->buffer_size(); if (D) D--; break; }
      case 8: { Section* s = p.secs[umod(arg(2), nsec)].s; D = size_t(s->offset()) + s->buffer_size(); break; }
      default: D = ex.max_off; break;
    }
    bool ok = run_copy(D, unsigned(arg(3)) & 3, int(arg(4) & 1), nullptr);
    ctx.cls(ok ? (D < cs ? "copy_op_short_accepted" : "copy_op_accepted") : "copy_op_refused");
  }
  if (short_ok) ctx.cls("cases_with_short_destination_accepted");

  // ---- copy_section_data (documented flag behaviour) ----
  for (size_t i = 0; i < nsec && !big; i++) {
    Section* s = p.secs[i].s;
    size_t bs = s->buffer_size();
    if (bs > 16384) continue;
    for (int j = 0; j < 3; j++) {
      if (j == 0 && bs == 0) continue;
      size_t D = j == 0 ? bs - 1 : j == 1 ? bs : bs + 7;
      unsigned F = unsigned(i + size_t(j) + rot) & 3;
      uint8_t* d = (uint8_t*)malloc(D ? D : 1);
      struct Free { uint8_t* p; ~Free() { free(p); } } fr{d};
      memset(d, 0xA5, D ? D : 1);
      e = code.copy_section_data(d, D, uint32_t(i), CopySectionFlags(F));
      if (D < bs) { VH_CHECK(ctx, e != Error::kOk, "too-small-accepted", "copy_section_data(dst_size=%zu) accepted for a %zu-byte buffer", D, bs); continue; }
      VH_CHECK(ctx, e == Error::kOk, "large-enough-refused", "copy_section_data(dst_size=%zu) returned %u for a %zu-byte buffer", D, unsigned(e), bs);
      VH_CHECK(ctx, bs == 0 || memcmp(d, s->data(), bs) == 0, "image-data-wrong", "copy_section_data of section #%zu differs from the buffer", i);
      for (size_t t = bs; t < D; t++)
        VH_CHECK(ctx, d[t] == ((F & 1) ? 0 : 0xA5), (F & 1) ? "padding-not-zeroed" : "padding-written-without-flag",
                 "copy_section_data(section #%zu, dst_size %zu, %s): byte %zu is 0x%02x", i, D, flags_name(F), t, d[t]);
    }
  }

  // ---- address table: every patched call/jmp site must find its absolute target in the image ----
  if (relocated && arch == 0 && image.size() == cs) {
    for (const Site& st : p.sites) {
      if (!st.has_reloc) continue;
      Section* s = p.secs[st.sec].s;
      size_t at = size_t(s->offset()) + st.off;
      VH_CHECK(ctx, st.len == 6 && at + 6 <= cs, "call-site-bytes-unexpected", "call/jmp site of length %zu at image offset %zu", st.len, at);
      uint8_t b0 = image[at], b1 = image[at + 1];
      int32_t d32; memcpy(&d32, &image[at + 2], 4);
      if (b0 == 0x40 && (b1 == 0xE8 || b1 == 0xE9)) {
        uint64_t tgt = base + at + 6 + uint64_t(int64_t(d32));
        VH_CHECK(ctx, tgt == st.target, "call-target-wrong", "rel32 call/jmp at image offset %zu reaches 0x%llx, wanted 0x%llx", at, (unsigned long long)tgt, (unsigned long long)st.target);
        ctx.cls("call_site_rel32");
      } else if (b0 == 0xFF && (b1 == 0x15 || b1 == 0x25)) {
        uint64_t slot = uint64_t(at) + 6 + uint64_t(int64_t(d32));
        Section* ats = code.address_table_section();
        VH_CHECK(ctx, ats != nullptr, "addrtab-slot-wrong", "call through the address table but there is no .addrtab section");
        VH_CHECK(ctx, slot >= ats->offset() && slot + 8 <= ats->offset() + ats->real_size() && slot + 8 <= cs, "addrtab-slot-wrong",
                 "slot at image offset %llu is outside .addrtab [%llu,+%llu)", (unsigned long long)slot, (unsigned long long)ats->offset(), (unsigned long long)ats->real_size());
        uint64_t v; memcpy(&v, &image[size_t(slot)], 8);
        if (v != st.target) {
          char m[240];
          snprintf(m, sizeof m, "call/jmp [rip+d] at image offset %zu reads its target from image offset %llu which holds 0x%llx, wanted 0x%llx (.addrtab buffer size %zu, %s)",
                   at, (unsigned long long)slot, (unsigned long long)v, (unsigned long long)st.target, ats->buffer_size(), at_last ? ".addrtab is the last section" : "a user section is ordered after .addrtab");
          if (!at_last) ctx.fail_unless_known("addrtab-not-last-not-copied", m);
          else ctx.fail("addrtab-slot-wrong", m);
        }
        ctx.cls("call_site_address_table");
      } else {
        char m[120]; snprintf(m, sizeof m, "call/jmp site at image offset %zu starts with %02x %02x", at, b0, b1);
        ctx.fail("call-site-bytes-unexpected", m);
      }
    }
  }

  // ---- JitRuntime::add on an identical program ----
  if (jit) {
    Environment host = Environment::host();
    int harch = host.arch() == Arch::kX64 ? 0 : host.arch() == Arch::kX86 ? 1 : host.arch() == Arch::kAArch64 ? 2 : -1;
    if (harch >= 0) {
      JitRuntime rt;
      Program p1, p2;
      build(ctx, p1, c, harch, Globals::kNoBaseAddress, false);
      build(ctx, p2, c, harch, Globals::kNoBaseAddress, false);
      void* fn = nullptr;
      Error e2 = p2.code.flatten();
      VH_CHECK(ctx, e2 == Error::kOk, "flatten-failed", "flatten() of the twin returned %u", unsigned(e2));
      // An empty section at a misaligned offset makes code_size() disagree with the layout; JitRuntime::_add then trips its
      // own ASMJIT_ASSERT(code_size == code->code_size()) when the address table shrinks. Reported once, then not driven into.
      bool quirk = false;
      for (MSec& m : p2.secs) if (m.s->offset() % m.align != 0) quirk = true;
      if (p2.code.code_size() > (64u << 20)) {
        ctx.cls("jit_skipped_huge_image");      // JitRuntime::add would have to allocate the whole image (huge virtual sizes)
      } else if (quirk) {
        ctx.fail_unless_known("empty-section-misaligned", "twin program for JitRuntime::add: an empty section got an offset that is not a multiple of its alignment");
        ctx.cls("jit_skipped_misaligned_empty_section");
      } else if ((e = rt.add(&fn, &p1.code)) == Error::kNoCodeGenerated) {
        VH_CHECK(ctx, p2.code.code_size() == 0, "jit-no-code-wrong", "JitRuntime::add said no code but code_size() is %zu", p2.code.code_size());
        ctx.cls("jit_no_code");
      } else if (harch == 2 && e == Error::kInvalidDisplacement) {
        ctx.cls("a64_adr_out_of_range");
      } else {
        VH_CHECK(ctx, e == Error::kOk && fn != nullptr, "jit-add-failed", "JitRuntime::add returned %u", unsigned(e));
        e2 = p2.code.resolve_cross_section_fixups();
        VH_CHECK(ctx, e2 == Error::kOk, "resolve-failed", "resolve_cross_section_fixups of the twin returned %u", unsigned(e2));
        size_t est2 = p2.code.code_size();
        e2 = p2.code.relocate_to_base(uint64_t(uintptr_t(fn)));
        VH_CHECK(ctx, e2 == Error::kOk, "relocate-failed", "relocate_to_base(%p) of the twin returned %u", fn, unsigned(e2));
        size_t cs2 = p2.code.code_size();
        VH_CHECK(ctx, cs2 <= est2, "size-grew-in-relocation", "twin: code_size() %zu -> %zu", est2, cs2);
        VH_CHECK(ctx, p1.code.code_size() == cs2, "jit-size-differs", "code_size() after JitRuntime::add is %zu, twin relocated to the same address has %zu", p1.code.code_size(), cs2);
        size_t end2 = 0;
        for (Section* s : p2.code.sections()) end2 = std::max(end2, size_t(s->offset() + s->real_size()));
        std::vector<uint8_t> img2(cs2 ? cs2 : 1, 0xA5);
        e2 = p2.code.copy_flattened_data(img2.data(), cs2, CopySectionFlags::kPadSectionBuffer | CopySectionFlags::kPadTargetBuffer);
        VH_CHECK(ctx, e2 == Error::kOk, "large-enough-refused", "twin: copy_flattened_data(code_size()) returned %u", unsigned(e2));
        const uint8_t* rx = (const uint8_t*)fn;
        for (size_t i = 0; i < end2 && i < cs2; i++)
          if (rx[i] != img2[i]) {
            char m[200]; snprintf(m, sizeof m, "byte %zu of the code installed by JitRuntime::add is 0x%02x, the flattened image relocated to the same address has 0x%02x (size %zu)", i, rx[i], img2[i], cs2);
            ctx.fail("jit-image-differs", m);
          }
        e2 = rt.release(fn);
        VH_CHECK(ctx, e2 == Error::kOk, "jit-release-failed", "JitRuntime::release returned %u", unsigned(e2));
        ctx.cls(p1.code.sections().size() > 1 ? "jit_add_multi_section" : "jit_add_single_section");
      }
    }
  }

  if (nsec >= 3 && aligns.size() >= 2) {
    ctx.nontrivial();
    if (ctx.want_sample()) {
      std::string sm = arch == 0 ? "x64" : arch == 1 ? "x86" : "a64";
      char b[160];
      for (Section* s : ord) {
        uint32_t id = s->section_id();
        snprintf(b, sizeof b, " [#%u ord=%d al=%u buf=%zu vs=%llu @%llu]", id, s->order(), p.secs[id].align, pre[id].bs, (unsigned long long)pre[id].vs, (unsigned long long)s->offset());
        sm += b;
      }
      snprintf(b, sizeof b, " size=%zu copies=%d refused=%d%s", cs, copies, refused, relocated ? " relocated" : "");
      sm += b;
      ctx.sample(sm);
    }
  }
}
